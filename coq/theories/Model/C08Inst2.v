(* Model/C08Inst2.v — Qc instances of the division-free Kruskal models (so that multi-step HISTORIES can be evaluated
   over one value type), of symmetrize / ttv / mask (Model/C08More.v), and the comparers used by the generated history
   cases of C08 (tools/props/c08_hist.py). *)
From Coq Require Import List ZArith QArith Qabs Qcanon Bool Arith.
From PV Require Import Base.Index Base.Perm Base.Sum Np.Array Model.Sparse Model.Repr Model.Harness Model.C08Kruskal
  Model.C08Inst Model.C08More.
Import ListNotations.

Definition qk_permute := @k_permute Qc.
Definition qk_add := @k_add Qc.
Definition qk_sub := @k_sub Qc Qcopp.
Definition qk_neg := @k_neg Qc Qcopp.
Definition qk_tovec := @k_tovec Qc q0.
Definition qk_from_vector := @k_from_vector Qc q0 q1.
Definition qk_update := @k_update Qc q0.
Definition qk_fixsigns := @k_fixsigns Qc q0 q1 Qcmult Qcopp q_negcol.
Definition qk_ones_w (K : ktensor Qc) : ktensor Qc := mkK (map (fun _ => q1) (kweights K)) (kfactors K).

(* ktensor.symmetrize: copy, normalize("all") (2-norm), then the sign-alignment / average body *)
Definition qk_symmetrize (K : ktensor Qc) : ktensor Qc :=
  k_symmetrize_core q0 q1 Qcplus Qcmult Qcopp Qcinv q_neg (qk_normalize 2 WAll false None K).

Definition qk_ttv := @k_ttv Qc q0 Qcplus Qcmult.
Definition qk_mask := @k_mask Qc q0 q1 Qcplus Qcmult.
Definition zk_ttv := @k_ttv Z 0%Z Z.add Z.mul.
Definition zk_mask := @k_mask Z 0%Z 1%Z Z.add Z.mul.

(* observed vector within the float tolerance of the model's *)
Definition qv_close (a b : list Qc) : bool := qvec_close tol9 a b.

(* every entry of the array denoted by O is (within tolerance) f (entry of the array denoted by K) *)
Definition qk_den_rel (s : shape) (f : idx -> Qc) (O : ktensor Qc) : bool :=
  nvec_eqb (kshape O) s && forall_idx s (fun i => qclose tol9 (qden_k O i) (f i)).

(* all factors of a symmetrised Kruskal tensor are the same matrix *)
Definition qk_same_factors (K : ktensor Qc) : bool :=
  match kfactors K with [] => true | A :: As => forallb (fun B => list_eqb (list_eqb Qc_eq_bool) A B) As end.

(* sorted steps inside a history: the arrangement pyttb chose among equal weights (the model state that the next step
   continues from); qk_sorted_of (C08Inst) is the accompanying check that such an arrangement exists *)
Definition qk_sorted_pick (post : ktensor Qc -> ktensor Qc) (M O : ktensor Qc) : ktensor Qc :=
  match find (fun p => let G := qk_gather p M in q_desc_exact (kweights G) && qk_close (post G) O) (perms_of (seq 0 (krank M))) with
  | Some p => post (qk_gather p M)
  | None => post M
  end.

(* ---- score: the penalised congruence matrix of the two normalised operands and the greedy matching on it ---- *)
Definition q_score_table (A B : ktensor Qc) : list (list Qc) :=
  map (fun ra => map (fun rb =>
    let la := nth ra (kweights A) q0 in let lb := nth rb (kweights B) q0 in
    let P := if Qc_eq_bool la q0 && Qc_eq_bool lb q0 then q1
             else Qcminus q1 (Qcdiv (qabs (Qcminus la lb)) (qmax (qabs la) (qabs lb))) in
    Qcmult P (fold_left Qcmult
                (map (fun n => qabs (dot q0 Qcplus Qcmult (col q0 (nth n (kfactors A) []) ra) (col q0 (nth n (kfactors B) []) rb)))
                     (seq 0 (length (kfactors A)))) q1))
    (seq 0 (krank B))) (seq 0 (krank A)).
Definition q_sent : Qc := Q2Qc (-10 # 1).
Definition qk_score_C (K L : ktensor Qc) : nat -> nat -> Qc :=
  let T := q_score_table (qk_normalize 2 WNone false None K) (qk_normalize 2 WNone false None L) in
  fun a b => nth b (nth a T []) q0.
Definition qk_score_perm (K L : ktensor Qc) : list nat :=
  score_perm q0 Qcplus q_sent qleb (krank K) (krank L) (qk_score_C K L).
Definition qk_score_val (K L : ktensor Qc) : Qc :=
  Qcdiv (score_sum q0 Qcplus q_sent qleb (krank K) (krank L) (qk_score_C K L)) (Q2Qc (Z.of_nat (krank L) # 1)).

(* ktensor.mask: the accumulation loop over Z *)
Definition zk_py_mask := @py_mask Z 0%Z 1%Z Z.add Z.mul.
