(* Proofs/C01W5Gen.v — fifth wave: ktensor.full's route with the GENERATED khatrirao (Proofs/C01GenKr.v ktensor_full_at_gen) yields
   the specified dense tensor at EVERY split point 0 < i < N, so nothing about the nested helper min_split_dims (which the
   translator does not reach) is trusted beyond "it returns np.argmin(a list of N - 1 numbers) + 1", a value in 1 .. N-1. *)
From Coq Require Import List ZArith Arith Bool Lia Ring.
From PV Require Import Base.Index Base.Perm Base.Sum Np.Array Model.Sparse Model.Repr Model.C07Ops Model.C01Conv Model.C01W3
  Np.NpZ Np.NpZ2 Gen.GenKernels Proofs.KhatriRao Proofs.GenKhatriRao Proofs.C01Kruskal Proofs.C01W3 Proofs.C01GenKr.
Import ListNotations.
Local Open Scope nat_scope.

Theorem ktensor_full_at_gen_any_split (K : ktensor Z) isplit :
  1 <= krank K -> rows_ok Z (krank K) (kfactors K) -> Forall (fun A => A <> []) (kfactors K) ->
  0 < isplit < length (kfactors K) ->
  ktensor_full_at_gen K isplit = Some (ktensor_full_spec 0%Z 1%Z Z.add Z.mul K).
Proof.
  intros HR Hok Hne Hsp.
  rewrite ktensor_full_at_gen_eq by (auto; now apply mats_ok_of_rows).
  destruct (ktensor_full_at_correct Z 0%Z 1%Z Z.add Z.mul Z.sub Z.opp Zth K isplit Hok Hsp) as (D & E & W & Hs & Hd).
  rewrite E. f_equal.
  apply (dense_ext 0%Z); [exact W|apply wf_tabulate|exact Hs|]. intros i Hi. rewrite Hd. unfold ktensor_full_spec.
  rewrite Hs in Hi. now rewrite den_tabulate.
Qed.
