(* Proofs/C06Gen2.v — wave 4: C06 instances (result well-formed, same result for every stored order of each sparse operand) for the
   remaining element-wise code paths that C03 states over the row helpers GENERATED from pyttb_utils.py:
   S != S2 (impl_ne_sparse_gen), S == T and S != T with a dense T (impl_eq_dense_gen, impl_ne_dense_gen over pyttb's own enumeration),
   and _compare AS WRITTEN in the source with its operator / opposite_operator / include_zero triple (impl_cmp_src). *)
From Coq Require Import List ZArith Arith Lia Bool Permutation.
From PV Require Import Base.Index Np.NpZ Np.NpZ2 Np.Array Gen.GenUtils Gen.GenUtils2 Model.Sparse Model.Harness Model.C03Ops Model.C03Gen Model.C03More
                       Model.C03Gen2 Model.C03Src Model.C06Ops
                       Proofs.C03Lemmas Proofs.C03Proofs Proofs.C03GenProofs Proofs.C03More Proofs.C03Gen2 Proofs.C03Src
                       Proofs.C06Proofs Proofs.C06Other.
Import ListNotations.

Section C06Gen2.
Context {V : Type} (v0 : V) (isz : V -> bool).
Hypothesis isz_spec : forall v, isz v = true <-> v = v0.
Variable one : V.
Hypothesis one_nz : one <> v0.
Notation wf := (wf_sp isz).
Notation den := (den_sp v0).

Theorem indep_ne_gen (veqb : V -> V -> bool) : (forall a b, veqb a b = true <-> a = b) ->
  indep2_res v0 isz (@has_modes V) (impl_ne_sparse_gen v0 one veqb).
Proof.
  intros Hv. apply (order_indep2_res v0 isz isz_spec _ _ (fun a b => bval v0 one (negb (veqb a b))) (@has_modes_shape V)).
  intros A B WA WB Hs HA. exact (impl_ne_sparse_gen_correct v0 isz isz_spec one one_nz veqb Hv A B WA WB Hs HA).
Qed.

Theorem indep_cmp_src (cmp opp : V -> V -> bool) (include_zero : bool) : opposite_laws v0 cmp opp include_zero ->
  indep2_res v0 isz (@has_modes V) (impl_cmp_src v0 one cmp opp include_zero).
Proof.
  intros L. apply (order_indep2_res v0 isz isz_spec _ _ (fun a b => bval v0 one (cmp a b)) (@has_modes_shape V)).
  intros A B WA WB Hs HA. exists (impl_cmp v0 one cmp A B). split.
  - exact (impl_cmp_src_eq v0 isz isz_spec one cmp opp include_zero L A B WA WB Hs HA).
  - exact (impl_cmp_correct v0 isz isz_spec one one_nz cmp A B WA WB Hs).
Qed.

(* one sparse operand and a dense one: any operation that returns a well-formed tensor denoting g (den A) (den T) *)
Lemma indep_with_dense (op : sparse V -> dense V -> res (sparse V)) (g : V -> V -> V) :
  (forall A T, wf A -> sshape A <> [] ->
     exists R, op A T = Ok R /\ wf R /\ sshape R = sshape A /\
               forall i, inb (sshape A) i = true -> den R i = g (den A i) (den_dense v0 T i)) ->
  forall A A' T, wf A -> wf A' -> sshape A' = sshape A -> sshape A <> [] -> Permutation (entries A) (entries A') ->
  exists R R', op A T = Ok R /\ op A' T = Ok R' /\ same_result v0 isz R R'.
Proof.
  intros Hop A A' T WA WA' Hs Hne P.
  destruct (Hop A T WA Hne) as (R & E & W & S & D).
  destruct (Hop A' T WA' ltac:(congruence)) as (R' & E' & W' & S' & D').
  exists R, R'. split; [exact E|]. split; [exact E'|].
  apply (same_den_same_result v0 isz isz_spec); auto; [congruence|]. intros i Hi. rewrite S in Hi.
  rewrite (D i Hi), (D' i ltac:(now rewrite Hs)). now rewrite (den_perm v0 A A' (wf_sp_struct isz A WA) P i).
Qed.

Theorem indep_eq_dense_gen (veqb : V -> V -> bool) : (forall a b, veqb a b = true <-> a = b) ->
  forall A A' T, wf A -> wf A' -> sshape A' = sshape A -> sshape A <> [] -> Permutation (entries A) (entries A') ->
  exists R R', impl_eq_dense_gen v0 isz one veqb A T = Ok R /\ impl_eq_dense_gen v0 isz one veqb A' T = Ok R' /\ same_result v0 isz R R'.
Proof.
  intros Hv. apply (indep_with_dense (impl_eq_dense_gen v0 isz one veqb) (fun a b => bval v0 one (veqb a b))).
  intros A T WA Hne. exact (impl_eq_dense_gen_correct v0 isz isz_spec one one_nz veqb Hv A T WA Hne).
Qed.

Theorem indep_ne_dense_gen (veqb : V -> V -> bool) : (forall a b, veqb a b = true <-> a = b) ->
  forall A A' T, wf A -> wf A' -> sshape A' = sshape A -> sshape A <> [] -> Permutation (entries A) (entries A') ->
  exists R R', impl_ne_dense_gen v0 isz one veqb (allsubsC (sshape A)) A T = Ok R /\
               impl_ne_dense_gen v0 isz one veqb (allsubsC (sshape A')) A' T = Ok R' /\ same_result v0 isz R R'.
Proof.
  intros Hv.
  apply (indep_with_dense (fun A T => impl_ne_dense_gen v0 isz one veqb (allsubsC (sshape A)) A T) (fun a b => bval v0 one (negb (veqb a b)))).
  intros A T WA Hne. exact (impl_ne_dense_gen_C v0 isz isz_spec one one_nz veqb Hv A T WA Hne).
Qed.
End C06Gen2.
