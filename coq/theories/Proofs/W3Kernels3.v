(* Proofs/W3Kernels3.v — hand references, bridge lemmas and entry-wise laws for mttv_left / mttv_mid of Gen/GenKernels3.v
   (partial MTTKRP contractions used by tensor.mttkrps). *)
From Coq Require Import List ZArith Arith Bool Lia.
From PV Require Import Np.NpZ Np.NpZ2 Np.NpZ3 Np.NpZ3c Proofs.NpZProofs Gen.GenKernels Gen.GenKernels3 Proofs.W3Bridge Proofs.W3Laws.
Import ListNotations.
Local Open Scope Z_scope.

Lemma nth_map_seq {B} (g : nat -> B) d n b : (b < n)%nat -> nth b (map g (seq 0 n)) d = g b.
Proof.
  intros H. rewrite (nth_indep _ d (g 0%nat)) by (rewrite map_length, seq_length; exact H).
  rewrite (map_nth g). rewrite seq_nth by exact H. reflexivity.
Qed.

(* ---- filling a zero matrix column by column ---- *)

Definition col_step (f : Z -> vec) (j : Z) (M : mat) : res mat :=
  if np_setcol_ok M j (f j) then Ok (np_setcol M j (f j)) else Err.

(* the matrix after the columns < j have been written *)
Definition partial_cols (rows r : nat) (f : Z -> vec) (j : nat) : mat :=
  map (fun b => map (fun j' => if (j' <? j)%nat then nth b (f (Z.of_nat j')) 0 else 0) (seq 0 r)) (seq 0 rows).

Lemma partial_cols_zero rows r f : partial_cols rows r f 0 = np_zeros2 (Z.of_nat rows) (Z.of_nat r).
Proof.
  unfold partial_cols, np_zeros2, np_full. rewrite !Nat2Z.id.
  assert (E : forall (A : Type) (x : A) n, map (fun _ => x) (seq 0 n) = repeat x n).
  { intros A x n. generalize 0%nat. induction n; intros k; cbn; [reflexivity|]. f_equal. apply IHn. }
  rewrite <- (E _ (repeat 0 r) rows). apply map_ext. intros b. rewrite <- (E _ 0 r). reflexivity.
Qed.

Lemma partial_cols_step rows r f j : (j < r)%nat -> length (f (Z.of_nat j)) = rows ->
  col_step f (Z.of_nat j) (partial_cols rows r f j) = Ok (partial_cols rows r f (S j)).
Proof.
  intros Hj Hf. unfold col_step.
  assert (Hlen : length (partial_cols rows r f j) = rows) by (unfold partial_cols; rewrite map_length, seq_length; reflexivity).
  assert (Hrow : forall b, (b < rows)%nat -> nth b (partial_cols rows r f j) [] =
             map (fun j' => if (j' <? j)%nat then nth b (f (Z.of_nat j')) 0 else 0) (seq 0 r)).
  { intros b Hb. unfold partial_cols. rewrite nth_map_seq by exact Hb. reflexivity. }
  assert (Eok : np_setcol_ok (partial_cols rows r f j) (Z.of_nat j) (f (Z.of_nat j)) = true).
  { unfold np_setcol_ok. apply andb_true_intro. split.
    - unfold np_col_ok. apply forallb_forall. intros row Hr. unfold partial_cols in Hr. apply in_map_iff in Hr as (b & <- & _).
      rewrite idx_ok_nat. apply Nat.ltb_lt. rewrite map_length, seq_length. exact Hj.
    - apply orb_true_intro. left. apply Z.eqb_eq. unfold zlen. rewrite Hlen, Hf. reflexivity. }
  rewrite Eok. f_equal. rewrite np_setcol_eq by lia.
  apply (nth_ext _ _ [] []).
  - rewrite setcol_rows_length, Hlen. unfold partial_cols. rewrite map_length, seq_length. reflexivity.
  - intros b Hb. rewrite setcol_rows_length, Hlen in Hb. rewrite setcol_rows_nth by lia. rewrite (Hrow b Hb).
    unfold partial_cols. rewrite nth_map_seq by exact Hb.
    apply (nth_ext _ _ 0 0).
    + rewrite np_set_length, !map_length. reflexivity.
    + intros i Hi. rewrite np_set_length, map_length, seq_length in Hi.
      rewrite np_set_nth by (rewrite map_length, seq_length; exact Hj).
      rewrite !nth_map_seq by exact Hi.
      destruct (Nat.eqb_spec i j) as [->|Hne].
      * destruct (Nat.ltb_spec j (S j)); [reflexivity|lia].
      * destruct (Nat.ltb_spec i j), (Nat.ltb_spec i (S j)); try lia; reflexivity.
Qed.

Lemma fill_cols rows r f : (forall j, (j < r)%nat -> length (f (Z.of_nat j)) = rows) ->
  foldM (col_step f) (map Z.of_nat (seq 0 r)) (np_zeros2 (Z.of_nat rows) (Z.of_nat r))
  = Ok (map (fun b => map (fun j => nth b (f (Z.of_nat j)) 0) (seq 0 r)) (seq 0 rows)).
Proof.
  intros Hf. rewrite <- (partial_cols_zero rows r f).
  assert (L : forall c j, (j + c = r)%nat ->
            foldM (col_step f) (map Z.of_nat (seq j c)) (partial_cols rows r f j) = Ok (partial_cols rows r f r)).
  { induction c as [|c IH]; intros j Hjc.
    - cbn. replace j with r by lia. reflexivity.
    - cbn [seq map foldM]. rewrite partial_cols_step by (try apply Hf; lia). cbn [bind]. apply IH. lia. }
  rewrite (L r 0%nat) by lia. f_equal. unfold partial_cols. apply map_ext. intros b. apply map_ext_in. intros j Hj.
  apply in_seq in Hj. destruct (Nat.ltb_spec j r); [reflexivity|lia].
Qed.

(* ---- mttv_left ---- *)

(* out[b][j] = sum over a of W[a + n1 * b][j] * U1[a][j] *)
Definition left_entry (W U1 : mat) (b j : Z) : Z :=
  zsum (map (fun a => znth 0 (znth [] W (a + np_nrows U1 * b)) j * znth 0 (znth [] U1 a) j) (np_arange 0 (np_nrows U1))).

Definition H_mttv_left (W U1 : mat) : res mat :=
  if np_reshape3_lead_ok W (np_nrows U1) (np_ncols U1) then
    Ok (map (fun b => map (fun j => left_entry W U1 b j) (np_arange 0 (np_ncols U1))) (np_arange 0 (zlen W / np_nrows U1)))
  else Err.

Lemma znth_map_in {A B} (f : A -> B) (d : A) (e : B) l i : 0 <= i < zlen l -> znth e (map f l) i = f (znth d l i).
Proof.
  intros H. rewrite !znth_nonneg by lia. rewrite (nth_indep _ e (f d)) by (rewrite map_length; unfold zlen in H; lia).
  apply map_nth.
Qed.

Lemma np_arange_0_len n : 0 <= n -> np_arange 0 n = map Z.of_nat (seq 0 (Z.to_nat n)).
Proof. intros H. rewrite <- (Z2Nat.id n) at 1 by exact H. apply np_arange_0. Qed.

Lemma mttv_left_bridge (W U1 : mat) : rows_have U1 (np_ncols U1) = true -> mttv_left W U1 = H_mttv_left W U1.
Proof.
  intros HU. unfold mttv_left, H_mttv_left.
  set (r := np_ncols U1). set (n1 := np_nrows U1).
  destruct (np_reshape3_lead_ok W n1 r) eqn:Eok; [|reflexivity].
  unfold np_reshape3_lead_ok in Eok. apply andb_true_iff in Eok as [Eok E4]. apply andb_true_iff in Eok as [Eok E3].
  apply andb_true_iff in Eok as [E1 E2]. apply Z.ltb_lt in E3.
  cbn [t3_n2 np_reshape3_lead].
  assert (Hn2 : 0 <= zlen W / n1) by (apply Z.div_pos; [apply zlen_nonneg|exact E3]).
  assert (Hr : 0 <= r) by (unfold r, np_ncols; destruct U1; [lia|apply zlen_nonneg]).
  assert (Ez : np_zeros2_ok (zlen W / n1) r = true) by (unfold np_zeros2_ok; apply andb_true_intro; split; apply Z.leb_le; assumption).
  rewrite Ez.
  set (X := np_reshape3_lead W n1 r).
  set (f := fun j => t3_dot_lead X j (np_col U1 j)).
  rewrite (np_for_foldM _ (col_step f)).
  - rewrite np_arange_0_len by exact Hr.
    rewrite <- (Z2Nat.id (zlen W / n1)) at 1 by exact Hn2. rewrite <- (Z2Nat.id r) at 2 by exact Hr.
    rewrite fill_cols.
    + cbn [bind]. f_equal. rewrite (np_arange_0_len (zlen W / n1)) by exact Hn2. rewrite map_map.
      apply map_ext_in. intros b Hb. apply in_seq in Hb. rewrite map_map. apply map_ext_in. intros j Hj. apply in_seq in Hj.
      unfold f, t3_dot_lead. cbn [t3_n2 t3_n1 X np_reshape3_lead].
      rewrite (np_arange_0_len (zlen W / n1)) by exact Hn2.
      rewrite map_map, nth_map_seq by lia.
      unfold left_entry. fold n1. f_equal. apply map_ext_in. intros a Ha. apply in_np_arange in Ha.
      unfold t3_entry. cbn [t3_m t3_n1]. f_equal.
      unfold np_col. rewrite (znth_map_in _ [] 0) by (unfold n1, np_nrows in Ha; exact Ha). reflexivity.
    + intros j Hj. unfold f, t3_dot_lead. cbn [t3_n2 X np_reshape3_lead]. rewrite map_length. unfold np_arange.
      rewrite map_length, seq_length. rewrite Z.sub_0_r. reflexivity.
  - intros j M Hj. apply in_np_arange in Hj. unfold col_step, f.
    assert (Ec : np_col_ok U1 j = true).
    { unfold np_col_ok. apply forallb_forall. intros row Hrow. unfold rows_have in HU. rewrite forallb_forall in HU.
      specialize (HU row Hrow). apply Z.eqb_eq in HU. apply idx_ok_range. fold r in HU. lia. }
    assert (Ed : t3_dot_lead_ok X j (np_col U1 j) = true).
    { unfold t3_dot_lead_ok. cbn [t3_r t3_n1 X np_reshape3_lead]. apply andb_true_intro. split.
      - apply andb_true_intro. split; [apply Z.leb_le|apply Z.ltb_lt]; lia.
      - apply Z.eqb_eq. unfold np_col, zlen. rewrite map_length. reflexivity. }
    rewrite Ec, Ed. cbn [andb]. destruct (np_setcol_ok M j _); reflexivity.
Qed.

(* entry-wise reading: a W with n1 * n2 rows and r columns, U1 with n1 rows and r columns *)
Theorem mttv_left_entries (W U1 : mat) (n2 : nat) :
  U1 <> [] -> rows_have U1 (np_ncols U1) = true -> rows_have W (np_ncols U1) = true -> np_ncols U1 <> 0 ->
  zlen W = np_nrows U1 * Z.of_nat n2 ->
  exists out, mttv_left W U1 = Ok out /\ length out = n2 /\
    forall b, (b < n2)%nat -> length (nth b out []) = Z.to_nat (np_ncols U1) /\
      forall j, (j < Z.to_nat (np_ncols U1))%nat ->
        nth j (nth b out []) 0 = left_entry W U1 (Z.of_nat b) (Z.of_nat j).
Proof.
  intros Hne HU HW Hr HWl. rewrite mttv_left_bridge by exact HU. unfold H_mttv_left.
  assert (Hn1 : 0 < np_nrows U1) by (unfold np_nrows, zlen; destruct U1; [congruence|cbn [length]; lia]).
  assert (Hdiv : zlen W / np_nrows U1 = Z.of_nat n2) by (rewrite HWl, Z.mul_comm; apply Z.div_mul; lia).
  assert (Eok : np_reshape3_lead_ok W (np_nrows U1) (np_ncols U1) = true).
  { unfold np_reshape3_lead_ok. rewrite HW. apply andb_true_intro. split; [apply andb_true_intro; split|].
    - apply andb_true_intro. split; [apply negb_true_iff, Z.eqb_neq; exact Hr|reflexivity].
    - apply Z.ltb_lt. exact Hn1.
    - apply Z.eqb_eq. rewrite HWl, Z.mul_comm. apply Z.mod_mul. lia. }
  rewrite Eok, Hdiv. rewrite np_arange_0. eexists. split; [reflexivity|]. split; [rewrite !map_length, seq_length; reflexivity|].
  assert (Hrr : 0 <= np_ncols U1) by (unfold np_ncols; destruct U1; [lia|apply zlen_nonneg]).
  intros b Hb. rewrite map_map, nth_map_seq by exact Hb. rewrite np_arange_0_len by exact Hrr.
  split; [rewrite !map_length, seq_length; reflexivity|].
  intros j Hj. rewrite map_map, nth_map_seq by exact Hj. reflexivity.
Qed.

(* ---- mttv_mid ---- *)

(* what the generated khatrirao returns is a proper matrix (every row has the common column count, which is not 0) *)
Lemma khatrirao_ok_rows Us b K : khatrirao Us b = Ok K -> exists c, np_reshape_ok K c = true.
Proof.
  unfold khatrirao. intros H.
  destruct (negb (zlen Us =? 1) || idx_ok Us 0); [|discriminate H].
  destruct ((zlen Us =? 1) && false); [discriminate H|]. cbn [negb] in H.
  assert (G : forall Ms : list mat,
    (if negb (forallb (fun _ : mat => 2 =? 2) Ms) then Err else
     if idx_ok Ms 0 then
       if negb (forallb (fun matrix_5 : mat => np_ncols matrix_5 =? np_ncols (znth [] Ms 0)) Ms) then Err else
       if (if zlen Ms =? 1 then idx_ok Ms 0 else idx_ok Ms 0) then
         bind (np_for (tl Ms) (fun i_8 P_7 : mat =>
                 if np_reshape_ok i_8 (np_ncols (znth [] Ms 0)) && np_reshape_ok P_7 (np_ncols (znth [] Ms 0))
                 then Ok (false, np_kr_step P_7 i_8) else Err)
                (if zlen Ms =? 1 then znth [] Ms 0 else znth [] Ms 0))
              (fun P_10 : mat => if np_reshape_ok P_10 (np_ncols (znth [] Ms 0))
                                 then Ok (np_reshape_rows P_10 (np_ncols (znth [] Ms 0))) else Err)
       else Err
     else Err) = Ok K -> exists c : Z, np_reshape_ok K c = true).
  { intros Ms HM.
    destruct (negb (forallb (fun _ : mat => 2 =? 2) Ms)); [discriminate HM|].
    destruct (idx_ok Ms 0); [|discriminate HM].
    destruct (negb (forallb _ Ms)); [discriminate HM|].
    destruct (zlen Ms =? 1); cbn [bind] in HM.
    all: destruct (np_for _ _ _) as [P|]; cbn [bind] in HM; [|discriminate HM].
    all: destruct (np_reshape_ok P (np_ncols (znth [] Ms 0))) eqn:Eok; [|discriminate HM].
    all: injection HM as <-; eexists; exact Eok. }
  destruct b; cbn [bind] in H; eapply G; exact H.
Qed.

Lemma reshape_ok_rows_have K c : np_reshape_ok K c = true -> K <> [] -> rows_have K (np_ncols K) = true.
Proof.
  unfold np_reshape_ok, rows_have. intros H Hne. apply andb_true_iff in H as [_ H].
  destruct K as [|row K']; [congruence|]. cbn [np_ncols].
  assert (Ec : zlen row = c) by (cbn [forallb] in H; apply andb_true_iff in H as [H _]; apply Z.eqb_eq; exact H).
  rewrite Ec. exact H.
Qed.

(* out[a][j] = sum over b of W[a + n1 * b][j] * K[b][j]   (n1 = rows of the result) *)
Definition mid_entry (W K : mat) (n1 a j : Z) : Z :=
  zsum (map (fun b => znth 0 (znth [] W (a + n1 * b)) j * znth 0 (znth [] K b) j) (np_arange 0 (np_nrows K))).

Definition H_mttv_mid (W : mat) (Us : list mat) : res mat :=
  if zlen Us =? 0 then Ok W else
  match khatrirao Us true with
  | Err => Err
  | Ok K =>
      if np_reshape3_mid_ok W (np_nrows K) (np_ncols K) then
        Ok (map (fun a => map (fun j => mid_entry W K (zlen W / np_nrows K) a j) (np_arange 0 (np_ncols K)))
                (np_arange 0 (zlen W / np_nrows K)))
      else Err
  end.

Lemma mttv_mid_bridge (W : mat) (Us : list mat) : mttv_mid W Us = H_mttv_mid W Us.
Proof.
  unfold mttv_mid, H_mttv_mid. destruct (zlen Us =? 0); [reflexivity|].
  destruct (khatrirao Us true) as [K|] eqn:EK; cbn [is_ok res_get]; [|reflexivity].
  set (r := np_ncols K). set (n2 := np_nrows K).
  destruct (np_reshape3_mid_ok W n2 r) eqn:Eok; [|reflexivity].
  unfold np_reshape3_mid_ok in Eok. apply andb_true_iff in Eok as [Eok E4]. apply andb_true_iff in Eok as [Eok E3].
  apply andb_true_iff in Eok as [E1 E2]. apply Z.ltb_lt in E3.
  assert (HKne : K <> []) by (intros ->; unfold n2, np_nrows, zlen in E3; cbn in E3; lia).
  assert (HK : rows_have K r = true).
  { destruct (khatrirao_ok_rows _ _ _ EK) as (c & Hc). apply (reshape_ok_rows_have K c Hc HKne). }
  cbn [t3_n1 np_reshape3_mid].
  assert (Hn1 : 0 <= zlen W / n2) by (apply Z.div_pos; [apply zlen_nonneg|exact E3]).
  assert (Hr : 0 <= r) by (unfold r, np_ncols; destruct K; [lia|apply zlen_nonneg]).
  assert (Ez : np_zeros2_ok (zlen W / n2) r = true) by (unfold np_zeros2_ok; apply andb_true_intro; split; apply Z.leb_le; assumption).
  rewrite Ez.
  set (X := np_reshape3_mid W n2 r).
  set (f := fun j => t3_dot_mid X j (np_col K j)).
  rewrite (np_for_foldM _ (col_step f)).
  - rewrite np_arange_0_len by exact Hr.
    rewrite <- (Z2Nat.id (zlen W / n2)) at 1 by exact Hn1. rewrite <- (Z2Nat.id r) at 2 by exact Hr.
    rewrite fill_cols.
    + cbn [bind]. f_equal. rewrite (np_arange_0_len (zlen W / n2)) by exact Hn1. rewrite map_map.
      apply map_ext_in. intros a Ha. apply in_seq in Ha. rewrite map_map. apply map_ext_in. intros j Hj. apply in_seq in Hj.
      unfold f, t3_dot_mid. cbn [t3_n2 t3_n1 X np_reshape3_mid].
      rewrite (np_arange_0_len (zlen W / n2)) by exact Hn1.
      rewrite map_map, nth_map_seq by lia.
      unfold mid_entry. fold n2. f_equal. apply map_ext_in. intros b Hb. apply in_np_arange in Hb.
      unfold t3_entry. cbn [t3_m t3_n1]. f_equal.
      unfold np_col. rewrite (znth_map_in _ [] 0) by (unfold n2, np_nrows in Hb; exact Hb). reflexivity.
    + intros j Hj. unfold f, t3_dot_mid. cbn [t3_n1 X np_reshape3_mid]. rewrite map_length. unfold np_arange.
      rewrite map_length, seq_length. rewrite Z.sub_0_r. reflexivity.
  - intros j M Hj. apply in_np_arange in Hj. unfold col_step, f.
    assert (Ec : np_col_ok K j = true).
    { unfold np_col_ok. apply forallb_forall. intros row Hrow. unfold rows_have in HK. rewrite forallb_forall in HK.
      specialize (HK row Hrow). apply Z.eqb_eq in HK. apply idx_ok_range. lia. }
    assert (Ed : t3_dot_mid_ok X j (np_col K j) = true).
    { unfold t3_dot_mid_ok. cbn [t3_r t3_n2 X np_reshape3_mid]. apply andb_true_intro. split.
      - apply andb_true_intro. split; [apply Z.leb_le|apply Z.ltb_lt]; lia.
      - apply Z.eqb_eq. unfold np_col, zlen. rewrite map_length. reflexivity. }
    rewrite Ec, Ed. cbn [andb]. destruct (np_setcol_ok M j _); reflexivity.
Qed.

(* no middle factor: the partial result is returned as it is *)
Theorem mttv_mid_none (W : mat) : mttv_mid W [] = Ok W.
Proof. reflexivity. Qed.

(* entry-wise reading: K = khatrirao(U_mid, reverse) has n2 rows and r columns, W has n1 * n2 rows and r columns *)
Theorem mttv_mid_entries (W : mat) (Us : list mat) (K : mat) (n1 : nat) :
  Us <> [] -> khatrirao Us true = Ok K -> K <> [] -> rows_have W (np_ncols K) = true ->
  zlen W = Z.of_nat n1 * np_nrows K ->
  exists out, mttv_mid W Us = Ok out /\ length out = n1 /\
    forall a, (a < n1)%nat -> length (nth a out []) = Z.to_nat (np_ncols K) /\
      forall j, (j < Z.to_nat (np_ncols K))%nat ->
        nth j (nth a out []) 0 = mid_entry W K (Z.of_nat n1) (Z.of_nat a) (Z.of_nat j).
Proof.
  intros Hne EK HKne HW HWl. rewrite mttv_mid_bridge. unfold H_mttv_mid.
  assert (El : zlen Us =? 0 = false) by (apply Z.eqb_neq; unfold zlen; destruct Us; [congruence|cbn [length]; lia]).
  rewrite El, EK.
  assert (Hn2 : 0 < np_nrows K) by (unfold np_nrows, zlen; destruct K; [congruence|cbn [length]; lia]).
  assert (Hdiv : zlen W / np_nrows K = Z.of_nat n1) by (rewrite HWl; apply Z.div_mul; lia).
  destruct (khatrirao_ok_rows _ _ _ EK) as (c & Hc).
  assert (Hr : np_ncols K <> 0).
  { unfold np_reshape_ok in Hc. apply andb_true_iff in Hc as [Hc1 Hc2]. apply negb_true_iff, Z.eqb_neq in Hc1.
    destruct K as [|row K']; [congruence|]. cbn [np_ncols]. cbn [forallb] in Hc2. apply andb_true_iff in Hc2 as [Hc2 _].
    apply Z.eqb_eq in Hc2. lia. }
  assert (Eok : np_reshape3_mid_ok W (np_nrows K) (np_ncols K) = true).
  { unfold np_reshape3_mid_ok. rewrite HW. apply andb_true_intro. split; [apply andb_true_intro; split|].
    - apply andb_true_intro. split; [apply negb_true_iff, Z.eqb_neq; exact Hr|reflexivity].
    - apply Z.ltb_lt. exact Hn2.
    - apply Z.eqb_eq. rewrite HWl. apply Z.mod_mul. lia. }
  rewrite Eok, Hdiv. rewrite np_arange_0. eexists. split; [reflexivity|]. split; [rewrite !map_length, seq_length; reflexivity|].
  assert (Hrr : 0 <= np_ncols K) by (unfold np_ncols; destruct K; [lia|apply zlen_nonneg]).
  intros a Ha. rewrite map_map, nth_map_seq by exact Ha. rewrite np_arange_0_len by exact Hrr.
  split; [rewrite !map_length, seq_length; reflexivity|].
  intros j Hj. rewrite map_map, nth_map_seq by exact Hj. reflexivity.
Qed.
