(* Proofs/GenKernelsProofs.v — theorems about the GENERATED kernels of Gen/GenKernels.v
   (pyttb/tensor.py::min_split, pyttb/khatrirao.py::khatrirao), regenerated from /repo on every run.
   The bridge lemmas (…_bridge) are the only proofs that depend on the shape of the generated text. *)
From Coq Require Import List ZArith Arith Bool Lia.
From PV Require Import Base.Index Np.NpZ Np.NpZ2 Proofs.NpZProofs Gen.GenKernels.
Import ListNotations.
Local Open Scope Z_scope.

(* ------------------------------------------------------------------------------------------ *)
(* np_for = left fold carrying a `stopped` flag                                                  *)
(* ------------------------------------------------------------------------------------------ *)

Definition for_step {X S} (body : X -> S -> res (bool * S)) (acc : res (bool * S)) (x : X) : res (bool * S) :=
  bind acc (fun r => if fst r then Ok (true, snd r) else body x (snd r)).

Lemma fold_for_step_err {X S} (body : X -> S -> res (bool * S)) l : fold_left (for_step body) l Err = Err.
Proof. induction l as [|x l IH]; cbn; auto. Qed.

Lemma fold_for_step_stopped {X S} (body : X -> S -> res (bool * S)) l s :
  fold_left (for_step body) l (Ok (true, s)) = Ok (true, s).
Proof. induction l as [|x l IH]; cbn; auto. Qed.

Theorem np_for_fold {X S} (l : list X) (body : X -> S -> res (bool * S)) (s : S) :
  np_for l body s = bind (fold_left (for_step body) l (Ok (false, s))) (fun r => Ok (snd r)).
Proof.
  revert s; induction l as [|x l IH]; intros s; cbn [np_for fold_left]; [reflexivity|].
  unfold for_step at 2. cbn [bind fst snd].
  destruct (body x s) as [[stop s']|]; cbn [bind fst snd].
  - destruct stop.
    + now rewrite fold_for_step_stopped.
    + apply IH.
  - now rewrite fold_for_step_err.
Qed.

(* ------------------------------------------------------------------------------------------ *)
(* min_split                                                                                     *)
(* ------------------------------------------------------------------------------------------ *)

(* reference: number of modes (after the first) that the greedy scan moves to the left product.
   ml = product of the modes already on the left; l = the modes not yet decided. The next mode s is moved to the
   left iff  ml < prod (modes after s). *)
Fixpoint greedy (ml : Z) (l : vec) : nat :=
  match l with
  | [] => O
  | s :: l' => if ml <? zprod l' then S (greedy (ml * s) l') else O
  end.

Lemma zprod_cons x l : zprod (x :: l) = x * zprod l.
Proof. reflexivity. Qed.

Lemma zprod_pos l : (forall d, In d l -> 0 < d) -> 0 < zprod l.
Proof.
  induction l as [|x l IH]; intros H; [cbn; lia|]. rewrite zprod_cons.
  apply Z.mul_pos_pos; [apply H; cbn; auto|apply IH; intros; apply H; cbn; auto].
Qed.

(* the loop body of the generated function, written by hand; the bridge below checks (by conversion) that the
   generated text is this loop *)
Definition ms_body : Z * Z -> Z * Z * Z -> res (bool * (Z * Z * Z)) :=
  fun '(idx, s) '(m_right, idx_min, m_left) =>
    if negb (s =? 0) then
      if m_left <? m_right / s then Ok (false, (m_right / s, idx, m_left * s))
      else Ok (true, (m_right / s, idx_min, m_left))
    else Err.

Definition H_min_split (shape : vec) : res Z :=
  if idx_ok shape 0 then
    bind (np_for (np_enumerate 1 (tl shape)) ms_body (zprod (tl shape), 0, znth 0 shape 0))
         (fun '(_, idx_min, _) => Ok idx_min)
  else Err.

Lemma min_split_shape shape : min_split shape = H_min_split shape.
Proof. reflexivity. Qed.

(* the loop from any intermediate state *)
Lemma min_split_loop l : forall k ml,
  (forall d, In d l -> d <> 0) ->
  exists mr ml', np_for (np_enumerate (Z.of_nat k + 1) l) ms_body (zprod l, Z.of_nat k, ml)
                 = Ok (mr, Z.of_nat (k + greedy ml l), ml').
Proof.
  induction l as [|s l IH]; intros k ml Hnz.
  - cbn. exists 1, ml. now rewrite Nat.add_0_r.
  - assert (Hs : s <> 0) by (apply Hnz; cbn; auto).
    assert (Hnz' : forall d, In d l -> d <> 0) by (intros; apply Hnz; cbn; auto).
    cbn [np_enumerate np_for greedy]. unfold ms_body at 1.
    destruct (Z.eqb_spec s 0) as [|_]; [contradiction|]. cbn [negb].
    rewrite zprod_cons. replace (s * zprod l / s) with (zprod l) by (rewrite Z.mul_comm, Z.div_mul; auto).
    destruct (ml <? zprod l); cbn [bind fst snd].
    + replace (Z.of_nat k + 1) with (Z.of_nat (S k)) by lia.
      destruct (IH (S k) (ml * s) Hnz') as (mr & ml' & E').
      exists mr, ml'. rewrite E'. f_equal. f_equal. f_equal. lia.
    + exists (zprod l), ml. now rewrite Nat.add_0_r.
Qed.

(* bridge: on shapes whose modes after the first are non-zero the generated function is the greedy scan *)
Theorem min_split_bridge d0 rest : (forall d, In d rest -> d <> 0) ->
  min_split (d0 :: rest) = Ok (Z.of_nat (greedy d0 rest)).
Proof.
  intros Hnz. rewrite min_split_shape. unfold H_min_split.
  assert (G : idx_ok (d0 :: rest) 0 = true).
  { unfold idx_ok, zlen. cbn [length]. apply andb_true_iff. split; [apply Z.leb_le|apply Z.ltb_lt]; lia. }
  rewrite G. cbn [tl]. change (znth 0 (d0 :: rest) 0) with d0.
  destruct (min_split_loop rest 0 d0 Hnz) as (mr & ml' & E).
  cbn [Z.of_nat Z.add] in E. rewrite E. reflexivity.
Qed.

(* rejected requests: empty shape (IndexError), a zero-size mode after the first (ZeroDivisionError) *)
Theorem min_split_empty : min_split [] = Err.
Proof. reflexivity. Qed.

(* ---- what the greedy scan returns ---- *)

Lemma greedy_range ml l : 1 <= ml -> (forall d, In d l -> 0 < d) -> l <> [] -> (greedy ml l < length l)%nat.
Proof.
  revert ml; induction l as [|s l IH]; intros ml Hml Hpos Hne; [congruence|].
  cbn [greedy length]. destruct (Z.ltb_spec ml (zprod l)); [|lia].
  destruct l as [|s' l'].
  - cbn in H. lia.
  - assert (Hs : 0 < s) by (apply Hpos; cbn; auto).
    assert (greedy (ml * s) (s' :: l') < length (s' :: l'))%nat; [|lia].
    apply IH; [nia|intros; apply Hpos; cbn; cbn in H0; tauto|discriminate].
Qed.

(* every mode moved to the left was moved because the left product was smaller than what stays on the right,
   and the scan stopped at the first mode for which that fails *)
Lemma greedy_rule ml l :
  (forall j, (j < greedy ml l)%nat -> ml * zprod (firstn j l) < zprod (skipn (S j) l)) /\
  ((greedy ml l < length l)%nat -> zprod (skipn (S (greedy ml l)) l) <= ml * zprod (firstn (greedy ml l) l)).
Proof.
  revert ml; induction l as [|s l IH]; intros ml.
  - cbn. split; intros; lia.
  - cbn [greedy]. destruct (Z.ltb_spec ml (zprod l)) as [Hlt|Hge].
    + destruct (IH (ml * s)) as [H1 H2]. split.
      * intros [|j] Hj; cbn [firstn skipn]; [cbn; lia|].
        rewrite zprod_cons, Z.mul_assoc. apply H1. lia.
      * intros Hlen. cbn [length] in Hlen. cbn [firstn skipn]. rewrite zprod_cons, Z.mul_assoc.
        apply H2. lia.
    + split; [intros; lia|]. intros _. cbn [firstn skipn]. cbn. lia.
Qed.

(* C02_min_split_range: for every shape with N >= 2 modes of positive sizes the split index is in [0, N-2]:
   the right-hand Khatri-Rao product of tensor.mttkrps is never empty *)
Theorem C02_min_split_range (shape : vec) :
  (2 <= length shape)%nat -> (forall d, In d shape -> 0 < d) ->
  exists k, min_split shape = Ok (Z.of_nat k) /\ (k + 2 <= length shape)%nat.
Proof.
  intros HN Hpos. destruct shape as [|d0 rest]; [cbn in HN; lia|].
  exists (greedy d0 rest). split.
  - apply min_split_bridge. intros d Hd. specialize (Hpos d (or_intror Hd)). lia.
  - cbn [length] in *.
    assert (greedy d0 rest < length rest)%nat; [|lia].
    apply greedy_range.
    + specialize (Hpos d0 (or_introl eq_refl)). lia.
    + intros; apply Hpos; cbn; auto.
    + destruct rest; [cbn in HN; lia|discriminate].
Qed.

(* the greedy rule in terms of the shape: with k the result, every mode 1..k went left because
   prod shape[0:j] < prod shape[j+1:], and mode k+1 stayed right because prod shape[k+2:] <= prod shape[0:k+1] *)
Theorem C02_min_split_greedy (shape : vec) :
  (2 <= length shape)%nat -> (forall d, In d shape -> 0 < d) ->
  exists k, min_split shape = Ok (Z.of_nat k) /\
    (forall j, (1 <= j <= k)%nat -> zprod (firstn j shape) < zprod (skipn (S j) shape)) /\
    zprod (skipn (k + 2) shape) <= zprod (firstn (k + 1) shape).
Proof.
  intros HN Hpos. destruct shape as [|d0 rest]; [cbn in HN; lia|].
  exists (greedy d0 rest). split; [|split].
  - apply min_split_bridge. intros d Hd. specialize (Hpos d (or_intror Hd)). lia.
  - intros j Hj. destruct j as [|j]; [lia|]. cbn [firstn skipn]. rewrite zprod_cons.
    apply (proj1 (greedy_rule d0 rest)). lia.
  - replace (greedy d0 rest + 2)%nat with (S (S (greedy d0 rest))) by lia.
    replace (greedy d0 rest + 1)%nat with (S (greedy d0 rest)) by lia.
    cbn [firstn skipn]. rewrite zprod_cons.
    apply (proj2 (greedy_rule d0 rest)).
    cbn [length] in HN. apply greedy_range.
    + specialize (Hpos d0 (or_introl eq_refl)). lia.
    + intros; apply Hpos; cbn; auto.
    + destruct rest; [cbn in HN; lia|discriminate].
Qed.

Example min_split_example : min_split [2; 3; 4; 5] = Ok 1.
Proof. reflexivity. Qed.
Example min_split_example2 : min_split [5; 1; 1; 9] = Ok 2.
Proof. reflexivity. Qed.
