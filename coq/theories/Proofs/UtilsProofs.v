(* Proofs/UtilsProofs.v — theorems about the GENERATED helpers (Gen/GenUtils.v): index conversion and
   mode-selection preprocessing.  The bridge lemmas (…_bridge) are the only proofs that depend on the
   shape of the generated text. *)
From Coq Require Import List ZArith Arith Bool Lia Permutation Sorted.
From PV Require Import Base.Index Np.NpZ Proofs.NpZProofs Gen.GenUtils.
Import ListNotations.
Local Open Scope Z_scope.

(* ------------------------------------------------------------------------------------------ *)
(* tt_sub2ind / tt_ind2sub                                                                      *)
(* ------------------------------------------------------------------------------------------ *)

Lemma np_size2_cons r (m : mat) : np_size2 (r :: m) = zlen r + np_size2 m.
Proof. reflexivity. Qed.

Lemma np_size2_nonneg (m : mat) : 0 <= np_size2 m.
Proof. induction m as [|r m IH]; [cbn; lia|]. rewrite np_size2_cons. unfold zlen. lia. Qed.

Lemma np_size2_nil_iff (m : mat) : np_size2 m = 0 -> Forall (fun r => r = []) m.
Proof.
  induction m as [|r m IH]; intros H; constructor; rewrite np_size2_cons in H;
    pose proof (np_size2_nonneg m); unfold zlen in H.
  - destruct r; [reflexivity|]. cbn [length] in H. lia.
  - apply IH. lia.
Qed.

(* rows of an N-way subscript array have N >= 1 entries; with 0 rows the code returns the empty array *)
Theorem tt_sub2ind_spec (s : shape) (subs : list idx) :
  s <> [] -> (forall i, In i subs -> inb s i = true) ->
  tt_sub2ind (zs s) (zm subs) OrdF = Ok (map (fun i => Z.of_nat (sub2ind s i)) subs).
Proof.
  intros Hs Hin. unfold tt_sub2ind.
  destruct (Z.eqb_spec (np_size2 (zm subs)) 0) as [E|_].
  - apply np_size2_nil_iff in E.
    destruct subs as [|i subs]; [reflexivity|]. exfalso.
    inversion E as [|? ? Hi _]; subst. specialize (Hin i (or_introl eq_refl)).
    apply inb_length in Hin. destruct i; [|discriminate]. destruct s; [congruence|discriminate].
  - unfold np_ravel_multi_index, zm.
    rewrite (mapM_ok _ (fun r => match ravelF (zs s) r with Ok k => k | Err => 0 end)).
    + cbn [bind]. rewrite map_map. f_equal. apply map_ext_in. intros i Hi.
      now rewrite ravelF_nat by auto.
    + intros r Hr. apply in_map_iff in Hr as (i & <- & Hi). cbn [np_ravel_row].
      now rewrite ravelF_nat by auto.
Qed.

Theorem tt_sub2ind_rejects (s : shape) (subs : list idx) :
  (exists i, In i subs /\ i <> [] /\ inb s i = false) -> tt_sub2ind (zs s) (zm subs) OrdF = Err.
Proof.
  intros (i & Hi & Hne & Hout). unfold tt_sub2ind.
  destruct (Z.eqb_spec (np_size2 (zm subs)) 0) as [E|_].
  - apply np_size2_nil_iff in E. rewrite Forall_forall in E.
    specialize (E (zs i)). unfold zm in E. rewrite in_map_iff in E.
    assert (zs i = []) by (apply E; eauto). destruct i; [congruence|discriminate].
  - unfold np_ravel_multi_index. rewrite mapM_err; [reflexivity|].
    exists (zs i). split; [unfold zm; apply in_map; auto|]. cbn. now apply ravelF_out.
Qed.

Theorem tt_ind2sub_spec (s : shape) (ks : list nat) :
  (forall k, In k ks -> (k < size s)%nat) ->
  tt_ind2sub (zs s) (zs ks) OrdF = Ok (map (fun k => zs (ind2sub s k)) ks).
Proof.
  intros Hin. unfold tt_ind2sub.
  destruct (Z.eqb_spec (zlen (zs ks)) 0) as [E|_].
  - unfold zlen in E. rewrite zs_length in E. destruct ks; [reflexivity|cbn in E; lia].
  - assert (W : np_wrap_neg (zs ks) (zprod (zs s)) = zs ks).
    { unfold np_wrap_neg, zs. rewrite map_map. apply map_ext. intros k.
      destruct (Z.ltb_spec (Z.of_nat k) 0); [lia|reflexivity]. }
    rewrite W. unfold np_unravel_index.
    rewrite (mapM_ok _ (fun z => unravelF (zs s) z)).
    + f_equal. unfold zs at 2. rewrite map_map. apply map_ext. intros k. apply unravelF_nat.
    + intros z Hz. unfold zs in Hz. apply in_map_iff in Hz as (k & <- & Hk).
      unfold np_unravel_row. rewrite zprod_zs.
      destruct (Z.ltb_spec (Z.of_nat k) 0); [lia|].
      destruct (Z.leb_spec (Z.of_nat (size s)) (Z.of_nat k)); [specialize (Hin k Hk); lia|]. reflexivity.
Qed.

(* negative linear indices count from the end, as in numpy *)
Theorem tt_ind2sub_negative (s : shape) (k : nat) :
  (0 < k <= size s)%nat ->
  tt_ind2sub (zs s) [- Z.of_nat k] OrdF = Ok [zs (ind2sub s (size s - k))].
Proof.
  intros Hk. unfold tt_ind2sub. cbn [zlen length Z.of_nat Z.eqb Pos.of_succ_nat].
  cbn [np_wrap_neg map]. destruct (Z.ltb_spec (- Z.of_nat k) 0); [|lia].
  rewrite zprod_zs. unfold np_unravel_index. cbn [mapM]. unfold np_unravel_row. rewrite zprod_zs.
  replace (- Z.of_nat k + Z.of_nat (size s)) with (Z.of_nat (size s - k)) by lia.
  destruct (Z.ltb_spec (Z.of_nat (size s - k)) 0); [lia|].
  destruct (Z.leb_spec (Z.of_nat (size s)) (Z.of_nat (size s - k))); [lia|].
  cbn. now rewrite unravelF_nat.
Qed.

(* round trips on the generated functions *)
Theorem tt_roundtrip_sub (s : shape) (subs : list idx) :
  s <> [] -> (forall i, In i subs -> inb s i = true) ->
  bind (tt_sub2ind (zs s) (zm subs) OrdF) (fun ks => tt_ind2sub (zs s) ks OrdF) = Ok (zm subs).
Proof.
  intros Hs Hin. rewrite tt_sub2ind_spec by auto. cbn [bind].
  change (map (fun i => Z.of_nat (sub2ind s i)) subs) with (map (fun i => Z.of_nat (sub2ind s i)) subs).
  rewrite <- (map_map (sub2ind s) Z.of_nat). fold (zs (map (sub2ind s) subs)).
  rewrite tt_ind2sub_spec.
  - rewrite map_map. unfold zm. f_equal. apply map_ext_in. intros i Hi. now rewrite ind2sub_sub2ind by auto.
  - intros k Hk. apply in_map_iff in Hk as (i & <- & Hi). apply sub2ind_lt; auto.
Qed.

Theorem tt_roundtrip_ind (s : shape) (ks : list nat) :
  s <> [] -> (forall k, In k ks -> (k < size s)%nat) ->
  bind (tt_ind2sub (zs s) (zs ks) OrdF) (fun subs => tt_sub2ind (zs s) subs OrdF) = Ok (zs ks).
Proof.
  intros Hs Hin. rewrite tt_ind2sub_spec by auto. cbn [bind].
  rewrite <- (map_map (ind2sub s) zs). fold (zm (map (ind2sub s) ks)).
  rewrite tt_sub2ind_spec; auto.
  - rewrite map_map. unfold zs. f_equal. apply map_ext_in. intros k Hk. now rewrite sub2ind_ind2sub by auto.
  - intros i Hi. apply in_map_iff in Hi as (k & <- & Hk). apply inb_ind2sub; auto.
Qed.

(* ------------------------------------------------------------------------------------------ *)
(* tt_dimscheck                                                                                 *)
(* ------------------------------------------------------------------------------------------ *)

Definition H_dims (N : Z) (dims excl : option vec) : res vec :=
  match excl, dims with
  | Some _, Some _ => Err
  | Some e, None => if np_all (np_isin e (np_arange 0 N)) then Ok (np_setdiff1d (np_arange 0 N) e) else Err
  | None, Some d => Ok d
  | None, None => Ok (np_arange 0 N)
  end.

Definition H_dimscheck (N : Z) (M : option Z) (dims excl : option vec) : res (vec * option vec) :=
  bind (H_dims N dims excl) (fun d =>
  if np_any (np_lt_s d 0) then Err else
  if negb (np_all (np_isin d (np_arange 0 N))) then Err else
  if negb (zlen (np_unique d) =? zlen d) then Err else
  match M with
  | None => Ok (np_sort d, None)
  | Some m => if m >? N then Err
              else if negb ((m =? N) || (m =? zlen d)) then Err
              else if zlen d =? m then Ok (np_sort d, Some (np_argsort d))
              else Ok (np_sort d, Some (np_sort d))
  end).

Lemma tt_dimscheck_bridge N M dims excl : tt_dimscheck N M dims excl = H_dimscheck N M dims excl.
Proof.
  unfold tt_dimscheck, H_dimscheck, H_dims.
  destruct dims as [d|], excl as [e|]; cbn [is_some andb negb bind]; try reflexivity.
  - (* dims given *)
    destruct (np_any (np_lt_s d 0)); [reflexivity|].
    destruct (negb (np_all (np_isin d (np_arange 0 N)))); [reflexivity|].
    destruct (negb (zlen (np_unique d) =? zlen d)); [reflexivity|]. rewrite take_argsort.
    destruct M as [m|]; cbn [bind]; [|reflexivity].
    destruct (m >? N); [reflexivity|].
    destruct (negb ((m =? N) || (m =? zlen d))); [reflexivity|].
    destruct (zlen d =? m); reflexivity.
  - (* exclude given *)
    destruct (np_all (np_isin e (np_arange 0 N))); cbn [negb bind]; [|reflexivity].
    set (c := np_setdiff1d (np_arange 0 N) e).
    destruct (np_any (np_lt_s c 0)); [reflexivity|].
    destruct (negb (np_all (np_isin c (np_arange 0 N)))); [reflexivity|].
    destruct (negb (zlen (np_unique c) =? zlen c)); [reflexivity|]. rewrite take_argsort.
    destruct M as [m|]; cbn [bind]; [|reflexivity].
    destruct (m >? N); [reflexivity|].
    destruct (negb ((m =? N) || (m =? zlen c))); [reflexivity|].
    destruct (zlen c =? m); reflexivity.
  - (* neither *)
    set (c := np_arange 0 N).
    destruct (np_any (np_lt_s c 0)); [reflexivity|].
    destruct (negb (np_all (np_isin c c))); [reflexivity|].
    destruct (negb (zlen (np_unique c) =? zlen c)); [reflexivity|]. rewrite take_argsort.
    destruct M as [m|]; cbn [bind]; [|reflexivity].
    destruct (m >? N); [reflexivity|].
    destruct (negb ((m =? N) || (m =? zlen c))); [reflexivity|].
    destruct (zlen c =? m); reflexivity.
Qed.

(* the admissibility predicate of a request, written from the docstring: modes inside the tensor, none repeated,
   and a multiplicand count that is either one per listed mode or one per tensor mode *)
Definition dims_ok (N : Z) (M : option Z) (d : vec) : Prop :=
  (forall x, In x d -> 0 <= x < N) /\ NoDup d /\
  match M with None => True | Some m => m <= N /\ (m = N \/ m = zlen d) end.

Lemma no_neg d : (forall x, In x d -> 0 <= x) -> np_any (np_lt_s d 0) = false.
Proof.
  intros H. destruct (np_any (np_lt_s d 0)) eqn:E; [|reflexivity].
  apply np_any_lt in E as (x & Hx & Hlt). specialize (H x Hx). lia.
Qed.

Lemma in_range_ok d N : (forall x, In x d -> 0 <= x < N) -> np_all (np_isin d (np_arange 0 N)) = true.
Proof. intros H. apply np_all_isin. intros x Hx. apply in_np_arange. auto. Qed.

Lemma nodup_ok d : NoDup d -> (zlen (np_unique d) =? zlen d) = true.
Proof. intros H. apply Z.eqb_eq. unfold zlen. f_equal. now apply np_unique_length_nodup. Qed.

Lemma dup_rejected d : ~ NoDup d -> (zlen (np_unique d) =? zlen d) = false.
Proof.
  intros H. apply Z.eqb_neq. unfold zlen. intros E. apply H. apply np_unique_length_nodup. lia.
Qed.

(* the multiplicand index vector returned for the sorted modes *)
Definition vidx_of (N : Z) (M : option Z) (d : vec) : option vec :=
  match M with
  | None => None
  | Some m => if zlen d =? m then Some (np_argsort d) else Some (np_sort d)
  end.

Lemma H_tail N M d :
  (forall x, In x d -> 0 <= x < N) -> NoDup d ->
  match M with None => True | Some m => m <= N /\ (m = N \/ m = zlen d) end ->
  (if np_any (np_lt_s d 0) then Err else
   if negb (np_all (np_isin d (np_arange 0 N))) then Err else
   if negb (zlen (np_unique d) =? zlen d) then Err else
   match M with
   | None => Ok (np_sort d, None)
   | Some m => if m >? N then Err
               else if negb ((m =? N) || (m =? zlen d)) then Err
               else if zlen d =? m then Ok (np_sort d, Some (np_argsort d))
               else Ok (np_sort d, Some (np_sort d))
   end) = Ok (np_sort d, vidx_of N M d).
Proof.
  intros Hr Hn HM.
  rewrite no_neg by (intros x Hx; specialize (Hr x Hx); lia).
  rewrite in_range_ok by auto. rewrite nodup_ok by auto. cbn [negb].
  unfold vidx_of. destruct M as [m|]; [|reflexivity].
  destruct HM as [Hle Hm]. destruct (Z.gtb_spec m N); [lia|].
  assert (E : (m =? N) || (m =? zlen d) = true).
  { apply orb_true_iff. destruct Hm; [left|right]; now apply Z.eqb_eq. }
  rewrite E. cbn [negb]. destruct (zlen d =? m); reflexivity.
Qed.

Theorem dimscheck_dims N M d : dims_ok N M d ->
  tt_dimscheck N M (Some d) None = Ok (np_sort d, vidx_of N M d).
Proof.
  intros (Hr & Hn & HM). rewrite tt_dimscheck_bridge. unfold H_dimscheck, H_dims. cbn [bind].
  now apply H_tail.
Qed.

(* complement convention *)
Definition complement (N : Z) (e : vec) : vec := filter (fun x => negb (zmem x e)) (np_arange 0 N).

Lemma complement_nonneg N e x : In x (complement N e) -> 0 <= x.
Proof. unfold complement. rewrite filter_In, in_np_arange. lia. Qed.

Lemma complement_sorted N e : StronglySorted Z.lt (complement N e).
Proof.
  unfold complement. generalize (np_arange_sorted 0 N). generalize (np_arange 0 N).
  induction 1 as [|x l Hs IH Hall]; cbn; [constructor|].
  destruct (negb (zmem x e)); auto. constructor; auto.
  rewrite Forall_forall in *. intros y Hy. apply filter_In in Hy as [Hy _]. auto.
Qed.

Lemma sorted_lt_le l : StronglySorted Z.lt l -> Sorted Z.le l.
Proof.
  induction 1 as [|x l Hs IH Hall]; constructor; auto.
  destruct l; constructor. inversion Hall; subst. lia.
Qed.

Lemma ins_pair_sorted_id p l : (forall q, In q l -> fst p <= fst q) -> Sorted le1 l ->
  map fst (ins_pair p l) = fst p :: map fst l.
Proof.
  revert p; induction l as [|q r IH]; intros p Hle Hs; cbn; [reflexivity|].
  destruct (Z.leb_spec (fst p) (fst q)); [reflexivity|].
  specialize (Hle q (or_introl eq_refl)). lia.
Qed.

(* sorting an already sorted list changes nothing *)
Lemma np_sort_id l : Sorted Z.le l -> np_sort l = l.
Proof.
  intros Hs. unfold np_sort.
  assert (G : forall (t : list (Z * Z)), Sorted Z.le (map fst t) -> map fst (isort_pairs t) = map fst t).
  { induction t as [|p t IH]; intros Hst; [reflexivity|]. cbn [isort_pairs fold_right].
    change (fold_right ins_pair [] t) with (isort_pairs t).
    cbn [map] in Hst. inversion Hst as [|? ? Hst' Hhd]; subst.
    rewrite ins_pair_sorted_id.
    - cbn. now rewrite IH.
    - intros q Hq. eapply Permutation_in in Hq; [|apply isort_pairs_perm].
      apply Sorted_StronglySorted in Hst; [|intros a b c; lia].
      inversion Hst as [|? ? _ Hall]; subst. rewrite Forall_forall in Hall.
      apply Hall. now apply in_map.
    - apply isort_pairs_sorted. }
  rewrite G; rewrite fst_tagged; auto.
Qed.

Lemma complement_range N e x : In x (complement N e) -> 0 <= x < N.
Proof. unfold complement. rewrite filter_In, in_np_arange. lia. Qed.

Theorem dimscheck_exclude N M e :
  (forall x, In x e -> 0 <= x < N) ->
  match M with None => True | Some m => m <= N /\ (m = N \/ m = zlen (complement N e)) end ->
  tt_dimscheck N M None (Some e) = Ok (complement N e, vidx_of N M (complement N e)).
Proof.
  intros He HM. rewrite tt_dimscheck_bridge. unfold H_dimscheck, H_dims.
  assert (E : np_all (np_isin e (np_arange 0 N)) = true) by (now apply in_range_ok).
  rewrite E, setdiff_arange. fold (complement N e). cbn [bind].
  rewrite H_tail; auto.
  - now rewrite np_sort_id by (apply sorted_lt_le, complement_sorted).
  - apply complement_range.
  - apply strict_sorted_nodup, complement_sorted.
Qed.

Lemma argsort_sorted_id l : StronglySorted Z.lt l -> np_argsort l = map Z.of_nat (seq 0 (length l)).
Proof.
  intros Hs. unfold np_argsort.
  assert (G : forall (t : list (Z * Z)), StronglySorted Z.lt (map fst t) -> isort_pairs t = t).
  { induction t as [|p t IH]; intros Hst; [reflexivity|]. cbn [isort_pairs fold_right].
    change (fold_right ins_pair [] t) with (isort_pairs t).
    cbn [map] in Hst. inversion Hst as [|? ? Hst' Hall]; subst. rewrite IH by auto.
    destruct t as [|q t']; [reflexivity|]. cbn. inversion Hall; subst.
    destruct (Z.leb_spec (fst p) (fst q)); [reflexivity|lia]. }
  rewrite G by (now rewrite fst_tagged).
  unfold tagged. now rewrite map_snd_combine by (now rewrite map_length, seq_length).
Qed.

Theorem dimscheck_default N M : 0 <= N ->
  match M with None => True | Some m => m = N end ->
  tt_dimscheck N M None None = Ok (np_arange 0 N, option_map (fun _ => np_arange 0 N) M).
Proof.
  intros HN HM. rewrite tt_dimscheck_bridge. unfold H_dimscheck, H_dims. cbn [bind].
  assert (L : zlen (np_arange 0 N) = N).
  { unfold zlen, np_arange. rewrite map_length, seq_length. lia. }
  rewrite H_tail.
  - rewrite np_sort_id by (apply sorted_lt_le, np_arange_sorted).
    unfold vidx_of. destruct M as [m|]; [|reflexivity]. subst m. cbn [option_map].
    rewrite L, Z.eqb_refl. f_equal. f_equal. f_equal.
    rewrite argsort_sorted_id by apply np_arange_sorted.
    unfold np_arange. rewrite map_length, seq_length. replace (N - 0) with N by lia.
    apply map_ext. intros; lia.
  - intros x Hx. now apply in_np_arange.
  - apply strict_sorted_nodup, np_arange_sorted.
  - destruct M as [m|]; [|exact I]. subst m. rewrite L. split; [lia|auto].
Qed.

(* rejections *)
Theorem dimscheck_rejects_both N M d e : tt_dimscheck N M (Some d) (Some e) = Err.
Proof. now rewrite tt_dimscheck_bridge. Qed.

Theorem dimscheck_rejects_negative N M d x : In x d -> x < 0 -> tt_dimscheck N M (Some d) None = Err.
Proof.
  intros Hx Hlt. rewrite tt_dimscheck_bridge. unfold H_dimscheck, H_dims. cbn [bind].
  assert (E : np_any (np_lt_s d 0) = true) by (apply np_any_lt; eauto). now rewrite E.
Qed.

Theorem dimscheck_rejects_exclude_range N M e x : In x e -> ~ (0 <= x < N) -> tt_dimscheck N M None (Some e) = Err.
Proof.
  intros Hx Hout. rewrite tt_dimscheck_bridge. unfold H_dimscheck, H_dims.
  destruct (np_all (np_isin e (np_arange 0 N))) eqn:E; [|reflexivity].
  exfalso. apply Hout. apply in_np_arange. eapply np_all_isin; eauto.
Qed.

Theorem dimscheck_rejects_count N m d : (forall x, In x d -> 0 <= x < N) -> NoDup d ->
  (m > N \/ (m <> N /\ m <> zlen d)) -> tt_dimscheck N (Some m) (Some d) None = Err.
Proof.
  intros Hr Hn Hm. rewrite tt_dimscheck_bridge. unfold H_dimscheck, H_dims. cbn [bind].
  rewrite no_neg by (intros x Hx; specialize (Hr x Hx); lia).
  rewrite in_range_ok by auto. rewrite nodup_ok by auto. cbn [negb].
  destruct (Z.gtb_spec m N); [reflexivity|].
  destruct Hm as [|[H1 H2]]; [lia|].
  destruct (Z.eqb_spec m N); [contradiction|]. destruct (Z.eqb_spec m (zlen d)); [contradiction|]. reflexivity.
Qed.

Theorem dimscheck_rejects_out_of_range N M d x : In x d -> N <= x -> tt_dimscheck N M (Some d) None = Err.
Proof.
  intros Hx Hge. rewrite tt_dimscheck_bridge. unfold H_dimscheck, H_dims. cbn [bind].
  destruct (np_any (np_lt_s d 0)); [reflexivity|].
  destruct (np_all (np_isin d (np_arange 0 N))) eqn:E; [|reflexivity].
  exfalso. assert (Hin : In x (np_arange 0 N)) by (eapply np_all_isin; eauto).
  apply in_np_arange in Hin. lia.
Qed.

Theorem dimscheck_rejects_repeated N M d : ~ NoDup d -> tt_dimscheck N M (Some d) None = Err.
Proof.
  intros Hd. rewrite tt_dimscheck_bridge. unfold H_dimscheck, H_dims. cbn [bind].
  destruct (np_any (np_lt_s d 0)); [reflexivity|].
  destruct (negb (np_all (np_isin d (np_arange 0 N)))); [reflexivity|].
  now rewrite dup_rejected.
Qed.

(* alignment: position k of the sorted modes is paired with the multiplicand the caller attached to it *)
Theorem dimscheck_alignment_P d : np_take 0 d (np_argsort d) = np_sort d.
Proof. apply take_argsort. Qed.
