"""C03 — sparse element-wise arithmetic, logic and comparison match dense semantics (DESIGN §C03)."""
import itertools
import math

from vcheck import Case, gz, gzlist, gnlist, gnmat
import tgen
from props import c03_util as U

PROP = "C03"
LEVEL = "proof"
GEN_UNITS = ["GenUtils", "GenUtils2"]   # GenUtils2: tt_union_rows (S != T)
COQ_TARGETS = ["Props/C03.vo", "Props/C03Src.vo", "Props/C03Gen2.vo", "Props/C03Kr.vo", "Props/C03W5.vo", "Props/C03Hist.vo", "Model/Harness.vo", "Model/C03Chk.vo",
               "Model/C03Chk2.vo", "Model/C03Kr.vo", "Model/C03Ord0.vo", "Model/C03W5.vo", "Model/C03Hist.vo"]
THEOREM_FILES = ["Props/C03.v", "Props/C03Src.v", "Props/C03Gen2.v", "Props/C03Kr.v", "Props/C03W5.v", "Props/C03Hist.v"]
COQ_IMPORTS = ("From Coq Require Import List ZArith Bool QArith Qcanon.\n"
               "From PV Require Import Base.Index Np.Array Model.Sparse Model.Repr Model.Harness Model.C03Ops Model.C03Chk Model.C03Chk2 Model.C03Kr Model.C03Ord0 Model.C03W5 Model.C03Hist.\n"
               # case indices >= 5000 are nat literals that make coqc print one warning each; the driver reads the pipe only
               # after the process ends, so the warnings must be silenced or the shard blocks on a full pipe
               'Set Warnings "-abstract-large-number".\n')
RULE = ("every binary operator (+ - * / and or xor == != < <= > >=) x right-hand side kind (scalar in {-1,0,2}, dense, sparse): "
        "ALL 4^cells zero-pattern pairs on the shapes (2,2), (3,), (2,1) [quick] / additionally (2,3), (2,2,2) [thorough], values from "
        "{-2,-1,1,2,3} with forced equal pairs, stored orders of both operands drawn independently from {sorted, reversed, random}; "
        "seeded random shapes <= 4 modes / 24 cells; unary neg/not/ones/elemfun over all patterns; non-trivial = more than one cell "
        "and at least one stored nonzero in some operand; distinct = distinct (op, args). Wave 3: operands storing the IDENTICAL "
        "subscript list in identical order with cancel_all / cancel_some / equal / mixed values x every operator; two-step histories "
        "then:<op1>:<op2> = (A op1 R1) op2 R2 on the same Python objects, R2 in {scalar, A, R1, none}, both raw results observed; "
        "memory layouts {F, C, strided view} of subs / vals / dense data; magnitudes 2^10, 2^24 with last-unit neighbours; every sparse "
        "result must be fully well-formed (no duplicate, no explicit zero, nnz = rows = values, integer subs dtype, full() works) and "
        "the operands must be unchanged after the call. Wave 3b: every sparse / sparse, S != S2, S == T, S != T request is run a second time "
        "as <op>model: pyttb's raw lists, STORED ORDER INCLUDED, must equal the lists the transliteration over the generated helpers "
        "returns (Model/C03Gen.v impl_div_sparse_gen, Model/C03Gen2.v); the witnesses of the repaired findings are regression cases. "
        "Wave 4: Kruskal right-hand sides (S * K, S / K; ranks 0..3, integer entries all >= 1 or signed with zeros, all zero patterns of the sparse "
        "operand on (2,2), (3,), sampled on (2,1,2) and random shapes, factor layouts F / C / view) against spec_mul_k / spec_div_k and list for list "
        "against the transliterated loops (mulmodel / divmodel); order-0 operands (shape ()): every operator x {sparse, dense, scalar, Kruskal}, "
        "unary operations and 115 two-step histories, every result must be an empty container. Wave 5: histories on ONE object hist:<op0>,<op1> - "
        "a request X op0 R0 on a small initial tensor, then 1..3 in-place element assignments on X (3 of 4 histories grow the shape past its bounds, "
        "also by a zero assigned outside; entries added, overwritten, deleted), then a second request that uses the SAME object (left operand, or sparse "
        "right operand) and the same request on the tensor rebuilt by the constructor: EVERY pair (first request, second request) of the request table "
        "(every operator x {scalar, dense, sparse} + neg / not / ones / elemfun; 43 x 43 pairs + 43 x 12 with the object on the right + 6 more histories "
        "for every pair (q, q): per-operator state), both spellings of the assignment (S[i1,..,iN] = v -> _set_subtensor, S[M] = v -> _set_subscripts) "
        "alternating, the three raw results against the element-wise specification, the two second results equal list for list, the object's lists "
        "after its history equal to the Coq model sp_assigns; the same with the DENSE right operand as the object with a history (T[i] = v grows "
        "it; 12 x 12 operator pairs + 6 per diagonal pair); sparse / dense requests run a second time list for list against the transliteration (divmodel)")
CORRESPONDENCE_ONLY = []   # filled below
EXPLANATION = ("pyttb's raw result (sparse: shape/subs/vals lists; dense: F-order data) is compared in Coq against the executable "
               "element-wise specification spec_ew / spec_div (Model/C03Ops.v; two-step histories: spec_then, Model/C03Chk.v) evaluated on "
               "the literal operands, and every sparse result must be fully well-formed (sp_denotes4 / xsp_denotes4); the theorems of "
               "Props/C03.v prove that the modelled sparse algorithms compute exactly that specification for all inputs. Tie A: "
               "the algorithms that pair or split stored entries (sparse*sparse, sparse==sparse, logical_not, < <= > >=, != scalar, "
               "/ scalar 0) are transliterated over tt_intersect_rows / tt_setdiff_rows / tt_ismember_rows as REGENERATED from "
               "pyttb_utils.py on every run; their index contracts on duplicate-free rows are theorems (C03_rows_*), so a change of a "
               "helper breaks the proof and the correspondence (operands in reversed/random stored order) finds the failing input. "
               "Wave 3b: sparse / sparse (repaired code, open finding C03-N7), S != S2 (tt_intersect_rows + boolean scatter), S == T (extract "
               "= tt_ismember_rows + mask assignment) and S != T (GenUtils2.tt_union_rows + tt_setdiff_rows) are transliterated as written and "
               "tied to pyttb list for list (<op>model cases), so a change INSIDE the class of an open finding is reported too. "
               "Wave 4: S * K and S / K (Kruskal operand) are transliterated loop for loop (Model/C03Kr.v), proved for any commutative ring "
               "(Props/C03Kr.v) and tied list for list (ops mulmodel / divmodel); order-0 operands (pyttb's empty tensor) must give empty "
               "containers (Model/C03Ord0.v); operands holding int64 / int32 / int8 / float32 values. "
               "Wave 5: S * K is the repaired code (filter + early return; C03_mul_kruskal_filtered is the claimed theorem, findings C03-K1 / K2 fixed); "
               "sparse / dense as the code is tied list for list (Model/C03W5.v zdiv_dense, C03_div_dense_rows / _exact_iff); histories on one object "
               "(operator, in-place assignments that grow / change the tensor, operator again on the same object vs. the rebuilt tensor). "
               "Finite clause of the property text: quick = ALL 4^cells zero-pattern pairs x EVERY binary operator x {sparse, dense} "
               "right-hand side for every shape of <= 4 cells used ((2,2), (3,), (2,1)); thorough adds all pattern pairs of (2,3) "
               "(6 cells, 3 operators per pair, rotating) and (2,2,2) (8 cells, 1 operator per pair, rotating): every pair of patterns up "
               "to 8 cells is run, not every operator on every 8-cell pair (1.7M cases); the general theorems cover all of them.")

VALS = (-2, -1, 1, 2, 3)
SCALARS = (-1, 0, 2)
ORDERS = ("sorted", "reversed", "random")


# ---------------------------------------------------------------------------------------------
# generation
# ---------------------------------------------------------------------------------------------
def order_entries(ent, rng, order):
    ent = list(ent)
    if order == "reversed":
        ent.reverse()
    elif order == "random":
        rng.shuffle(ent)
    return [list(e[0]) for e in ent], [e[1] for e in ent]


def sparse_from_pattern(shape, pat, rng, order, vals=None):
    """pat: 0/1 per cell (F order); returns (subs, vals) in the requested stored order"""
    subs = tgen.all_subs(shape)
    ent = []
    for k, (s, p) in enumerate(zip(subs, pat)):
        if p:
            ent.append((s, vals[k] if vals is not None else rng.choice(VALS)))
    return order_entries(ent, rng, order)


def pair_values(rng, pa, pb):
    """values for two patterns; where both are nonzero they are made equal with probability 0.4"""
    va, vb = [], []
    for x, y in zip(pa, pb):
        a = rng.choice(VALS) if x else 0
        b = rng.choice(VALS) if y else 0
        if x and y and rng.random() < 0.4:
            b = a
        va.append(a)
        vb.append(b)
    return va, vb


def binary_args(shape, pa, pb, rk, rng, oa=None, ob=None, c=None):
    va, vb = pair_values(rng, pa, pb)
    subs, vals = sparse_from_pattern(shape, pa, rng, oa or rng.choice(ORDERS), va)
    a = {"shape": list(shape), "subs": subs, "vals": vals, "rk": rk}
    if rk == "scalar":
        a["c"] = c
    elif rk == "dense":
        a["bd"] = vb
    else:
        bs, bv = sparse_from_pattern(shape, pb, rng, ob or rng.choice(ORDERS), vb)
        a["bsubs"], a["bvals"] = bs, bv
    return a


def nontrivial(a):
    return math.prod(a["shape"]) > 1 and (len(a["subs"]) > 0 or len(a.get("bsubs", [])) > 0 or any(a.get("bd", []))
                                          or len(a.get("kw", [])) > 0)


def ops_for(rk):
    if rk == "scalar":
        return U.BINOPS + ("rmul", "rdiv")
    return U.BINOPS


def gen_cases(rng, tier):
    big = tier == "thorough"
    cases = []

    def add(op, a):
        cases.append(Case(op, a, nontrivial(a)))
        # tie of the transliterations over the generated helpers: the same request once more, pyttb's raw lists compared
        # list for list (stored order included) with what the transliterated algorithm returns (MODEL_OPS)
        if (op, a.get("rk")) in MODEL_OPS and "r2" not in a:
            cases.append(Case(op + "model", dict(a), nontrivial(a)))

    # 1. exhaustive zero-pattern pairs, sparse and dense right-hand sides
    for shape in [(2, 2), (3,), (2, 1)]:
        n = math.prod(shape)
        for pa in itertools.product((0, 1), repeat=n):
            for pb in itertools.product((0, 1), repeat=n):
                for rk in ("sparse", "dense"):
                    for op in U.BINOPS:
                        add(op, binary_args(shape, pa, pb, rk, rng))
    if big:
        for shape, per in (((2, 3), 3), ((2, 2, 2), 1)):
            n = math.prod(shape)
            k = 0
            for pa in itertools.product((0, 1), repeat=n):
                for pb in itertools.product((0, 1), repeat=n):
                    for _ in range(per):
                        op = U.BINOPS[k % len(U.BINOPS)]
                        rk = ("sparse", "dense")[(k // len(U.BINOPS)) % 2]
                        k += 1
                        add(op, binary_args(shape, pa, pb, rk, rng))
    # 2. scalars: all patterns of the sparse operand
    for shape in [(2, 2), (3,), (1, 2)] + ([(2, 3), (2, 1, 2)] if big else []):
        n = math.prod(shape)
        for pa in itertools.product((0, 1), repeat=n):
            for c in SCALARS:
                for op in ops_for("scalar"):
                    add(op, binary_args(shape, pa, pa, "scalar", rng, c=c))
    # 3. unary operations over all patterns
    unary = ("neg", "not", "ones", "pos") + tuple("elemfun:" + k for k in U.ELEMFUNS)
    for shape in [(2, 2), (3,), (1, 2), (2, 1, 2)]:
        n = math.prod(shape)
        for pa in itertools.product((0, 1), repeat=n):
            if n > 4 and not big and rng.random() < 0.75:
                continue
            for op in unary:
                subs, vals = sparse_from_pattern(shape, pa, rng, rng.choice(ORDERS))
                add(op, {"shape": list(shape), "subs": subs, "vals": vals})
    # 4. seeded random larger shapes, fills {empty, one, some, full}
    for _ in range(160 if big else 36):
        shape = tuple(tgen.rand_shape(rng, maxn=4, maxcells=24))
        n = math.prod(shape)

        def rpat():
            mode = rng.choice(("empty", "one", "some", "some", "full"))
            if mode == "empty":
                return [0] * n
            if mode == "full":
                return [1] * n
            if mode == "one":
                p = [0] * n
                p[rng.randrange(n)] = 1
                return p
            f = rng.choice((0.3, 0.6))
            return [int(rng.random() < f) for _ in range(n)]
        for rk in ("sparse", "dense", "scalar"):
            for op in ops_for(rk):
                add(op, binary_args(shape, rpat(), rpat(), rk, rng, c=rng.choice(SCALARS)))
        for op in unary:
            subs, vals = sparse_from_pattern(shape, rpat(), rng, rng.choice(ORDERS))
            add(op, {"shape": list(shape), "subs": subs, "vals": vals})
    # 5. operands storing the IDENTICAL subscript list in the identical order (accumulation over a fixed pattern), with
    #    exact cancellation / equal values: every operator, the raw result must not carry the cancelled entries
    for shape in [(2, 2), (3,), (2, 1, 2)] + ([(2, 3), (1, 4)] if big else []):
        n = math.prod(shape)
        for pa in itertools.product((0, 1), repeat=n):
            if not any(pa) or (n > 4 and not big and rng.random() < 0.8):
                continue
            for mode in IDENT_MODES:
                for op in U.BINOPS:
                    add(op, identical_args(shape, pa, rng, mode))
    # 6. two-step histories on the same objects: (A op1 R1) op2 R2 with R2 in {scalar, A, R1, none}; half of the
    #    first steps run on identical stored patterns with cancellation (so that the intermediate is empty / smaller)
    k = 0
    for shape in [(2, 2), (3,), (2, 1, 2)] + ([(2, 3), (3, 1, 2)] if big else []):
        n = math.prod(shape)
        pats = list(itertools.product((0, 1), repeat=n))
        if n > 4 and not big:
            pats = rng.sample(pats, 12)
        for pa in pats:
            for rk, op1s in FIRST_OPS:
                for op1 in op1s:
                    for rep in range(2 if rk == "sparse" else 1):
                        if rk == "sparse" and rep == 0 and any(pa):
                            a = identical_args(shape, pa, rng, IDENT_MODES[k % len(IDENT_MODES)])
                        else:
                            pb = rng.choice(pats)
                            a = binary_args(shape, pa, pb, rk, rng, c=rng.choice(SCALARS))
                        op2, r2 = SECOND_OPS[k % len(SECOND_OPS)]
                        k += 1
                        if r2["k"] == "R" and rk != "sparse":
                            r2 = {"k": "A"}
                        a["r2"] = dict(r2)
                        add(f"then:{op1}:{op2}", a)
    # 7. memory layouts: subscript / value arrays of the sparse operands and the data of the dense operand held
    #    F-contiguous, C-contiguous or as non-contiguous strided views (constructor with copy=False; T.data assigned)
    k = 0
    for _ in range(40 if big else 8):
        shape = tuple(tgen.rand_shape(rng, maxn=3, maxcells=12))
        n = math.prod(shape)
        for rk in ("sparse", "dense"):
            for op in U.BINOPS:
                pa = [int(rng.random() < 0.5) for _ in range(n)]
                pb = [int(rng.random() < 0.6) for _ in range(n)]
                a = binary_args(shape, pa, pb, rk, rng)
                a["layout"] = {"A": {"sub": LAYOUTS[k % 3], "val": LAYOUTS[(k // 3) % 3]},
                               "B": {"sub": LAYOUTS[(k // 9) % 3], "val": LAYOUTS[(k + 1) % 3]},
                               "dense": LAYOUTS[(k // 2) % 3]}
                k += 1
                add(op, a)
    # 8. magnitudes: integer values scaled by 2^10 / 2^24 with neighbours that differ in the last unit (ties under any
    #    reduced precision), all exactly representable (products < 2^53)
    for _ in range(30 if big else 6):
        shape = tuple(tgen.rand_shape(rng, maxn=3, maxcells=8))
        n = math.prod(shape)
        for rk in ("sparse", "dense", "scalar"):
            for op in U.BINOPS:
                if op == "div":
                    continue
                pa = [int(rng.random() < 0.6) for _ in range(n)]
                pb = [int(rng.random() < 0.6) for _ in range(n)]
                sc = rng.choice((2 ** 10, 2 ** 24))
                a = binary_args(shape, pa, pb, rk, rng, c=rng.choice((-1, 1)) * (sc + rng.choice((0, 1))))
                big_values(a, rng, sc)
                add(op, a)
    # 10. (wave 4) Kruskal right-hand side: S * K and S / K; ALL zero patterns of the sparse operand on the small shapes, ranks
    #     0..3, weights / factor entries either all >= 1 (the Kruskal tensor is >= 1 everywhere: the eps clamp is inactive and the
    #     quotient must be the element-wise one) or signed with zeros (zero products are filtered: repaired C03-K2; eps clamp: open finding C03-K3);
    #     factor matrices F-contiguous, C-contiguous or strided views
    k = 0
    kshapes = [(2, 2), (3,), (2, 1, 2)] + ([(2, 3), (1, 3), (2, 2, 2)] if big else [])
    for shape in kshapes:
        n = math.prod(shape)
        pats = list(itertools.product((0, 1), repeat=n))
        if n > 4 and not big:
            pats = rng.sample(pats, 10) + [tuple([0] * n), tuple([1] * n)]
        elif n > 6:
            pats = rng.sample(pats, 48) + [tuple([0] * n), tuple([1] * n)]
        for pa in pats:
            for kind in ("positive", "signed"):
                for R in ((0, 1, 2, 3) if big else (k % 4, (k + 2) % 4)):
                    a = kruskal_args(shape, pa, rng, R, kind)
                    if k % 3:
                        a["layout"] = {"K": LAYOUTS[k % 3]}
                    k += 1
                    for op in ("mul", "div"):
                        add(op, {kk: vv for kk, vv in a.items()})
    for _ in range(60 if big else 10):
        shape = tuple(tgen.rand_shape(rng, maxn=4, maxcells=24))
        n = math.prod(shape)
        pa = [int(rng.random() < rng.choice((0.3, 0.7))) for _ in range(n)]
        a = kruskal_args(shape, pa, rng, rng.randrange(0, 4), rng.choice(("positive", "signed")))
        for op in ("mul", "div"):
            add(op, dict(a))
    # 11. (wave 4) order-0 operands (shape ()): pyttb's empty tensor; every operator x every kind of right-hand side, unary
    #     operations, two-step histories; every result must be an empty container (ord0_sp_ok / ord0_dense_ok)
    e0 = {"shape": [], "subs": [], "vals": []}
    for rk in ("sparse", "dense", "scalar", "kruskal"):
        for op in (ops_for(rk) if rk != "kruskal" else ("mul", "div")):
            for c0 in (SCALARS if rk == "scalar" else (None,)):
                a = dict(e0, rk=rk)
                if rk == "sparse":
                    a.update(bsubs=[], bvals=[])
                elif rk == "dense":
                    a["bd"] = []
                elif rk == "scalar":
                    a["c"] = c0
                else:
                    a.update(kw=[], kf=[])
                cases.append(Case(op, a, False))
    for op in unary:
        cases.append(Case(op, dict(e0), False))
    for k, (op1, (op2, r2)) in enumerate(itertools.product(("add", "mul", "eq", "le", "or"), SECOND_OPS)):
        a = dict(e0, rk="sparse", bsubs=[], bvals=[], r2=dict(r2))
        cases.append(Case(f"then:{op1}:{op2}", a, False))
    # 12. (wave 4) value dtypes: operands holding int64 / int32 / int8 / float32 values (pyttb's own constructors give float64);
    #     float32 is not combined with division (1/3 is rounded to 24 bits; everything else is exact on small integers)
    for dt in ("int64", "int32", "int8", "float32"):
        for _ in range(6 if big else 1):
            shape = tuple(tgen.rand_shape(rng, maxn=3, maxcells=12))
            n = math.prod(shape)
            for rk in ("sparse", "dense", "scalar"):
                for op in ops_for(rk):
                    if dt == "float32" and op in ("div", "rdiv"):
                        continue
                    pa = [int(rng.random() < 0.5) for _ in range(n)]
                    pb = [int(rng.random() < 0.6) for _ in range(n)]
                    a = binary_args(shape, pa, pb, rk, rng, c=rng.choice(SCALARS))
                    a["dtype"] = dt
                    cases.append(Case(op, a, nontrivial(a)))
            for op in unary:
                subs, vals = sparse_from_pattern(shape, [int(rng.random() < 0.5) for _ in range(n)], rng, rng.choice(ORDERS))
                cases.append(Case(op, {"shape": list(shape), "subs": subs, "vals": vals, "dtype": dt}, n > 1 and len(subs) > 0))
    # 13. (wave 4, lead's broadcast) the dense operand is a tensor GROWN by out-of-bounds assignment (its .data is C-ordered, not
    #     F-contiguous, although no strange array was ever handed over): >= 2 non-singleton modes, every operator, all-distinct
    #     (non-symmetric) dense values, sparse operand in any stored order
    for shape in [(2, 3), (3, 1, 2)] + ([(2, 2, 2), (3, 2), (2, 1, 3)] if big else []):
        n = math.prod(shape)
        for rep in range(4 if big else 2):
            for op in U.BINOPS:
                pa = [int(rng.random() < 0.5) for _ in range(n)]
                a = binary_args(shape, pa, [1] * n, "dense", rng)
                distinct = rng.sample(range(-n, n + 3), n)
                a["bd"] = [0 if rng.random() < 0.25 else v for v in distinct]
                dd = dict(zip(map(tuple, tgen.all_subs(shape)), a["bd"]))
                if rep % 2:      # force equal pairs at some stored positions (==, !=, <= ... both ways)
                    a["vals"] = [dd[tuple(s)] if dd[tuple(s)] and rng.random() < 0.5 else v for s, v in zip(a["subs"], a["vals"])]
                a["layout"] = {"dense": "grown"}
                add(op, a)
    # 14. (wave 4) operands BUILT BY A HISTORY of element assignments S[i] = v in the stored order of the case (reversed / random
    #     orders: the subscripts are appended in non-ascending order; the shape grows with the assignments), every operator
    for _ in range(12 if big else 3):
        shape = tuple(tgen.rand_shape(rng, maxn=3, maxcells=12))
        n = math.prod(shape)
        for rk in ("sparse", "dense", "scalar"):
            for op in ops_for(rk):
                pa = [int(rng.random() < 0.6) for _ in range(n)]
                pb = [int(rng.random() < 0.6) for _ in range(n)]
                a = binary_args(shape, pa, pb, rk, rng, oa=rng.choice(("reversed", "random")), ob=rng.choice(("reversed", "random")),
                                c=rng.choice(SCALARS))
                a["layout"] = {"A": "assigned", "B": "assigned"}
                add(op, a)
    # 15. (wave 5) histories on ONE object: a request X op0 R0 on the initial tensor, then in-place element assignments on X (growing the
    #     shape past its bounds - also by a ZERO assigned outside -, adding, overwriting, deleting entries), then a second request that
    #     uses the SAME object X (as the left operand, or as the sparse right operand), and the same second request on the tensor
    #     rebuilt by the constructor: EVERY (first request, second request) pair of the request table (every operator x {scalar, dense,
    #     sparse} + unary; sparse / sparse and sparse / dense division are left to their own sections), all three raw results observed
    reqs = hist_requests()
    k = 0
    for rep in range(3 if big else 1):
        for q0 in reqs:
            for q1 in reqs:
                cases.append(hist_case(rng, k, q0, q1, "A"))
                k += 1
    for rep in range(4 if big else 1):
        for q0 in reqs:
            for op1 in U.BINOPS:
                if op1 != "div":
                    cases.append(hist_case(rng, k, q0, (op1, "sparse"), "B"))
                    k += 1
    #     per-operator state: the SAME request before and after the mutation, 6 (12) more histories each
    for rep in range(12 if big else 6):
        for q in reqs:
            cases.append(hist_case(rng, k, q, q, "A"))
            k += 1
    #     who = "T": the object with a history is the DENSE right operand (element assignments grow it: pyttb installs a new zero array):
    #     every (first operator, second operator) pair with a dense operand
    dense_ops = [op for op in U.BINOPS if op != "div"]
    for rep in range(3 if big else 1):
        for op0 in dense_ops:
            for op1 in dense_ops:
                cases.append(hist_case_dense(rng, k, op0, op1))
                k += 1
    for rep in range(12 if big else 6):
        for op0 in dense_ops:
            cases.append(hist_case_dense(rng, k, op0, op0))
            k += 1
    # 9. the witnesses of the repaired findings, as ordinary regression cases
    for op, a in REGRESSION:
        add(op, {k: (list(v) if isinstance(v, list) else v) for k, v in a.items()})
    return cases


# (operator, right-hand side kind) whose transliteration over the generated helpers is tied list for list
MODEL_OPS = {("div", "sparse"), ("div", "dense"), ("ne", "sparse"), ("eq", "dense"), ("ne", "dense"), ("mul", "kruskal"), ("div", "kruskal")}
# S * K: the repaired code (/repo d4293a0, findings C03-K1 / C03-K2 fixed) = the loops + `keep = cvals[:, 0] != 0` + the early return for an
# operand that stores nothing.  ONE accepted behaviour: the filtered transliteration impl_mul_k_filtered (claimed theorem
# C03_mul_kruskal_filtered; list for list C03_mul_kruskal_filtered_rows / _Z_rows) is what the tie `mulmodel` runs.  (False = the tree
# before d4293a0, kept only so that the check can be replayed against an old tree.)
KRUSKAL_FILTERED = True
IDENT_MODES = ("cancel_all", "cancel_some", "equal", "mixed")
LAYOUTS = ("F", "C", "view")
# first steps whose result is sparse, by kind of right-hand side
FIRST_OPS = (("sparse", ("add", "sub", "mul", "and", "or", "xor", "eq", "ne", "lt", "le", "gt", "ge")),
             ("dense", ("mul", "and", "eq", "lt", "ge")),
             ("scalar", ("mul", "and", "ne", "gt", "le")))
# second steps: (operator, right-hand side) — scalar, the first operand A again, the first right-hand side R again, unary
SECOND_OPS = (("eq", {"k": "scalar", "c": 0}), ("ne", {"k": "scalar", "c": 0}), ("not", {"k": "un"}),
              ("le", {"k": "scalar", "c": 0}), ("and", {"k": "scalar", "c": 1}), ("eq", {"k": "A"}),
              ("add", {"k": "R"}), ("sub", {"k": "A"}), ("mul", {"k": "A"}), ("or", {"k": "R"}), ("xor", {"k": "A"}),
              ("gt", {"k": "scalar", "c": -1}), ("ones", {"k": "un"}), ("neg", {"k": "un"}), ("div", {"k": "scalar", "c": 0}),
              ("div", {"k": "scalar", "c": 2}), ("mul", {"k": "scalar", "c": 0}), ("ge", {"k": "R"}), ("lt", {"k": "A"}),
              ("and", {"k": "R"}), ("ne", {"k": "A"}), ("add", {"k": "A"}), ("mul", {"k": "scalar", "c": -1}))


# wave 5: shapes a history starts from, and the request table of the histories
HIST_SHAPES0 = ((1, 2), (2,), (2, 2), (1, 1, 2), (2, 1), (1,), (1, 1))


def hist_requests():
    reqs = [(op, "scalar") for op in ops_for("scalar")]
    reqs += [(op, rk) for rk in ("dense", "sparse") for op in U.BINOPS if op != "div"]
    reqs += [(op, None) for op in ("neg", "not", "ones", "elemfun:minus2")]
    return reqs


def hist_rhs(a, rk, rng, c=None):
    """right-hand side of kind rk for the sparse operand held in a (values forced equal at some stored positions)"""
    shape = a["shape"]
    n = math.prod(shape)
    if rk is None:
        return a
    a["rk"] = rk
    if rk == "scalar":
        a["c"] = rng.choice(SCALARS) if c is None else c
        return a
    here = {tuple(s): v for s, v in zip(a["subs"], a["vals"])}
    vb = []
    for s in tgen.all_subs(shape):
        v = rng.choice(VALS) if rng.random() < 0.55 else 0
        if v and tuple(s) in here and rng.random() < 0.4:
            v = here[tuple(s)]
        vb.append(v)
    if rk == "dense":
        a["bd"] = vb
    else:
        a["bsubs"], a["bvals"] = sparse_from_pattern(shape, [int(v != 0) for v in vb], rng, rng.choice(ORDERS), vb)
    return a


def hist_case(rng, k, q0, q1, who):
    """one history: initial tensor X0 (small shape, any stored order), first request q0 = (op0, kind) on it, 1..3 element assignments
    on the object (3 of 4 histories grow the shape), second request q1 with the object as operand `who`"""
    shape0 = HIST_SHAPES0[k % len(HIST_SHAPES0)]
    n0 = math.prod(shape0)
    subs0, vals0 = sparse_from_pattern(shape0, [int(rng.random() < 0.6) for _ in range(n0)], rng, rng.choice(ORDERS))
    a0 = hist_rhs({"shape": list(shape0), "subs": subs0, "vals": vals0}, q0[1], rng)
    grow = (k // len(HIST_SHAPES0)) % 4 != 3
    assigns = []
    shape = list(shape0)
    if grow:
        m = rng.randrange(len(shape0))
        sub = [rng.randrange(d) for d in shape]
        sub[m] = shape[m] + rng.randrange(2)
        if len(shape0) > 1 and rng.random() < 0.3:
            m2 = (m + 1) % len(shape0)
            sub[m2] = shape[m2]
        assigns.append([sub, 0 if rng.random() < 0.15 else rng.choice(VALS)])
        shape = [max(d, x + 1) for d, x in zip(shape, sub)]
    for _ in range(rng.randrange(0 if grow else 1, 3)):
        sub = [rng.randrange(d) for d in shape]
        assigns.append([sub, 0 if rng.random() < 0.3 else rng.choice(VALS)])
    shape, subs, vals = U.sim_assign(shape0, subs0, vals0, assigns)
    # both spellings of a single-element assignment: S[i1, ..., iN] = v (-> _set_subtensor) and S[M] = v, M a 1 x N array (-> _set_subscripts)
    hist = {"who": who, "a0": a0, "assign": assigns, "keys": [("tuple", "array")[(k + j) % 2] for j in range(len(assigns))]}
    if who == "A":
        a = hist_rhs({"shape": shape, "subs": subs, "vals": vals}, q1[1], rng)
    else:
        n = math.prod(shape)
        osubs, ovals = sparse_from_pattern(shape, [int(rng.random() < 0.5) for _ in range(n)], rng, rng.choice(ORDERS))
        here = {tuple(s): v for s, v in zip(subs, vals)}
        ovals = [here[tuple(s)] if tuple(s) in here and rng.random() < 0.4 else v for s, v in zip(osubs, ovals)]
        a = {"shape": shape, "subs": osubs, "vals": ovals, "rk": "sparse", "bsubs": subs, "bvals": vals}
    a["hist"] = hist
    return Case(f"hist:{q0[0]},{q1[0]}", a, math.prod(shape) > 1)


def hist_case_dense(rng, k, op0, op1):
    """history on the DENSE right operand: S0 op0 T0 on a small shape (>= 2 cells so that pyttb's data is a proper array), 1..3 element
    assignments on T (3 of 4 grow it), A op1 T with the same object"""
    shape0 = (HIST_SHAPES0[:5])[k % 5]
    n0 = math.prod(shape0)
    subs0, vals0 = sparse_from_pattern(shape0, [int(rng.random() < 0.6) for _ in range(n0)], rng, rng.choice(ORDERS))
    a0 = hist_rhs({"shape": list(shape0), "subs": subs0, "vals": vals0}, "dense", rng)
    grow = (k // 5) % 4 != 3
    assigns = []
    shape = list(shape0)
    if grow:
        m = rng.randrange(len(shape0))
        sub = [rng.randrange(d) for d in shape]
        sub[m] = shape[m] + rng.randrange(2)
        assigns.append([sub, 0 if rng.random() < 0.15 else rng.choice(VALS)])
        shape = [max(d, x + 1) for d, x in zip(shape, sub)]
    for _ in range(rng.randrange(0 if grow else 1, 3)):
        assigns.append([[rng.randrange(d) for d in shape], 0 if rng.random() < 0.3 else rng.choice(VALS)])
    shape, bd = U.sim_assign_dense(shape0, a0["bd"], assigns)
    n = math.prod(shape)
    subs, vals = sparse_from_pattern(shape, [int(rng.random() < 0.5) for _ in range(n)], rng, rng.choice(ORDERS))
    dd = dict(zip(map(tuple, tgen.all_subs(shape)), bd))
    vals = [dd[tuple(s)] if dd[tuple(s)] and rng.random() < 0.4 else v for s, v in zip(subs, vals)]
    a = {"shape": shape, "subs": subs, "vals": vals, "rk": "dense", "bd": bd, "hist": {"who": "T", "a0": a0, "assign": assigns}}
    return Case(f"hist:{op0},{op1}", a, True)


def identical_args(shape, pa, rng, mode):
    """two sparse operands with the SAME stored subscript list in the same order; values of the second one
    cancel (b = -a) / equal (b = a) those of the first by `mode`"""
    subs, vals = sparse_from_pattern(shape, pa, rng, rng.choice(ORDERS))
    m = len(vals)
    if mode == "cancel_all":
        bv = [-v for v in vals]
    elif mode == "equal":
        bv = list(vals)
    else:
        hit = rng.randrange(m)
        bv = []
        for k, v in enumerate(vals):
            r = rng.random()
            if k == hit or r < 0.4:
                bv.append(-v)
            elif mode == "mixed" and r < 0.7:
                bv.append(v)
            else:
                bv.append(rng.choice(VALS))
    return {"shape": list(shape), "subs": subs, "vals": vals, "rk": "sparse",
            "bsubs": [list(s) for s in subs], "bvals": bv}


def kruskal_args(shape, pa, rng, R, kind):
    """sparse operand with zero pattern pa (any stored order) and a rank-R Kruskal tensor of the same shape, integer entries"""
    subs, vals = sparse_from_pattern(shape, pa, rng, rng.choice(ORDERS))
    pool = (1, 1, 2, 3) if kind == "positive" else (-2, -1, 0, 0, 1, 2)
    kw = [rng.choice(pool) for _ in range(R)]
    kf = [[[rng.choice(pool) for _ in range(R)] for _ in range(d)] for d in shape]
    return {"shape": list(shape), "subs": subs, "vals": vals, "rk": "kruskal", "kw": kw, "kf": kf}


def big_values(a, rng, sc):
    """scale the stored values in place; pairs at common positions become equal or neighbours (differ by 1)"""
    def scale(v):
        return v * sc + rng.choice((0, 0, 1, -1))
    a["vals"] = [scale(v) for v in a["vals"]]
    if a["rk"] == "dense":
        a["bd"] = [scale(v) if v else 0 for v in a["bd"]]
        other = {tuple(s): k for k, s in enumerate(tgen.all_subs(a["shape"]))}
        for s, v in zip(a["subs"], a["vals"]):
            k = other[tuple(s)]
            if a["bd"][k] and rng.random() < 0.5:
                a["bd"][k] = v + rng.choice((0, 1, -1))
    elif a["rk"] == "sparse":
        a["bvals"] = [scale(v) for v in a["bvals"]]
        pos = {tuple(s): v for s, v in zip(a["subs"], a["vals"])}
        for k, s in enumerate(a["bsubs"]):
            if tuple(s) in pos and rng.random() < 0.5:
                a["bvals"][k] = pos[tuple(s)] + rng.choice((0, 1, -1))


# ---------------------------------------------------------------------------------------------
# pyttb side
# ---------------------------------------------------------------------------------------------
def base_op(op):
    return op[:-5] if op.endswith("model") else op


def run_impl(c):
    if c.op.startswith("hist:"):
        return U.run_hist(c.op, c.args)
    return U.run_history(base_op(c.op), c.args)


# ---------------------------------------------------------------------------------------------
# Coq side
# ---------------------------------------------------------------------------------------------
def gobs_sparse_z(o):
    return tgen.gsparse(o["shape"], o["subs"], o["vals"])


def gobs_sparse_x(o):
    return f"(mkSp {gnlist(o['shape'])} {gnmat(o['subs'])} {U.gxlist(o['vals'])})"


def raw_ok(o):
    """clauses that are decided on the raw observation before it is turned into a Gallina literal"""
    if o["kind"] == "dense":
        return True
    rows_ok = all(len(r) == len(o["shape"]) and all(x >= 0 for x in r) for r in o["subs"])
    return (rows_ok and o.get("subs_integral", True) and o.get("subs_dtype_int", True) and o.get("full_ok", True)
            and o["nnz"] == len(o["subs"]) == len(o["vals"]))


def un_fun(op):
    return {"neg": "Z.opp", "not": "znot", "ones": "zones", "pos": "(fun v : Z => v)"}[op]


def step_expr(o, zspec=None, xspec=None):
    """Gallina bool: the raw observation of one step is fully well-formed (no duplicate, no explicit zero, nnz = number
    of rows = number of values) and denotes the specification (zspec : dense Z, or xspec : dense xval for divisions)"""
    if "exc" in o or o.get("kind") not in ("sparse", "dense") or not raw_ok(o):
        return "false"
    if xspec is not None:
        if o["kind"] == "sparse":
            return f"xsp_denotes4 {gobs_sparse_x(o)} {xspec}"
        return f"xdense_close (mkDense {gnlist(o['shape'])} {U.gxlist(o['data'])}) {xspec}"
    if o["kind"] == "sparse":
        if not tgen.all_int(o["vals"]):
            return "false"
        return f"sp_denotes4 {gobs_sparse_z(o)} {zspec}"
    if not tgen.all_int(o["data"]):
        return "false"
    return f"dense_eqb {tgen.gdense(o['shape'], o['data'])} {zspec}"


def ord0_expr(o):
    """order-0 operands: the raw result is an empty container of shape ()"""
    if "exc" in o or o.get("kind") not in ("sparse", "dense") or not raw_ok(o):
        return "false"
    if o["kind"] == "sparse":
        return f"ord0_sp_ok {gobs_sparse_x(o)}"
    return f"ord0_dense_ok (mkDense {gnlist(o['shape'])} {U.gxlist(o['data'])})"


def gr2(a):
    r2 = a["r2"]
    if r2["k"] == "scalar":
        return f"(RScalar {gz(r2['c'])})"
    if r2["k"] == "A":
        return f"(RSparse {U.gsp(a)})"
    return U.grhs(a)


def first_spec(op, a):
    """(zspec, xspec) of a single operation"""
    A = U.gsp(a)
    if a.get("rk") == "kruskal":
        if op == "mul":
            return f"(spec_mul_k {A} {U.gkt(a)})", None
        if op == "div":
            return None, f"(spec_div_k {A} {U.gkt(a)})"
        raise ValueError(op)
    if op == "div":
        return None, f"(spec_div {A} {U.grhs(a)})"
    if op == "rdiv":
        return None, f"(spec_rdiv {gz(a['c'])} {A})"
    if op in U.COQ_F:
        return f"(spec_ew {U.COQ_F[op]} {A} {U.grhs(a)})", None
    if op in U.UNARY:
        return f"(spec_un {un_fun(op)} {A})", None
    if op.startswith("elemfun:"):
        return f"(spec_elemfun {U.ELEMFUNS[op.split(':')[1]][1]} {A})", None
    raise ValueError(op)


def model_expr(op, a, o):
    """Gallina bool: pyttb's raw lists ARE the lists the transliteration over the generated helpers returns"""
    if "exc" in o or o.get("kind") != "sparse" or not raw_ok(o):
        return "false"
    A = U.gsp(a)
    if a["rk"] == "kruskal":
        if op == "div":
            return f"div_k_model_ok {gobs_sparse_x(o)} {A} {U.gkt(a)}"
        if not tgen.all_int(o["vals"]):
            return "false"
        return f"{'mul_k_filtered_model_ok' if KRUSKAL_FILTERED else 'mul_k_model_ok'} {gobs_sparse_z(o)} {A} {U.gkt(a)}"
    if op == "div" and a["rk"] == "dense":
        # wave 5: sparse / dense as the code is (stored rows in stored order, each x / T[s]; open finding C03-N5), Model/C03W5.v
        return f"div_dense_model_ok {gobs_sparse_x(o)} {A} {tgen.gdense(a['shape'], a['bd'])}"
    if op == "div":
        return f"div_model_ok {gobs_sparse_x(o)} {A} {U.gsp(a, 'bsubs', 'bvals')}"
    if not tgen.all_int(o["vals"]):
        return "false"
    if a["rk"] == "sparse":
        return f"{op}_sparse_model_ok {gobs_sparse_z(o)} {A} {U.gsp(a, 'bsubs', 'bvals')}"
    return f"{op}_dense_model_ok {gobs_sparse_z(o)} {A} {tgen.gdense(a['shape'], a['bd'])}"
    raise ValueError(op)


def coq_check(c, o):
    a = c.args
    if "exc" in o or o.get("kind") != "steps" or not o.get("intact", False):
        return "false"
    if c.op.startswith("hist:"):
        # wave 5: first request on the initial tensor, second request on the object changed in place AND on the rebuilt tensor: each raw
        # result is well-formed and denotes the element-wise specification on the literal operands; both second results are the same lists
        op0, op1 = c.op[5:].split(",")
        if len(o["steps"]) != 3 or not o.get("same_as_rebuilt", False):
            return "false"
        h = a["hist"]
        z0, x0 = first_spec(op0, h["a0"])
        z1, x1 = first_spec(op1, a)
        # the stored lists of the object after its history ARE the lists of the Coq model of the assignments (Model/C03Hist.v sp_assigns;
        # theorems C03_assign / C03_assigns_wf), stored order included
        st = o.get("state")
        if h["who"] == "T":      # dense object with a history: its data after the assignments is compared raw by the runner (intact)
            return " && ".join(f"({e})" for e in (step_expr(o["steps"][0], z0, x0), step_expr(o["steps"][1], z1, x1), step_expr(o["steps"][2], z1, x1)))
        if not st or not tgen.all_int(st["vals"]):
            return "false"
        asg = "[" + "; ".join(f"({gnlist(sub)}, {gz(val)})" for sub, val in h["assign"]) + "]" if h["assign"] else "(@nil (list nat * Z))"
        es = f"hist_state_ok {tgen.gsparse(st['shape'], st['subs'], st['vals'])} {U.gsp(h['a0'])} {asg}"
        return " && ".join(f"({e})" for e in (es, step_expr(o["steps"][0], z0, x0), step_expr(o["steps"][1], z1, x1), step_expr(o["steps"][2], z1, x1)))
    ops = c.op.split(":")[1:] if c.op.startswith("then:") else [c.op]
    if len(o["steps"]) != len(ops):
        return "false"
    if a["shape"] == []:
        return " && ".join(f"({ord0_expr(st)})" for st in o["steps"])
    if c.op.endswith("model"):
        return model_expr(base_op(c.op), a, o["steps"][0])
    z1, x1 = first_spec(ops[0], a)
    e = step_expr(o["steps"][0], z1, x1)
    if len(ops) == 1:
        return e
    A, f1, r1, op2 = U.gsp(a), U.COQ_F[ops[0]], U.grhs(a), ops[1]
    if op2 in U.UNARY:
        e2 = step_expr(o["steps"][1], f"(spec_then_un {f1} {un_fun(op2)} {A} {r1})")
    elif op2 == "div":
        e2 = step_expr(o["steps"][1], None, f"(spec_then_div {f1} {A} {r1} {gr2(a)})")
    else:
        e2 = step_expr(o["steps"][1], f"(spec_then {f1} {U.COQ_F[op2]} {A} {r1} {gr2(a)})")
    return f"({e}) && ({e2})"


# ---------------------------------------------------------------------------------------------
# brute-force oracle (pure Python loops; shares nothing with pyttb or with the Coq model)
# ---------------------------------------------------------------------------------------------
def oracle(c, o):
    if c.op.startswith("hist:"):
        return U.judge_hist(o, c.op, c.args)
    if c.args["shape"] == []:
        return U.judge_ord0(o)
    if c.op.endswith("model") and c.args.get("rk") == "kruskal":
        return U.judge_k_asis(o, base_op(c.op), c.args, KRUSKAL_FILTERED)
    if c.op == "divmodel" and c.args.get("rk") == "dense":
        return U.judge_div_dense_asis(o, c.args)
    if c.op == "divmodel":
        return U.judge_div_asis(o, c.args)
    return U.judge_steps(o, base_op(c.op), c.args, zeros_ok=False)


# ---------------------------------------------------------------------------------------------
# known findings: triggers (input classes on which a recorded defect manifests) and witnesses
# ---------------------------------------------------------------------------------------------
def _rk(c):
    return c.args.get("rk")


def _div_sparse(c):
    a = c.args
    if c.op != "div" or _rk(c) != "sparse":
        return None
    return {tuple(s) for s in a["subs"]}, {tuple(s) for s in a["bsubs"]}


def _div_sparse_supports_differ(c):
    """C03-N7: x/0 -> NaN (not +-inf), 0/x stored as an explicit zero: exactly the inputs whose stored supports differ"""
    p = _div_sparse(c)
    return p is not None and p[0] != p[1]


def _div_dense_00(c):
    a = c.args
    if c.op != "div" or _rk(c) != "dense":
        return False
    A = U.dense_of(a["shape"], a["subs"], a["vals"])
    return any(x == 0 and y == 0 for x, y in zip(A, a["bd"]))


def _kr(c, ops):
    return c.args.get("rk") == "kruskal" and c.op in ops and c.args["shape"] != []


def _div_kruskal_clamped(c):
    """C03-K3: the eps clamp is visible: K <= 0 at a stored subscript (x / eps instead of x / K), or K = 0 at an implicit
    zero (0 instead of NaN); this is EXACTLY the class on which the quotient differs from the element-wise one: theorem
    C03_div_kruskal_exact_iff (integer operands)"""
    if not _kr(c, ("div",)):
        return False
    a = c.args
    st = {tuple(s) for s in a["subs"]}
    for s in tgen.all_subs(a["shape"]):
        k = U.kvalue(a, s)
        if (tuple(s) in st and k <= 0) or (tuple(s) not in st and k == 0):
            return True
    return False


def _order0_dense(c):
    """C03-Z0: order-0 sparse operand (pyttb's empty tensor) with the order-0 dense tensor: + == < <= > >= raise"""
    return c.args["shape"] == [] and c.args.get("rk") == "dense" and c.op in ("add", "eq", "lt", "le", "gt", "ge")


TRIGGERS = {
    "order0_dense_operand": _order0_dense,
    "div_kruskal_clamped": _div_kruskal_clamped,
    # only the OPEN findings keep a trigger (C03-N7 sparse/sparse division with differing supports, C03-N5 sparse/dense
    # division at common zeros); A-07 is repaired (e2beb21): its witness is a regression case (REGRESSION)
    "div_sparse_supports_differ": _div_sparse_supports_differ,
    "div_dense_common_zero": _div_dense_00,
}


def _witness(op, args):
    def run():
        c = Case(op, args)
        return oracle(c, run_impl(c))
    return run


W22 = {"shape": [2, 2]}
# the Kruskal tensor [[2, 0], [5, 3]] (rank 2), zero at [0, 1]
WK = {"kw": [2, 1], "kf": [[[1, 0], [2, 1]], [[1, 1], [0, 3]]]}
WITNESS_INPUTS = {
    "C03-N7": ("div", dict(W22, subs=[[1, 0]], vals=[4], rk="sparse", bsubs=[[1, 1]], bvals=[3])),
    "C03-N5": ("div", dict(W22, subs=[[1, 1], [0, 0]], vals=[3, 2], rk="dense", bd=[1, 0, 2, 3])),
    "C03-Z0": ("eq", dict(shape=[], subs=[], vals=[], rk="dense", bd=[])),
    "C03-K3": ("div", dict(W22, subs=[[1, 1], [0, 0], [0, 1]], vals=[3, 2, 5], rk="kruskal", kw=[1], kf=[[[1], [-2]], [[1], [3]]])),
}
WITNESSES = {k: _witness(*v) for k, v in WITNESS_INPUTS.items()}
# witnesses of repaired findings (A-07 same support / opposite stored orders; the same on a 1-way tensor; C03-DT2 empty / empty)
REGRESSION = [
    # witnesses of C03-K1 / C03-K2 (repaired in /repo d4293a0): ordinary regression cases
    ("mul", dict(W22, subs=[], vals=[], rk="kruskal", **WK)),
    ("mul", dict(W22, subs=[[1, 1], [0, 0], [0, 1]], vals=[3, 2, 5], rk="kruskal", **WK)),
    ("div", dict(W22, subs=[[1, 1], [0, 0]], vals=[3, 2], rk="sparse", bsubs=[[0, 0], [1, 1]], bvals=[5, 7])),
    ("div", dict(shape=[3], subs=[[2], [0], [1]], vals=[3, 2, -1], rk="sparse", bsubs=[[0], [1], [2]], bvals=[5, 7, 2])),
    ("div", dict(shape=[3], subs=[], vals=[], rk="sparse", bsubs=[], bvals=[])),
    ("mul", dict(W22, subs=[[1, 1], [0, 0]], vals=[3, 2], rk="sparse", bsubs=[[0, 0], [1, 1]], bvals=[5, 7])),
    ("eq", dict(W22, subs=[[1, 1], [0, 0]], vals=[3, 2], rk="scalar", c=2)),
    ("ne", dict(W22, subs=[[1, 1], [0, 0]], vals=[3, 2], rk="scalar", c=2)),
    ("ne", dict(W22, subs=[], vals=[], rk="dense", bd=[0, 0, 0, 1])),
    ("and", dict(W22, subs=[[0, 1], [1, 1]], vals=[3, 3], rk="dense", bd=[0, 0, 3, 0])),
]

CORRESPONDENCE_ONLY = [
    "__truediv__ with a SPARSE right-hand side: the code as it is (repaired in e2beb21: finding A-07 fixed; open finding C03-N7 x/0 -> NaN "
    "and 0/x stored as an explicit zero) is transliterated over the generated helpers and PROVED position by position "
    "(C03_div_sparse_gen_char / _partial / _same_support / _ieee: right wherever the dividend is 0 or the divisor is nonzero, NaN where a "
    "nonzero is divided by an implicit zero, every position stored), the full statement is refuted (C03_div_sparse_refuted), and the "
    "transliteration is tied to pyttb list for list (op divmodel); the CORRECT quotient (+-inf at x/0, nothing stored at 0/x) is "
    "checked against the executable IEEE specification spec_div only",
    "__truediv__ with a DENSE right-hand side at positions where both operands are 0 (open finding C03-N5): the code as it is IS proved list for "
    "list (C03_div_dense_rows), right exactly where the operands are not both 0 (C03_div_dense_exact_iff, C03_div_dense_partial / _refuted) and tied "
    "list for list (op divmodel, dense operand); the CORRECT quotient (NaN at 0/0) is checked against the executable specification spec_div only",
    "__rtruediv__ (scalar / sparse) and sparse (+ - or xor) scalar/dense: full() then the dense operator: proved generically "
    "(C03_dense_result_scalar / _dense for any element function), the dense operator itself is tensor.py's (C02)",
    "inside __eq__ (dense) / __ne__ (dense): the order in which tensor.find() (F order) and np.where (first mode slowest) list the zero "
    "positions of the dense operand, and the dense gather other[self.subs], are modelled by hand (den_dense, allsubs / allsubsC); the rest of "
    "both paths is over the generated helpers and proved (Props/C03Gen2.v); tied list for list (ops eqmodel / nemodel)",
    "histories on ONE object (hist:<op0>,<op1>: request, in-place element assignments that grow the shape / add / overwrite / delete entries, request "
    "again with the same object, same request on the tensor rebuilt by the constructor): every raw result against the element-wise specification on the "
    "literal operands; the single-subscript assignment is a hand model (Model/C03Hist.v sp_assign: overwrite in place / delete / append, shape = "
    "max(dim, sub + 1)) with theorems (C03_assign: well-formed, point update, shape grows; C03_not_after_assign / C03_cmp_scalar_after_assign: every "
    "position of the GROWN shape is marked), tied list for list to the object's stored lists after its history (hist_state_ok); that pyttb answers "
    "the second request from the object's current state (and not from anything kept from the first request) is what the correspondence checks; "
    "block / slice assignments and order-expanding assignments are not generated",
    "two-step histories (A op1 R1) op2 R2, memory layouts of the operands (F / C / strided views), operands unchanged after the call, "
    "integer dtype of the result's subscripts and full() of every sparse result: correspondence only (composition of the per-operator theorems "
    "needs the intermediate to be well-formed, which the theorems give; the Python object identity / layout is not modelled)",
    "sparse / Kruskal where the eps clamp is visible (K <= 0 at a stored subscript, K = 0 at an implicit zero: open finding C03-K3): the code "
    "as it is IS proved (C03_div_kruskal_ieee, exact class C03_div_kruskal_exact_iff) and tied list for list (op divmodel); the CORRECT quotient "
    "on that class is checked against the executable specification spec_div_k only. (sparse * Kruskal is fully proved on the repaired code: "
    "C03_mul_kruskal_filtered, findings C03-K1 / C03-K2 fixed in d4293a0.) Memory layout of the factor matrices, Kruskal operand unchanged after "
    "the call: correspondence only",
    "order-0 operands (pyttb's shape () = the empty tensor): closed theorems C03_order0_generic / C03_order0_generated for the algorithms that do "
    "not enumerate the shape / take pyttb's enumeration as a parameter, C03_order0_enumerating (wave 5) for != scalar, == scalar, / scalar over the "
    "generated tt_setdiff_rows and * / logical_and with the dense operand; the remaining paths (dense results through full(), the hand models over "
    "Base.Index.allsubs) by the correspondence checkers ord0_sp_ok / ord0_dense_ok only; open finding C03-Z0 (order-0 dense operand raises)",
]
