(* Wave 7: the GENERATED sptenmat constructor with copy=True stores no zero value: np.nonzero + gather = filter. *)
From Coq Require Import List ZArith Arith Bool Lia.
From PV Require Import Np.NpZ Np.NpZ2 Np.NpZ3 Np.NpZ7 Np.NpZ7b Proofs.NpZProofs Gen.GenUtils Gen.GenUtils2 Gen.GenSptenmat7
  Model.W7Tenmat Model.W7Sptenmat Proofs.W7Sptenmat.
Import ListNotations.
Local Open Scope Z_scope.

Definition w7_nz (x : Z) : bool := negb (x =? 0).

Lemma w7_nz_gen (v : vec) : forall pre : vec,
  map (fun p : Z * Z => znth 0 (pre ++ v) (snd p))
      (filter (fun p : Z * Z => negb (fst p =? 0))
              (combine v (map (fun k => Z.of_nat (length pre + k)) (seq 0 (length v)))))
  = filter w7_nz v.
Proof.
  induction v as [|x v IH]; intro pre; [reflexivity|].
  cbn [length seq map combine filter fst].
  rewrite <- seq_shift, (map_map S (fun k => Z.of_nat (length pre + k))).
  assert (E : map (fun k => Z.of_nat (length pre + S k)) (seq 0 (length v))
            = map (fun k => Z.of_nat (length (pre ++ [x]) + k)) (seq 0 (length v))).
  { apply map_ext. intro k. rewrite app_length. cbn [length]. f_equal. lia. }
  rewrite E. replace (pre ++ x :: v) with ((pre ++ [x]) ++ v) by (rewrite <- app_assoc; reflexivity).
  unfold w7_nz at 1. destruct (negb (x =? 0)); cbn [map snd].
  - rewrite IH. f_equal. cbn [snd]. rewrite Nat.add_0_r, znth_nat. rewrite <- app_assoc. cbn [app]. apply nth_middle.
  - apply IH.
Qed.

Lemma w7_take_nonzero (v : vec) : np_take 0 v (np7_nonzero v) = filter w7_nz v.
Proof.
  unfold np_take, np7_nonzero, np_arange.
  replace (Z.to_nat (zlen v - 0)) with (length v) by (unfold zlen; lia).
  rewrite map_map. rewrite <- (w7_nz_gen v []). cbn [app length]. do 3 f_equal.
Qed.

Lemma w7_forallb_filter (f : Z -> bool) l : forallb f (filter f l) = true.
Proof. induction l as [|x l IH]; [reflexivity|]. cbn [filter]. destruct (f x) eqn:E; [cbn [forallb]; rewrite E; exact IH|exact IH]. Qed.

Theorem gen_sptenmat_init_copy_no_zero subs vals rdims cdims tshape M :
  is_some rdims || is_some cdims = true ->
  sptenmat_init subs vals rdims cdims tshape true = Ok M ->
  forallb w7_nz (stm7_vals M) = true.
Proof.
  intros Hd. rewrite sptenmat_init_bridge. unfold H_sptenmat_init.
  assert (E : (negb (is_some rdims) && negb (is_some cdims)) = false) by (destruct rdims, cdims; simpl in *; auto; discriminate).
  rewrite E. cbv zeta.
  destruct (gather_wrap_dims (zlen tshape) rdims cdims None) as [[r c]|]; cbn [bind]; [|discriminate].
  destruct (negb (H_dims_perm (zlen tshape) r c)); [discriminate|].
  destruct (negb (H_side_ok _ tshape r 0)); [discriminate|].
  destruct (negb (H_side_ok _ tshape c 1)); [discriminate|].
  destruct (H_dedup true _ _) as [[s1 v1]|]; cbn [bind]; [|discriminate].
  unfold H_dropzeros. cbv zeta.
  destruct (np_take_ok s1 (np7_nonzero v1) && np_take_ok v1 (np7_nonzero v1)); cbn [bind]; [|discriminate].
  intro H. injection H as <-. cbn [stm7_vals]. rewrite w7_take_nonzero. apply w7_forallb_filter.
Qed.
