(* Proofs/W4FromVectorModel.v — the GENERATED classmethod ktensor.from_vector (Gen/GenKtensor4b.v) computes the hand model
   k_from_vector of Model/C08Kruskal.v (blocks cut off the data with firstn / skipn) — through from_vector_bridge and the
   prefix-sum form of the generated block bounds. *)
From Coq Require Import List ZArith Arith Bool Lia.
From PV Require Import Np.NpZ Np.NpZ2 Np.NpZ3 Np.NpZ3c Np.NpZ3d Np.NpZ3e Np.NpZ4 Np.NpZ4c Proofs.NpZProofs Model.Repr Model.C08Kruskal
  Model.W4Ktensor Model.W4FromVector Proofs.W4Loops Proofs.W4Slices Proofs.W4FromVector Gen.GenKtensor4b.
Import ListNotations.
Local Open Scope Z_scope.

Lemma reshape2_unvec (v : vec) (m R : nat) : np_reshape2 OrdF v (Z.of_nat m) (Z.of_nat R) = unvec_factor 0 m R v.
Proof.
  unfold np_reshape2, unvec_factor. rewrite !w4_np_arange_0, map_map. apply map_ext. intros i. rewrite map_map. apply map_ext. intros r.
  replace (Z.of_nat i + Z.of_nat m * Z.of_nat r) with (Z.of_nat (i + m * r)) by lia. apply znth_nat.
Qed.

Lemma zsum_app (a b : vec) : zsum (a ++ b) = zsum a + zsum b.
Proof. unfold zsum. induction a as [|x a IH]; cbn [app fold_right]; [lia|]. rewrite IH. lia. Qed.

Lemma zsum_nats (s : vec) : (forall x, In x s -> 0 <= x) -> zsum s = Z.of_nat (sum_nat (nats s)).
Proof.
  unfold zsum, nats. induction s as [|x s IH]; intros H; cbn [map fold_right sum_nat]; [reflexivity|].
  rewrite IH by (intros y Hy; apply H; right; exact Hy). pose proof (H x (or_introl eq_refl)).
  rewrite Nat2Z.inj_add, Z2Nat.id by assumption. reflexivity.
Qed.

Lemma firstn_app_exact {A} (pre l : list A) : firstn (length pre) (pre ++ l) = pre.
Proof. induction pre as [|x pre IH]; cbn; [now destruct l|]. now rewrite IH. Qed.

Lemma prefix_slice (pre s : vec) (k : Z) : k = zlen pre -> py_slice 0 (pre ++ s) (mkslice (Some 0) (Some k) None) = pre.
Proof.
  intros ->. rewrite py_slice_in by (unfold zlen; try rewrite app_length; lia).
  cbn [Z.to_nat skipn]. rewrite Z.sub_0_r. unfold zlen. rewrite Nat2Z.id. apply firstn_app_exact.
Qed.

Lemma skipn_skipn' {A} (l : list A) : forall a b, skipn a (skipn b l) = skipn (b + a) l.
Proof. intros a b. revert l. induction b as [|b IH]; intros l; [reflexivity|]. destruct l as [|x l]; cbn [skipn Nat.add]; [now destruct a|]. apply IH. Qed.

(* the generated blocks, read off with prefix sums of the shape, are the blocks cut off successively *)
Lemma blocks_model (data : vec) (R shift : Z) : 0 <= R -> 0 <= shift ->
  forall s pre, (forall x, In x s -> 0 <= x) -> (forall x, In x pre -> 0 <= x) ->
    R * (zsum pre + zsum s) + shift <= zlen data ->
    map (fun p : Z * Z => np_reshape2 OrdF (H_fv_chunk data (pre ++ s) R shift (fst p)) (snd p) R) (np_enumerate (zlen pre) s) =
    unvec_factors 0 (nats s) (Z.to_nat R) (skipn (Z.to_nat (R * zsum pre + shift)) data).
Proof.
  intros HR Hsh. induction s as [|m s IH]; intros pre Hs Hp Hlen; [reflexivity|].
  cbn [np_enumerate map fst snd nats unvec_factors]. fold (nats s).
  assert (Hm : 0 <= m) by (apply Hs; left; reflexivity).
  assert (Hzp : 0 <= zsum pre) by (rewrite zsum_nats by exact Hp; lia).
  assert (Hzs : 0 <= zsum s) by (rewrite zsum_nats by (intros y Hy; apply Hs; right; exact Hy); lia).
  change (zsum (m :: s)) with (m + zsum s) in Hlen.
  f_equal.
  - unfold H_fv_chunk. rewrite (prefix_slice pre (m :: s) (zlen pre) eq_refl).
    replace (pre ++ m :: s) with ((pre ++ [m]) ++ s) by (now rewrite <- app_assoc).
    rewrite (prefix_slice (pre ++ [m]) s (zlen pre + 1)) by (unfold zlen; rewrite app_length; cbn [length]; lia).
    rewrite zsum_app. change (zsum [m]) with (m + 0). rewrite Z.add_0_r.
    rewrite py_slice_in by nia.
    replace (R * (zsum pre + m) + shift - (R * zsum pre + shift)) with (m * R) by lia.
    rewrite <- (Z2Nat.id m) at 2 by exact Hm. rewrite <- (Z2Nat.id R) at 3 by exact HR. rewrite reshape2_unvec.
    f_equal. f_equal. nia.
  - replace (pre ++ m :: s) with ((pre ++ [m]) ++ s) by (now rewrite <- app_assoc).
    replace (zlen pre + 1) with (zlen (pre ++ [m])) by (unfold zlen; rewrite app_length; cbn [length]; lia).
    rewrite IH.
    + rewrite skipn_skipn'. f_equal. f_equal. rewrite zsum_app. change (zsum [m]) with (m + 0). nia.
    + intros y Hy. apply Hs. right. exact Hy.
    + intros y Hy. apply in_app_or in Hy as [Hy|[<-|[]]]; [apply Hp; exact Hy|exact Hm].
    + rewrite zsum_app. change (zsum [m]) with (m + 0). lia.
Qed.

Theorem gen_from_vector_model (cls : unit) (data shape : vec) (cw : bool) (k : ktz) :
  (forall x, In x shape -> 0 <= x) -> ktensor_from_vector cls data shape cw = Ok k ->
  to_K k = k_from_vector 0 1 data (nats shape) cw.
Proof.
  intros Hs E. pose proof (gen_from_vector_shape cls data shape cw k E) as (Hlen & _ & _). cbv zeta in Hlen.
  rewrite from_vector_bridge in E. unfold H_from_vector in E. cbv zeta in E.
  set (d := zsum shape + (if cw then 1 else 0)) in *. set (R := zlen data / d) in *.
  destruct (d =? 0) eqn:Ed; [discriminate|]. apply Z.eqb_neq in Ed.
  destruct (zlen data mod d =? 0); [|discriminate]. cbn [negb] in E.
  assert (Hz : zsum shape = Z.of_nat (sum_nat (nats shape))) by (apply zsum_nats; exact Hs).
  assert (Hd : 0 < d) by (unfold d; destruct cw; lia).
  assert (HR : 0 <= R) by (unfold R; apply Z.div_pos; [unfold zlen; lia|exact Hd]).
  destruct (negb cw && _); [discriminate|]. destruct (forallb _ _); [|discriminate]. destruct (kt_make_ok _ _); [|discriminate].
  injection E as <-. unfold to_K, k_from_vector. cbn [kt_weights kt_factors].
  pose proof (blocks_model data R (if cw then R else 0) HR (ltac:(destruct cw; lia)) shape [] Hs (fun x F => match F with end)) as B.
  cbn [app] in B. change (zlen (@nil Z)) with 0 in B. change (zsum []) with 0 in B.
  rewrite B by (destruct cw; unfold d in Hlen; nia). clear B.
  destruct cw.
  - assert (ER : (length data / (sum_nat (nats shape) + 1))%nat = Z.to_nat R).
    { apply Nat2Z.inj. rewrite Nat2Z.inj_div, Z2Nat.id by exact HR. unfold R, d, zlen. rewrite Hz. f_equal. lia. }
    rewrite ER. f_equal.
    + rewrite py_slice_in by (unfold d in Hlen; nia). cbn [Z.to_nat skipn]. now rewrite Z.sub_0_r.
    + f_equal. f_equal. lia.
  - assert (ER : (length data / sum_nat (nats shape))%nat = Z.to_nat R).
    { apply Nat2Z.inj. rewrite Nat2Z.inj_div, Z2Nat.id by exact HR. unfold R, d, zlen. rewrite Hz. f_equal. lia. }
    rewrite ER. f_equal. replace (Z.to_nat (R * 0 + 0)) with 0%nat by lia. reflexivity.
Qed.

(* round trip over the two GENERATED functions: what tovec writes, from_vector reads back (when it accepts) *)
From PV Require Import Proofs.C08Proofs Model.W4KtensorVec Proofs.W4KtensorVec Proofs.W4KtensorVecLaws Gen.GenKtensor4.
Theorem gen_vec_roundtrip (self k' : ktz) (v : vec) :
  (forall f row, In f (kt_factors self) -> In row f -> zlen row = zlen (kt_weights self)) ->
  ktensor_tovec self true = Ok v -> ktensor_from_vector tt v (kt_shape self) true = Ok k' -> k' = self.
Proof.
  intros Hwf Et Ef.
  assert (Hs : forall x, In x (kt_shape self) -> 0 <= x).
  { intros x Hx. unfold kt_shape in Hx. apply in_map_iff in Hx as (f & <- & _). unfold np_nrows, zlen. lia. }
  pose proof (gen_from_vector_model tt v (kt_shape self) true k' Hs Ef) as M.
  rewrite (gen_tovec_model self true v Et) in M.
  assert (Hsh : nats (kt_shape self) = kshape (to_K self)).
  { unfold nats, kt_shape, kshape, to_K, nrows. cbn [kfactors]. rewrite map_map. apply map_ext. intros f. unfold np_nrows, zlen. apply Nat2Z.id. }
  rewrite Hsh in M. rewrite (from_vector_tovec Z 0 1 (to_K self)) in M.
  - destruct k' as [w f], self as [w0 f0]. unfold to_K in M. cbn [kt_weights kt_factors] in M. injection M as -> ->. reflexivity.
  - unfold wf_k, to_K, krank. cbn [kfactors kweights]. apply Forall_forall. intros f Hf. apply Forall_forall. intros row Hr.
    pose proof (Hwf f row Hf Hr) as H. unfold zlen in H. lia.
Qed.
