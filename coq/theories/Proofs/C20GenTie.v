(* Proofs/C20GenTie.v — wave 4 (tie A): the argument checks of the aggregating sparse constructor, stated over the
   translator-GENERATED tt_sizecheck / tt_subscheck / tt_valscheck (Gen/GenUtils3.v, regenerated from
   /repo/pyttb/pyttb_utils.py on every run).  sptensor.from_aggregator:
       tt_subscheck(subs, False); tt_valscheck(vals, False); ...; shape = parse_shape(shape); tt_sizecheck(shape, False)
   sptendiag hands its constructed shape to from_aggregator.  The size guards of the request models of Model/C20Harness.v
   (zaggregator_z, zsptendiag_chk) ARE the generated check; the two checks the models omit are satisfied by every model
   input (subscripts are naturals, values form a column). *)
From Coq Require Import List ZArith Arith Bool Lia.
From PV Require Import Np.NpZ Np.NpZ2 Np.NpZ3 Gen.GenUtils3 Model.W3Utils Proofs.W3Bridge Proofs.W3Laws.
From PV Require Import Base.Index Np.Array Model.Sparse Model.Repr Model.Harness Model.C20Gen Model.C20Harness.
Import ListNotations.
Local Open Scope Z_scope.

Lemma forallb_ext' {A} (f g : A -> bool) l : (forall x, f x = g x) -> forallb f l = forallb g l.
Proof. intros H. induction l as [|a l IH]; cbn; [reflexivity|]. now rewrite H, IH. Qed.

(* the generated size check on a tuple of Python ints, in assert mode: passes iff every size is positive *)
Theorem gen_sizecheck_ints (s : list Z) :
  tt_sizecheck (int_array [zlen s] s) false = if forallb (fun d => 0 <? d) s then Ok true else Err.
Proof.
  destruct (checks_spec (int_array [zlen s] s) false) as [H _]. rewrite H, size_ok_ints, check_result_spec.
  rewrite (forallb_ext' (fun z => z >? 0) (fun d => 0 <? d)) by (intros z; apply Z.gtb_ltb).
  destruct (forallb _ s); reflexivity.
Qed.

(* from_aggregator with a shape: the model's size guard IS the generated tt_sizecheck *)
Theorem aggregator_size_guard_gen (s : list Z) (N : nat) (subs : list idx) (vals : list Z) (r : reducer) :
  zaggregator_z (Some s) N subs vals r =
  match tt_sizecheck (int_array [zlen s] s) false with
  | Ok _ => zaggregator (Some (to_shape s)) N subs vals r
  | Err => None
  end.
Proof. unfold zaggregator_z. rewrite gen_sizecheck_ints. destruct (forallb _ s); reflexivity. Qed.

(* sptendiag with a shape: the constructed shape max(N, dim) goes through the same generated check *)
Theorem sptendiag_size_guard_gen (e s : list Z) :
  let cs := map (Z.max (Z.of_nat (length e))) s in
  zsptendiag_chk e s =
  match tt_sizecheck (int_array [zlen cs] cs) false with
  | Ok _ => Some (zsptendiag_z e (Some s))
  | Err => None
  end.
Proof.
  intros cs. unfold zsptendiag_chk. rewrite gen_sizecheck_ints. unfold cs. rewrite forallb_map.
  destruct (forallb _ s); reflexivity.
Qed.

(* the checks the models omit: a list of naturals, laid out as an (r x c) integer array, passes the generated subscript
   check; values laid out as a column (n x 1) pass the generated value check *)
Theorem subscheck_nat_gen (r c : Z) (flat : list nat) :
  tt_subscheck (int_array [r; c] (map Z.of_nat flat)) false = Ok true.
Proof.
  destruct (checks_spec (int_array [r; c] (map Z.of_nat flat)) false) as (_ & H & _).
  rewrite H, subs_ok_ints, check_result_spec.
  replace (forallb (fun z => z >=? 0) (map Z.of_nat flat)) with true; [now rewrite orb_true_r|].
  symmetry. apply forallb_forall. intros z Hz. apply in_map_iff in Hz as (k & <- & _). apply Z.geb_le. lia.
Qed.

Theorem valscheck_column_gen (n : Z) k d : tt_valscheck (mknd [n; 1] k d) false = Ok true.
Proof.
  destruct (checks_spec (mknd [n; 1] k d) false) as (_ & _ & H). rewrite H, vals_ok_2d, check_result_spec.
  now rewrite orb_true_r.
Qed.

(* a value array that is NOT a column (n x c, c <> 1, not empty) is rejected by the generated check *)
Theorem valscheck_not_column_gen (n c : Z) k d : n * c <> 0 -> c <> 1 -> tt_valscheck (mknd [n; c] k d) false = Err.
Proof.
  intros H0 H1. destruct (checks_spec (mknd [n; c] k d) false) as (_ & _ & H). rewrite H, vals_ok_2d, check_result_spec.
  apply Z.eqb_neq in H0, H1. now rewrite H0, H1.
Qed.

Theorem gen_tie_examples :
  zaggregator_z (Some [2; 0]) 2 [] [] RSum = None /\ tt_sizecheck (int_array [2] [2; 0]) false = Err /\
  tt_sizecheck (int_array [2] [2; 3]) false = Ok true /\
  zsptendiag_chk [] [0; 2] = None /\ zsptendiag_chk [5; 7] [0; -2] = Some (zsptendiag_z [5; 7] (Some [0; -2])) /\
  tt_subscheck (int_array [2; 2] (map Z.of_nat [0; 1; 2; 1]%nat)) false = Ok true /\
  tt_valscheck (int_array [2; 1] [3; 4]) false = Ok true /\ tt_valscheck (int_array [2; 3] [1; 2; 3; 2; 2; 2]) false = Err.
Proof. repeat split; reflexivity. Qed.
