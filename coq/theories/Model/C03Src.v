(* Model/C03Src.v — wave 3: sptensor._compare transliterated AS WRITTEN in the source (pyttb/sptensor.py), i.e. with
   both `operator` and `opposite_operator`, the `include_zero` flag and the `subs.size > 0` guards, over the row helpers
   GENERATED from pyttb_utils.py; __eq__ (scalar) over the generated helper (c == 0 -> logical_not).
     __le__ = _compare(other, le, ge, True)   __lt__ = _compare(other, lt, gt)
     __ge__ = _compare(other, ge, le, True)   __gt__ = _compare(other, gt, lt)
   Definitions only; proofs in Proofs/C03Src.v. *)
From Coq Require Import List ZArith Bool.
From PV Require Import Base.Index Np.NpZ Np.Array Gen.GenUtils Model.Sparse Model.C03Ops Model.C03Gen Model.C03More.
Import ListNotations.

Section Src.
Context {V : Type} (v0 : V) (isz : V -> bool).
Variables (one : V).
Variables (cmp opp : V -> V -> bool) (include_zero : bool).

(* Case 1 (scalar):
     subs1 = self.subs[operator(self.vals, other)]
     if opposite_operator(other, 0): subs2 = allsubs[tt_setdiff_rows(allsubs, self.subs)]; subs = vstack(subs1, subs2)
     else: subs = subs1 *)
Definition impl_cmp_scalar_src (A : sparse V) (c : V) : res (sparse V) :=
  let subs1 := map fst (filter (fun e => cmp (snd e) c) (entries A)) in
  if opp c v0 then
    bind (gen_diff (allsubs (sshape A)) (ssubs A)) (fun subs2 => Ok (sp_const (sshape A) (subs1 ++ subs2) one))
  else Ok (sp_const (sshape A) subs1 one).

(* Case 2a (two sparse tensors):
     subs1 = self.subs[tt_setdiff_rows(self.subs, other.subs)];  subs1 = subs1[not opposite_operator(self.extract(subs1), 0)]
     subs2 = other.subs[tt_setdiff_rows(other.subs, self.subs)]; subs2 = subs2[not operator(other.extract(subs2), 0)]
     subs3 = self.subs[tt_intersect_rows(self.subs, other.subs)]; subs3 = subs3[operator(self.extract(subs3), other.extract(subs3))]
     if include_zero: subs4 = xzerosubs[tt_intersect_rows(xzerosubs, yzerosubs)] *)
Definition impl_cmp_src (A B : sparse V) : res (sparse V) :=
  bind (if nonempty (ssubs A) then
          bind (gen_diff (ssubs A) (ssubs B)) (fun d1 => Ok (filter (fun i => negb (opp (den_sp v0 A i) v0)) d1))
        else Ok []) (fun subs1 =>
  bind (if nonempty (ssubs B) then
          bind (gen_diff (ssubs B) (ssubs A)) (fun d2 => Ok (filter (fun i => negb (cmp (den_sp v0 B i) v0)) d2))
        else Ok []) (fun subs2 =>
  bind (if nonempty (ssubs A) then
          bind (gen_inter (ssubs A) (ssubs B)) (fun c3 => Ok (filter (fun i => cmp (den_sp v0 A i) (den_sp v0 B i)) c3))
        else Ok []) (fun subs3 =>
  if include_zero then
    bind (gen_diff (allsubs (sshape A)) (ssubs A)) (fun xzerosubs =>
    bind (gen_diff (allsubs (sshape B)) (ssubs B)) (fun yzerosubs =>
    bind (gen_inter xzerosubs yzerosubs) (fun subs4 =>
    Ok (sp_const (sshape A) (subs1 ++ subs2 ++ subs3 ++ subs4) one))))
  else Ok (sp_const (sshape A) (subs1 ++ subs2 ++ subs3) one)))).

(* Case 2b (dense tensor):
     subs1, _ = opposite_operator(other, 0).find();  subs1 = subs1[tt_setdiff_rows(subs1, self.subs)]
     subs2 = self.subs[operator(self.vals, other[self.subs])] *)
Definition impl_cmp_dense_src (A : sparse V) (T : dense V) : res (sparse V) :=
  let found := filter (fun i => opp (den_dense v0 T i) v0) (allsubs (sshape A)) in
  bind (gen_diff found (ssubs A)) (fun subs1 =>
  let subs2 := map fst (filter (fun e => cmp (snd e) (den_dense v0 T (fst e))) (entries A)) in
  Ok (sp_const (sshape A) (subs1 ++ subs2) one)).

(* __eq__ (scalar): `if other == 0: return self.logical_not()` (generated tt_setdiff_rows), else the stored entries equal to c *)
Definition impl_eq_scalar_src (veqb : V -> V -> bool) (A : sparse V) (c : V) : res (sparse V) :=
  if isz c then impl_not_gen one A
  else Ok (sp_const (sshape A) (map fst (filter (fun e => veqb (snd e) c) (entries A))) one).
End Src.

(* the four (operator, opposite_operator, include_zero) triples pyttb passes, on Z *)
Local Open Scope Z_scope.
Definition zcmp_le (x y : Z) : bool := x <=? y.
Definition zcmp_lt (x y : Z) : bool := x <? y.
Definition zcmp_ge (x y : Z) : bool := y <=? x.
Definition zcmp_gt (x y : Z) : bool := y <? x.
(* the laws "symmetry around zero" that `opposite_operator` must satisfy for the algorithm to be right *)
Definition opposite_laws {V} (v0 : V) (cmp opp : V -> V -> bool) (include_zero : bool) : Prop :=
  (forall c, opp c v0 = cmp v0 c) /\
  (forall x, x <> v0 -> negb (opp x v0) = cmp x v0) /\
  (forall y, y <> v0 -> negb (cmp y v0) = cmp v0 y) /\
  include_zero = cmp v0 v0.
