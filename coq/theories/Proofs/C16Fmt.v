(* Proofs/C16Fmt.v — ANY number format (fmt_data / fmt_weights coarser than "%.16e" included), no hypothesis on print / parse:
   reading what export writes gives the object with every value v replaced by parse (print v), same type, shape, subscripts,
   stored order.  Route: import_data looks at a number text only through parse (naturality: parsing all number texts of the
   file beforehand changes nothing), export writes print v where the identity format would write v, and the identity
   format round-trips (Proofs/C16Lines.v). *)
From Coq Require Import String.
From Coq Require Import List Arith ZArith Lia Bool.
From PV Require Import Base.Index Np.Array Model.Sparse Model.Repr Model.C16IO Model.C16Lines Proofs.C16Proofs Proofs.C16Lines.
Import ListNotations.

Section N.
Variables (D T : Type) (d0 : D) (parse : T -> D) (ofZ : Z -> D).
Definition idD (v : D) : D := v.
Definition ptok (t : token T) : token D :=
  match t with Word w => Word w | Int z => Int z | Num x => Num (parse x) end.
Definition pstream (s : stream T) : stream D := map (option_map ptok) s.
Definition plines (f : list (list (token T))) : list (list (token D)) := map (map ptok) f.

Lemma to_stream_nat f : pstream (to_stream T f) = to_stream D (plines f).
Proof.
  unfold pstream, plines, to_stream. induction f as [|l f IH]; [reflexivity|]. cbn [flat_map map].
  rewrite map_app, IH, map_app, !map_map. cbn [map option_map]. reflexivity.
Qed.
Lemma readline_nat s : readline D (pstream s) = (map ptok (fst (readline T s)), pstream (snd (readline T s))).
Proof. induction s as [|[t|] s IH]; cbn; auto. fold (pstream s). rewrite IH. reflexivity. Qed.
Lemma skip_ws_nat s : skip_ws D (pstream s) = pstream (skip_ws T s).
Proof.
  induction s as [|[t|] s IH]; cbn; auto. destruct t as [w|z|x]; cbn; auto. destruct w; cbn; auto.
Qed.
Lemma val_tok_nat t : val_tok D D idD ofZ (ptok t) = val_tok D T parse ofZ t.
Proof. destruct t; reflexivity. Qed.
Lemma int_tok_nat t : int_tok D (ptok t) = int_tok T t.
Proof. destruct t; reflexivity. Qed.
Lemma head_int_nat l : head_int D (map ptok l) = head_int T l.
Proof. destruct l; [reflexivity|]. apply int_tok_nat. Qed.
Lemma all_ints_nat l : all_ints D (map ptok l) = all_ints T l.
Proof. induction l as [|t l IH]; [reflexivity|]. cbn [map all_ints]. now rewrite int_tok_nat, IH. Qed.

Definition pq {A} (q : A * stream T) : A * stream D := (fst q, pstream (snd q)).

Lemma rd_vals_aux_nat n s :
  rd_vals_aux D D idD ofZ n (pstream s) = option_map pq (rd_vals_aux D T parse ofZ n s).
Proof.
  revert s; induction n as [|n IH]; intros s; [reflexivity|]. cbn [rd_vals_aux]. rewrite skip_ws_nat.
  destruct (skip_ws T s) as [|[t|] r]; cbn [pstream map option_map]; try reflexivity. fold (pstream r).
  rewrite val_tok_nat. destruct (val_tok D T parse ofZ t); cbn [bindo option_map]; [|reflexivity].
  rewrite IH. destruct (rd_vals_aux D T parse ofZ n r) as [[a b]|]; reflexivity.
Qed.
Lemma rd_vals_nat n s : rd_vals D D idD ofZ n (pstream s) = option_map pq (rd_vals D T parse ofZ n s).
Proof.
  unfold rd_vals. destruct n; [reflexivity|]. rewrite rd_vals_aux_nat.
  destruct (rd_vals_aux D T parse ofZ (S n) s) as [[a b]|]; cbn [option_map bindo pq fst snd]; [|reflexivity].
  now rewrite skip_ws_nat.
Qed.
Lemma rd_upto_nat n s : rd_upto D D idD ofZ n (pstream s) = pq (rd_upto D T parse ofZ n s).
Proof.
  revert s; induction n as [|n IH]; intros s; [reflexivity|]. cbn [rd_upto]. rewrite skip_ws_nat.
  destruct (skip_ws T s) as [|[t|] r] eqn:E; cbn [pstream map option_map]; try reflexivity. fold (pstream r).
  rewrite val_tok_nat. destruct (val_tok D T parse ofZ t).
  - rewrite IH. reflexivity.
  - reflexivity.
Qed.
Lemma rd_weights_nat n s : rd_weights D D idD ofZ n (pstream s) = pq (rd_weights D T parse ofZ n s).
Proof.
  unfold rd_weights. destruct n; [reflexivity|]. rewrite rd_upto_nat. unfold pq. cbn [fst snd]. now rewrite skip_ws_nat.
Qed.
Lemma rd_shape_z_nat s : rd_shape_z D (pstream s) = option_map pq (rd_shape_z T s).
Proof.
  unfold rd_shape_z. rewrite readline_nat. cbn [fst snd]. rewrite readline_nat. cbn [fst snd].
  rewrite head_int_nat, all_ints_nat. destruct (head_int T _); [|reflexivity]. cbn [bindo].
  destruct (all_ints T _) as [zs|]; [|reflexivity]. cbn [bindo]. destruct (negb _); reflexivity.
Qed.
Lemma rd_shape_l_nat s : rd_shape_l D (pstream s) = option_map pq (rd_shape_l T s).
Proof.
  unfold rd_shape_l. rewrite rd_shape_z_nat. destruct (rd_shape_z T s) as [[zs r]|]; [|reflexivity].
  cbn [option_map bindo pq fst snd]. destruct (forallb _ zs); reflexivity.
Qed.
Lemma subs_of_nat b l : subs_of D b (map ptok l) = subs_of T b l.
Proof.
  induction l as [|t l IH]; [reflexivity|]. cbn [map subs_of]. rewrite IH. destruct t; reflexivity.
Qed.
Lemma entry_of_line_nat b N l : entry_of_line D D idD ofZ b N (map ptok l) = entry_of_line D T parse ofZ b N l.
Proof.
  unfold entry_of_line. rewrite <- map_rev. destruct (rev l) as [|tv rs]; [reflexivity|]. cbn [map].
  rewrite val_tok_nat, <- map_rev, subs_of_nat. reflexivity.
Qed.
Lemma rd_entries_l_nat b N nz s : rd_entries_l D D idD ofZ b N nz (pstream s) = rd_entries_l D T parse ofZ b N nz s.
Proof.
  revert s; induction nz as [|nz IH]; intros s; [reflexivity|]. cbn [rd_entries_l]. rewrite readline_nat. cbn [fst snd].
  now rewrite entry_of_line_nat, IH.
Qed.
Lemma drop_lines_nat n s : drop_lines D n (pstream s) = pstream (drop_lines T n s).
Proof. revert s; induction n as [|n IH]; intros s; [reflexivity|]. cbn [drop_lines]. rewrite readline_nat. cbn [snd]. apply IH. Qed.
Lemma rd_factors_l_nat R n s : rd_factors_l D D idD ofZ R n (pstream s) = rd_factors_l D T parse ofZ R n s.
Proof.
  revert s; induction n as [|n IH]; intros s; [reflexivity|]. cbn [rd_factors_l]. rewrite readline_nat. cbn [fst snd].
  rewrite rd_shape_l_nat. destruct (rd_shape_l T _) as [[sh r]|]; [|reflexivity]. cbn [option_map bindo pq fst snd].
  destruct sh as [|m [|c [|k sh']]]; try reflexivity. destruct (Nat.eqb c R); [|reflexivity].
  rewrite rd_vals_nat. destruct (rd_vals D T parse ofZ (m * c) r) as [[v r']|]; [|reflexivity].
  cbn [option_map bindo pq fst snd]. destruct (Nat.eqb (m * c) 0); [rewrite drop_lines_nat|]; now rewrite IH.
Qed.

(* import_data looks at a number text only through parse *)
Theorem import_stream_nat b s : import_stream D D d0 idD ofZ b (pstream s) = import_stream D T d0 parse ofZ b s.
Proof.
  unfold import_stream. rewrite readline_nat. cbn [fst snd].
  destruct (fst (readline T s)) as [|[w|z|x] l]; cbn [map ptok]; try reflexivity.
  destruct (String.eqb w "tensor").
  { rewrite rd_shape_l_nat. destruct (rd_shape_l T _) as [[sh r]|]; [|reflexivity]. cbn [option_map bindo pq fst snd].
    rewrite rd_vals_nat. destruct (rd_vals D T parse ofZ _ r) as [[v r']|]; reflexivity. }
  destruct (String.eqb w "sptensor").
  { rewrite rd_shape_l_nat. destruct (rd_shape_l T _) as [[sh r]|]; [|reflexivity]. cbn [option_map bindo pq fst snd].
    rewrite readline_nat. cbn [fst snd]. rewrite head_int_nat. destruct (head_int T _); [|reflexivity]. cbn [bindo].
    destruct (nat_of z); [|reflexivity]. cbn [bindo]. now rewrite rd_entries_l_nat. }
  destruct (String.eqb w "matrix").
  { rewrite rd_shape_l_nat. destruct (rd_shape_l T _) as [[sh r]|]; [|reflexivity]. cbn [option_map bindo pq fst snd].
    destruct sh as [|m [|n [|k sh']]]; rewrite rd_vals_nat; destruct (rd_vals D T parse ofZ _ r) as [[v r']|]; reflexivity. }
  destruct (String.eqb w "ktensor"); [|reflexivity].
  rewrite rd_shape_z_nat. destruct (rd_shape_z T _) as [[sh r]|]; [|reflexivity]. cbn [option_map bindo pq fst snd].
  rewrite readline_nat. cbn [fst snd]. rewrite head_int_nat. destruct (head_int T _); [|reflexivity]. cbn [bindo].
  destruct (nat_of z) as [r0|]; [|reflexivity]. cbn [bindo]. destruct (Nat.eqb (length sh) 0); [reflexivity|].
  rewrite rd_weights_nat. unfold pq. cbn [fst snd].
  destruct (Nat.eqb r0 0); [rewrite readline_nat; cbn [snd]|]; now rewrite rd_factors_l_nat.
Qed.
Corollary import_lines_nat b f : import_lines D D d0 idD ofZ b (plines f) = import_lines D T d0 parse ofZ b f.
Proof. unfold import_lines. now rewrite <- to_stream_nat, import_stream_nat. Qed.
End N.

Section F.
Variables (D T : Type) (d0 : D) (print : D -> T) (parse : T -> D) (ofZ : Z -> D).
(* what a value becomes when it is written with the format and read back *)
Definition rnd (v : D) : D := parse (print v).
Definition map_obj (g : D -> D) (o : obj D) : obj D :=
  match o with
  | OTensor X => OTensor (mkDense (dshape X) (map g (ddata X)))
  | OSptensor Sp => OSptensor (mkSp (sshape Sp) (ssubs Sp) (map g (svals Sp)))
  | OKtensor K => OKtensor (mkK (map g (kweights K)) (map (map (map g)) (kfactors K)))
  | OMatrix m n A => OMatrix m n (map (map g) A)
  | OArray s c => OArray s (map g c)
  end.

Notation plines := (plines D T parse).
Notation ptok := (ptok D T parse).

Lemma plines_cons l f : plines (l :: f) = map ptok l :: plines f.
Proof. reflexivity. Qed.
Lemma plines_app f g : plines (f ++ g) = plines f ++ plines g.
Proof. apply map_app. Qed.

Lemma one_per_line_nat (l : list D) : plines (one_per_line D T print l) = one_per_line D D (idD D) (map rnd l).
Proof. destruct l; [reflexivity|]. unfold plines, one_per_line. cbn [map]. rewrite !map_map. reflexivity. Qed.
Lemma size_lines_nat s : plines (size_lines T s) = size_lines D s.
Proof. unfold plines, size_lines. cbn [map]. rewrite map_map. reflexivity. Qed.
Lemma num_lines_nat (A : list (list D)) :
  plines (map (num_line D T print) A) = map (num_line D D (idD D)) (map (map rnd) A).
Proof. unfold plines, num_line. rewrite !map_map. apply map_ext. intros r. rewrite !map_map. reflexivity. Qed.
Lemma combine_map_r {A B C} (g : B -> C) (l : list A) (l' : list B) :
  combine l (map g l') = map (fun e => (fst e, g (snd e))) (combine l l').
Proof. revert l'; induction l as [|a l IH]; intros [|b l']; cbn; auto. now rewrite IH. Qed.

Lemma wf_map_obj o : wf_obj D o -> wf_obj D (map_obj rnd o).
Proof.
  destruct o as [X|Sp|K|m n A|s c]; cbn [wf_obj map_obj].
  - unfold wf_tensor. cbn. now rewrite map_length.
  - cbn. now rewrite map_length.
  - unfold krank. cbn [kweights kfactors]. rewrite map_length. intros H. rewrite Forall_forall in *. intros B HB.
    apply in_map_iff in HB as (B0 & <- & HB0). specialize (H B0 HB0). rewrite Forall_forall in *. intros r Hr.
    apply in_map_iff in Hr as (r0 & <- & Hr0). rewrite map_length. auto.
  - intros [Hm Hn]. split; [now rewrite map_length|]. rewrite Forall_forall in *. intros r Hr.
    apply in_map_iff in Hr as (r0 & <- & Hr0). rewrite map_length. auto.
  - now rewrite map_length.
Qed.

(* export with a format writes print v where export with the identity format would write v: seen through parse, the file
   is the identity-format file of the rounded object *)
Theorem export_lines_nat b o : wf_obj D o ->
  plines (export_lines D T d0 print b o) = export_lines D D d0 (idD D) b (map_obj rnd o).
Proof.
  destruct o as [X|Sp|K|m n A|s c]; intros W; unfold export_lines; cbn [map_obj];
    rewrite ?plines_cons, ?plines_app, ?plines_cons; cbn [map C16Fmt.ptok].
  - cbn [wf_obj] in W. rewrite (tensor_vals_data D d0 X W).
    assert (W' : wf_tensor D (mkDense (dshape X) (map rnd (ddata X)))) by (unfold wf_tensor in *; cbn; now rewrite map_length).
    rewrite (tensor_vals_data D d0 _ W'). cbn [dshape ddata]. now rewrite size_lines_nat, one_per_line_nat.
  - cbn [sshape ssubs svals]. rewrite size_lines_nat. cbn [map C16Fmt.ptok zn]. do 3 f_equal.
    unfold entries, C16Fmt.plines. cbn [ssubs svals]. rewrite combine_map_r, !map_map. apply map_ext. intros [i v].
    unfold entry_line, num. cbn [fst snd]. rewrite map_app, map_map. reflexivity.
  - unfold kshape, krank. cbn [kweights kfactors]. rewrite !map_length, map_map.
    replace (map (fun x => nrows (map (map rnd) x)) (kfactors K)) with (map (@nrows D) (kfactors K))
      by (apply map_ext; intros B; unfold nrows; now rewrite map_length).
    rewrite size_lines_nat. cbn [map C16Fmt.ptok zn]. do 3 f_equal. f_equal.
    + unfold num_line, num. rewrite !map_map. reflexivity.
    + induction (kfactors K) as [|B Fs IH]; [reflexivity|]. cbn [flat_map map]. rewrite plines_app, IH. f_equal.
      unfold factor_lines. rewrite plines_cons, plines_app. cbn [map C16Fmt.ptok]. f_equal.
      rewrite size_lines_nat, num_lines_nat, map_length. reflexivity.
  - rewrite size_lines_nat, one_per_line_nat. now rewrite concat_map.
  - now rewrite size_lines_nat, one_per_line_nat.
Qed.

Lemma wf_lines_map_obj o : wf_lines D o -> wf_lines D (map_obj rnd o).
Proof.
  destruct o as [X|Sp|K|m n A|s c]; cbn [wf_lines map_obj]; auto.
  cbn [kfactors kweights]. intros H1 H2. destruct (kfactors K); [|discriminate]. now rewrite (H1 eq_refl).
Qed.

(* ANY format: import (export_fmt o) = o with every value replaced by parse (print v) *)
Theorem roundtrip_lines_fmt b (o : obj D) : wf_obj D o -> wf_lines D o ->
  import_lines D T d0 parse ofZ b (export_lines D T d0 print b o) = Some (map_obj rnd o).
Proof.
  intros W L. rewrite <- (import_lines_nat D T d0 parse ofZ), (export_lines_nat b o W).
  apply (roundtrip_lines D D d0 (idD D) (idD D) ofZ (fun v => eq_refl)); [apply wf_map_obj, W|apply wf_lines_map_obj, L].
Qed.
End F.
