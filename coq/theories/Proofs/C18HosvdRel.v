(* Proofs/C18HosvdRel.v — C18 "relabelling the modes" for the transliterated DRIVER of hosvd (Proofs/C18Print.v: hv_run, with the
   concrete rank rule of Model/C10Tucker.v, user or automatic ranks, the IndexError path, sequential or not, any verbosity).

   A. Simulation theorem (abstract): two instantiations of the driver's oracles related by a relation on the running tensor and on
      the factor list, whose oracles are equivariant w.r.t. a mode map q, return related results for ANY two verbosities - or both
      raise the IndexError of the rank rule.
   B. Discharge on dense holders (ring-generic, all shapes / orders / permutations): running tensor = dense array, relation
      Y' = np_transpose Y p; eigenvalue list and leading eigenvectors = ANY functions (mode parameter, Gram matrix of the mode-k
      unfolding); shrink = Y.ttm(U^T, k) with the shape actually shrinking (Model/C10Tucker.ttm); core of the non-sequential branch =
      products with all U_m^T in increasing mode order; ||X||^2 = sum of squares.  Uses the Gram-permutation identity and
      ttm_den_permute of Proofs/C18GramPerm.v and the reordering of mode products of Proofs/C18TuckerPerm.v. *)
From Coq Require Import List Arith Lia Bool Ring Permutation ZArith.
From PV Require Import Base.Index Base.Perm Base.Sum Np.Array Model.Sparse Model.Repr Model.C07Ops Model.C10Tucker
                       Model.C14Nvecs Model.C14Gram Proofs.C07Index Proofs.C07Proofs Proofs.C14Sums Proofs.C14Split
                       Proofs.C14GramSp Proofs.C10Ttm Proofs.C10Proj Proofs.C18Tucker Proofs.C18GramPerm Proofs.C18Print
                       Proofs.C18TuckerPerm.
Import ListNotations.

(* ============================================================================================== A. simulation *)
Section Sim.
Variables T T' M FS FS' F : Type.
Variables (f0 : F) (fadd : F -> F -> F) (fltb : F -> F -> bool) (thresh : F -> F) (fleb : F -> F -> bool) (tol : F).
Variables (normsq : T -> F) (eigs : nat -> T -> list F) (lead : nat -> T -> nat -> M) (setf : FS -> nat -> M -> FS) (fs0 : FS)
          (shrink : T -> nat -> M -> T) (core_all : T -> FS -> T) (relnorm : T -> T -> FS -> F) (ranks : nat -> nat).
Variables (normsq' : T' -> F) (eigs' : nat -> T' -> list F) (lead' : nat -> T' -> nat -> M) (setf' : FS' -> nat -> M -> FS') (fs0' : FS')
          (shrink' : T' -> nat -> M -> T') (core_all' : T' -> FS' -> T') (relnorm' : T' -> T' -> FS' -> F) (ranks' : nat -> nat).
Variable sequential : bool.
Variable q : nat -> nat.
Variable okmode : nat -> Prop.
Variables (RT : T -> T' -> Prop) (RF : FS -> FS' -> Prop).
Hypothesis H_norm : forall X X', RT X X' -> normsq' X' = normsq X.
Hypothesis H_ranks : forall k, okmode k -> ranks' (q k) = ranks k.
Hypothesis H_eigs : forall k Y Y', okmode k -> RT Y Y' -> eigs' (q k) Y' = eigs k Y.
Hypothesis H_lead : forall k Y Y' r, okmode k -> RT Y Y' -> lead' (q k) Y' r = lead k Y r.
Hypothesis H_setf : forall k fs fs' U, okmode k -> RF fs fs' -> RF (setf fs k U) (setf' fs' (q k) U).
Hypothesis H_shrink : forall k Y Y' U, okmode k -> RT Y Y' -> RT (shrink Y k U) (shrink' Y' (q k) U).
Hypothesis H_core : forall Y Y' fs fs', RT Y Y' -> RF fs fs' -> RT (core_all Y fs) (core_all' Y' fs').

Definition rel_res (a : option (T * FS)) (b : option (T' * FS')) : Prop :=
  match a, b with
  | None, None => True
  | Some (G, fs), Some (G', fs') => RT G G' /\ RF fs fs'
  | _, _ => False
  end.

Local Notation LOOP := (hv_loop T M FS F f0 fadd fltb eigs lead setf shrink ranks sequential).
Local Notation LOOP' := (hv_loop T' M FS' F f0 fadd fltb eigs' lead' setf' shrink' ranks' sequential).

Lemma hv_loop_sim v v' thr modes : Forall okmode modes -> forall Y Y' fs fs', RT Y Y' -> RF fs fs' ->
  rel_res (fst (LOOP v thr modes Y fs)) (fst (LOOP' v' thr (map q modes) Y' fs')).
Proof.
  induction modes as [|k ms IH]; intros HF Y Y' fs fs' HY Hfs; cbn [map hv_loop fst]; [split; assumption|].
  inversion HF as [|? ? Hk HF']; subst.
  rewrite (H_ranks k Hk), (H_eigs k Y Y' Hk HY).
  destruct (if Nat.eqb (ranks k) 0 then auto_rank f0 fadd fltb (eigs k Y) thr else Some (ranks k)) as [r|]; [|exact I].
  cbn [fst]. rewrite (H_lead k Y Y' r Hk HY). apply IH; [exact HF'| |now apply H_setf].
  destruct sequential; [now apply H_shrink|exact HY].
Qed.

(* hosvd on the two presentations, ANY two verbosities: both raise the rank rule's IndexError, or both return, with related cores
   and related factor lists *)
Theorem hv_run_sim : forall (v v' : Z) (dimorder : list nat) (X : T) (X' : T'),
  Forall okmode dimorder -> RT X X' -> RF fs0 fs0' ->
  rel_res (fst (hv_run T M FS F f0 fadd fltb normsq thresh eigs lead setf fs0 shrink core_all relnorm fleb tol ranks sequential v dimorder X))
          (fst (hv_run T' M FS' F f0 fadd fltb normsq' thresh eigs' lead' setf' fs0' shrink' core_all' relnorm' fleb tol ranks' sequential v'
                       (map q dimorder) X')).
Proof.
  intros v v' dimorder X X' HF HX H0. unfold hv_run. rewrite (H_norm X X' HX).
  pose proof (hv_loop_sim v v' (thresh (normsq X)) dimorder HF X X' fs0 fs0' HX H0) as H.
  destruct (LOOP v (thresh (normsq X)) dimorder X fs0) as [[[Y fs]|] l];
  destruct (LOOP' v' (thresh (normsq X)) (map q dimorder) X' fs0') as [[[Y' fs']|] l']; cbn [fst rel_res] in H |- *; try exact H.
  destruct H as [H1 H2]. split; [|exact H2]. destruct sequential; [exact H1|now apply H_core].
Qed.
End Sim.

(* ============================================================================================== B. dense holders *)
Section Dense.
Variable V : Type.
Variables (v0 v1 : V) (vadd vmul vsub : V -> V -> V) (vopp : V -> V).
Hypothesis Vring : ring_theory v0 v1 vadd vmul vsub vopp (@eq V).
Add Ring Vr18h : Vring.
Notation matrix := (list (list V)).
Local Notation ttmd := (ttm_den v0 vadd vmul).
Local Notation SO := (sum_over v0 vadd).

(* (input_tensor ** 2).collapse() *)
Definition normsq_c (X : dense V) : V := SO (allsubs (dshape X)) (fun i => vmul (den_dense v0 X i) (den_dense v0 X i)).
(* Y.ttm(U.transpose(), k): the mode-k size becomes the number of columns of U *)
Definition shrink_c (Y : dense V) (k : nat) (U : matrix) : dense V := ttm v0 vadd vmul Y k (mtr V v0 U).
(* Y.ttm(factor_matrices, transpose=True) *)
Definition core_all_c (Y : dense V) (fs : list matrix) : dense V := core_c V v0 vadd vmul (dshape Y) (map (@ncols V) fs) fs Y.
(* D[pi] and V[:, pi[0:r]] of eigh(Yk Yk^T): any functions of the mode parameter and the Gram matrix *)
Definition gram_of (Y : dense V) (k : nat) : matrix := gram_matrix v0 vadd vmul (dshape Y) (den_dense v0 Y) k.

Lemma set_nth_pick p N (s : list nat) k r : is_perm p N -> length s = N -> k < N ->
  C10Tucker.set_nth (index_of k p) r (pick 0 p s) = pick 0 p (C10Tucker.set_nth k r s).
Proof.
  intros Hp Hs Hk. pose proof (is_perm_length _ _ Hp) as Hlp.
  assert (Hin : In k p) by (apply (is_perm_In p N k Hp); exact Hk).
  pose proof (index_of_lt k p Hin) as Hlt.
  rewrite set_nth_upd by (rewrite pick_length; exact Hlt). rewrite set_nth_upd by lia.
  symmetry. now apply (pick_upd_index_of 0 p N).
Qed.

Lemma normsq_permute (X : dense V) p : is_perm p (length (dshape X)) -> normsq_c (np_transpose v0 X p) = normsq_c X.
Proof.
  intros Hp. unfold normsq_c. change (dshape (np_transpose v0 X p)) with (pick 0 p (dshape X)).
  rewrite <- (sum_over_perm V v0 v1 vadd vmul vsub vopp Vring _ _ _ (allsubs_pick_perm (dshape X) p Hp)).
  rewrite (sum_over_map V v0 vadd). apply (sum_over_ext V v0 vadd). intros i' Hi'.
  apply in_allsubs, inb_length in Hi'. rewrite pick_length in Hi'. pose proof (is_perm_length _ _ Hp) as Hlp.
  rewrite !(den_transpose v0) by (auto; lia). reflexivity.
Qed.

(* a mode product with the shape actually changing commutes with relabelling *)
Theorem ttm_permute_dense (Y : dense V) p k (Mx : matrix) : is_perm p (length (dshape Y)) -> k < length (dshape Y) ->
  ttm v0 vadd vmul (np_transpose v0 Y p) (index_of k p) Mx = np_transpose v0 (ttm v0 vadd vmul Y k Mx) p.
Proof.
  intros Hp Hk. pose proof (is_perm_length _ _ Hp) as Hlp. set (s := dshape Y) in *.
  assert (Hin : In k p) by (apply (is_perm_In p _ k Hp); exact Hk).
  pose proof (index_of_lt k p Hin) as Hlt.
  unfold ttm. change (dshape (np_transpose v0 Y p)) with (pick 0 p s). fold s.
  unfold np_transpose at 2.
  change (dshape (tabulate (C10Tucker.set_nth k (nrows Mx) s) (ttmd (den_dense v0 Y) (nth k s 0) k Mx)))
    with (C10Tucker.set_nth k (nrows Mx) s).
  rewrite (set_nth_pick p (length s) s k (nrows Mx) Hp eq_refl Hk).
  assert (HL : length (C10Tucker.set_nth k (nrows Mx) s) = length s) by (apply length_set_nth; exact Hk).
  apply tabulate_ext. intros i' Hi'. pose proof (inb_length _ _ Hi') as Hl'. rewrite pick_length in Hl'.
  assert (Hp2 : is_perm p (length (C10Tucker.set_nth k (nrows Mx) s))) by now rewrite HL.
  rewrite den_tabulate by (rewrite <- (inb_pick_inv _ i' p Hp2) by lia; exact Hi').
  rewrite (nth_pick_index_of 0 p (length s) s k Hp Hk).
  rewrite <- (ttm_den_permute V v0 vadd vmul (length s) (den_dense v0 Y) p (nth k s 0) k Mx i' Hp Hk) by lia.
  apply (ttmd_eqN V v0 vadd vmul (length s)); [lia| |lia].
  intros j Hj. apply (den_transpose v0); [exact Hp|exact Hj].
Qed.

Lemma pick_ncols p (fs : list matrix) : pick 0 p (map (@ncols V) fs) = map (@ncols V) (pick [] p fs).
Proof.
  unfold pick. rewrite map_map. apply map_ext. intros k. change 0 with (@ncols V []). apply map_nth.
Qed.

Section Run.
Variables (E E' : nat -> matrix -> list V) (L L' : nat -> matrix -> nat -> matrix).
Variables (f0 : V) (fadd : V -> V -> V) (fltb fleb : V -> V -> bool) (thresh : V -> V) (tol : V).
Variables (relnorm relnorm' : dense V -> dense V -> list matrix -> V) (ranks ranks' : nat -> nat) (sequential : bool).
Variables (p : list nat) (N : nat).
Hypothesis Hp : is_perm p N.
Hypothesis HE : forall k, k < N -> E' (index_of k p) = E k.
Hypothesis HL : forall k, k < N -> L' (index_of k p) = L k.
Hypothesis Hr : forall k, k < N -> ranks' (index_of k p) = ranks k.

Local Notation RUN EE LL := (hv_run (dense V) matrix (list matrix) V f0 fadd fltb normsq_c thresh
   (fun k Y => EE k (gram_of Y k)) (fun k Y r => LL k (gram_of Y k) r) (fun fs k U => upd fs k U)).

(* hosvd on X.permute(p) with dimorder mapped by q, per-mode parameters and user ranks moved along, start list permuted: for ANY two
   verbosities both runs raise the IndexError of the automatic rank rule or both return, the core of the relabelled run being the
   relabelled core and its factor list the permuted factor list (same matrices, hence the same chosen ranks) *)
Theorem hosvd_driver_relabel_dense (v v' : Z) (dimorder : list nat) (X : dense V) (fs0 : list matrix) :
  length (dshape X) = N -> length fs0 = N -> Forall (fun k => k < N) dimorder ->
  rel_res (dense V) (dense V) (list matrix) (list matrix)
    (fun Y Y' => length (dshape Y) = N /\ Y' = np_transpose v0 Y p)
    (fun fs fs' => length fs = N /\ fs' = pick [] p fs)
    (fst (RUN E L fs0 shrink_c core_all_c relnorm fleb tol ranks sequential v dimorder X))
    (fst (RUN E' L' (pick [] p fs0) shrink_c core_all_c relnorm' fleb tol ranks' sequential v'
              (map (fun k => index_of k p) dimorder) (np_transpose v0 X p))).
Proof.
  intros HX H0 HF.
  apply (hv_run_sim (dense V) (dense V) matrix (list matrix) (list matrix) V f0 fadd fltb thresh fleb tol
           normsq_c _ _ _ fs0 shrink_c core_all_c relnorm ranks
           normsq_c _ _ _ (pick [] p fs0) shrink_c core_all_c relnorm' ranks' sequential (fun k => index_of k p) (fun k => k < N)).
  - intros Y Y' [HY ->]. apply normsq_permute. now rewrite HY.
  - exact Hr.
  - intros k Y Y' Hk [HY ->]. unfold gram_of. change (dshape (np_transpose v0 Y p)) with (pick 0 p (dshape Y)).
    rewrite (gram_matrix_permute V v0 v1 vadd vmul vsub vopp Vring (dshape Y) Y p k eq_refl) by (rewrite ?HY; auto).
    now rewrite HE.
  - intros k Y Y' r Hk [HY ->]. unfold gram_of. change (dshape (np_transpose v0 Y p)) with (pick 0 p (dshape Y)).
    rewrite (gram_matrix_permute V v0 v1 vadd vmul vsub vopp Vring (dshape Y) Y p k eq_refl) by (rewrite ?HY; auto).
    now rewrite HL.
  - intros k fs fs' U Hk [Hfs ->]. split; [now rewrite upd_length|]. symmetry. now apply (pick_upd_index_of [] p N).
  - intros k Y Y' U Hk [HY ->]. unfold shrink_c. split.
    + unfold ttm. rewrite dshape_tabulate. rewrite length_set_nth by lia. exact HY.
    + apply ttm_permute_dense; rewrite HY; assumption.
  - intros Y Y' fs fs' [HY ->] [Hfs ->]. unfold core_all_c. split.
    + unfold core_c. rewrite dshape_tabulate. rewrite map_length. exact Hfs.
    + change (dshape (np_transpose v0 Y p)) with (pick 0 p (dshape Y)). rewrite <- pick_ncols.
      apply (core_perm_concrete V v0 v1 vadd vmul vsub vopp Vring); [reflexivity|now rewrite HY|]. rewrite map_length. transitivity N; [exact Hfs|symmetry; exact HY].
  - exact HF.
  - split; [exact HX|reflexivity].
  - split; [exact H0|reflexivity].
Qed.
End Run.
End Dense.

(* ---------- non-vacuity: 2 x 3 x 2 integers, p = [2;0;1]; "eigenvalues" = diagonal of the Gram matrix sorted by position, "leading
   vectors" = first r columns of the Gram matrix; automatic ranks in modes 0 and 2, user rank 2 in mode 1; sequential ---------- *)
Module C18HosvdRelExample.
Local Open Scope Z_scope.
Definition X := mkDense [2; 3; 2]%nat [1; 2; 3; 4; 5; 6; 7; 8; 9; 10; 11; 13].
Definition p := [2; 0; 1]%nat.
Definition Ef (n : nat) (G : list (list Z)) : list Z := map (fun a => mget 0 G a a / (Z.of_nat n + 1)) (seq 0 (length G)).
Definition Lf (n : nat) (G : list (list Z)) (r : nat) : list (list Z) :=
  map (fun a => map (fun j => mget 0 G a j + Z.of_nat n) (seq 0 r)) (seq 0 (length G)).
Definition rk (n : nat) : nat := match n with 1%nat => 2%nat | _ => 0%nat end.
Definition run (seqn : bool) (v : Z) :=
  hv_run (dense Z) (list (list Z)) (list (list (list Z))) Z 0 Z.add Z.ltb (normsq_c Z 0 Z.add Z.mul) (fun nx => nx / 8)
    (fun k Y => Ef k (gram_of Z 0 Z.add Z.mul Y k)) (fun k Y r => Lf k (gram_of Z 0 Z.add Z.mul Y k) r) (fun fs k U => upd fs k U)
    [[]; []; []] (shrink_c Z 0 Z.add Z.mul) (core_all_c Z 0 Z.add Z.mul) (fun _ _ _ => 0) Z.leb 1 rk seqn v [1; 2; 0]%nat X.
Definition run' (seqn : bool) (v : Z) :=
  hv_run (dense Z) (list (list Z)) (list (list (list Z))) Z 0 Z.add Z.ltb (normsq_c Z 0 Z.add Z.mul) (fun nx => nx / 8)
    (fun k Y => Ef (nth k p 0%nat) (gram_of Z 0 Z.add Z.mul Y k)) (fun k Y r => Lf (nth k p 0%nat) (gram_of Z 0 Z.add Z.mul Y k) r)
    (fun fs k U => upd fs k U)
    (pick [] p [[]; []; []]) (shrink_c Z 0 Z.add Z.mul) (core_all_c Z 0 Z.add Z.mul) (fun _ _ _ => 0) Z.leb 1 (fun k => rk (nth k p 0%nat)) seqn v
    (map (fun k => index_of k p) [1; 2; 0]%nat) (np_transpose 0 X p).
Example hosvd_relabel_example :
  forall seqn, match fst (run seqn 0), fst (run' seqn 10) with
               | Some (G, fs), Some (G', fs') => G' = np_transpose 0 G p /\ fs' = pick [] p fs /\ dshape G <> [2; 3; 2]%nat
               | _, _ => False
               end.
Proof. intros [|]; vm_compute; repeat split; discriminate. Qed.
End C18HosvdRelExample.
