(* Props/C08d.v — C08, wave 4: redistribute stated over the translator-GENERATED method (Gen/GenMethods3.v is regenerated from
   /repo/pyttb/ktensor.py on every run: an edit of ktensor.redistribute changes the generated text and breaks these proofs or the
   translation).  Only statements, `exact`, Print Assumptions. *)
From Coq Require Import List ZArith Arith Bool.
From PV Require Import Base.Index Model.Repr Model.C08Kruskal Np.NpZ Np.NpZ2 Np.NpZ3 Np.NpZ3e Gen.GenMethods3 Proofs.C08Gen.
Import ListNotations.
Local Open Scope nat_scope.

(* the generated column loop of ktensor.redistribute(mode), on every Kruskal tensor over Z whose factor `mode` has one entry per
   weight in every row (any number of modes, sizes, components): it answers exactly for 0 <= mode < ndims (no wrapping of negative
   modes), and then returns — weights and every stored entry — the hand model k_redistribute that C08_invariant_redistribute is about *)
Theorem C08_gen_redistribute_model : forall (k : ktz) (mode : Z),
  (forall row, In row (znth [] (kt_factors k) mode) -> length row = length (kt_weights k)) ->
  match ktensor_redistribute k mode with
  | Ok k' => (0 <= mode < Z.of_nat (length (kt_factors k)))%Z /\
             kt_to_k k' = k_redistribute 1%Z Z.mul (Z.to_nat mode) (kt_to_k k)
  | Err => ~ (0 <= mode < Z.of_nat (length (kt_factors k)))%Z
  end.
Proof. exact gen_redistribute_model. Qed.
Print Assumptions C08_gen_redistribute_model.

(* ... hence the GENERATED redistribute changes only the parameterisation: same denoted array at every index, same shape, all
   weights one *)
Theorem C08_gen_redistribute_invariant : forall (k k' : ktz) (mode : Z),
  (forall row, In row (znth [] (kt_factors k) mode) -> length row = length (kt_weights k)) ->
  ktensor_redistribute k mode = Ok k' ->
  (forall i, den_k 0%Z 1%Z Z.add Z.mul (kt_to_k k') i = den_k 0%Z 1%Z Z.add Z.mul (kt_to_k k) i) /\
  kt_weights k' = map (fun _ => 1%Z) (kt_weights k) /\
  kshape (kt_to_k k') = kshape (kt_to_k k).
Proof. exact gen_redistribute_invariant. Qed.
Print Assumptions C08_gen_redistribute_invariant.

(* non-vacuity: 3 x 2 x 2 modes, two components, weights 2 and -3 absorbed into mode 1; a negative mode is refused *)
Example C08_example_gen_redistribute :
  let k := mkkt [2; -3]%Z [[[1; 2]; [3; 4]; [5; 6]]; [[5; 6]; [7; 8]]; [[1; -1]; [2; 1]]]%Z in
  ktensor_redistribute k 1%Z = Ok (mkkt [1; 1]%Z [[[1; 2]; [3; 4]; [5; 6]]; [[10; -18]; [14; -24]]; [[1; -1]; [2; 1]]]%Z) /\
  ktensor_redistribute k (-1)%Z = Err /\ ktensor_redistribute k 3%Z = Err /\
  den_k 0%Z 1%Z Z.add Z.mul (kt_to_k k) [2; 1; 0] = (5 * 7 * 1 * 2 + 6 * 8 * (-1) * (-3))%Z.
Proof. vm_compute. repeat split; reflexivity. Qed.
