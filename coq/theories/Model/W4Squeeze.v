(* Model/W4Squeeze.v — hand reference for sptensor.squeeze() as generated into Gen/GenSptensor4b.v.
   Wave 6: the reference is parametric in the entry-wise test `keep` that says which modes stay ("not a singleton").
   /repo up to f390850 reads `shapeArray > 1` (sq_gt1: a mode of size 0 is dropped as well), the repaired text reads
   `shapeArray != 1` (sq_ne1: only the modes of size 1 are dropped); the two tests agree on every positive size. *)
From Coq Require Import List ZArith Arith Bool Lia.
From PV Require Import Np.NpZ Np.NpZ2 Np.NpZ3 Np.NpZ3c Np.NpZ3d Np.NpZ3e Np.NpZ4 Np.NpZ4b Np.NpZ4d Np.NpZ4f.
Import ListNotations.
Local Open Scope Z_scope.

Definition sq_gt1 (d : Z) : bool := d >? 1.
Definition sq_ne1 (d : Z) : bool := negb (d =? 1).

Lemma sq_keep_agree (d : Z) : 0 < d -> sq_ne1 d = sq_gt1 d.
Proof. unfold sq_ne1, sq_gt1. intros H. destruct (Z.eqb_spec d 1), (Z.gtb_spec d 1); cbn; try reflexivity; lia. Qed.
Lemma sq_keep_zero : sq_ne1 0 = true /\ sq_gt1 0 = false.
Proof. split; reflexivity. Qed.

(* positions of the modes that stay *)
Definition H_keep_p (keep : Z -> bool) (shape : vec) : vec := np_where1 (map keep shape).
(* no singleton mode: a copy (through the constructor); every mode a singleton: the single stored value, 0 when nothing
   is stored (more than one stored value: .item() raises); otherwise the singleton modes are dropped from the shape and
   from every subscript row *)
Definition H_squeeze_p (keep : Z -> bool) (self : sptz) : res sq_result :=
  let sh := spt_shape self in
  if forallb keep sh then
    (if spt_make_ok (spt_subs self) (spt_vals self) sh then Ok (SqTensor self) else Err)
  else if zlen (H_keep_p keep sh) =? 0 then
    match spt_vals self with
    | [] => Ok (SqScalar 0)
    | [v] => Ok (SqScalar v)
    | _ => Err
    end
  else
    let siz := filter keep sh in
    if zlen (spt_vals self) =? 0 then (if spt_make_ok [] [] siz then Ok (SqTensor (mkspt [] [] siz)) else Err)
    else if np_cols_ok (spt_subs self) (H_keep_p keep sh) && spt_make_ok (np_cols (spt_subs self) (H_keep_p keep sh)) (spt_vals self) siz
         then Ok (SqTensor (mkspt (np_cols (spt_subs self) (H_keep_p keep sh)) (spt_vals self) siz)) else Err.

(* the two instances: the text `> 1` (names of waves 4/5 kept) and the text `!= 1` *)
Definition H_keep (shape : vec) : vec := H_keep_p (fun d => d >? 1) shape.
Definition H_squeeze (self : sptz) : res sq_result := H_squeeze_p (fun d => d >? 1) self.
Definition H_squeeze_ne (self : sptz) : res sq_result := H_squeeze_p (fun d => negb (d =? 1)) self.

(* the reference depends on `keep` only through its values on the sizes of the receiver *)
Lemma H_squeeze_p_ext (k1 k2 : Z -> bool) (self : sptz) :
  (forall d, In d (spt_shape self) -> k1 d = k2 d) -> H_squeeze_p k1 self = H_squeeze_p k2 self.
Proof.
  intros H. unfold H_squeeze_p, H_keep_p. cbv zeta.
  assert (Em : map k1 (spt_shape self) = map k2 (spt_shape self)) by (apply map_ext_in; exact H).
  assert (Ef : filter k1 (spt_shape self) = filter k2 (spt_shape self)) by (apply filter_ext_in; exact H).
  assert (Ea : forallb k1 (spt_shape self) = forallb k2 (spt_shape self)).
  { clear Em Ef. induction (spt_shape self) as [|d s IH]; [reflexivity|]. cbn [forallb].
    rewrite (H d (or_introl eq_refl)). f_equal. apply IH. intros e He. apply H. right. exact He. }
  rewrite Em, Ef, Ea. reflexivity.
Qed.

(* on a receiver whose sizes are all positive the two texts have the same reference *)
Lemma H_squeeze_ne_pos (self : sptz) : forallb (fun d => 0 <? d) (spt_shape self) = true -> H_squeeze_ne self = H_squeeze self.
Proof.
  intros H. apply H_squeeze_p_ext. intros d Hd. rewrite forallb_forall in H. specialize (H d Hd). apply Z.ltb_lt in H.
  exact (sq_keep_agree d H).
Qed.
