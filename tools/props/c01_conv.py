"""C01, remaining conversions: matricisation (tenmat / sptenmat), Kruskal / Tucker / sum to dense.
Imported by props/c01.py (generators, pyttb runner, Coq case writer, brute-force oracle, known findings)."""
import itertools
import math
from vcheck import Case, gnlist, gz
import tgen

OPS = {"to_tenmat", "to_sptenmat", "sptenmat_back", "sptenmat_full", "spmatrix", "from_array", "kfull", "tfull", "sumfull"}


# ---------------------------------------------------------------------------------------- generators
def ordered_partitions(N):
    out = []
    for k in range(N + 1):
        for r in itertools.permutations(range(N), k):
            rest = [m for m in range(N) if m not in r]
            for c in itertools.permutations(rest):
                out.append((list(r), list(c)))
    return out


def rand_matrix(rng, m, n, lo=-2, hi=3):
    return [[rng.randint(lo, hi) for _ in range(n)] for _ in range(m)]


def rand_sp(rng, shp, fill):
    n = math.prod(shp)
    data = tgen.rand_dense(rng, shp, fill)
    if fill == 0.3 and n > 1 and rng.random() < 0.5:          # exactly one nonzero
        data = [0] * n
        data[rng.randrange(n)] = rng.choice([-2, 3])
    subs, vals = tgen.dense_to_sparse(shp, data, rng, rng.choice(["sorted", "reversed", "random"]))
    return subs, vals


def rand_k(rng, shp, R):
    return {"weights": [rng.choice([-2, -1, 1, 2, 3]) for _ in range(R)], "factors": [rand_matrix(rng, d, R) for d in shp]}


def rand_t(rng, shp, sparse_core=False):
    cshape = [rng.randint(1, 2) for _ in shp]
    core = tgen.rand_dense(rng, cshape, rng.choice([0.5, 1.0]))
    return {"cshape": cshape, "core": core, "factors": [rand_matrix(rng, d, c) for d, c in zip(shp, cshape)],
            "sparse_core": sparse_core}


def gen_cases_conv(rng, tier):
    big = tier == "thorough"
    cases = []
    # ---------------- matricisation: every ordered partition (N <= 4), both holders
    mshapes = [([3], None), ([1], None), ([2, 3], None), ([3, 1], None), ([2, 3, 4], None), ([2, 1, 3], None), ([2, 2, 2], 8),
               ([2, 3, 4, 2], None), ([1, 2, 3, 2], 30), ([3, 2, 2, 4], 30)]
    if big:
        mshapes = [(s, None) for s, _ in mshapes] + [(tgen.rand_shape(rng, maxn=4, maxcells=96), 40) for _ in range(12)]
    jobs = []
    for shp, sample in mshapes:
        parts = ordered_partitions(len(shp))
        if sample is not None and sample < len(parts):
            parts = rng.sample(parts, sample)
        for r, c in parts:
            jobs.append((shp, {"rd": r, "cd": c, "cy": None}))
        N = len(shp)
        # request forms: rdims only / cdims only / cyclic conventions
        for m in range(N):
            for cy in ("fc", "bc", "t"):
                jobs.append((shp, {"rd": [m], "cd": None, "cy": cy}))
        for k in range(0, N + 1):
            for sel in ([list(x) for x in itertools.permutations(range(N), k)][: (6 if not big else 24)]):
                jobs.append((shp, {"rd": sel, "cd": None, "cy": None}))
                jobs.append((shp, {"rd": None, "cd": sel, "cy": None}))
    for shp in [[2, 1, 3, 2, 2], [2, 3, 2, 1, 2]]:
        parts = ordered_partitions(5)
        for r, c in rng.sample(parts, 40 if big else 10):
            jobs.append((shp, {"rd": r, "cd": c, "cy": None}))
    for shp, req in jobs:
        n = math.prod(shp)
        data = tgen.rand_dense(rng, shp, rng.choice([0.6, 1.0]))
        nt = n > 1 and any(data)
        cases.append(Case("to_tenmat", dict(req, shape=shp, data=data), nt))
        fills = [0.0, 0.3, 0.6, 1.0] if big else [rng.choice([0.0, 0.3, 0.3, 0.6, 1.0])]
        for fill in fills:
            subs, vals = rand_sp(rng, shp, fill)
            a = dict(req, shape=shp, subs=subs, vals=vals)
            cases.append(Case("to_sptenmat", a, nt and bool(vals)))
            cases.append(Case("sptenmat_back", a, nt and bool(vals)))
            cases.append(Case("sptenmat_full", a, nt and bool(vals)))
    # malformed partitions
    for _ in range(80 if big else 25):
        shp = tgen.rand_shape(rng, maxn=4, maxcells=24)
        N = len(shp)
        r = [rng.randint(0, N - 1) for _ in range(rng.randint(0, N))]
        c = [rng.randint(0, N - 1) for _ in range(rng.randint(0, N))]
        if sorted(r + c) == list(range(N)):
            continue
        data = tgen.rand_dense(rng, shp, 1.0)
        cases.append(Case("to_tenmat", {"shape": shp, "data": data, "rd": r, "cd": c, "cy": None}, True))
        subs, vals = rand_sp(rng, shp, 0.6)
        cases.append(Case("to_sptenmat", {"shape": shp, "subs": subs, "vals": vals, "rd": r, "cd": c, "cy": None}, True))
    # ---------------- 2-way sparse -> scipy, dense matrix -> sptenmat
    for _ in range(60 if big else 15):
        shp = [rng.randint(1, 4), rng.randint(1, 5)]
        subs, vals = rand_sp(rng, shp, rng.choice([0.0, 0.3, 0.6, 1.0]))
        cases.append(Case("spmatrix", {"shape": shp, "subs": subs, "vals": vals}, bool(vals)))
    for _ in range(120 if big else 30):
        tshape = tgen.rand_shape(rng, maxn=4, maxcells=48)
        r, c = rng.choice(ordered_partitions(len(tshape)))
        R = math.prod(tshape[k] for k in r)
        C = math.prod(tshape[k] for k in c)
        mat = tgen.rand_dense(rng, [R, C], rng.choice([0.0, 0.3, 0.6, 1.0]))
        cases.append(Case("from_array", {"tshape": tshape, "rd": r, "cd": c, "mshape": [R, C], "mdata": mat,
                                         "coo": rng.random() < 0.5}, any(mat)))
    # ---------------- Kruskal -> dense
    kshapes = [[3], [1], [2, 3], [3, 1], [2, 3, 4], [4, 3, 2], [2, 1, 3], [2, 3, 2, 2], [3, 2, 1, 4], [2, 1, 3, 2, 2], [2, 2, 2, 2, 3]]
    kshapes += [tgen.rand_shape(rng, maxn=5, maxcells=96) for _ in range(60 if big else 10)]
    for shp in kshapes:
        for R in ([0, 1, 2, 3] if (big or len(shp) <= 3) else [rng.choice([1, 2, 3]), 0]):
            cases.append(Case("kfull", {"shape": shp, "K": rand_k(rng, shp, R)}, math.prod(shp) > 1 and R > 0))
    # ---------------- Tucker -> dense
    tshapes = [[3], [2, 3], [3, 1], [2, 3, 4], [4, 1, 3], [2, 3, 2, 2], [3, 2, 1, 4]]
    tshapes += [tgen.rand_shape(rng, maxn=4, maxcells=96) for _ in range(60 if big else 12)]
    for shp in tshapes:
        for sc in (False, True):
            T = rand_t(rng, shp, sc)
            cases.append(Case("tfull", {"shape": shp, "T": T}, math.prod(shp) > 1 and any(T["core"])))
    # ---------------- sums
    for _ in range(150 if big else 40):
        shp = tgen.rand_shape(rng, maxn=4, maxcells=48)
        parts = []
        for _k in range(rng.randint(1, 4)):
            kind = rng.choice(["d", "s", "k", "t"])
            if kind == "k" and len(shp) == 1:
                kind = "d"               # 1-way Kruskal parts hit A-01 inside full(); covered by the kfull stream
            if kind == "d":
                parts.append({"kind": "d", "data": tgen.rand_dense(rng, shp, rng.choice([0.5, 1.0]))})
            elif kind == "s":
                subs, vals = rand_sp(rng, shp, rng.choice([0.0, 0.3, 0.6]))
                parts.append({"kind": "s", "subs": subs, "vals": vals})
            elif kind == "k":
                parts.append({"kind": "k", "K": rand_k(rng, shp, rng.randint(1, 3))})
            else:
                parts.append({"kind": "t", "T": rand_t(rng, shp, False)})
        cases.append(Case("sumfull", {"shape": shp, "parts": parts}, math.prod(shp) > 1))
    return cases


# ---------------------------------------------------------------------------------------- pyttb side
def _arr(np, l):
    return None if l is None else np.array(l, dtype=int)


def _mk_k(ttb, np, K, shape):
    R = len(K["weights"])
    fm = [np.array(f, dtype=float).reshape((d, R)) for f, d in zip(K["factors"], shape)]
    return ttb.ktensor([f.copy() for f in fm], np.array(K["weights"], dtype=float), copy=True)


def _mk_t(ttb, np, T, shape):
    core = tgen.mk_tensor(ttb, np, T["cshape"], T["core"])
    if T.get("sparse_core"):
        subs, vals = tgen.dense_to_sparse(T["cshape"], T["core"])
        core = tgen.mk_sptensor(ttb, np, T["cshape"], subs, vals)
    fm = [np.array(f, dtype=float).reshape((d, c)) for f, d, c in zip(T["factors"], shape, T["cshape"])]
    return ttb.ttensor(core, [f.copy() for f in fm], copy=True)


def _ilist(x):
    import numpy as np
    return [int(v) for v in np.asarray(x).ravel()]


def _obs_tenmat(np, M):
    return {"data": tgen.obs_dense(np, M.data), "r": _ilist(M.rindices), "c": _ilist(M.cindices),
            "tshape": [int(d) for d in M.tshape], "shape": [int(d) for d in M.shape]}


def _obs_sptenmat(np, M):
    subs = np.asarray(M.subs)
    rows = [] if subs.size == 0 else [[int(x) for x in r] for r in subs.reshape((-1, 2))]
    return {"subs": rows, "vals": [tgen.exact(x) for x in np.asarray(M.vals).ravel()], "r": _ilist(M.rdims), "c": _ilist(M.cdims),
            "tshape": [int(d) for d in M.tshape], "shape": [int(d) for d in M.shape], "nnz": int(M.nnz)}


def _sub(f):
    try:
        return f()
    except Exception as ex:
        return {"exc": type(ex).__name__, "msg": str(ex)[:200]}


def run_conv(c):
    import numpy as np
    import pyttb as ttb
    from scipy import sparse as sps
    a = c.args
    try:
        if c.op == "to_tenmat":
            T = tgen.mk_tensor(ttb, np, a["shape"], a["data"])
            M = T.to_tenmat(_arr(np, a["rd"]), _arr(np, a["cd"]), a["cy"])
            return {"ok": _obs_tenmat(np, M), "back": _sub(lambda: tgen.obs_dense(np, M.to_tensor())),
                    "double": _sub(lambda: tgen.obs_dense(np, M.double()))}
        if c.op in ("to_sptenmat", "sptenmat_back", "sptenmat_full"):
            S = tgen.mk_sptensor(ttb, np, a["shape"], a["subs"], a["vals"])
            M = S.to_sptenmat(_arr(np, a["rd"]), _arr(np, a["cd"]), a["cy"])
            if c.op == "to_sptenmat":
                return {"ok": _obs_sptenmat(np, M), "double": _sub(lambda: tgen.obs_dense(np, M.double().toarray()))}
            if c.op == "sptenmat_back":
                return {"ok": tgen.obs_sparse(np, M.to_sptensor())}
            return {"ok": _obs_tenmat(np, M.full())}
        if c.op == "spmatrix":
            S = tgen.mk_sptensor(ttb, np, a["shape"], a["subs"], a["vals"])
            return {"ok": tgen.obs_dense(np, S.spmatrix().toarray())}
        if c.op == "from_array":
            A = tgen.np_dense(np, a["mshape"], a["mdata"])
            if a["coo"]:
                A = sps.coo_matrix(A)
            M = ttb.sptenmat.from_array(A, _arr(np, a["rd"]), _arr(np, a["cd"]), tuple(a["tshape"]))
            return {"ok": _obs_sptenmat(np, M)}
        if c.op == "kfull":
            K = _mk_k(ttb, np, a["K"], a["shape"])
            return {"ok": tgen.obs_dense(np, K.full()), "double": _sub(lambda: tgen.obs_dense(np, K.double())),
                    "tenmat": _sub(lambda: _obs_tenmat(np, K.to_tenmat(np.array([0]))))}
        if c.op == "tfull":
            T = _mk_t(ttb, np, a["T"], a["shape"])
            return {"ok": tgen.obs_dense(np, T.full()), "double": _sub(lambda: tgen.obs_dense(np, T.double()))}
        if c.op == "sumfull":
            parts = []
            for p in a["parts"]:
                if p["kind"] == "d":
                    parts.append(tgen.mk_tensor(ttb, np, a["shape"], p["data"]))
                elif p["kind"] == "s":
                    parts.append(tgen.mk_sptensor(ttb, np, a["shape"], p["subs"], p["vals"]))
                elif p["kind"] == "k":
                    parts.append(_mk_k(ttb, np, p["K"], a["shape"]))
                else:
                    parts.append(_mk_t(ttb, np, p["T"], a["shape"]))
            st = ttb.sumtensor(parts, copy=True)
            return {"ok": tgen.obs_dense(np, st.full()), "double": _sub(lambda: tgen.obs_dense(np, st.double()))}
    except Exception as ex:
        return {"exc": type(ex).__name__, "msg": str(ex)[:200]}
    raise ValueError(c.op)


# ---------------------------------------------------------------------------------------- model side
def _gopt_nlist(l):
    return "None" if l is None else f"(Some {gnlist(l)})"


def _gcy(cy):
    return {None: "None", "fc": "(Some CycFC)", "bc": "(Some CycBC)", "t": "(Some CycT)"}[cy]


def _gmat_list(fs):
    return "[" + "; ".join(tgen.gmatrix(f) for f in fs) + "]"


def _gk(K):
    return tgen.gktensor(K["weights"], K["factors"])


def _gt(T):
    return f"(mkT {tgen.gdense(T['cshape'], T['core'])} {_gmat_list(T['factors'])})"


def _ints_dense(ob):
    return isinstance(ob, dict) and "data" in ob and tgen.all_int(ob["data"])


def _gtm(ob):
    return f"(mkTM {tgen.gdense(ob['data']['shape'], ob['data']['data'])} {gnlist(ob['r'])} {gnlist(ob['c'])} {gnlist(ob['tshape'])})"


def _gstm2(ob):
    from vcheck import gnmat, gzlist
    return f"(mkSTM {gnmat(ob['subs'])} {gzlist(ob['vals'])} {gnlist(ob['r'])} {gnlist(ob['c'])} {gnlist(ob['tshape'])})"


def _valid_request(a, N):
    """does the request denote an ordered partition of the modes? (what the model's gather_wrap_dims + permutation test accept)"""
    r, c, cy = a["rd"], a["cd"], a["cy"]
    if r is None and c is None:
        return False
    rr, cc = r, c
    if r is not None and c is None:
        if len(r) == 1 and cy is not None:
            return 0 <= r[0] < N
        cc = [m for m in range(N) if m not in r]
    elif r is None:
        rr = [m for m in range(N) if m not in c]
    return sorted(rr + cc) == list(range(N))


def check_conv(c, o):
    a = c.args
    exc = "exc" in o
    if c.op == "to_tenmat":
        T = tgen.gdense(a["shape"], a["data"])
        call = f"(zto_tenmat {T} {_gopt_nlist(a['rd'])} {_gopt_nlist(a['cd'])} {_gcy(a['cy'])})"
        if exc:
            return f"tm_ok {call} None {T} {T}"
        ob = o["ok"]
        if not _ints_dense(ob["data"]) or not _ints_dense(o["back"]) or not _ints_dense(o["double"]):
            return "false"
        if o["double"] != ob["data"] or ob["shape"] != ob["data"]["shape"]:
            return "false"
        return f"tm_ok {call} (Some {_gtm(ob)}) {T} {tgen.gdense(o['back']['shape'], o['back']['data'])}"
    if c.op in ("to_sptenmat", "sptenmat_back", "sptenmat_full"):
        S = tgen.gsparse(a["shape"], a["subs"], a["vals"])
        call = f"(zto_sptenmat {S} {_gopt_nlist(a['rd'])} {_gopt_nlist(a['cd'])} {_gcy(a['cy'])})"
        if c.op == "to_sptenmat":
            if exc:
                return f"stm_ok {call} None {S} [] 0"
            ob = o["ok"]
            if not tgen.all_int(ob["vals"]) or ob["nnz"] != len(ob["subs"]):
                return "false"
            # scipy view: the dense matrix of the triples (pure-python scatter of the raw triples)
            if not _ints_dense(o["double"]) or o["double"]["shape"] != ob["shape"]:
                return "false"
            R = ob["shape"][0]
            want = [0] * (ob["shape"][0] * ob["shape"][1])
            for (i, j), v in zip(ob["subs"], ob["vals"]):
                want[i + R * j] += v
            if want != o["double"]["data"]:
                return "false"
            return f"stm_ok {call} (Some {_gstm2(ob)}) {S} {gnlist(ob['shape'])} {ob['nnz']}"
        if c.op == "sptenmat_back":
            if exc:
                return f"stm_back_ok {call} {S} None"
            ob = o["ok"]
            if not tgen.all_int(ob["vals"]) or ob["nnz"] != len(ob["subs"]):
                return "false"
            return f"stm_back_ok {call} {S} (Some {tgen.gsparse(ob['shape'], ob['subs'], ob['vals'])})"
        if exc:
            return f"stm_full_ok {call} {S} None"
        ob = o["ok"]
        if not _ints_dense(ob["data"]):
            return "false"
        return f"stm_full_ok {call} {S} (Some {_gtm(ob)})"
    if c.op == "spmatrix":
        if exc or not _ints_dense(o["ok"]):
            return "false"
        S = tgen.gsparse(a["shape"], a["subs"], a["vals"])
        return f"dense_eqb (full 0%Z {S}) {tgen.gdense(o['ok']['shape'], o['ok']['data'])}"
    if c.op == "from_array":
        if exc:
            return "false"
        ob = o["ok"]
        if not tgen.all_int(ob["vals"]) or ob["nnz"] != len(ob["subs"]):
            return "false"
        M = f"(mkTM {tgen.gdense(a['mshape'], a['mdata'])} {gnlist(a['rd'])} {gnlist(a['cd'])} {gnlist(a['tshape'])})"
        S = f"(to_sptensor 0%Z zisz (tenmat_to_tensor 0%Z {M}))"
        call = f"(zto_sptenmat {S} (Some {gnlist(a['rd'])}) (Some {gnlist(a['cd'])}) None)"
        return f"stm_ok {call} (Some {_gstm2(ob)}) {S} {gnlist(ob['shape'])} {ob['nnz']}"
    if c.op == "kfull":
        K = _gk(a["K"])
        if exc:
            return f"kfull_ok {K} None"
        if not _ints_dense(o["ok"]) or o.get("double") != o["ok"]:
            return "false"
        tm = o.get("tenmat")
        if not isinstance(tm, dict) or "data" not in tm or not _ints_dense(tm["data"]):
            return "false"
        D = tgen.gdense(o["ok"]["shape"], o["ok"]["data"])
        return f"kfull_ok {K} (Some {D}) && tm_denotes {_gtm(tm)} {D} && nvec_eqb {gnlist(tm['r'])} [0]"
    if c.op == "tfull":
        T = _gt(a["T"])
        if exc:
            return f"tfull_ok {T} None"
        if not _ints_dense(o["ok"]) or o.get("double") != o["ok"]:
            return "false"
        return f"tfull_ok {T} (Some {tgen.gdense(o['ok']['shape'], o['ok']['data'])})"
    if c.op == "sumfull":
        ps = []
        for p in a["parts"]:
            if p["kind"] == "d":
                ps.append(f"PD {tgen.gdense(a['shape'], p['data'])}")
            elif p["kind"] == "s":
                ps.append(f"PS {tgen.gsparse(a['shape'], p['subs'], p['vals'])}")
            elif p["kind"] == "k":
                ps.append(f"PK {_gk(p['K'])}")
            else:
                ps.append(f"PT {_gt(p['T'])}")
        P = "[" + "; ".join(ps) + "]"
        if exc:
            return f"sumfull_ok {P} {gnlist(a['shape'])} None"
        if not _ints_dense(o["ok"]) or o.get("double") != o["ok"]:
            return "false"
        return f"sumfull_ok {P} {gnlist(a['shape'])} (Some {tgen.gdense(o['ok']['shape'], o['ok']['data'])})"
    raise ValueError(c.op)


# ---------------------------------------------------------------------------------------- brute-force oracle
def _lin(shape, sub):
    k, mul = 0, 1
    for x, d in zip(sub, shape):
        k += x * mul
        mul *= d
    return k


def _resolve(a, N):
    r, c, cy = a["rd"], a["cd"], a["cy"]
    if r is not None and c is None:
        if len(r) == 1 and cy is not None:
            m = r[0]
            if cy == "t":
                return [k for k in range(N) if k != m], [m]
            if cy == "fc":
                return [m], list(range(m + 1, N)) + list(range(m))
            return [m], list(range(m - 1, -1, -1)) + list(range(N - 1, m, -1))
        return r, [k for k in range(N) if k not in r]
    if r is None:
        return [k for k in range(N) if k not in c], c
    return r, c


def _den_k(K, i):
    tot = 0
    for r, w in enumerate(K["weights"]):
        t = w
        for f, x in zip(K["factors"], i):
            t *= f[x][r]
        tot += t
    return tot


def _den_t(T, i):
    tot = 0
    for j in tgen.all_subs(T["cshape"]):
        t = T["core"][_lin(T["cshape"], j)]
        for f, x, y in zip(T["factors"], i, j):
            t *= f[x][y]
        tot += t
    return tot


def oracle_conv(c, o):
    a = c.args
    if c.op in ("to_tenmat", "to_sptenmat", "sptenmat_back", "sptenmat_full"):
        shp = a["shape"]
        N = len(shp)
        if not _valid_request(a, N):
            return None if "exc" in o else "request that is not an ordered partition of the modes was accepted"
        if "exc" in o:
            return f"admissible conversion raised {o['exc']}: {o.get('msg')}"
        r, c_ = _resolve(a, N)
        rs, cs = [shp[k] for k in r], [shp[k] for k in c_]
        R, C = math.prod(rs), math.prod(cs)
        if c.op == "to_tenmat":
            ob = o["ok"]
            if ob["data"]["shape"] != [R, C] or ob["r"] != r or ob["c"] != c_ or ob["tshape"] != shp:
                return f"reported rows/cols/modes {ob['data']['shape']} {ob['r']} {ob['c']} differ from ({R},{C}) {r} {c_}"
            for i in tgen.all_subs(shp):
                row, col = _lin(rs, [i[k] for k in r]), _lin(cs, [i[k] for k in c_])
                if ob["data"]["data"][row + R * col] != a["data"][_lin(shp, i)]:
                    return f"matrix entry ({row},{col}) is not tensor entry {i}"
            if "exc" in o["back"] or o["back"]["data"] != a["data"] or o["back"]["shape"] != shp:
                return "to_tensor(to_tenmat(T)) is not T"
            return None
        din = {tuple(s): v for s, v in zip(a["subs"], a["vals"])}
        if c.op == "to_sptenmat":
            ob = o["ok"]
            got = {}
            for (i, j), v in zip(ob["subs"], ob["vals"]):
                if (i, j) in got or v == 0 or not (0 <= i < R and 0 <= j < C):
                    return "triples ill-formed"
                got[(i, j)] = v
            want = {(_lin(rs, [s[k] for k in r]), _lin(cs, [s[k] for k in c_])): v for s, v in din.items()}
            if got != want or ob["nnz"] != len(din) or ob["shape"] != [R, C] or ob["r"] != r or ob["c"] != c_ or ob["tshape"] != shp:
                return "sptenmat does not denote the sparse tensor / reports wrong shape, modes or nnz"
            return None
        if c.op == "sptenmat_back":
            ob = o["ok"]
            got = {tuple(s): v for s, v in zip(ob["subs"], ob["vals"])}
            if len(got) != len(ob["subs"]) or got != din or ob["shape"] != shp or ob["nnz"] != len(din):
                return "to_sptensor(to_sptenmat(S)) is not S"
            return None
        ob = o["ok"]
        want = [0] * (R * C)
        for s, v in din.items():
            want[_lin(rs, [s[k] for k in r]) + R * _lin(cs, [s[k] for k in c_])] = v
        if ob["data"]["shape"] != [R, C] or ob["data"]["data"] != want:
            return "full(sptenmat) is not the matricised dense tensor"
        return None
    if "exc" in o:
        return f"admissible conversion raised {o['exc']}: {o.get('msg')}"
    if c.op == "spmatrix":
        din = {tuple(s): v for s, v in zip(a["subs"], a["vals"])}
        want = [din.get(tuple(i), 0) for i in tgen.all_subs(a["shape"])]
        return None if o["ok"]["data"] == want and o["ok"]["shape"] == a["shape"] else "scipy matrix differs from the sparse tensor"
    if c.op == "from_array":
        ob = o["ok"]
        R = a["mshape"][0]
        got = {}
        for (i, j), v in zip(ob["subs"], ob["vals"]):
            got[(i, j)] = v
        want = {(k % R, k // R): v for k, v in enumerate(a["mdata"]) if v != 0}
        return None if got == want and ob["nnz"] == len(want) and ob["shape"] == a["mshape"] else "sptenmat differs from the matrix"
    if c.op == "kfull":
        want = [_den_k(a["K"], i) for i in tgen.all_subs(a["shape"])]
        return None if o["ok"]["data"] == want and o["ok"]["shape"] == a["shape"] else "full(K) differs from sum_r w_r prod_n A_n[i_n,r]"
    if c.op == "tfull":
        want = [_den_t(a["T"], i) for i in tgen.all_subs(a["shape"])]
        return None if o["ok"]["data"] == want and o["ok"]["shape"] == a["shape"] else "full(T) differs from sum_j G[j] prod_n U_n[i_n,j_n]"
    if c.op == "sumfull":
        want = []
        for i in tgen.all_subs(a["shape"]):
            tot = 0
            for p in a["parts"]:
                if p["kind"] == "d":
                    tot += p["data"][_lin(a["shape"], i)]
                elif p["kind"] == "s":
                    tot += dict((tuple(s), v) for s, v in zip(p["subs"], p["vals"])).get(tuple(i), 0)
                elif p["kind"] == "k":
                    tot += _den_k(p["K"], i)
                else:
                    tot += _den_t(p["T"], i)
            want.append(tot)
        return None if o["ok"]["data"] == want and o["ok"]["shape"] == a["shape"] else "full(sum) differs from the sum of the parts"
    return None


# ---------------------------------------------------------------------------------------- known findings
def _empty_side(c):
    a = c.args
    N = len(a["shape"])
    if not _valid_request(a, N):
        return False
    r, cc = _resolve(a, N)
    return len(r) == 0 or len(cc) == 0


TRIGGERS = {
    "kruskal_1way": lambda c: c.op == "kfull" and len(c.args["shape"]) == 1,
    "kruskal_rank0": lambda c: c.op == "kfull" and len(c.args["K"]["weights"]) == 0 and len(c.args["shape"]) > 1,
    "sptenmat_empty_side_back": lambda c: c.op == "sptenmat_back" and bool(c.args["subs"]) and _empty_side(c),
    "tucker_sparse_core_1way": lambda c: c.op == "tfull" and c.args["T"].get("sparse_core") and len(c.args["shape"]) == 1,
    "sptenmat_full_no_nonzeros": lambda c: c.op == "sptenmat_full" and not c.args["subs"] and _valid_request(c.args, len(c.args["shape"])),
}


def _w_a01():
    import numpy as np
    import pyttb as ttb
    try:
        K = ttb.ktensor([np.array([[1.0, 2.0], [3.0, 4.0], [5.0, 6.0]])], np.array([2.0, 3.0]))
        d = K.full().data
        return None if [float(x) for x in d.ravel()] == [8.0, 18.0, 28.0] else f"wrong values {d}"
    except Exception as ex:
        return f"1-way ktensor.full() raised {type(ex).__name__}: {ex}"


def _w_a02():
    import numpy as np
    import pyttb as ttb
    try:
        S = ttb.sptensor(np.array([[1, 2]]), np.array([[7.0]]), (2, 3))
        B = S.to_sptenmat(np.array([0, 1]), np.array([], dtype=int)).to_sptensor()
        ok = B.subs.tolist() == [[1, 2]] and float(B.vals[0, 0]) == 7.0 and tuple(B.shape) == (2, 3)
        return None if ok else "round trip differs"
    except Exception as ex:
        return f"to_sptenmat(rdims=[0,1], cdims=[]).to_sptensor() raised {type(ex).__name__}: {ex}"


def _w_rank0():
    import numpy as np
    import pyttb as ttb
    try:
        K = ttb.ktensor([np.zeros((3, 0)), np.zeros((2, 0))], np.zeros(0))
        d = K.full().data
        return None if d.shape == (3, 2) and not d.any() else f"wrong result {d}"
    except Exception as ex:
        return f"rank-0 ktensor.full() raised {type(ex).__name__}: {ex}"


def _w_stm_full():
    import numpy as np
    import pyttb as ttb
    try:
        M = ttb.sptensor(shape=(2, 3, 4)).to_sptenmat(np.array([1]), np.array([2, 0])).full()
        return None if M.data.shape == (3, 8) and not M.data.any() else "wrong result"
    except Exception as ex:
        return f"full() of a sptenmat without nonzeros raised {type(ex).__name__}: {ex}"


def _w_a02b():
    import numpy as np
    import pyttb as ttb
    try:
        sc = ttb.sptensor(np.array([[0]]), np.array([[4.0]]), (2,))
        d = ttb.ttensor(sc, [np.array([[2.0, -1], [1, -1], [2, 3]])]).full().data
        return None if [float(x) for x in d.ravel()] == [8.0, 4.0, 8.0] else f"wrong values {d}"
    except Exception as ex:
        return f"ttensor.full() with a sparse 1-way core raised {type(ex).__name__}: {ex}"


WITNESSES = {"A-02b": _w_a02b, "A-01": _w_a01, "A-02": _w_a02, "N-C01-1": _w_rank0, "N-C01-2": _w_stm_full}
