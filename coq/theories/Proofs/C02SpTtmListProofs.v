(* Proofs/C02SpTtmListProofs.v — sptensor.ttm, list form (sptensor.py:3541-3548): Y = self.ttm(matrices[vidx[0]], dims[0]) on the
   coordinate list (its result is a dense tensor), then Y.ttm(...) mode by mode with tensor.ttm: the composition denotes
   spec_ttm_list of the array the sptensor denotes. *)
From Coq Require Import List Arith Lia Bool Permutation Ring.
From PV Require Import Base.Index Base.Perm Base.Sum Np.Array Model.Sparse Model.Repr Model.C02Spec Model.C02Dense Model.C02Modes
                       Model.C02SpMore Proofs.C02DenseProofs Proofs.C02ModesProofs Proofs.C02SpMoreProofs Proofs.C02TuckerProofs.
Import ListNotations.

Section P.
Variable V : Type.
Variables (v0 v1 : V) (vadd vmul vsub : V -> V -> V) (vopp : V -> V).
Hypothesis Vring : ring_theory v0 v1 vadd vmul vsub vopp (@eq V).
Variable isz : V -> bool.
Local Notation den := (den_dense v0).

(* the list form: first mode sparse (tabulated: Ynt.to_tensor()), the others dense *)
Definition impl_ttm_sp_list (S : sparse V) (nUs : list (nat * (nat * @matrix V))) (tr : bool) : dense V :=
  match nUs with
  | [] => full v0 S
  | (n, (J, U)) :: r =>
      ttm_seq v0 vadd vmul (tabulate (upd (sshape S) n J) (impl_ttm_sp v0 vadd vmul S n U tr)) r tr
  end.

Theorem impl_ttm_sp_list_correct (S : sparse V) n J U r tr : wf_sp isz S ->
  Forall (fun p => fst p < length (sshape S)) ((n, (J, U)) :: r) ->
  let nUs := (n, (J, U)) :: r in
  let Y := impl_ttm_sp_list S nUs tr in
  dshape Y = ttm_list_shape (sshape S) nUs /\ wf_dense Y /\
  forall i, inb (ttm_list_shape (sshape S) nUs) i = true ->
    den Y i = spec_ttm_list v0 vadd vmul (den_sp v0 S) (sshape S) nUs tr i.
Proof.
  intros W HF. inversion HF as [|? ? Hn HF']; subst. cbn [fst] in Hn. cbn zeta. unfold impl_ttm_sp_list.
  set (Y1 := tabulate (upd (sshape S) n J) (impl_ttm_sp v0 vadd vmul S n U tr)).
  assert (W1 : wf_dense Y1) by apply wf_tabulate.
  assert (S1 : dshape Y1 = upd (sshape S) n J) by apply dshape_tabulate.
  assert (HF1 : Forall (fun p : nat * (nat * @matrix V) => fst p < length (dshape Y1)) r).
  { eapply Forall_impl; [|exact HF']. intros p Hp. now rewrite S1, upd_length. }
  destruct (ttm_seq_correct V v0 vadd vmul r Y1 tr W1 HF1) as (S2 & W2 & D2).
  rewrite S1 in S2, D2. cbn [ttm_list_shape spec_ttm_list].
  split; [exact S2|]. split; [exact W2|].
  intros i Hi. rewrite D2 by exact Hi.
  apply (spec_ttm_list_ext V v0 vadd vmul); [| |exact Hi].
  - eapply Forall_impl; [|exact HF']. intros p Hp. now rewrite upd_length.
  - intros j Hj. unfold Y1. rewrite den_tabulate by exact Hj.
    pose proof (inb_length _ _ Hj) as HLj. rewrite upd_length in HLj.
    apply (impl_ttm_sp_correct V v0 v1 vadd vmul vsub vopp Vring isz); auto.
    rewrite (inb_split (upd (sshape S) n J) n j) in Hj by (rewrite ?upd_length; auto).
    rewrite remove_at_upd in Hj. apply andb_true_iff in Hj. tauto.
Qed.

End P.
