(* Props/C04Impl.v — C04, wave 5: sptensor._set_subscripts as pyttb computes it.  TRANSLITERATION Model/C04SpSetImpl.v (line by
   line, numpy layer Np/NpZ.v, over the translator-GENERATED tt_ismember_rows of Gen/GenUtils.v); the sparse histories compare
   pyttb's raw state after every `S[subs] = vals` with exactly this function (Model/C04W5Harness.v).
   Only statements, `exact`, Print Assumptions (+ concrete non-vacuity examples). *)
From Coq Require Import List Arith Bool ZArith.
From PV Require Import Base.Index Np.Array Model.Sparse Np.NpZ Gen.GenUtils Model.C04Model Proofs.C04Sparse Proofs.C04Region
  Model.C04SpSetImpl Proofs.C04SpSetImpl Model.Harness Model.C04Harness Model.C04W5Harness.
Import ListNotations.

Section C04Impl.
Context {V : Type} (v0 : V) (isz : V -> bool).
Hypothesis isz_spec : forall v, isz v = true <-> v = v0.

(* np.unique(newsubs[::-1], axis=0, return_index=True) ; newvals[::-1][idx]: the distinct subscript rows in lexicographic order,
   each with the value of its LAST occurrence in the batch (= sort_dedupe of the model) *)
Theorem C04_set_subscripts_unique : forall (asg : list (idx * V)),
  let u := np_unique_rows (rev (zrows (map fst asg))) in
  (fst u, np_take v0 (rev (map snd asg)) (snd u))
  = (zrows (map fst (sort_dedupe asg)), map snd (sort_dedupe asg)).
Proof. exact (unique_step v0). Qed.

(* groups A (change in place) / B (delete) / C (append) computed from the GENERATED tt_ismember_rows, np scatter / setdiff1d /
   take / mask: exactly the entry list sp_apply, stored order included — for every stored order of the receiver, every batch of
   distinct subscripts, every mix of zero and non-zero values *)
Theorem C04_set_subscripts_groups : forall (es asg : list (idx * V)),
  NoDup (map fst es) -> NoDup (map fst asg) -> asg <> [] ->
  (forall r, In r (map fst es) -> r <> []) -> (forall r, In r (map fst asg) -> r <> []) ->
  set_groups v0 isz (zrows (map fst es)) (map snd es) (zrows (map fst asg)) (map snd asg)
  = Ok (zrows (map fst (sp_apply isz es asg)), map snd (sp_apply isz es asg)).
Proof. exact (set_groups_sp_apply v0 isz). Qed.

(* the resize loop: max(dim, max(newsubs[:, n] + 1)) per mode, new modes start at extent 1 = grow / col_need of the specification
   (Q: the unique rows, ps: the assigned rows — same set of rows, whatever their values: a ZERO beyond the extent grows the shape) *)
Theorem C04_set_subscripts_resize : forall (s : shape) (Q ps : list idx) m,
  length s <= m -> Q <> [] -> (forall x, In x Q <-> In x ps) ->
  set_resize (zrow s ++ repeat 1%Z (m - length s)) (zrows Q) = Ok (zrow (grow s (col_need ps m))).
Proof. exact set_resize_grow. Qed.

(* the whole method: from every well-formed state (any stored order), whenever the executable sparse model performs S[rows] = r,
   the transliteration returns EXACTLY the model's raw state (shape, subscripts, values, stored order) *)
Theorem C04_set_subscripts_impl_model : forall (S S' : sparse V) rows (r : rhs V) out,
  wf_sp isz S -> step_sparse v0 isz S (OSet (KSubs rows) r) = Some (S', out) ->
  impl_set_subscripts v0 isz (of_sparse S) rows r = Ok (of_sparse S').
Proof. exact (impl_set_subscripts_model v0 isz). Qed.

(* hence, total form: every subscript-array assignment the SPECIFICATION accepts is accepted by the transliteration, the state it
   returns denotes the specified array (last value per position, others unchanged, zero removes, growth with zeros) and is
   well-formed (in range, no duplicate subscript, no stored zero) *)
Theorem C04_set_subscripts_impl_refines : forall (S : sparse V) rows (r : rhs V) a' out,
  wf_sp isz S -> spec_step v0 (abs_sp v0 S) (OSet (KSubs rows) r) = Some (a', out) ->
  exists R, impl_set_subscripts v0 isz (of_sparse S) rows r = Ok R /\
            eq_amap (abs_sp v0 (to_sparse R)) a' /\ wf_sp isz (to_sparse R).
Proof. exact (impl_set_subscripts_refines v0 isz isz_spec). Qed.
End C04Impl.

(* non-vacuity: stored out of order, a batch that deletes, changes (repeated subscript: last value), appends and grows by a zero *)
Example C04_example_set_subscripts_impl :
  zimpl_set_subscripts (mkSp [2; 3]%nat [[1; 1]; [0; 0]; [0; 2]]%nat [1; 2; 3]%Z)
      [[0; 2]; [1; 1]; [0; 1]; [2; 3]; [1; 1]]%Z (RValues [0; 5; 7; 0; 6]%Z)
  = Ok (mkSp [3; 4]%nat [[1; 1]; [0; 0]; [0; 1]]%nat [6; 2; 7]%Z).
Proof. exact set_subscripts_impl_example. Qed.

Example C04_example_set_subscripts_order_growth :
  zimpl_set_subscripts (mkSp [2; 3]%nat [[1; 2]]%nat [5]%Z) [[1; 0; 1]]%Z (RScalar 4%Z)
  = Ok (mkSp [2; 3; 2]%nat [[1; 2; 0]; [1; 0; 1]]%nat [5; 4]%Z).
Proof. exact set_subscripts_impl_order_growth. Qed.

Print Assumptions C04_set_subscripts_unique.
Print Assumptions C04_set_subscripts_groups.
Print Assumptions C04_set_subscripts_resize.
Print Assumptions C04_set_subscripts_impl_model.
Print Assumptions C04_set_subscripts_impl_refines.
