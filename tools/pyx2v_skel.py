#!/usr/bin/env python3
"""pyx2v_skel — second, independent translator: Python `ast` -> Gallina for the CONTROL-FLOW SKELETONS of pyttb's drivers.

    python3 tools/pyx2v_skel.py <src_root> <outdir>

writes <outdir>/Gen*.v (only when the text changes) and prints ONE JSON line
    {"GenSolver": {"ok": true, "functions": [...], "changed": bool}, ...}      (ok=false + "error" when translation aborts).

What is translated: the statement structure of a function (or of a region of a function delimited by two anchor statements):
assignments, `if`, `for .. in range(..)` / `for .. in <list>` (structural / fuelled recursion), `break`, `raise`, `assert`,
`return`, integer / boolean / comparison expressions, list slices and stores, and the handful of numpy list idioms of the
skeleton vocabulary (Model/W4SPrelude.v).  Every numeric kernel call is an application of an opaque `Variable` of the
generated file's Section; a kernel is recognised by its dotted name (+ keyword names) or — for numeric expressions /
statements that are not calls — by the EXACT source text given in the unit's spec.  Kernels with hidden effects (random
stream, optimizer's private state) thread a world value `v_w`.  Python exceptions are `None` of an option result; a variable
that may be unbound (assigned only inside a loop / one branch) is carried as an option and reading it while unbound is `None`
(NameError).  Prints / logging / timing are dropped (only statements that assign nothing but declared drop-variables).
Everything else ABORTS the unit (fail-closed): unknown statement / expression kinds, undeclared variables, undeclared calls,
aliasing assignments between mutable objects, anchors that are missing or ambiguous.

Wave 5 additions (all behind per-unit spec flags; the wave-4 units regenerate byte-identical):
  zarith          integers as Z (+ - * comparisons min max, `c ** c` constants, int()); `ceil(a / b)` and `a / b` on ints are opaque
                  kernels guarded by ZeroDivisionError = None (Model/W4SPreludeZ.v sk_ceildiv / sk_fdiv)
  enums / dataclasses   `class E(Enum)` and `@dataclass class C` are READ FROM THE SOURCE and emitted in front of the Section
                  (Inductive E, E_eqb, Record C); members must have distinct int values, fields must be `name: int`
  dyn C           dynamically typed arguments (None | int | C object | anything else = Model/W4SPreludeZ.v sk_dyn): `is None`,
                  isinstance(x, int), isinstance(x, C), attribute read / numeric use through sk_obj / sk_int (AttributeError / TypeError = None)
  callee_names    `partial(f, kw=..)`: the callee name is part of the kernel key
  generated       calls of sibling generated functions (statement or assignment form), option result, world threaded
  check_signature the parameter names (and defaults) of the translated function must be the ones the unit declares
  annassign       `x: T = e` is `x = e`
  join_raise      `raise` / `assert` under an `if` join through the option (`match (if c then None else Some ..) with`), no duplication of the
                  rest; `return` under an `if` leaves the function; general `if x is None: A else: B` on optional parameters
  templates       opaque_expr entries with "template" and no kernel are TRUSTED rewritings (np.arange(d) = seq 0 d, np.zeros((d,), dtype=int)
                  = repeat 0 d, [np.empty(1)] * d = repeat c d, parse_one_d(x) = x on int sequences)
Units: GenSampler (GCPSampler.__init__ + _prepare_function_sampler + _prepare_gradient_sampler), GenHosvdFull (whole hosvd),
GenCpAlsPre (prologue of cp_als), GenGcpOpt (gcp_opt + _get_initial_guess).

Wave 7 additions (per-unit spec flags again; the nine older units regenerate byte-identical):
  continue        `continue` = next round of the innermost loop; like `break` it is a jump: the statements that follow an `if` containing it
                  are duplicated into both branches (the inner loop of the cp_apr row drivers is therefore emitted twice: sparse / dense copy)
  col_vectors     np.zeros((n, 1)) / -np.ones((n, 1)) are length-n lists like np.zeros((n,)) / -np.ones((n,))
  maybe_free      a loop may read a variable that is possibly unbound at loop entry (assigned under an `if` before the loop): it is passed as
                  an option, reading it unbound is None (NameError); once read in the body it is re-wrapped for the recursive call
  opaque_stmt entries with "template" (no kernel) are TRUSTED rewritings of a whole statement (`lbfgsPos -= 1` = Nat.pred, reached only when
  lbfgsPos != 0); trusted expression templates of the row drivers: `isSparse is False` = negb, `lbfgsMem - 1` = Nat.pred (lbfgsMem >= 1),
  np.mod(a, b) = a mod b (b >= 1)
Units: GenCpAprPdnr (tt_cp_apr_pdnr), GenCpAprPqnr (tt_cp_apr_pqnr): region `M = init.copy()` .. `return (M, output)`.
"""
import ast
import json
import os
import re
import sys

UNITS = ["GenSolver", "GenHosvd", "GenCpAls", "GenTuckerAls", "GenCpAprMu", "GenSampler", "GenHosvdFull", "GenCpAlsPre", "GenGcpOpt", "GenCpAprPdnr", "GenCpAprPqnr"]


class Abort(Exception):
    pass


def ind(text, n=2):
    pad = " " * n
    return "\n".join(pad + l if l else l for l in text.split("\n"))


def dotted(node):
    if isinstance(node, ast.Name):
        return node.id
    if isinstance(node, ast.Attribute):
        b = dotted(node.value)
        return None if b is None else b + "." + node.attr
    return None


def name_pos(txt, v):
    """position of the first occurrence of the variable `v` as a whole identifier in `txt`"""
    m = re.search(r"(?<![\w.])" + re.escape(v) + r"(?!\w)", txt)
    return m.start() if m else len(txt)


def cname(py):
    return "v_" + py.replace(".", "_")


def ctype(t):
    """declared type -> Gallina text (`dyn C` = dynamically typed value None | int | C object | anything else)"""
    return "sk_dyn " + t[4:] if t.startswith("dyn ") else t


W = "$w"          # pseudo-variable: the world threaded through effectful kernels


class Guards:
    def __init__(self):
        self.pre = []          # (pattern, option-expression): wrapped as `match e with None => None | Some pat => ...`
        self.newbound = set()


class Ctx:
    def __init__(self, brk=None, cnt=None):
        self.brk = brk         # env -> text  (None outside loops)
        self.cnt = cnt         # env -> text of `continue` (wave 7; None outside loops)


class Skel:
    def __init__(self, spec, func_node, region, whole_reads_root):
        self.spec = spec
        self.vars = dict(spec.get("vars", {}))
        for n, t in spec.get("params", []):
            if n != W:
                self.vars.setdefault(n, t)
        self.kernels = spec.get("kernels", {})
        self.opaque_expr = spec.get("opaque_expr", {})
        self.opaque_stmt = spec.get("opaque_stmt", {})
        self.drop_vars = set(spec.get("drop_vars", []))
        self.drop_calls = tuple(spec.get("drop_calls", ["print", "logging.info", "warnings.warn"]))
        self.ordered = spec.get("ordered", {})
        self.ring = spec.get("ring", {})
        self.zeros = spec.get("zeros", {})
        self.mutable = set(spec.get("mutable", []))
        self.attr_set = spec.get("attr_set", {})
        self.colsel = spec.get("colsel", {})
        self.enums = spec.get("_enums", {})              # enum class -> member names (read from the source by render_unit)
        self.dataclasses = spec.get("_dataclasses", {})  # dataclass -> field names in source order (all fields are ints)
        self.callee_names = set(spec.get("callee_names", []))
        self.ceildiv = spec.get("ceildiv")               # {"coq", "type"}: ceil(A / B) on ints
        self.fdiv = spec.get("fdiv")                     # {"coq", "type", "ret"}: A / B on ints (float quotient)
        self.func_node = func_node
        self.region = region
        self.loops = []
        self.nloop = 0
        self.ntmp = 0
        self.used_kernels = []         # (coq name, type) in order of first use
        self.info_keys = None
        self.fname = spec["name"]
        self.has_world = any(k.get("effect") for k in self.kernels.values()) or any(k.get("effect") for k in self.opaque_stmt.values())

    # ------------------------------------------------------------------ helpers
    def tmp(self):
        self.ntmp += 1
        return f"t_{self.ntmp}"

    def guard_tmp(self, g, opt):
        """temporary bound to the value of the option expression `opt` (one guard per statement for equal expressions)"""
        for pat, o in g.pre:
            if o == opt and pat.startswith("t_"):
                return pat
        t = self.tmp()
        g.pre.append((t, opt))
        return t

    def vtype(self, name):
        if name == W:
            return self.spec.get("world_type", "T_W")
        if name not in self.vars:
            raise Abort(f"undeclared variable `{name}`")
        return self.vars[name]

    def use_kernel(self, coq, typ):
        if not typ:
            raise Abort(f"kernel {coq} has no declared type")
        for c, t in self.used_kernels:
            if c == coq:
                if t != typ:
                    raise Abort(f"kernel {coq} declared with two different types")
                return
        self.used_kernels.append((coq, typ))

    def varname(self, node):
        """Name / declared dotted attribute -> python variable key, else None"""
        d = dotted(node)
        if d is not None and (isinstance(node, ast.Name) or d in self.vars):
            return d
        return None

    # ------------------------------------------------------------------ droppable statements, reads, assigned
    def droppable(self, s):
        if isinstance(s, ast.Pass):
            return True
        if isinstance(s, ast.Expr):
            if isinstance(s.value, ast.Constant) and isinstance(s.value.value, str):
                return True
            if isinstance(s.value, ast.Call):
                d = dotted(s.value.func)
                return d is not None and d in self.drop_calls
            return False
        if isinstance(s, (ast.Assign, ast.AugAssign, ast.AnnAssign)):
            tg = s.targets if isinstance(s, ast.Assign) else [s.target]
            names = []
            for t in tg:
                names += self.target_bases(t)
            return bool(names) and all(n in self.drop_vars for n in names)
        if isinstance(s, ast.If):
            return all(self.droppable(x) for x in s.body + s.orelse)
        if isinstance(s, ast.For):
            return all(self.droppable(x) for x in s.body + s.orelse)
        return False

    def target_bases(self, t):
        if isinstance(t, (ast.Tuple, ast.List)):
            out = []
            for e in t.elts:
                out += self.target_bases(e)
            return out
        v = self.varname(t)
        if v is not None:
            return [v]
        if isinstance(t, ast.Subscript):
            return self.target_bases(t.value)
        if isinstance(t, ast.Attribute):
            return self.target_bases(t.value)
        raise Abort(f"unsupported assignment target `{ast.unparse(t)}`")

    def assigned(self, stmts):
        out = []

        def add(n):
            if n not in out and n not in self.drop_vars:
                out.append(n)
        for s in stmts:
            if self.droppable(s):
                continue
            if isinstance(s, ast.Assign):
                txt = ast.unparse(s)
                if txt in self.opaque_stmt:
                    for n in self.opaque_stmt[txt]["targets"]:
                        add(n)
                    if self.opaque_stmt[txt].get("effect"):
                        add(W)
                    continue
                for t in s.targets:
                    for n in self.target_bases(t):
                        add(n)
                if self.is_effect_call(s.value) or (isinstance(s.value, ast.BinOp) and (self.is_effect_call(s.value.left) or self.is_effect_call(s.value.right))):
                    add(W)
            elif isinstance(s, ast.AugAssign):
                txt = ast.unparse(s)
                if txt in self.opaque_stmt:
                    for n in self.opaque_stmt[txt]["targets"]:
                        add(n)
                    continue
                for n in self.target_bases(s.target):
                    add(n)
            elif isinstance(s, ast.Expr):
                txt = ast.unparse(s)
                if txt in self.opaque_stmt:
                    for n in self.opaque_stmt[txt]["targets"]:
                        add(n)
                    if self.opaque_stmt[txt].get("effect"):
                        add(W)
                    continue
                if self.is_append(s):
                    add(self.varname(s.value.func.value))
                    continue
                k = self.kernel_of(s.value) if isinstance(s.value, ast.Call) else None
                if k is None:
                    raise Abort(f"unsupported expression statement `{ast.unparse(s)[:80]}`")
                if k.get("effect"):
                    add(W)
                for n in k.get("targets", []) if k.get("generated") else []:
                    add(n)
                if k.get("mutates"):
                    recv = self.varname(s.value.func.value)
                    if recv is None:
                        raise Abort(f"mutating call on a non-variable `{ast.unparse(s)[:80]}`")
                    add(recv)
            elif isinstance(s, ast.If):
                for n in self.assigned(s.body) + self.assigned(s.orelse):
                    add(n)
            elif isinstance(s, ast.For):
                if s.orelse:
                    raise Abort("for-else")
                for n in self.target_bases(s.target):
                    add(n)
                for n in self.assigned(s.body):
                    add(n)
            elif isinstance(s, (ast.Break, ast.Raise, ast.Assert, ast.Return)):
                pass
            elif isinstance(s, ast.Continue) and self.spec.get("continue"):
                pass
            else:
                raise Abort(f"unsupported statement {type(s).__name__} at line {getattr(s, 'lineno', '?')}")
        return out

    def reads(self, stmts, skip=None):
        """python variable keys read by the non-droppable statements (loop `skip` excluded)"""
        out = []

        def add(n):
            if n not in out:
                out.append(n)

        def ex(e):
            if e is None:
                return
            d = self.varname(e) if isinstance(e, (ast.Name, ast.Attribute)) else None
            if d is not None:
                add(d)
                return
            if isinstance(e, ast.Call):
                k = self.kernel_of(e)
                if k is not None:
                    for x in k.get("extra", []):
                        add(x)
                    if k.get("effect"):
                        add(W)
                    if isinstance(e.func, ast.Attribute) and (k.get("recv") or k.get("mutates")):
                        ex(e.func.value)
                    for a in e.args:
                        if not (isinstance(a, ast.Name) and a.id in self.callee_names):
                            ex(a)
                    for kw in e.keywords:
                        ex(kw.value)
                    return
            for ch in ast.iter_child_nodes(e):
                if isinstance(ch, ast.expr):
                    ex(ch)
                elif isinstance(ch, ast.comprehension):
                    ex(ch.iter)
                    for c in ch.ifs:
                        ex(c)
                elif isinstance(ch, ast.keyword):
                    ex(ch.value)

        def tgt(t):
            if isinstance(t, (ast.Tuple, ast.List)):
                for e in t.elts:
                    tgt(e)
            elif self.varname(t) is not None:
                pass
            elif isinstance(t, ast.Subscript):
                ex(t.value)
                ex(t.slice)
            elif isinstance(t, ast.Attribute):
                ex(t.value)

        def st(s):
            if s is skip or self.droppable(s):
                return
            if isinstance(s, ast.Assign):
                txt = ast.unparse(s)
                if txt in self.opaque_stmt and self.opaque_stmt[txt].get("effect"):
                    add(W)
                ex(s.value)
                for t in s.targets:
                    tgt(t)
            elif isinstance(s, ast.AugAssign):
                ex(s.value)
                ex(s.target)
            elif isinstance(s, ast.Expr):
                txt = ast.unparse(s)
                if txt in self.opaque_stmt and self.opaque_stmt[txt].get("effect"):
                    add(W)
                ex(s.value)
            elif isinstance(s, ast.If):
                ex(s.test)
                for x in s.body + s.orelse:
                    st(x)
            elif isinstance(s, ast.For):
                ex(s.iter)
                for x in s.body:
                    st(x)
            elif isinstance(s, ast.Assert):
                ex(s.test)
            elif isinstance(s, ast.Return):
                ex(s.value)
            elif isinstance(s, (ast.Break, ast.Raise)):
                pass
            elif isinstance(s, ast.Continue) and self.spec.get("continue"):
                pass
            else:
                raise Abort(f"unsupported statement {type(s).__name__}")
        for s in stmts:
            st(s)
        if skip is not None:
            for x in self.spec.get("also_return", []) + (self.spec.get("outputs") or []):
                add(x)
        return out

    def has_signal(self, stmts):
        for s in stmts:
            if self.droppable(s):
                continue
            if isinstance(s, (ast.Break, ast.Raise, ast.Return, ast.Assert, ast.Continue)):
                return True
            if isinstance(s, ast.If) and (self.has_signal(s.body) or self.has_signal(s.orelse)):
                return True
        return False

    # ------------------------------------------------------------------ kernels
    def kernel_key(self, call):
        d = dotted(call.func)
        if d is None:
            return None
        fns = [a.id for a in call.args if isinstance(a, ast.Name) and a.id in self.callee_names]
        if fns:
            d += "[" + ",".join(fns) + "]"
        if call.keywords:
            if any(kw.arg is None for kw in call.keywords):
                return None
            d += "/" + ",".join(sorted(kw.arg for kw in call.keywords))
        return d

    def kernel_of(self, call):
        k = self.kernel_key(call)
        return self.kernels.get(k) if k else None

    def is_effect_call(self, e):
        if isinstance(e, ast.Call):
            k = self.kernel_of(e)
            return bool(k and k.get("effect"))
        return False

    def kernel_args(self, call, k, env, g):
        args = []
        if isinstance(call.func, ast.Attribute) and (k.get("recv") or k.get("mutates")):
            args.append(self.expr(call.func.value, env, g)[0])
        for x in k.get("extra", []):
            args.append(self.read_var(x, env, g))
        for a in call.args:
            if isinstance(a, ast.Starred):
                raise Abort("starred argument")
            if isinstance(a, ast.Name) and a.id in self.callee_names:
                continue                      # part of the kernel's key
            args.append(self.atom(self.expr(a, env, g)[0]))
        for kw in sorted(call.keywords, key=lambda q: q.arg):
            args.append(self.atom(self.expr(kw.value, env, g)[0]))
        return args

    @staticmethod
    def atom(t):
        t = t.strip()
        if t.startswith("(") or all(c.isalnum() or c in "_'" for c in t):
            return t
        return "(" + t + ")"

    # ------------------------------------------------------------------ expressions
    def read_var(self, name, env, g):
        if name not in env:
            raise Abort(f"variable `{name}` is read but not bound on this path (or not declared as a parameter)")
        self.vtype(name)
        if env[name] == "maybe" and name not in g.newbound:
            g.pre.append((cname(name), cname(name)))
            g.newbound.add(name)
        return cname(name) if name != W else "v_w"

    # ---- integers (Z), enums, dataclasses, dynamically typed values (units with "zarith") ----
    @staticmethod
    def const_int(e):
        """value of an integer literal or of `c1 ** c2` of literals, else None"""
        if isinstance(e, ast.Constant) and isinstance(e.value, int) and not isinstance(e.value, bool):
            return e.value
        if isinstance(e, ast.BinOp) and isinstance(e.op, ast.Pow):
            a, b = Skel.const_int(e.left), Skel.const_int(e.right)
            if a is not None and b is not None and 0 <= b <= 64:
                return a ** b
        return None

    def exprs_num(self, nodes, env, g, hint=None):
        """evaluate numeric operands; integer literals take the type (nat / Z) of the other operands; dynamic values used as
        numbers are read through `sk_int` (TypeError = None)"""
        res = [None] * len(nodes)
        ty = None
        for i, x in enumerate(nodes):
            if self.const_int(x) is None:
                a, ta = self.expr(x, env, g)
                if (ta or "").startswith("dyn "):
                    a, ta = self.guard_tmp(g, f"sk_int {self.atom(a)}"), "Z"
                res[i] = (a, ta)
                if ta in ("nat", "Z"):
                    ty = ty or ta
        if ty is None:
            ty = hint if hint in ("nat", "Z") else "nat"
        for i, x in enumerate(nodes):
            if res[i] is None:
                v = self.const_int(x)
                if v < 0:
                    raise Abort(f"negative constant `{ast.unparse(x)}`")
                res[i] = (f"{v}%Z" if ty == "Z" else str(v), ty)
        return res

    def dyn_wrap(self, target_type, valtxt, vt):
        """value stored into a dynamically typed variable (`dyn C`)"""
        c = target_type[4:]
        if vt == target_type:
            return valtxt
        if vt == "Z":
            return f"SkInt {self.atom(valtxt)}"
        if vt == c:
            return f"SkObj {self.atom(valtxt)}"
        raise Abort(f"value of type {vt} stored into a variable of type {target_type}")

    def expr(self, e, env, g, hint=None):
        """-> (gallina text, type or None)"""
        txt = ast.unparse(e)
        if txt in self.opaque_expr:
            k = self.opaque_expr[txt]
            names = []
            for n in ast.walk(e):
                v = self.varname(n) if isinstance(n, (ast.Name, ast.Attribute)) else None
                if v is not None and v in self.vars and v not in names and v not in k.get("ignore", []):
                    names.append(v)
            names.sort(key=lambda v: name_pos(txt, v))
            if "template" in k:          # the text denotes a composition of kernels already declared for other texts
                for kn, kt in k["uses"]:
                    self.use_kernel(kn, kt)
                return k["template"].format(**{v.replace(".", "_"): self.read_var(v, env, g) for v in names}), k.get("ret")
            self.use_kernel(k["coq"], k["type"])
            return " ".join([k["coq"]] + [self.read_var(v, env, g) for v in names]), k.get("ret")
        v = self.varname(e) if isinstance(e, (ast.Name, ast.Attribute)) else None
        if v is not None:
            return self.read_var(v, env, g), self.vtype(v)
        if isinstance(e, ast.Attribute) and isinstance(e.value, ast.Name) and e.value.id in self.enums:
            if e.attr not in self.enums[e.value.id]:
                raise Abort(f"`{txt}` is not a member of the enum")
            return f"{e.value.id}_{e.attr}", e.value.id
        if isinstance(e, ast.Attribute):
            a, ta = self.expr(e.value, env, g)
            c = ta[4:] if (ta or "").startswith("dyn ") else ta
            if c in self.dataclasses and e.attr in self.dataclasses[c]:
                if ta != c:              # attribute of a dynamically typed value: AttributeError = None
                    a = self.guard_tmp(g, f"sk_obj {self.atom(a)}")
                return f"{c}_{e.attr} {self.atom(a)}", "Z"
            raise Abort(f"unsupported attribute `{txt}` of type {ta}")
        if self.const_int(e) is not None and hint == "Z":
            return f"{self.const_int(e)}%Z", "Z"
        if isinstance(e, ast.Constant):
            if e.value is True:
                return "true", "bool"
            if e.value is False:
                return "false", "bool"
            if e.value is None:
                return "None", None
            if isinstance(e.value, int) and e.value == 0 and hint in self.zeros:
                return self.zeros[hint], hint
            if isinstance(e.value, int) and e.value >= 0:
                return str(e.value), "nat"
            raise Abort(f"constant `{txt}`")
        if isinstance(e, ast.BinOp) and self.spec.get("zarith") and isinstance(e.op, (ast.Add, ast.Sub, ast.Mult, ast.Div)):
            (a, ta), (b, tb) = self.exprs_num([e.left, e.right], env, g, hint)
            if ta == "Z" and tb == "Z":
                if isinstance(e.op, ast.Div):
                    if not self.fdiv:
                        raise Abort(f"float quotient `{txt}` without a declared kernel")
                    self.use_kernel(self.fdiv["coq"], self.fdiv["type"])
                    t = self.tmp()
                    g.pre.append((t, f"sk_fdiv {self.fdiv['coq']} {self.atom(a)} {self.atom(b)}"))      # ZeroDivisionError = None
                    return t, self.fdiv["ret"]
                op = {ast.Add: "+", ast.Sub: "-", ast.Mult: "*"}[type(e.op)]
                return f"({self.atom(a)} {op} {self.atom(b)})%Z", "Z"
            raise Abort(f"binary operation `{txt}` on ({ta}, {tb})")
        if isinstance(e, ast.BinOp):
            a, ta = self.expr(e.left, env, g)
            b, tb = self.expr(e.right, env, g)
            if isinstance(e.op, ast.Add) and ta == "nat" and tb == "nat":
                return f"{self.atom(a)} + {self.atom(b)}", "nat"
            if isinstance(e.op, ast.Add) and ta == "nat" and tb == "bool":
                return f"{self.atom(a)} + sk_b2n {self.atom(b)}", "nat"
            if isinstance(e.op, ast.Sub) and ta == tb and ta in self.spec.get("sub", {}):
                return f"{self.spec['sub'][ta]} {self.atom(a)} {self.atom(b)}", ta
            if isinstance(e.op, ast.Mult) and ta == "nat" and tb == "nat":
                return f"{self.atom(a)} * {self.atom(b)}", "nat"
            raise Abort(f"binary operation `{txt}` on ({ta}, {tb})")
        if isinstance(e, ast.UnaryOp) and isinstance(e.op, ast.Not):
            a, ta = self.expr(e.operand, env, g)
            if ta != "bool":
                raise Abort(f"`not` on non-boolean `{txt}`")
            return f"negb {self.atom(a)}", "bool"
        if isinstance(e, ast.BoolOp):
            parts = []
            for x in e.values:
                a, ta = self.expr(x, env, g)
                if ta != "bool":
                    raise Abort(f"boolean operator on non-boolean `{ast.unparse(x)}` : {ta}")
                parts.append(self.atom(a))
            return (" && " if isinstance(e.op, ast.And) else " || ").join(parts), "bool"
        if isinstance(e, ast.Compare):
            if len(e.ops) != 1:
                raise Abort("chained comparison")
            op = e.ops[0]
            if isinstance(op, (ast.Is, ast.IsNot)):
                if not (isinstance(e.comparators[0], ast.Constant) and e.comparators[0].value is None):
                    raise Abort(f"`is` comparison `{txt}`")
                lv = self.varname(e.left)
                if lv is not None and lv in self.vars and self.vars[lv].startswith("dyn "):
                    a = self.read_var(lv, env, g)
                    return (f"sk_is_none {a}" if isinstance(op, ast.Is) else f"negb (sk_is_none {a})"), "bool"
                raise Abort(f"`is None` outside the default-parameter idiom: `{txt}`")
            if isinstance(op, (ast.In, ast.NotIn)) and isinstance(e.comparators[0], ast.Tuple):
                a, ta = self.expr(e.left, env, g)
                if ta not in self.enums:
                    raise Abort(f"membership test `{txt}` on type {ta}")
                parts = []
                for m in e.comparators[0].elts:
                    b, tb = self.expr(m, env, g)
                    if tb != ta:
                        raise Abort(f"membership test `{txt}`: member of type {tb}")
                    parts.append(f"{ta}_eqb {self.atom(a)} {self.atom(b)}")
                if not parts:
                    raise Abort(f"membership test `{txt}` in an empty tuple")
                r = " || ".join(parts)
                return (r if isinstance(op, ast.In) else f"negb ({r})"), "bool"
            if self.spec.get("zarith") and (self.const_int(e.left) is not None or self.const_int(e.comparators[0]) is not None):
                (a, ta), (b, tb) = self.exprs_num([e.left, e.comparators[0]], env, g)
            else:
                a, ta = self.expr(e.left, env, g)
                b, tb = self.expr(e.comparators[0], env, g)
            a, b = self.atom(a), self.atom(b)
            if ta != tb or ta is None:
                raise Abort(f"comparison `{txt}` between ({ta}, {tb})")
            if ta in self.enums:
                tab = {ast.Eq: f"{ta}_eqb {a} {b}", ast.NotEq: f"negb ({ta}_eqb {a} {b})"}
            elif ta == "Z":
                tab = {ast.Lt: f"({a} <? {b})%Z", ast.LtE: f"({a} <=? {b})%Z", ast.Gt: f"({b} <? {a})%Z", ast.GtE: f"({b} <=? {a})%Z",
                       ast.Eq: f"({a} =? {b})%Z", ast.NotEq: f"negb ({a} =? {b})%Z"}
            elif ta == "nat":
                tab = {ast.Lt: f"{a} <? {b}", ast.LtE: f"{a} <=? {b}", ast.Gt: f"{b} <? {a}", ast.GtE: f"{b} <=? {a}",
                       ast.Eq: f"{a} =? {b}", ast.NotEq: f"negb ({a} =? {b})"}
            elif ta in self.ordered:
                le = self.ordered[ta]
                tab = {ast.LtE: f"{le} {a} {b}", ast.Lt: f"negb ({le} {b} {a})", ast.Gt: f"negb ({le} {a} {b})", ast.GtE: f"{le} {b} {a}"}
            else:
                raise Abort(f"comparison `{txt}` on type {ta}")
            if type(op) not in tab:
                raise Abort(f"comparison operator in `{txt}` on type {ta}")
            return tab[type(op)], "bool"
        if isinstance(e, ast.List) and not e.elts and hint and hint.startswith("list "):
            return f"(@nil {self.atom(hint[5:])})", hint
        if isinstance(e, ast.UnaryOp) and isinstance(e.op, ast.USub) and isinstance(e.operand, ast.Call) and dotted(e.operand.func) == "np.ones":
            c = e.operand
            if len(c.args) == 1 and not c.keywords and isinstance(c.args[0], ast.Tuple) and (len(c.args[0].elts) == 1 or (
                    self.spec.get("col_vectors") and len(c.args[0].elts) == 2 and self.const_int(c.args[0].elts[1]) == 1)) and hint and \
                    hint.startswith("list ") and hint[5:] in self.spec.get("neg_ones", {}):
                n, tn = self.expr(c.args[0].elts[0], env, g)
                if tn == "nat":
                    return f"repeat {self.spec['neg_ones'][hint[5:]]} {self.atom(n)}", hint
            raise Abort(f"unsupported `{txt}`")
        if isinstance(e, ast.Subscript):
            return self.subscript(e, env, g)
        if isinstance(e, ast.Call):
            return self.call(e, env, g, hint)
        if isinstance(e, ast.Tuple):
            parts = [self.expr(x, env, g)[0] for x in e.elts]
            return "(" + ", ".join(parts) + ")", None
        raise Abort(f"unsupported expression `{txt[:80]}` ({type(e).__name__})")

    def subscript(self, e, env, g):
        txt = ast.unparse(e)
        sl = e.slice
        # np.where(a > t)[0]
        if isinstance(e.value, ast.Call) and dotted(e.value.func) == "np.where" and isinstance(sl, ast.Constant) and sl.value == 0:
            c = e.value
            if len(c.args) == 1 and not c.keywords and isinstance(c.args[0], ast.Compare) and len(c.args[0].ops) == 1:
                cmp_ = c.args[0]
                a, ta = self.expr(cmp_.left, env, g)
                t, tt = self.expr(cmp_.comparators[0], env, g)
                if ta == f"list {tt}" and tt in self.ordered:
                    le = self.ordered[tt]
                    f = {ast.Gt: f"(fun x t => negb ({le} x t))", ast.GtE: f"(fun x t => {le} t x)",
                         ast.Lt: f"(fun x t => negb ({le} t x))", ast.LtE: f"(fun x t => {le} x t)"}.get(type(cmp_.ops[0]))
                    if f:
                        return f"sk_where {f} {self.atom(a)} {self.atom(t)}", "list nat"
            raise Abort(f"unsupported np.where form `{txt}`")
        # column selection of an abstract matrix: V[:, e]
        if isinstance(sl, ast.Tuple) and len(sl.elts) == 2 and isinstance(sl.elts[0], ast.Slice) and \
                sl.elts[0].lower is None and sl.elts[0].upper is None and sl.elts[0].step is None:
            a, ta = self.expr(e.value, env, g)
            if ta in self.colsel:
                c, tc = self.expr(sl.elts[1], env, g)
                k = self.colsel[ta]
                self.use_kernel(k["coq"], k["type"])
                if tc != "list nat":
                    raise Abort(f"column selector of `{txt}` is not a list of ints")
                return f"{k['coq']} {self.atom(a)} {self.atom(c)}", k.get("ret")
            raise Abort(f"unsupported 2-d subscript `{txt}`")
        a, ta = self.expr(e.value, env, g)
        if not (ta or "").startswith("list "):
            raise Abort(f"subscript `{txt}` of non-list type {ta}")
        el = ta[5:]
        if el.startswith("(") and el.endswith(")"):
            el = el[1:-1]
        if isinstance(sl, ast.Slice):
            if sl.step is not None:
                if sl.lower is None and sl.upper is None and isinstance(sl.step, ast.UnaryOp) and isinstance(sl.step.op, ast.USub) \
                        and isinstance(sl.step.operand, ast.Constant) and sl.step.operand.value == 1:
                    return f"rev {self.atom(a)}", ta
                raise Abort(f"slice step in `{txt}`")
            lo = "0" if sl.lower is None else self.expr(sl.lower, env, g)[0]
            if sl.upper is None:
                return f"skipn {self.atom(lo)} {self.atom(a)}", ta
            hi, th = self.expr(sl.upper, env, g)
            if th != "nat":
                raise Abort(f"slice bound of `{txt}` is not a non-negative int")
            return f"sk_slice {self.atom(lo)} {self.atom(hi)} {self.atom(a)}", ta
        if isinstance(sl, ast.UnaryOp) and isinstance(sl.op, ast.USub) and isinstance(sl.operand, ast.Constant) and sl.operand.value == 1:
            t = self.tmp()
            g.pre.append((t, f"sk_last {self.atom(a)}"))
            return t, el
        i, ti = self.expr(sl, env, g)
        if ti != "nat":
            raise Abort(f"index of `{txt}` is not a non-negative int ({ti})")
        t = self.tmp()
        g.pre.append((t, f"nth_error {self.atom(a)} {self.atom(i)}"))
        return t, el

    def call(self, e, env, g, hint):
        txt = ast.unparse(e)
        d = dotted(e.func)
        k = self.kernel_of(e)
        if k is not None:
            if k.get("effect"):
                raise Abort(f"effectful kernel call inside an expression `{txt[:80]}`")
            if k.get("identity"):
                if e.args or e.keywords or not isinstance(e.func, ast.Attribute):
                    raise Abort(f"identity kernel with arguments `{txt}`")
                return self.expr(e.func.value, env, g)
            args = self.kernel_args(e, k, env, g)
            self.use_kernel(k["coq"], k["type"])
            return " ".join([k["coq"]] + args), k.get("ret")
        if d == "np.zeros" and len(e.args) == 1 and not e.keywords and isinstance(e.args[0], ast.Tuple) and \
                (len(e.args[0].elts) == 1 or (self.spec.get("col_vectors") and len(e.args[0].elts) == 2 and self.const_int(e.args[0].elts[1]) == 1)):
            n, tn = self.expr(e.args[0].elts[0], env, g)
            if tn != "nat" or not hint or not hint.startswith("list ") or hint[5:] not in self.zeros:
                raise Abort(f"np.zeros `{txt}` for target type {hint}")
            return f"repeat {self.zeros[hint[5:]]} {self.atom(n)}", hint
        if d == "np.cumsum" and len(e.args) == 1 and not e.keywords:
            a, ta = self.expr(e.args[0], env, g)
            if not (ta or "").startswith("list ") or ta[5:] not in self.ring:
                raise Abort(f"np.cumsum on type {ta}")
            z, add = self.ring[ta[5:]]
            return f"sk_cumsum {z} {add} {self.atom(a)}", ta
        if d == "np.sum" and len(e.args) == 1 and not e.keywords:
            a, ta = self.expr(e.args[0], env, g)
            if ta != "list nat":
                raise Abort(f"np.sum on type {ta}")
            return f"list_sum {self.atom(a)}", "nat"
        if d == "len" and len(e.args) == 1 and not e.keywords:
            a, ta = self.expr(e.args[0], env, g)
            if not (ta or "").startswith("list "):
                raise Abort(f"len of non-list `{txt}`")
            return f"length {self.atom(a)}", "nat"
        if d == "int" and len(e.args) == 1 and not e.keywords:
            a, ta = self.expr(e.args[0], env, g, hint)
            if ta not in ("nat", "Z"):
                raise Abort(f"int() of non-int `{txt}`")
            return a, ta
        if d == "isinstance" and len(e.args) == 2 and not e.keywords:
            lv = self.varname(e.args[0])
            cls = dotted(e.args[1])
            if lv is not None and lv in self.vars and self.vars[lv].startswith("dyn "):
                a = self.read_var(lv, env, g)
                if cls == "int":
                    return f"sk_is_int {a}", "bool"
                if cls == self.vars[lv][4:]:
                    return f"sk_is_obj {a}", "bool"
            raise Abort(f"unsupported isinstance test `{txt}`")
        if d in self.dataclasses:
            fields = self.dataclasses[d]
            if e.args or sorted(kw.arg or "" for kw in e.keywords) != sorted(fields):
                raise Abort(f"constructor `{txt}`: exactly the keyword arguments {fields} are supported")
            byname = {kw.arg: kw.value for kw in e.keywords}
            vals = self.exprs_num([byname[f] for f in fields], env, g, "Z")
            if any(t != "Z" for _, t in vals):
                raise Abort(f"constructor `{txt}`: non-integer field")
            return " ".join([f"mk_{d}"] + [self.atom(a) for a, _ in vals]), d
        if d == "ceil" and self.ceildiv and len(e.args) == 1 and not e.keywords and isinstance(e.args[0], ast.BinOp) \
                and isinstance(e.args[0].op, ast.Div):
            (a, ta), (b, tb) = self.exprs_num([e.args[0].left, e.args[0].right], env, g, "Z")
            if ta != "Z" or tb != "Z":
                raise Abort(f"ceil of a quotient of ({ta}, {tb}) in `{txt}`")
            self.use_kernel(self.ceildiv["coq"], self.ceildiv["type"])
            den = self.const_int(e.args[0].right)
            if den is not None and den != 0:
                return f"{self.ceildiv['coq']} {self.atom(a)} {self.atom(b)}", "Z"
            t = self.tmp()
            g.pre.append((t, f"sk_ceildiv {self.ceildiv['coq']} {self.atom(a)} {self.atom(b)}"))       # ZeroDivisionError = None
            return t, "Z"
        if d in ("min", "max") and len(e.args) >= 2 and not e.keywords and self.spec.get("zarith"):
            vals = self.exprs_num(list(e.args), env, g, hint)
            ts = set(t for _, t in vals)
            if ts != {"Z"}:
                raise Abort(f"`{txt}` on types {sorted(str(t) for t in ts)}")
            f = "Z.min" if d == "min" else "Z.max"
            acc = self.atom(vals[0][0])
            for a, _ in vals[1:]:
                acc = f"({f} {acc} {self.atom(a)})"
            return acc, "Z"
        raise Abort(f"call of an undeclared function `{txt[:80]}`")

    # ------------------------------------------------------------------ statements
    def guard(self, g, body):
        for pat, opt in reversed(g.pre):
            body = f"match {opt} with\n| None => None\n| Some {pat} =>\n{ind(body)}\nend"
        return body

    def after(self, env, g, extra=()):
        env2 = dict(env)
        for n in g.newbound:
            env2[n] = "bound"
        for n in extra:
            self.vtype(n)
            env2[n] = "bound"
        return env2

    def block(self, stmts, env, ctx, k):
        i = 0
        while i < len(stmts) and self.droppable(stmts[i]):
            i += 1
        if i >= len(stmts):
            return k(env)
        s, rest = stmts[i], stmts[i + 1:]
        cont = lambda env2: self.block(rest, env2, ctx, k)
        if isinstance(s, ast.Assign):
            return self.assign(s, env, cont)
        if isinstance(s, ast.AugAssign) and ast.unparse(s) in self.opaque_stmt:
            return self.opaque(s, ast.unparse(s), env, cont)
        if isinstance(s, ast.AugAssign):
            if not isinstance(s.op, ast.Add):
                raise Abort(f"augmented assignment `{ast.unparse(s)}`")
            new = ast.Assign(targets=[s.target], value=ast.BinOp(left=s.target, op=ast.Add(), right=s.value))
            ast.fix_missing_locations(new)
            return self.assign(new, env, cont)
        if isinstance(s, ast.Expr):
            return self.exprstmt(s, env, cont)
        if isinstance(s, ast.If):
            return self.ifstmt(s, rest, env, ctx, k)
        if isinstance(s, ast.For):
            return self.forstmt(s, env, cont)
        if isinstance(s, ast.Break):
            if ctx.brk is None:
                raise Abort("break outside a loop")
            return ctx.brk(env)
        if isinstance(s, ast.Continue) and self.spec.get("continue"):
            if ctx.cnt is None:
                raise Abort("continue outside a loop")
            return ctx.cnt(env)
        if isinstance(s, ast.Raise):
            return "None"
        if isinstance(s, ast.Assert):
            if isinstance(s.test, ast.Constant) and s.test.value is False:
                return "None"
            g = Guards()
            c, tc = self.expr(s.test, env, g)
            if tc != "bool":
                raise Abort(f"assert on non-boolean `{ast.unparse(s.test)}`")
            return self.guard(g, f"if {c}\nthen\n{ind(cont(self.after(env, g)))}\nelse None")
        if isinstance(s, ast.Return):
            if rest and any(not self.droppable(x) for x in rest) and not self.spec.get("join_raise"):
                raise Abort("statements after return")          # (join_raise units: a return inside an `if` leaves the function)
            return self.ret(s, env)
        raise Abort(f"unsupported statement {type(s).__name__} at line {getattr(s, 'lineno', '?')}")

    def store(self, target, valtxt, env, g):
        """-> (list of let-lines, names newly bound) for `target = valtxt` (valtxt an atom)"""
        v = self.varname(target)
        if v is not None:
            if v in self.drop_vars:
                return [], []
            self.vtype(v)
            return [f"let {cname(v)} := {valtxt} in"], [v]
        if isinstance(target, ast.Subscript):
            base = self.varname(target.value)
            if base is None:
                raise Abort(f"store into `{ast.unparse(target)}`")
            tb = self.vtype(base)
            if not tb.startswith("list "):
                raise Abort(f"indexed store into non-list `{ast.unparse(target)}` : {tb}")
            b = self.read_var(base, env, g)
            i, ti = self.expr(target.slice, env, g)
            if ti != "nat":
                raise Abort(f"index of store `{ast.unparse(target)}` is not a non-negative int")
            g.pre.append((cname(base), f"sk_set {b} {self.atom(i)} {valtxt}"))
            return [], [base]
        if isinstance(target, ast.Attribute):
            d = dotted(target)
            if d in self.attr_set:
                k = self.attr_set[d]
                base = self.varname(target.value)
                self.use_kernel(k["coq"], k["type"])
                b = self.read_var(base, env, g)
                return [f"let {cname(base)} := {k['coq']} {b} {valtxt} in"], [base]
        raise Abort(f"unsupported assignment target `{ast.unparse(target)}`")

    def assign(self, s, env, cont):
        txt = ast.unparse(s)
        g = Guards()
        if txt in self.opaque_stmt:
            return self.opaque(s, txt, env, cont)
        val = s.value
        kg = self.kernel_of(val) if isinstance(val, ast.Call) else None
        if kg is not None and kg.get("generated"):
            if val.keywords or len(s.targets) != 1:
                raise Abort(f"unsupported call of a generated function `{txt[:80]}`")
            tgs = s.targets[0].elts if isinstance(s.targets[0], (ast.Tuple, ast.List)) else [s.targets[0]]
            names = [self.varname(t) for t in tgs]
            if any(n is None for n in names) or len(names) != kg.get("nret", 1):
                raise Abort(f"targets of `{txt[:80]}`")
            for n in names:
                self.vtype(n)
            args = self.kernel_args(val, kg, env, g)
            extra = list(names)
            pats = [cname(n) for n in names]
            if kg.get("effect"):
                args = [self.read_var(W, env, g)] + args
                pats.append("v_w")
                extra.append(W)
            pat = pats[0] if len(pats) == 1 else "(" + ", ".join(pats) + ")"
            body = cont(self.after(env, g, extra))
            return self.guard(g, f"match {' '.join([kg['generated']] + args)} with\n| None => None\n| Some {pat} =>\n{ind(body)}\nend")
        # aliasing of mutable objects
        vv = self.varname(val) if isinstance(val, (ast.Name, ast.Attribute)) else None
        if vv is not None and self.vtype(vv) in self.mutable:
            raise Abort(f"assignment `{txt}` aliases a mutable object")
        lines = []
        bound = []
        hoisted = False
        if isinstance(val, ast.BinOp) and (self.is_effect_call(val.left) or self.is_effect_call(val.right)):
            parts = []
            for side in (val.left, val.right):
                if self.is_effect_call(side):
                    k = self.kernel_of(side)
                    if not k.get("ret"):
                        raise Abort(f"effectful call without declared result type in `{txt}`")
                    args = self.kernel_args(side, k, env, g)
                    self.use_kernel(k["coq"], k["type"])
                    w = self.read_var(W, env, g)
                    t = self.tmp()
                    lines.append(f"let '(v_w, {t}) := {k['coq']} {w} {' '.join(args)} in".replace("  ", " ").replace(" in", " in"))
                    name = "hoisted_" + t
                    self.vars[name] = k["ret"]
                    lines.append(f"let {cname(name)} := {t} in")
                    env = dict(env)
                    env[name] = "bound"
                    env[W] = "bound"
                    parts.append(ast.Name(id=name, ctx=ast.Load()))
                else:
                    parts.append(side)
            val = ast.BinOp(left=parts[0], op=val.op, right=parts[1])
            ast.fix_missing_locations(val)
            hoisted = True
        if self.is_effect_call(val):
            k = self.kernel_of(val)
            args = self.kernel_args(val, k, env, g)
            self.use_kernel(k["coq"], k["type"])
            w = self.read_var(W, env, g)
            t = self.tmp()
            lines.append(f"let '(v_w, {t}) := {k['coq']} {w} {' '.join(args)} in".replace("  ", " "))
            valtxt = t
        else:
            hint = None
            if len(s.targets) == 1:
                tv = self.varname(s.targets[0])
                if tv is not None and tv not in self.drop_vars:
                    hint = self.vtype(tv)
            valtxt, vt_ = self.expr(val, env, g, hint[4:] if (hint or "").startswith("dyn ") else hint)
            if (hint or "").startswith("dyn "):
                valtxt = self.dyn_wrap(hint, valtxt, vt_)
            if (len(s.targets) > 1 or not self.varname(s.targets[0])) and not all(c.isalnum() or c == "_" for c in valtxt):
                t = self.tmp()
                lines.append(f"let {t} := {valtxt} in")
                valtxt = t
            else:
                valtxt = valtxt
        # guards of the right-hand side come first, then the binding(s), then guards of stores
        g2 = Guards()
        g2.newbound = set(g.newbound)
        env_mid = self.after(env, g)
        post = []           # sequence of ("let", line) / ("guard", pat, opt)
        for tg in s.targets:
            if isinstance(tg, (ast.Tuple, ast.List)):
                pats = []
                later = []
                for el in tg.elts:
                    ev = self.varname(el)
                    if ev is not None and ev not in self.drop_vars:
                        self.vtype(ev)
                        pats.append(cname(ev))
                        bound.append(ev)
                    elif ev is not None:
                        pats.append("_")
                    else:
                        t2 = self.tmp()
                        pats.append(t2)
                        later.append((el, t2))
                post.append(("let", f"let '({', '.join(pats)}) := {valtxt} in"))
                for el, t2 in later:
                    gg = Guards()
                    gg.newbound = set(g2.newbound)
                    ls, bs = self.store(el, t2, self.after(env_mid, g2, bound), gg)
                    for p in gg.pre:
                        post.append(("guard",) + p)
                    for l in ls:
                        post.append(("let", l))
                    g2.newbound |= gg.newbound
                    bound += bs
            else:
                gg = Guards()
                gg.newbound = set(g2.newbound)
                ls, bs = self.store(tg, self.atom(valtxt) if (len(s.targets) > 1 or not self.varname(tg)) else valtxt, self.after(env_mid, g2, bound), gg)
                for p in gg.pre:
                    post.append(("guard",) + p)
                for l in ls:
                    post.append(("let", l))
                g2.newbound |= gg.newbound
                bound += bs
        env2 = self.after(env_mid, g2, bound + ([W] if (self.is_effect_call(val) or hoisted) else []))
        body = cont(env2)
        for item in reversed(post):
            if item[0] == "let":
                body = item[1] + "\n" + body
            else:
                body = f"match {item[2]} with\n| None => None\n| Some {item[1]} =>\n{ind(body)}\nend"
        body = "\n".join(lines + [body])
        return self.guard(g, body)

    def opaque(self, s, txt, env, cont):
        k = self.opaque_stmt[txt]
        g = Guards()
        names = []
        for n in ast.walk(s.value if isinstance(s, ast.Assign) else s):
            v = self.varname(n) if isinstance(n, (ast.Name, ast.Attribute)) else None
            if v is not None and v in self.vars and v not in names and v not in self.drop_vars:
                names.append(v)
        if isinstance(s, ast.Assign):
            # variables read by the targets (index expressions, partially updated containers)
            for t0 in s.targets:
                for t in (t0.elts if isinstance(t0, (ast.Tuple, ast.List)) else [t0]):
                    for n in ast.walk(t):
                        v = self.varname(n) if isinstance(n, (ast.Name, ast.Attribute)) else None
                        if v is not None and v in self.vars and v not in names and not (self.varname(t) == v):
                            names.append(v)
        names.sort(key=lambda v: name_pos(txt, v))
        names = [v for v in names if v not in k.get("ignore", [])]
        if "template" in k:          # (wave 7) trusted rewriting of a whole statement, single target, no effect
            if len(k["targets"]) != 1 or k.get("effect"):
                raise Abort(f"template statement `{txt}`")
            val = k["template"].format(**{v.replace(".", "_"): self.read_var(v, env, g) for v in names})
            env2 = self.after(env, g, list(k["targets"]))
            return self.guard(g, f"let {cname(k['targets'][0])} := {val} in\n" + cont(env2))
        self.use_kernel(k["coq"], k["type"])
        args = [self.read_var(v, env, g) for v in names]
        tg = k["targets"]
        pat = cname(tg[0]) if len(tg) == 1 else "'(" + ", ".join(cname(x) for x in tg) + ")"
        if k.get("effect"):
            w = self.read_var(W, env, g)
            line = f"let '(v_w, {pat.lstrip(chr(39)).strip('()') if len(tg) > 1 else pat}) := {k['coq']} {w} {' '.join(args)} in"
            if len(tg) > 1:
                line = f"let '(v_w, ({', '.join(cname(x) for x in tg)})) := {k['coq']} {w} {' '.join(args)} in"
            extra = list(tg) + [W]
        else:
            line = f"let {pat} := {' '.join([k['coq']] + args)} in"
            extra = list(tg)
        env2 = self.after(env, g, extra)
        return self.guard(g, line + "\n" + cont(env2))

    def is_append(self, s):
        v = s.value
        return (isinstance(s, ast.Expr) and isinstance(v, ast.Call) and isinstance(v.func, ast.Attribute) and v.func.attr == "append"
                and self.varname(v.func.value) is not None and self.varname(v.func.value) in self.vars
                and self.vars[self.varname(v.func.value)].startswith("list ") and len(v.args) == 1 and not v.keywords)

    def exprstmt(self, s, env, cont):
        txt = ast.unparse(s)
        if txt in self.opaque_stmt:
            return self.opaque(s, txt, env, cont)
        if self.is_append(s):
            x = self.varname(s.value.func.value)
            g = Guards()
            b = self.read_var(x, env, g)
            e, _ = self.expr(s.value.args[0], env, g)
            return self.guard(g, f"let {cname(x)} := {b} ++ [{e}] in\n" + cont(self.after(env, g, [x])))
        if not isinstance(s.value, ast.Call):
            raise Abort(f"unsupported expression statement `{txt[:80]}`")
        k = self.kernel_of(s.value)
        if k is None:
            raise Abort(f"call of an undeclared function `{txt[:80]}`")
        g = Guards()
        if k.get("generated"):
            if s.value.keywords:
                raise Abort(f"keyword arguments in the call of a generated function `{txt[:80]}`")
            args = self.kernel_args(s.value, k, env, g)
            tg = k["targets"]
            for n in tg:
                self.vtype(n)
            pat = cname(tg[0]) if len(tg) == 1 else "(" + ", ".join(cname(x) for x in tg) + ")"
            body = cont(self.after(env, g, tg))
            return self.guard(g, f"match {' '.join([k['generated']] + args)} with\n| None => None\n| Some {pat} =>\n{ind(body)}\nend")
        args = self.kernel_args(s.value, k, env, g)
        self.use_kernel(k["coq"], k["type"])
        if k.get("mutates"):
            recv = self.varname(s.value.func.value)
            if k.get("effect"):
                w = self.read_var(W, env, g)
                line = f"let '(v_w, {cname(recv)}) := {k['coq']} {w} {' '.join(args)} in"
                extra = [recv, W]
            else:
                line = f"let {cname(recv)} := {' '.join([k['coq']] + args)} in"
                extra = [recv]
        elif k.get("effect"):
            w = self.read_var(W, env, g)
            line = f"let v_w := {' '.join([k['coq'], w] + args)} in"
            extra = [W]
        else:
            raise Abort(f"call without effect used as a statement `{txt[:80]}`")
        return self.guard(g, line + "\n" + cont(self.after(env, g, extra)))

    def tuple_of(self, names, states, env_b):
        """value tuple for the carried / joined variables `names` whose representation is `states[n]` ('bound' | 'maybe')"""
        parts = []
        for n in names:
            c = cname(n) if n != W else "v_w"
            if states[n] == "bound":
                if env_b.get(n) != "bound":
                    raise Abort(f"internal: `{n}` must be bound here")
                parts.append(c)
            else:
                st = env_b.get(n)
                parts.append(f"Some {c}" if st == "bound" else (c if st == "maybe" else f"(@None {self.atom(ctype(self.vtype(n)))})"))
        if not parts:
            return "tt"
        return parts[0] if len(parts) == 1 else "(" + ", ".join(parts) + ")"

    def pattern_of(self, names):
        parts = [cname(n) if n != W else "v_w" for n in names]
        if not parts:
            return "_"
        return parts[0] if len(parts) == 1 else "'(" + ", ".join(parts) + ")"

    def dry(self, f):
        """run f() without keeping the loops / temporaries / kernels it generates"""
        saved = (list(self.loops), self.nloop, self.ntmp, list(self.used_kernels))
        try:
            return f()
        finally:
            self.loops, self.nloop, self.ntmp, self.used_kernels = saved[0], saved[1], saved[2], saved[3]

    def ifstmt(self, s, rest, env, ctx, k):
        # default-parameter idiom:  if x is None: x = E   [else: x = E2]
        t = s.test
        if isinstance(t, ast.Compare) and len(t.ops) == 1 and isinstance(t.ops[0], ast.Is) and \
                isinstance(t.comparators[0], ast.Constant) and t.comparators[0].value is None:
            x = self.varname(t.left)
            optp = dict(self.spec.get("option_params", {}))
            if x in self.vars and self.vars[x].startswith("dyn "):
                return self.ifplain(s, rest, env, ctx, k)
            if x in optp and env.get(x) == "optparam" and not s.orelse and len(s.body) == 1 and isinstance(s.body[0], ast.If):
                # if x is None: (if c: x = A else: x = B)   — the default itself is chosen by a test
                g = Guards()
                e1 = self.default_value(s.body, x, {k_: v_ for k_, v_ in env.items() if k_ != x}, g)
                env_in = dict(env)
                env_in[x] = "bound"
                env2 = self.after(env_in, g)
                body = f"let {cname(x)} := match {cname(x)} with None => {e1} | Some {cname(x)} => {cname(x)} end in\n" + self.block(rest, env2, ctx, k)
                return self.guard(g, body)
            if x in optp and len(s.body) == 1 and isinstance(s.body[0], ast.Assign) and len(s.body[0].targets) == 1 \
                    and self.varname(s.body[0].targets[0]) == x and env.get(x) == "optparam" and \
                    (not s.orelse or (len(s.orelse) == 1 and isinstance(s.orelse[0], ast.Assign) and len(s.orelse[0].targets) == 1
                                      and self.varname(s.orelse[0].targets[0]) == x)):
                g = Guards()
                e1, _ = self.expr(s.body[0].value, {k_: v_ for k_, v_ in env.items() if k_ != x}, g)
                env_in = dict(env)
                env_in[x] = "bound"
                e2 = cname(x) if not s.orelse else self.expr(s.orelse[0].value, env_in, g)[0]
                env2 = self.after(env_in, g)
                body = f"let {cname(x)} := match {cname(x)} with None => {e1} | Some {cname(x)} => {e2} end in\n" + self.block(rest, env2, ctx, k)
                return self.guard(g, body)
            if x in optp and env.get(x) == "optparam" and self.spec.get("join_raise") and x in self.assigned(s.body):
                return self.ifplain(s, rest, env, ctx, k, optvar=x)
            raise Abort(f"`is None` test outside the default-parameter idiom: `{ast.unparse(t)}`")
        return self.ifplain(s, rest, env, ctx, k)

    def has_jump(self, stmts):
        """break / return somewhere in the (non-dropped) statements — `raise` / `assert` are not jumps: they end in None"""
        for s in stmts:
            if self.droppable(s):
                continue
            if isinstance(s, (ast.Break, ast.Return, ast.Continue)):
                return True
            if isinstance(s, ast.If) and (self.has_jump(s.body) or self.has_jump(s.orelse)):
                return True
        return False

    def default_value(self, stmts, x, env, g):
        stmts = [q for q in stmts if not self.droppable(q)]
        if len(stmts) == 1 and isinstance(stmts[0], ast.Assign) and len(stmts[0].targets) == 1 and self.varname(stmts[0].targets[0]) == x:
            return self.atom(self.expr(stmts[0].value, env, g)[0])
        if len(stmts) == 1 and isinstance(stmts[0], ast.If) and stmts[0].orelse:
            n0 = len(g.pre)
            c, tc = self.expr(stmts[0].test, env, g)
            if tc != "bool" or len(g.pre) != n0:
                raise Abort(f"default of `{x}`: test `{ast.unparse(stmts[0].test)}`")
            a = self.default_value(stmts[0].body, x, env, g)
            b = self.default_value(stmts[0].orelse, x, env, g)
            if len(g.pre) != n0:
                raise Abort(f"default of `{x}` may raise")
            return f"(if {c} then {a} else {b})"
        raise Abort(f"default of `{x}` is not a (conditional) assignment to it")

    def ifplain(self, s, rest, env, ctx, k, optvar=None):
        if optvar is not None:
            return self.ifopt(s, rest, env, ctx, k, optvar)
        t = s.test
        g = Guards()
        c, tc = self.expr(t, env, g)
        if tc != "bool":
            raise Abort(f"condition `{ast.unparse(t)}` is not boolean ({tc})")
        env1 = self.after(env, g)
        signal = self.has_jump if self.spec.get("join_raise") else self.has_signal
        if signal(s.body) or signal(s.orelse):
            a = self.block(list(s.body) + list(rest), dict(env1), ctx, k)
            b = self.block(list(s.orelse) + list(rest), dict(env1), ctx, k)
            return self.guard(g, f"if {c}\nthen\n{ind(a)}\nelse\n{ind(b)}")
        names = [n for n in self.assigned(s.body) + self.assigned(s.orelse)]
        names = sorted(set(names), key=lambda n: (n == W, n))
        finals = []

        def rec(env_b):
            finals.append(dict(env_b))
            return "tt"
        self.dry(lambda: (self.block(list(s.body), dict(env1), Ctx(None), rec), self.block(list(s.orelse), dict(env1), Ctx(None), rec)))
        if len(finals) > 2 or (len(finals) != 2 and not self.spec.get("join_raise")):
            raise Abort("internal: branch analysis")          # (a branch that always raises contributes no final state)
        states = {n: ("bound" if all(f.get(n) == "bound" for f in finals) else "maybe") for n in names}
        plain = lambda eb: self.tuple_of(names, states, eb)
        a = self.dry(lambda: self.block(list(s.body), dict(env1), Ctx(None), plain))
        b = self.dry(lambda: self.block(list(s.orelse), dict(env1), Ctx(None), plain))
        if "None" not in a and "None" not in b:
            a = self.block(list(s.body), dict(env1), Ctx(None), plain)
            b = self.block(list(s.orelse), dict(env1), Ctx(None), plain)
            env2 = dict(env1)
            for n in names:
                self.vtype(n)
                env2[n] = states[n]
            body = (f"let {self.pattern_of(names)} :=\n  if {c}\n  then\n{ind(a, 4)}\n  else\n{ind(b, 4)} in\n" + self.block(rest, env2, ctx, k))
            return self.guard(g, body)
        a = self.block(list(s.body), dict(env1), Ctx(None), lambda eb: "Some " + self.atom(self.tuple_of(names, states, eb)))
        b = self.block(list(s.orelse), dict(env1), Ctx(None), lambda eb: "Some " + self.atom(self.tuple_of(names, states, eb)))
        env2 = dict(env1)
        for n in names:
            self.vtype(n)
            env2[n] = states[n]
        pat = self.pattern_of(names).lstrip("'")
        body = (f"match (if {c}\n       then\n{ind(a, 9)}\n       else\n{ind(b, 9)}) with\n| None => None\n| Some {pat} =>\n"
                + ind(self.block(rest, env2, ctx, k)) + "\nend")
        return self.guard(g, body)

    def ifopt(self, s, rest, env, ctx, k, x):
        """if x is None: A else: B   for an optional parameter x (A assigns x):  match v_x with None => A | Some v_x => B"""
        if self.has_jump(s.body) or self.has_jump(s.orelse):
            raise Abort(f"break / return under `if {x} is None`")
        env_a = {k_: v_ for k_, v_ in env.items() if k_ != x}
        env_b = dict(env)
        env_b[x] = "bound"
        names = sorted(set(self.assigned(s.body) + self.assigned(s.orelse)), key=lambda n: (n == W, n))
        finals = []

        def rec(eb):
            finals.append(dict(eb))
            return "tt"
        self.dry(lambda: (self.block(list(s.body), dict(env_a), Ctx(None), rec), self.block(list(s.orelse), dict(env_b), Ctx(None), rec)))
        if len(finals) > 2 or (len(finals) != 2 and not self.spec.get("join_raise")):
            raise Abort("internal: branch analysis")          # (a branch that always raises contributes no final state)
        states = {n: ("bound" if all(f.get(n) == "bound" for f in finals) else "maybe") for n in names}
        if states.get(x) != "bound":
            raise Abort(f"`{x}` is not assigned on the `{x} is None` path")
        some = lambda eb: "Some " + self.atom(self.tuple_of(names, states, eb))
        a = self.block(list(s.body), dict(env_a), Ctx(None), some)
        b = self.block(list(s.orelse), dict(env_b), Ctx(None), some)
        env2 = dict(env)
        for n in names:
            self.vtype(n)
            env2[n] = states[n]
        pat = self.pattern_of(names).lstrip("'")
        return (f"match (match {cname(x)} with\n       | None =>\n{ind(a, 9)}\n       | Some {cname(x)} =>\n{ind(b, 9)}\n       end) with\n"
                f"| None => None\n| Some {pat} =>\n" + ind(self.block(rest, env2, ctx, k)) + "\nend")

    def forstmt(self, s, env, cont):
        if s.orelse:
            raise Abort("for-else")
        tnames = self.target_bases(s.target)
        if len(tnames) != 1 or self.varname(s.target) is None:
            raise Abort(f"loop target `{ast.unparse(s.target)}`")
        tv = tnames[0]
        g = Guards()
        it = s.iter
        if isinstance(it, ast.Call) and dotted(it.func) == "range" and len(it.args) == 1 and not it.keywords:
            bound, tb = self.expr(it.args[0], env, g)
            if tb != "nat":
                raise Abort(f"range bound `{ast.unparse(it.args[0])}` is not a non-negative int")
            kind = "range"
            eltype = "nat"
        else:
            bound, tb = self.expr(it, env, g)
            if not (tb or "").startswith("list "):
                raise Abort(f"loop over `{ast.unparse(it)}` of type {tb}")
            kind = "list"
            eltype = tb[5:]
        if tv not in self.drop_vars and self.vtype(tv) != eltype:
            raise Abort(f"loop target `{tv}` declared {self.vtype(tv)} but iterates over {eltype}")
        env0 = self.after(env, g)
        assigned = self.assigned(s.body)
        used_else = self.reads(self.region, skip=s)
        carried = [n for n in assigned + [tv] if n != W and (n in env0 or n in used_else)]
        carried = sorted(set(carried))
        if W in assigned:
            carried.append(W)
        tv_carried = tv in carried
        states = {n: ("bound" if env0.get(n) == "bound" else "maybe") for n in carried}
        body_reads = self.reads(s.body)
        free = sorted(n for n in body_reads if n in env0 and n not in carried and n != tv)
        for n in free:
            if env0[n] != "bound" and not (self.spec.get("maybe_free") and env0[n] == "maybe"):
                raise Abort(f"loop at line {s.lineno} reads `{n}`, which may be unbound when the loop is entered")
        self.nloop += 1
        lname = f"{self.fname}_loop{self.nloop}"
        env_b = {n: env0[n] for n in free}
        for n in carried:
            env_b[n] = states[n]
        env_b[tv] = "bound"

        def ty(n, st):
            t = ctype(self.vtype(n))
            return t if st == "bound" else f"option {self.atom(t)}"
        st_type = " * ".join(self.atom(ty(n, states[n])) for n in carried) if carried else "unit"
        free_decl = "".join(f" ({cname(n)} : {ty(n, env0[n])})" for n in free)
        free_args = "".join(" " + cname(n) for n in free)
        # (maybe_free units: a free variable that was possibly unbound at loop entry is an option; once read in the body it is unwrapped)
        free_in = lambda eb: "".join(f" (Some {cname(n)})" if (env0[n] == "maybe" and eb.get(n) == "bound") else " " + cname(n) for n in free)
        ctx_l = Ctx(lambda eb: "Some " + self.atom(self.tuple_of(carried, states, eb)), lambda eb: nxt(eb))
        if kind == "range":
            nxt = lambda eb: f"{lname}{free_in(eb)} fuel' (S i) {self.atom(self.tuple_of(carried, states, eb))}"
            bind_t = f"let {cname(tv)} := i in\n"
        else:
            nxt = lambda eb: f"{lname}{free_in(eb)} xs' {self.atom(self.tuple_of(carried, states, eb))}"
            bind_t = f"let {cname(tv)} := x in\n"
        body = self.block(list(s.body), env_b, ctx_l, nxt)
        pat = self.pattern_of(carried)
        destr = f"let {pat} := st in\n" if carried else ""
        if kind == "range":
            text = (f"Fixpoint {lname}{free_decl} (fuel i : nat) (st : {st_type}) {{struct fuel}} : option ({st_type}) :=\n"
                    f"  match fuel with\n  | O => Some st\n  | S fuel' =>\n{ind(destr + bind_t + body, 4)}\n  end.")
            call = f"{lname}{free_args} {self.atom(bound)} 0 {self.atom(self.tuple_of(carried, states, env0))}"
        else:
            text = (f"Fixpoint {lname}{free_decl} (xs : list {self.atom(eltype)}) (st : {st_type}) {{struct xs}} : option ({st_type}) :=\n"
                    f"  match xs with\n  | [] => Some st\n  | x :: xs' =>\n{ind(destr + bind_t + body, 4)}\n  end.")
            call = f"{lname}{free_args} {self.atom(bound)} {self.atom(self.tuple_of(carried, states, env0))}"
        self.loops.append(text)
        env2 = dict(env0)
        for n in carried:
            env2[n] = states[n]
        if not tv_carried and tv in env2:
            del env2[tv]
        rest = cont(env2)
        return self.guard(g, f"match {call} with\n| None => None\n| Some {pat.lstrip(chr(39))} =>\n{ind(rest)}\nend")

    def ret(self, s, env):
        g = Guards()
        vals = []
        if s.value is None:
            raise Abort("bare return")
        elts = s.value.elts if isinstance(s.value, ast.Tuple) else [s.value]
        for e in elts:
            vals.append(self.retval(e, env, g))
        for x in self.spec.get("also_return", []):
            vals.append(self.read_var(x, env, g))
        if self.has_world:
            vals.append(self.read_var(W, env, g))
        return self.guard(g, "Some (" + ", ".join(vals) + ")")

    def retval(self, e, env, g):
        v = self.varname(e)
        if v is not None and v in self.spec.get("return_dicts", {}):
            return self.read_var(v, env, g)
        return self.atom(self.expr(e, env, g)[0])

    # dict literal assigned to a result variable: tuple of the values of the non-dropped keys (keys recorded)
    def dict_tuple(self, d, env, g):
        keys, vals = [], []
        dropk = set(self.spec.get("drop_keys", []))
        for kx, vx in zip(d.keys, d.values):
            if not (isinstance(kx, ast.Constant) and isinstance(kx.value, str)):
                raise Abort("dict key")
            if kx.value in dropk:
                continue
            keys.append(kx.value)
            vals.append(self.atom(self.expr(vx, env, g)[0]))
        return keys, "(" + ", ".join(vals) + ")"


class SkelD(Skel):
    """adds: `name = {...}` for declared result dictionaries"""

    def assign(self, s, env, cont):
        if len(s.targets) == 1 and isinstance(s.value, ast.Dict):
            v = self.varname(s.targets[0])
            rd = self.spec.get("return_dicts", {})
            if v in rd:
                g = Guards()
                keys, tup = self.dict_tuple(s.value, env, g)
                if self.info_keys is None:
                    self.info_keys = {}
                self.info_keys[v] = keys
                env2 = self.after(env, g, [v])
                return self.guard(g, f"let {cname(v)} := {tup} in\n" + cont(env2))
        return super().assign(s, env, cont)


# ============================================================================================ unit driver
def find_function(tree, path):
    node = tree
    for part in path.split("."):
        found = [n for n in node.body if isinstance(n, (ast.FunctionDef, ast.ClassDef)) and n.name == part]
        if len(found) != 1:
            raise Abort(f"cannot locate `{path}` (component `{part}`: {len(found)} definitions)")
        node = found[0]
    if not isinstance(node, ast.FunctionDef):
        raise Abort(f"`{path}` is not a function")
    return node


def select_region(fn, start, end):
    body = list(fn.body)
    if body and isinstance(body[0], ast.Expr) and isinstance(body[0].value, ast.Constant) and isinstance(body[0].value.value, str):
        body = body[1:]
    if start is None:
        return body

    def first_line(s):
        return ast.unparse(s).split("\n")[0]
    si = [i for i, s in enumerate(body) if first_line(s).startswith(start)]
    ei = [i for i, s in enumerate(body) if first_line(s).startswith(end)]
    if len(si) != 1 or len(ei) != 1 or ei[0] < si[0]:
        raise Abort(f"region anchors not found exactly once: start `{start}` x{len(si)}, end `{end}` x{len(ei)}")
    return body[si[0]:ei[0] + 1]


class _AnnToAssign(ast.NodeTransformer):
    """`x: T = e` is `x = e` (annotations carry no run-time meaning)"""

    def visit_AnnAssign(self, node):
        if node.value is None:
            return ast.Pass()
        return ast.Assign(targets=[node.target], value=node.value)


def read_enum(tree, name):
    cls = [n for n in tree.body if isinstance(n, ast.ClassDef) and n.name == name]
    if len(cls) != 1 or [dotted(b) for b in cls[0].bases] != ["Enum"] or cls[0].decorator_list:
        raise Abort(f"enum `{name}` not found exactly once as a plain `class {name}(Enum)`")
    members, values = [], []
    for st in cls[0].body:
        if isinstance(st, ast.Expr) and isinstance(st.value, ast.Constant) and isinstance(st.value.value, str):
            continue
        if isinstance(st, ast.Assign) and len(st.targets) == 1 and isinstance(st.targets[0], ast.Name) and isinstance(st.value, ast.Constant) \
                and isinstance(st.value.value, int) and not isinstance(st.value.value, bool):
            members.append(st.targets[0].id)
            values.append(st.value.value)
            continue
        raise Abort(f"enum `{name}`: unsupported member definition `{ast.unparse(st)[:60]}`")
    if not members or len(set(values)) != len(values):
        raise Abort(f"enum `{name}`: members must have distinct integer values (equal values are aliases)")
    return members


def read_dataclass(tree, name):
    cls = [n for n in tree.body if isinstance(n, ast.ClassDef) and n.name == name]
    if len(cls) != 1 or cls[0].bases or [dotted(d) for d in cls[0].decorator_list] != ["dataclass"]:
        raise Abort(f"dataclass `{name}` not found exactly once as a plain `@dataclass class {name}`")
    fields = []
    for st in cls[0].body:
        if isinstance(st, ast.Expr) and isinstance(st.value, ast.Constant) and isinstance(st.value.value, str):
            continue
        if isinstance(st, ast.AnnAssign) and isinstance(st.target, ast.Name) and st.value is None and ast.unparse(st.annotation) == "int":
            fields.append(st.target.id)
            continue
        raise Abort(f"dataclass `{name}`: unsupported member `{ast.unparse(st)[:60]}` (only `field: int` without default)")
    if not fields:
        raise Abort(f"dataclass `{name}` has no fields")
    return fields


def translate_function(spec, src_root):
    path = os.path.join(src_root, spec["file"])
    tree = ast.parse(open(path).read())
    fn = find_function(tree, spec["func"])
    region = select_region(fn, spec.get("start"), spec.get("end"))
    if spec.get("annassign"):
        region = [ast.fix_missing_locations(_AnnToAssign().visit(q)) for q in region]
    if spec.get("check_signature"):
        a = fn.args
        if a.vararg or a.kwarg or a.kwonlyargs or a.posonlyargs:
            raise Abort(f"signature of `{spec['func']}`: only plain positional parameters are supported")
        have = [x.arg for x in a.args if x.arg != "self"]
        want = [n for n, _ in spec.get("params", []) if n != W and not n.startswith("self.")]
        if have != want:
            raise Abort(f"signature of `{spec['func']}` is {have}, the unit expects {want}")
        defaults = [ast.unparse(x) for x in a.defaults]
        if defaults != spec.get("defaults", defaults):
            raise Abort(f"parameter defaults of `{spec['func']}` are {defaults}, the unit expects {spec['defaults']}")
    sk = SkelD(spec, fn, region, None)
    env = {}
    for n, t in spec.get("params", []):
        env[n] = "optparam" if n in spec.get("option_params", {}) else "bound"
    outs = spec.get("outputs")

    def final(env_b):
        if outs is None:
            raise Abort("region does not end with a return statement and declares no outputs")
        g = Guards()
        vals = [sk.read_var(x, env_b, g) for x in outs]
        if sk.has_world:
            vals.append(sk.read_var(W, env_b, g))
        return sk.guard(g, "Some (" + ", ".join(vals) + ")")
    body = sk.block(region, env, Ctx(None), final)
    params = ""
    for n, t in spec.get("params", []):
        if n == W:
            params += f" (v_w : {sk.vtype(W)})"
        else:
            tt = spec["option_params"][n] if n in spec.get("option_params", {}) else t
            params += f" ({cname(n)} : {ctype(tt)})"
    out = []
    for l in sk.loops:
        out.append(l)
    out.append(f"Definition {spec['name']}{params} :=\n{ind(body)}.")
    if sk.info_keys:
        for v, keys in sk.info_keys.items():
            out.append(f"Definition {spec['name']}_{v}_keys : list string := [" + "; ".join(f'"{k}"' for k in keys) + "]%string.")
    names = [f"{spec['name']}_loop{i + 1}" for i in range(len(sk.loops))] + [spec["name"]]
    return sk, "\n\n".join(out), names


def render_unit(unit, src_root):
    specs = unit["functions"]
    decls = ""
    enums, dcs = {}, {}
    if unit.get("enums") or unit.get("dataclasses"):
        tree0 = ast.parse(open(os.path.join(src_root, unit["decl_file"])).read())
        for en in unit.get("enums", []):
            ms = read_enum(tree0, en)
            enums[en] = ms
            decls += (f"(* class {en}(Enum) of {unit['decl_file']}: `==` on members is identity *)\n"
                      f"Inductive {en} : Type := " + " | ".join(f"{en}_{m}" for m in ms) + ".\n"
                      f"Definition {en}_eqb (a b : {en}) : bool :=\n  match a, b with\n"
                      + "".join(f"  | {en}_{m}, {en}_{m} => true\n" for m in ms) + ("  | _, _ => false\n" if len(ms) > 1 else "") + "  end.\n\n")
        for dc in unit.get("dataclasses", []):
            fs = read_dataclass(tree0, dc)
            dcs[dc] = fs
            decls += (f"(* @dataclass class {dc} of {unit['decl_file']}: integer fields in source order *)\n"
                      f"Record {dc} : Type := mk_{dc} {{ " + "; ".join(f"{dc}_{f} : Z" for f in fs) + " }.\n\n")
        for spec in specs:
            spec["_enums"], spec["_dataclasses"] = enums, dcs
    types = []
    consts = []
    kernels = []
    texts = []
    names = []
    for spec in specs:
        sk, text, nm = translate_function(spec, src_root)
        for t in spec.get("types", []):
            if t not in types:
                types.append(t)
        for c in spec.get("consts", []):
            if c not in consts:
                consts.append(c)
        for kname, ktype in sk.used_kernels:
            if (kname, ktype) not in kernels:
                if any(kn == kname for kn, _ in kernels):
                    raise Abort(f"kernel {kname} used with two types in one unit")
                kernels.append((kname, ktype))
        texts.append(f"(* ---- {spec['file']}::{spec['func']}" + (f"  [region `{spec['start']}` .. `{spec['end']}`]" if spec.get("start") else "") + " ---- *)\n" + text)
        names += nm
    head = (f"(* GENERATED by tools/pyx2v_skel.py from {', '.join(sorted(set(s['file'] for s in specs)))} — DO NOT EDIT.\n"
            f"   Control-flow skeleton: numeric kernels are the Section variables k_*, Python variables are v_*, `None` = exception. *)\n"
            "From Coq Require Import String List Arith Bool" + (" ZArith" if unit.get("zarith") else "") + ".\nFrom PV Require Import Model.W4SPrelude"
            + "".join(" " + m for m in unit.get("prelude", [])) + ".\nImport ListNotations.\nLocal Open Scope nat_scope.\n\n" + decls +
            f"Section {unit['name']}.\n")
    if types:
        head += "Variables " + " ".join(types) + " : Type.\n"
    for c, t in consts:
        head += f"Variable {c} : {t}.\n"
    for kname, ktype in kernels:
        head += f"Variable {kname} : {ktype}.\n"
    return head + "\n" + "\n\n".join(texts) + f"\n\nEnd {unit['name']}.\n", names


# ============================================================================================ unit specifications
SOLVER = {
    "name": "GenSolver",
    "functions": [{
        "name": "solve", "file": "pyttb/gcp/optimizers.py", "func": "StochasticSolver.solve",
        "types": ["T_W", "T_M", "T_E", "T_Data", "T_FH", "T_LB", "T_Sampler", "T_Subs", "T_Vals", "T_Wgts", "T_G", "T_FM", "T_Step", "T_Crng"],
        "consts": [("c_leE", "T_E -> T_E -> bool"), ("c_zeroE", "T_E"), ("c_zeroStep", "T_Step")],
        "ordered": {"T_E": "c_leE"},
        "zeros": {"T_E": "c_zeroE", "T_Step": "c_zeroStep"},
        "mutable": ["T_M"],
        "params": [("$w", "T_W"), ("self._max_iters", "nat"), ("self._epoch_iters", "nat"), ("self._max_fails", "nat"), ("self._f_est_tol", "T_E"),
                   ("self._printitn", "nat"), ("initial_model", "T_M"), ("data", "T_Data"), ("function_handle", "T_FH"), ("gradient_handle", "T_FH"),
                   ("lower_bound", "T_LB"), ("sampler", "T_Sampler")],
        "option_params": {"sampler": "option T_Sampler"},
        "vars": {"self._nfails": "nat", "f_subs": "T_Subs", "f_vals": "T_Vals", "f_wgts": "T_Wgts", "f_est": "T_E", "model": "T_M", "best_model": "T_M",
                 "f_est_prev": "T_E", "fest_trace": "list T_E", "step_trace": "list T_Step", "n_epoch": "nat", "iteration": "nat",
                 "g_subs": "T_Subs", "g_vals": "T_Vals", "g_wgts": "T_Wgts", "g_est": "T_G", "step": "T_Step", "failed_epoch": "bool",
                 "f_est_tol_test": "bool", "info": "info"},
        "drop_vars": ["solver_start", "main_start", "time_trace", "main_time", "msg"],
        "drop_keys": ["time_trace"],
        "return_dicts": {"info": True},
        "also_return": ["self._nfails", "best_model"],
        "kernels": {
            "GCPSampler": {"coq": "k_GCPSampler", "type": "T_Data -> T_Sampler"},
            "sampler.function_sample": {"coq": "k_function_sample", "type": "T_W -> T_Sampler -> T_Data -> T_W * (T_Subs * T_Vals * T_Wgts)", "effect": True, "recv": True},
            "sampler.gradient_sample": {"coq": "k_gradient_sample", "type": "T_W -> T_Sampler -> T_Data -> T_W * (T_Subs * T_Vals * T_Wgts)", "effect": True, "recv": True},
            "estimate/lambda_check": {"coq": "k_estimate_f", "type": "T_M -> T_Subs -> T_Vals -> T_Wgts -> T_FH -> bool -> T_E", "ret": "T_E"},
            "estimate/crng,gradient_handle,lambda_check": {"coq": "k_estimate_g", "type": "T_W -> T_M -> T_Subs -> T_Vals -> T_Wgts -> option T_FH -> T_Crng -> T_FH -> bool -> T_W * T_G", "effect": True},
            "initial_model.copy": {"identity": True}, "model.copy": {"identity": True}, "best_model.copy": {"identity": True},
            "self.reset_state": {"coq": "k_reset_state", "type": "T_W -> T_W", "effect": True},
            "self.set_failed_epoch": {"coq": "k_set_failed_epoch", "type": "T_W -> T_W", "effect": True},
            "self.update_step": {"coq": "k_update_step", "type": "T_W -> nat -> T_M -> T_G -> T_LB -> T_W * (T_FM * T_Step)", "effect": True, "extra": ["self._nfails"]},
        },
        "opaque_expr": {
            "any((np.any(np.isinf(g_est_i)) for g_est_i in g_est))": {"coq": "k_any_inf", "type": "T_G -> bool", "ret": "bool"},
            "sampler.crng": {"coq": "k_crng", "type": "T_Sampler -> T_Crng", "ret": "T_Crng"},
        },
        "attr_set": {"model.factor_matrices": {"coq": "k_set_factor_matrices", "type": "T_M -> T_FM -> T_M"}},
    }],
}

HOSVD = {
    "name": "GenHosvd",
    "functions": [{
        "name": "hosvd_modes", "file": "pyttb/hosvd.py", "func": "hosvd", "start": "for k in dimorder:", "end": "for k in dimorder:",
        "types": ["T_V", "T_Tensor", "T_Mat"],
        "consts": [("c_leV", "T_V -> T_V -> bool"), ("c_zeroV", "T_V"), ("c_addV", "T_V -> T_V -> T_V")],
        "ordered": {"T_V": "c_leV"},
        "ring": {"T_V": ("c_zeroV", "c_addV")},
        "mutable": ["T_Tensor"],
        "params": [("dimorder", "list nat"), ("ranks", "list nat"), ("eigsumthresh", "T_V"), ("Y", "T_Tensor"),
                   ("factor_matrices", "list T_Mat"), ("sequential", "bool")],
        "vars": {"k": "nat", "Yk": "T_Mat", "Z": "T_Mat", "D": "list T_V", "V": "T_Mat", "pi": "list nat", "eigvec": "list T_V",
                 "eigsum": "list T_V"},
        "drop_vars": ["print_msg"],
        "outputs": ["factor_matrices", "ranks", "Y"],
        "kernels": {
            "scipy.linalg.eigh": {"coq": "k_eigh", "type": "T_Mat -> list T_V * T_Mat"},
        },
        "opaque_expr": {
            "Y.to_tenmat(np.array([k])).double()": {"coq": "k_unfold", "type": "T_Tensor -> nat -> T_Mat", "ret": "T_Mat"},
            "np.dot(Yk, Yk.transpose())": {"coq": "k_gram", "type": "T_Mat -> T_Mat", "ret": "T_Mat"},
            "np.argsort(-D, kind='quicksort')": {"coq": "k_argsort_desc", "type": "list T_V -> list nat", "ret": "list nat"},
            "D[pi]": {"coq": "k_take", "type": "list T_V -> list nat -> list T_V", "ret": "list T_V"},
        },
        "opaque_stmt": {
            "Y = Y.ttm(factor_matrices[k].transpose(), int(k))": {"coq": "k_shrink", "type": "T_Tensor -> list T_Mat -> nat -> T_Tensor", "targets": ["Y"]},
        },
        "colsel": {"T_Mat": {"coq": "k_select_cols", "type": "T_Mat -> list nat -> T_Mat", "ret": "T_Mat"}},
    }],
}

_CPALS_RESID0 = "M.norm() ** 2 - 2 * iprod"
_CPALS_RESID = "np.sqrt(np.abs(normX ** 2 + M.norm() ** 2 - 2 * iprod))"
CPALS = {
    "name": "GenCpAls",
    "functions": [{
        "name": "cp_als_main", "file": "pyttb/cp_als.py", "func": "cp_als", "start": "U = init.copy().factor_matrices", "end": "return (M, init, output)",
        "types": ["T_F", "T_Mat", "T_UtU", "T_Wt", "T_K", "T_X"],
        "consts": [("c_leF", "T_F -> T_F -> bool"), ("c_zeroF", "T_F")],
        "ordered": {"T_F": "c_leF"},
        "zeros": {"T_F": "c_zeroF"},
        "mutable": ["T_K"],
        "params": [("input_tensor", "T_X"), ("init", "T_K"), ("normX", "T_F"), ("N", "nat"), ("rank", "nat"), ("dimorder", "list nat"),
                   ("optdims", "list nat"), ("maxiters", "nat"), ("stoptol", "T_F"), ("printitn", "nat"), ("fixsigns", "bool")],
        "vars": {"U": "list T_Mat", "fit": "T_F", "dimorder_in": "list nat", "U_mttkrp": "T_Mat", "UtU": "T_UtU", "n": "nat", "iteration": "nat",
                 "M": "T_K", "iprod": "T_F", "normresidual": "T_F", "fitold": "T_F", "Unew": "T_Mat", "Y": "T_Mat", "weights": "T_Wt",
                 "fitchange": "T_F", "flag": "nat", "output": "output"},
        "drop_vars": [],
        "drop_keys": ["params"],
        "return_dicts": {"output": True},
        "kernels": {
            "input_tensor.innerprod": {"coq": "k_innerprod", "type": "T_X -> T_K -> T_F", "recv": True, "ret": "T_F"},
            "input_tensor.mttkrp": {"coq": "k_mttkrp", "type": "T_X -> list T_Mat -> nat -> T_Mat", "recv": True, "ret": "T_Mat"},
            "ttb.ktensor": {"coq": "k_ktensor", "type": "list T_Mat -> T_Wt -> T_K", "ret": "T_K"},
            "M.arrange": {"coq": "k_arrange", "type": "T_K -> T_K", "mutates": True},
            "M.fixsigns": {"coq": "k_fixsigns", "type": "T_K -> T_K", "recv": True, "ret": "T_K"},
        },
        "opaque_expr": {
            "init.copy().factor_matrices": {"coq": "k_init_factors", "type": "T_K -> list T_Mat", "ret": "list T_Mat"},
            "[int(d) for d in dimorder if d in optdims]": {"coq": "k_restrict_dims", "type": "list nat -> list nat -> list nat", "ret": "list nat"},
            "np.zeros((input_tensor.shape[dimorder[-1]], rank))": {"coq": "k_zeros_mttkrp", "type": "T_X -> list nat -> nat -> T_Mat", "ret": "T_Mat"},
            "np.zeros((rank, rank, N))": {"coq": "k_zeros_utu", "type": "nat -> nat -> T_UtU", "ret": "T_UtU"},
            "ttb.ktensor(U, init.weights.copy())": {"coq": "k_ktensor_init", "type": "list T_Mat -> T_K -> T_K", "ret": "T_K"},
            "normX == 0": {"coq": "k_is_zero", "type": "T_F -> bool", "ret": "bool"},
            _CPALS_RESID0: {"coq": "k_resid0", "type": "T_K -> T_F -> T_F", "ret": "T_F"},
            _CPALS_RESID: {"coq": "k_resid", "type": "T_F -> T_K -> T_F -> T_F", "ret": "T_F"},
            "1 - normresidual / normX": {"coq": "k_fit", "type": "T_F -> T_F -> T_F", "ret": "T_F"},
            "np.prod(UtU, axis=2, where=[i != n for i in range(N)])": {"coq": "k_hadamard_others", "type": "T_UtU -> nat -> nat -> T_Mat", "ret": "T_Mat"},
            "(Y == 0).all()": {"coq": "k_all_zero_mat", "type": "T_Mat -> bool", "ret": "bool"},
            "np.zeros(Unew.shape)": {"coq": "k_zeros_like", "type": "T_Mat -> T_Mat", "ret": "T_Mat"},
            "np.linalg.solve(Y.T, Unew.T).T": {"coq": "k_solve", "type": "T_Mat -> T_Mat -> T_Mat", "ret": "T_Mat"},
            "np.sqrt(sum(Unew ** 2, 0))": {"coq": "k_norm2_cols", "type": "T_Mat -> T_Wt", "ret": "T_Wt"},
            "np.maximum(np.max(np.abs(Unew), 0), 1)": {"coq": "k_normmax_cols", "type": "T_Mat -> T_Wt", "ret": "T_Wt"},
            "(weights == 0).all()": {"coq": "k_all_zero_wt", "type": "T_Wt -> bool", "ret": "bool"},
            "Unew / weights": {"coq": "k_scale_cols", "type": "T_Mat -> T_Wt -> T_Mat", "ret": "T_Mat"},
            "np.sum(np.sum(M.factor_matrices[dimorder[-1]] * U_mttkrp, 0) * weights, 0)": {"coq": "k_iprod", "type": "T_K -> list nat -> T_Mat -> T_Wt -> T_F", "ret": "T_F"},
            "np.abs(fitold - fit)": {"coq": "k_absdiff", "type": "T_F -> T_F -> T_F", "ret": "T_F"},
            "M.norm() ** 2 - 2 * input_tensor.innerprod(M)": {
                "template": "k_resid0 {M} (k_innerprod {input_tensor} {M})", "ret": "T_F",
                "uses": [("k_resid0", "T_K -> T_F -> T_F"), ("k_innerprod", "T_X -> T_K -> T_F")]},
            "np.sqrt(np.abs(normX ** 2 + M.norm() ** 2 - 2 * input_tensor.innerprod(M)))": {
                "template": "k_resid {normX} {M} (k_innerprod {input_tensor} {M})", "ret": "T_F",
                "uses": [("k_resid", "T_F -> T_K -> T_F -> T_F"), ("k_innerprod", "T_X -> T_K -> T_F")]},
        },
        "opaque_stmt": {
            "UtU[:, :, n] = U[n].T @ U[n]": {"coq": "k_set_gram", "type": "T_UtU -> nat -> list T_Mat -> T_UtU", "targets": ["UtU"]},
        },
    }],
}

TUCKER = {
    "name": "GenTuckerAls",
    "functions": [{
        "name": "tucker_als_main", "file": "pyttb/tucker_als.py", "func": "tucker_als", "start": "U = Uinit.copy()", "end": "return (solution, Uinit, output)",
        "types": ["T_F", "T_Mat", "T_X", "T_TT"],
        "consts": [("c_leF", "T_F -> T_F -> bool"), ("c_zeroF", "T_F")],
        "ordered": {"T_F": "c_leF"},
        "zeros": {"T_F": "c_zeroF"},
        "mutable": ["T_X", "T_TT"],
        "params": [("input_tensor", "T_X"), ("Uinit", "list T_Mat"), ("normX", "T_F"), ("rank", "list nat"), ("dimorder", "list nat"),
                   ("maxiters", "nat"), ("stoptol", "T_F"), ("printitn", "nat")],
        "vars": {"U": "list T_Mat", "fit": "T_F", "iteration": "nat", "fitold": "T_F", "n": "nat", "Utilde": "T_X", "core": "T_X",
                 "normresidual": "T_F", "fitchange": "T_F", "solution": "T_TT", "output": "output"},
        "drop_keys": ["params"],
        "return_dicts": {"output": True},
        "kernels": {
            "Uinit.copy": {"identity": True},
            "input_tensor.ttm/exclude_dims,transpose": {"coq": "k_ttm_excl", "type": "T_X -> list T_Mat -> nat -> bool -> T_X", "recv": True, "ret": "T_X"},
            "Utilde.nvecs": {"coq": "k_nvecs", "type": "T_X -> nat -> nat -> T_Mat", "recv": True, "ret": "T_Mat"},
            "Utilde.ttm/transpose": {"coq": "k_ttm_core", "type": "T_X -> list T_Mat -> nat -> bool -> T_X", "recv": True, "ret": "T_X"},
            "ttensor/copy": {"coq": "k_ttensor", "type": "T_X -> list T_Mat -> bool -> T_TT", "ret": "T_TT"},
        },
        "opaque_expr": {
            "np.sqrt(abs(normX ** 2 - core.norm() ** 2))": {"coq": "k_resid", "type": "T_F -> T_X -> T_F", "ret": "T_F"},
            "1 - normresidual / normX": {"coq": "k_fit", "type": "T_F -> T_F -> T_F", "ret": "T_F"},
            "abs(fitold - fit)": {"coq": "k_absdiff", "type": "T_F -> T_F -> T_F", "ret": "T_F"},
        },
    }],
}

CPAPR = {
    "name": "GenCpAprMu",
    "functions": [{
        "name": "cp_apr_mu", "file": "pyttb/cp_apr.py", "func": "tt_cp_apr_mu", "start": "kktViolations = -np.ones((maxiters,))", "end": "return (M, output)",
        "types": ["T_W", "T_F", "T_Mat", "T_Mask", "T_K", "T_X", "T_Pi"],
        "consts": [("c_leF", "T_F -> T_F -> bool"), ("c_zeroF", "T_F"), ("c_m1F", "T_F"), ("c_subF", "T_F -> T_F -> T_F")],
        "ordered": {"T_F": "c_leF"},
        "zeros": {"T_F": "c_zeroF", "nat": "0"},
        "neg_ones": {"T_F": "c_m1F"},
        "sub": {"T_F": "c_subF"},
        "mutable": ["T_K"],
        "params": [("$w", "T_W"), ("input_tensor", "T_X"), ("rank", "nat"), ("init", "T_K"), ("stoptol", "T_F"), ("stoptime", "T_F"), ("maxiters", "nat"),
                   ("maxinneriters", "nat"), ("epsDivZero", "T_F"), ("printitn", "nat"), ("printinneritn", "nat"), ("kappa", "T_F"),
                   ("kappatol", "T_F"), ("N", "nat")],
        "vars": {"kktViolations": "list T_F", "nInnerIters": "list nat", "nViolations": "list nat", "nTimes": "list T_F", "M": "T_K",
                 "Phi": "list T_Mat", "n": "nat", "kktModeViolations": "list T_F", "start": "T_F", "iteration": "nat", "isConverged": "bool",
                 "V": "T_Mask", "Pi": "T_Pi", "i": "nat", "t_stop": "T_F", "obj": "T_F", "output": "output"},
        "drop_vars": ["normTensor", "normresidual", "fit"],
        "drop_keys": ["params"],
        "return_dicts": {"output": True},
        "kernels": {
            "init.copy": {"identity": True},
            "M.normalize/normtype": {"coq": "k_normalize", "type": "T_K -> nat -> T_K", "mutates": True},
            "M.normalize/mode,normtype": {"coq": "k_normalize_mode", "type": "T_K -> nat -> nat -> T_K", "mutates": True},
            "M.normalize/normtype,sort": {"coq": "k_normalize_sort", "type": "T_K -> nat -> bool -> T_K", "mutates": True},
            "M.redistribute/mode": {"coq": "k_redistribute", "type": "T_K -> nat -> T_K", "mutates": True},
            "time.time": {"coq": "k_time", "type": "T_W -> T_W * T_F", "effect": True, "ret": "T_F"},
            "calculate_pi": {"coq": "k_calculate_pi", "type": "T_X -> T_K -> nat -> nat -> nat -> T_Pi", "ret": "T_Pi"},
            "calculate_phi": {"coq": "k_calculate_phi", "type": "T_W -> T_X -> T_K -> nat -> nat -> T_Pi -> T_F -> T_W * T_Mat", "ret": "T_Mat", "effect": True},
            "tt_loglikelihood": {"coq": "k_loglikelihood", "type": "T_X -> T_K -> T_F", "ret": "T_F"},
        },
        "opaque_expr": {
            "np.zeros(M.factor_matrices[n].shape)": {"coq": "k_zeros_like_factor", "type": "T_K -> nat -> T_Mat", "ret": "T_Mat"},
            "(Phi[n] > 0) & (M.factor_matrices[n] < kappatol)": {"coq": "k_violation_mask", "type": "list T_Mat -> nat -> T_K -> T_F -> T_Mask", "ret": "T_Mask"},
            "np.any(V)": {"coq": "k_any", "type": "T_Mask -> bool", "ret": "bool"},
            "np.max(np.abs(vectorize_for_mu(np.minimum(M.factor_matrices[n], 1 - Phi[n]))))": {"coq": "k_kkt_mode", "type": "T_K -> nat -> list T_Mat -> T_F", "ret": "T_F"},
            "np.max(kktModeViolations)": {"coq": "k_max", "type": "list T_F -> T_F", "ret": "T_F"},
        },
        "opaque_stmt": {
            "M.factor_matrices[n][V > 0] += kappa": {"coq": "k_add_kappa", "type": "T_K -> nat -> T_Mask -> T_F -> T_K", "targets": ["M"]},
            "M.factor_matrices[n] *= Phi[n]": {"coq": "k_mult_update", "type": "T_K -> nat -> list T_Mat -> T_K", "targets": ["M"]},
        },
    }],
}

# ---- gcp/samplers.py::GCPSampler.__init__ + _prepare_function_sampler + _prepare_gradient_sampler (whole functions) --------------
_SMP_COMMON = {
    "file": "pyttb/gcp/samplers.py", "zarith": True, "annassign": True, "check_signature": True,
    "types": ["T_Data", "T_Rate", "T_Idx", "T_Fl", "T_Sampler", "T_Crng"],
    "callee_names": ["stratified", "uniform", "semistrat"],
    "ceildiv": {"coq": "k_ceil_div", "type": "Z -> Z -> Z"},
    "fdiv": {"coq": "k_fdiv", "type": "Z -> Z -> T_Fl", "ret": "T_Fl"},
    "drop_calls": ["print", "logging.info", "warnings.warn"],
}
_SMP_OPAQUE = {
    "isinstance(data, ttb.sptensor)": {"coq": "k_is_sptensor", "type": "T_Data -> bool", "ret": "bool"},
    "int(np.prod(data.shape))": {"coq": "k_tensor_size", "type": "T_Data -> Z", "ret": "Z"},
    "data.nnz": {"coq": "k_nnz", "type": "T_Data -> Z", "ret": "Z"},
    "np.sort(tt_sub2ind(data.shape, data.subs))": {"coq": "k_sorted_nz_idx", "type": "T_Data -> T_Idx", "ret": "T_Idx"},
    "np.array([], dtype=int)": {"coq": "k_empty_crng", "type": "T_Crng", "ret": "T_Crng"},
}
_SMP_KERNELS = {
    "partial[stratified]/num_nonzeros,num_zeros,nz_idx,over_sample_rate":        # keyword arguments in alphabetical order
        {"coq": "k_partial_stratified", "type": "Z -> Z -> T_Idx -> T_Rate -> T_Sampler", "ret": "T_Sampler"},
    "partial[uniform]/samples": {"coq": "k_partial_uniform", "type": "sk_dyn StratifiedCount -> T_Sampler", "ret": "T_Sampler"},
    "partial[semistrat]/num_nonzeros,num_zeros": {"coq": "k_partial_semistrat", "type": "Z -> Z -> T_Sampler", "ret": "T_Sampler"},
    "np.arange": {"coq": "k_arange", "type": "Z -> T_Crng", "ret": "T_Crng"},
}
_SMP_LAMBDA = ("self._gsampler = lambda data: stratified(data=cast(ttb.sptensor, data), nz_idx=xnzidx, "
               "num_nonzeros=np.random.poisson(exp_nonzeros), num_zeros=np.random.poisson(exp_zeros), over_sample_rate=over_sample_rate)")
_SMP_VARS = {"data": "T_Data", "over_sample_rate": "T_Rate", "num_zeros": "Z", "num_nonzeros": "Z", "tensor_size": "Z", "max_iters": "Z",
             "function_sampler": "Samplers", "gradient_sampler": "Samplers", "function_samples": "dyn StratifiedCount",
             "gradient_samples": "dyn StratifiedCount", "ftmp": "Z", "gtmp": "Z", "xnzidx": "T_Idx", "exp_nonzeros": "T_Fl", "exp_zeros": "T_Fl",
             "self._fsampler": "T_Sampler", "self._gsampler": "T_Sampler", "self._crng": "T_Crng"}
SAMPLER = {
    "name": "GenSampler", "zarith": True, "prelude": ["Model.W4SPreludeZ"], "decl_file": "pyttb/gcp/samplers.py",
    "enums": ["Samplers"], "dataclasses": ["StratifiedCount"],
    "functions": [
        dict(_SMP_COMMON, name="prepare_function_sampler", func="GCPSampler._prepare_function_sampler",
             params=[("data", "T_Data"), ("function_sampler", "Samplers"), ("num_zeros", "Z"), ("num_nonzeros", "Z"), ("over_sample_rate", "T_Rate"),
                     ("function_samples", "dyn StratifiedCount")],
             vars=_SMP_VARS, outputs=["self._fsampler"], kernels=_SMP_KERNELS, opaque_expr=_SMP_OPAQUE),
        dict(_SMP_COMMON, name="prepare_gradient_sampler", func="GCPSampler._prepare_gradient_sampler",
             params=[("self._crng", "T_Crng"), ("data", "T_Data"), ("gradient_sampler", "Samplers"), ("num_zeros", "Z"), ("num_nonzeros", "Z"),
                     ("over_sample_rate", "T_Rate"), ("gradient_samples", "dyn StratifiedCount"), ("max_iters", "Z")],
             vars=_SMP_VARS, outputs=["self._gsampler", "self._crng"], kernels=_SMP_KERNELS, opaque_expr=_SMP_OPAQUE,
             opaque_stmt={_SMP_LAMBDA: {"coq": "k_poisson_sampler", "type": "T_Idx -> T_Fl -> T_Fl -> T_Rate -> T_Sampler",
                                        "targets": ["self._gsampler"], "ignore": ["data"]}}),
        dict(_SMP_COMMON, name="sampler_init", func="GCPSampler.__init__",
             params=[("data", "T_Data"), ("function_sampler", "Samplers"), ("function_samples", "dyn StratifiedCount"),
                     ("gradient_sampler", "Samplers"), ("gradient_samples", "dyn StratifiedCount"), ("max_iters", "Z"), ("over_sample_rate", "T_Rate")],
             defaults=["None", "None", "None", "None", "1000", "1.1"],
             option_params={"function_sampler": "option Samplers", "gradient_sampler": "option Samplers"},
             vars=_SMP_VARS, outputs=["self._fsampler", "self._gsampler", "self._crng"], opaque_expr=_SMP_OPAQUE,
             kernels={
                 "self._prepare_function_sampler": {"generated": "prepare_function_sampler", "targets": ["self._fsampler"]},
                 "self._prepare_gradient_sampler": {"generated": "prepare_gradient_sampler", "targets": ["self._gsampler", "self._crng"],
                                                    "extra": ["self._crng"]},
             }),
    ],
}

# ---- hosvd.py::hosvd, the WHOLE function (argument checks, threshold, mode loop, final core, result) ------------------------------
HOSVDFULL = {
    "name": "GenHosvdFull",
    "functions": [{
        "name": "hosvd_full", "file": "pyttb/hosvd.py", "func": "hosvd", "check_signature": True, "join_raise": True,
        "defaults": ["1", "None", "True", "None"],
        "types": ["T_V", "T_X", "T_Tensor", "T_Mat", "T_TT"],
        "consts": [("c_leV", "T_V -> T_V -> bool"), ("c_zeroV", "T_V"), ("c_addV", "T_V -> T_V -> T_V"), ("c_emptyMat", "T_Mat")],
        "ordered": {"T_V": "c_leV"},
        "ring": {"T_V": ("c_zeroV", "c_addV")},
        "params": [("input_tensor", "T_X"), ("tol", "T_V"), ("verbosity", "T_V"), ("dimorder", "list nat"), ("sequential", "bool"),
                   ("ranks", "list nat")],
        "option_params": {"dimorder": "option (list nat)", "ranks": "option (list nat)"},
        "vars": {"d": "nat", "normxsqr": "T_V", "eigsumthresh": "T_V", "factor_matrices": "list T_Mat", "Y": "T_Tensor", "G": "T_Tensor",
                 "result": "T_TT", "k": "nat", "Yk": "T_Mat", "Z": "T_Mat", "D": "list T_V", "V": "T_Mat", "pi": "list nat",
                 "eigvec": "list T_V", "eigsum": "list T_V"},
        "drop_vars": ["print_msg", "diffnormsqr", "relnorm"],
        "kernels": {
            "scipy.linalg.eigh": {"coq": "k_eigh", "type": "T_Mat -> list T_V * T_Mat"},
        },
        "opaque_expr": {
            "input_tensor.ndims": {"coq": "k_ndims", "type": "T_X -> nat", "ret": "nat"},
            "np.zeros((d,), dtype=int)": {"template": "(repeat 0 {d})", "uses": [], "ret": "list nat"},
            "parse_one_d(ranks).copy()": {"template": "{ranks}", "uses": [], "ret": "list nat"},          # trusted: a sequence of ints as a list
            "np.arange(d)": {"template": "(seq 0 {d})", "uses": [], "ret": "list nat"},
            "parse_one_d(dimorder)": {"template": "{dimorder}", "uses": [], "ret": "list nat"},
            "tuple(range(d)) != tuple(sorted(dimorder))": {"coq": "k_not_permutation", "type": "nat -> list nat -> bool", "ret": "bool"},
            "float(np.sum(input_tensor.double().flatten(input_tensor.order) ** 2))": {"coq": "k_normsqr", "type": "T_X -> T_V", "ret": "T_V"},
            "tol ** 2 * normxsqr / d": {"coq": "k_thresh", "type": "T_V -> T_V -> nat -> T_V", "ret": "T_V"},
            "[np.empty(1)] * d": {"template": "(repeat c_emptyMat {d})", "uses": [], "ret": "list T_Mat"},
            "ttb.tensor(input_tensor.double(), copy=False)": {"coq": "k_as_tensor", "type": "T_X -> T_Tensor", "ret": "T_Tensor"},
            "Y.to_tenmat(np.array([k])).double()": {"coq": "k_unfold", "type": "T_Tensor -> nat -> T_Mat", "ret": "T_Mat"},
            "np.dot(Yk, Yk.transpose())": {"coq": "k_gram", "type": "T_Mat -> T_Mat", "ret": "T_Mat"},
            "np.argsort(-D, kind='quicksort')": {"coq": "k_argsort_desc", "type": "list T_V -> list nat", "ret": "list nat"},
            "D[pi]": {"coq": "k_take", "type": "list T_V -> list nat -> list T_V", "ret": "list T_V"},
            "Y.ttm(factor_matrices, transpose=True)": {"coq": "k_ttm_all_t", "type": "T_Tensor -> list T_Mat -> T_Tensor", "ret": "T_Tensor"},
            "ttb.ttensor(G, factor_matrices, copy=False)": {"coq": "k_ttensor", "type": "T_Tensor -> list T_Mat -> T_TT", "ret": "T_TT"},
        },
        "opaque_stmt": {
            "Y = Y.ttm(factor_matrices[k].transpose(), int(k))": {"coq": "k_shrink", "type": "T_Tensor -> list T_Mat -> nat -> T_Tensor", "targets": ["Y"]},
        },
        "colsel": {"T_Mat": {"coq": "k_select_cols", "type": "T_Mat -> list nat -> T_Mat", "ret": "T_Mat"}},
    }],
}

# ---- cp_als.py::cp_als, the PROLOGUE: argument checks, defaults, dispatch on the initial guess (region before GenCpAls's) ---------
_CPPRE_APPEND_RANDOM = "factor_matrices.append(np.random.uniform(0, 1, (input_tensor.shape[n], rank)))"
CPALSPRE = {
    "name": "GenCpAlsPre",
    "functions": [{
        "name": "cp_als_prologue", "file": "pyttb/cp_als.py", "func": "cp_als", "start": "N = input_tensor.ndims", "end": "if isinstance(init, ttb.ktensor):",
        "check_signature": True, "join_raise": True,
        "defaults": ["0.0001", "1000", "None", "None", "'random'", "1", "True"],
        "types": ["T_W", "T_F", "T_Mat", "T_Init", "T_X"],
        "params": [("$w", "T_W"), ("input_tensor", "T_X"), ("rank", "nat"), ("stoptol", "T_F"), ("maxiters", "nat"), ("dimorder", "list nat"),
                   ("optdims", "list nat"), ("init", "T_Init"), ("printitn", "nat"), ("fixsigns", "bool")],
        "option_params": {"dimorder": "option (list nat)", "optdims": "option (list nat)"},
        "vars": {"N": "nat", "normX": "T_F", "n": "nat", "factor_matrices": "list T_Mat"},
        "outputs": ["N", "normX", "dimorder", "optdims", "init"],
        "kernels": {
            "input_tensor.norm": {"coq": "k_norm", "type": "T_X -> T_F", "recv": True, "ret": "T_F"},
            "ttb.ktensor": {"coq": "k_ktensor_of_factors", "type": "list T_Mat -> T_Init", "ret": "T_Init"},
            "input_tensor.nvecs": {"coq": "k_nvecs", "type": "T_X -> nat -> nat -> T_Mat", "recv": True, "ret": "T_Mat"},
        },
        "opaque_expr": {
            "input_tensor.ndims": {"coq": "k_ndims", "type": "T_X -> nat", "ret": "nat"},
            "np.arange(N)": {"template": "(seq 0 {N})", "uses": [], "ret": "list nat"},
            "parse_one_d(dimorder)": {"template": "{dimorder}", "uses": [], "ret": "list nat"},          # trusted: a sequence of ints as a list
            "parse_one_d(optdims)": {"template": "{optdims}", "uses": [], "ret": "list nat"},
            "tuple(range(N)) != tuple(sorted(dimorder))": {"coq": "k_not_permutation", "type": "nat -> list nat -> bool", "ret": "bool"},
            "not np.all(np.isin(optdims, np.arange(N))) or np.unique(optdims).size != optdims.size":
                {"coq": "k_optdims_invalid", "type": "list nat -> nat -> bool", "ret": "bool"},
            "isinstance(init, ttb.ktensor)": {"coq": "k_init_is_ktensor", "type": "T_Init -> bool", "ret": "bool"},
            "init.ndims": {"coq": "k_init_ndims", "type": "T_Init -> nat", "ret": "nat"},
            "init.ncomponents": {"coq": "k_init_ncomponents", "type": "T_Init -> nat", "ret": "nat"},
            "init.factor_matrices[n].shape != (input_tensor.shape[n], rank)":
                {"coq": "k_init_factor_misshaped", "type": "T_Init -> nat -> T_X -> nat -> bool", "ret": "bool"},
            "isinstance(init, str)": {"coq": "k_init_is_str", "type": "T_Init -> bool", "ret": "bool"},
            "init.lower() == 'random'": {"coq": "k_init_names_random", "type": "T_Init -> bool", "ret": "bool"},
            "init.lower() == 'nvecs'": {"coq": "k_init_names_nvecs", "type": "T_Init -> bool", "ret": "bool"},
            "isinstance(input_tensor, ttb.sumtensor)": {"coq": "k_is_sumtensor", "type": "T_X -> bool", "ret": "bool"},
        },
        "opaque_stmt": {
            _CPPRE_APPEND_RANDOM: {"coq": "k_append_random_factor", "type": "T_W -> list T_Mat -> T_X -> nat -> nat -> T_W * list T_Mat",
                                   "targets": ["factor_matrices"], "effect": True},
        },
    }],
}

# ---- gcp_opt.py::gcp_opt (whole driver) + _get_initial_guess ------------------------------------------------------------------------
_GCP_COMMON = {
    "file": "pyttb/gcp_opt.py", "check_signature": True, "join_raise": True,
    "types": ["T_W", "T_Data", "T_Obj", "T_Opt", "T_K", "T_Mask", "T_SamplerArg", "T_FH", "T_LB", "T_Info", "T_Mat"],
}
_GCP_VARS = {"data": "T_Data", "rank": "nat", "objective": "T_Obj", "optimizer": "T_Opt", "init": "T_K", "mask": "T_Mask", "sampler": "T_SamplerArg",
             "printitn": "nat", "function_handle": "T_FH", "gradient_handle": "T_FH", "lower_bound": "T_LB", "M0": "T_K", "result": "T_K",
             "info": "T_Info", "factor_matrices": "list T_Mat", "n": "nat"}
GCPOPT = {
    "name": "GenGcpOpt",
    "functions": [
        dict(_GCP_COMMON, name="get_initial_guess", func="_get_initial_guess",
             params=[("$w", "T_W"), ("data", "T_Data"), ("rank", "nat"), ("init", "T_K")], vars=_GCP_VARS,
             kernels={"ttb.ktensor": {"coq": "k_ktensor_of", "type": "T_K -> T_K", "ret": "T_K"}},
             opaque_expr={
                 "isinstance(init, Sequence)": {"coq": "k_init_is_sequence", "type": "T_K -> bool", "ret": "bool"},
                 "isinstance(init, str)": {"coq": "k_init_is_str", "type": "T_K -> bool", "ret": "bool"},
                 "isinstance(init, ttb.ktensor)": {"coq": "k_init_is_ktensor", "type": "T_K -> bool", "ret": "bool"},
                 "init.shape != data.shape": {"coq": "k_init_shape_differs", "type": "T_K -> T_Data -> bool", "ret": "bool"},
                 "init.ncomponents != rank": {"coq": "k_init_ncomp_differs", "type": "T_K -> nat -> bool", "ret": "bool"},
                 "init == 'random'": {"coq": "k_init_is_random", "type": "T_K -> bool", "ret": "bool"},
                 "data.ndims": {"coq": "k_ndims", "type": "T_Data -> nat", "ret": "nat"},
                 "ttb.ktensor(factor_matrices)": {"coq": "k_ktensor_of_factors", "type": "list T_Mat -> T_K", "ret": "T_K"},
             },
             opaque_stmt={
                 "init.normalize('all')": {"coq": "k_normalize_all", "type": "T_K -> T_K", "targets": ["init"]},
                 "M0.normalize('all')": {"coq": "k_normalize_all", "type": "T_K -> T_K", "targets": ["M0"]},
                 "M0 *= data.norm() / M0.norm()": {"coq": "k_scale_to_data", "type": "T_K -> T_Data -> T_K", "targets": ["M0"]},
                 "factor_matrices.append(np.random.uniform(0, 1, (data.shape[n], rank)))":
                     {"coq": "k_append_random_factor", "type": "T_W -> list T_Mat -> T_Data -> nat -> nat -> T_W * list T_Mat",
                      "targets": ["factor_matrices"], "effect": True},
             }),
        dict(_GCP_COMMON, name="gcp_opt", func="gcp_opt",
             defaults=["'random'", "None", "None", "1"],
             params=[("$w", "T_W"), ("data", "T_Data"), ("rank", "nat"), ("objective", "T_Obj"), ("optimizer", "T_Opt"), ("init", "T_K"),
                     ("mask", "T_Mask"), ("sampler", "T_SamplerArg"), ("printitn", "nat")],
             vars=_GCP_VARS,
             drop_vars=["tensor_size", "nmissing", "optimizer_name", "objective_name", "welcome_msg", "main_start"],
             kernels={
                 "setup": {"coq": "k_setup", "type": "T_Obj -> T_Data -> T_FH * T_FH * T_LB"},
                 "_get_initial_guess": {"generated": "get_initial_guess", "effect": True, "nret": 1},
             },
             opaque_expr={
                 "isinstance(objective, Objectives)": {"coq": "k_objective_is_enum", "type": "T_Obj -> bool", "ret": "bool"},
                 "len(objective)": {"coq": "k_objective_len", "type": "T_Obj -> nat", "ret": "nat"},
                 "isinstance(data, (ttb.tensor, ttb.sptensor))": {"coq": "k_data_supported", "type": "T_Data -> bool", "ret": "bool"},
                 "isinstance(data, ttb.tensor)": {"coq": "k_data_is_dense", "type": "T_Data -> bool", "ret": "bool"},
                 "isinstance(data, ttb.sptensor)": {"coq": "k_data_is_sparse", "type": "T_Data -> bool", "ret": "bool"},
                 "isinstance(mask, ttb.tensor)": {"coq": "k_mask_is_tensor", "type": "T_Mask -> bool", "ret": "bool"},
                 "mask is not None": {"coq": "k_mask_given", "type": "T_Mask -> bool", "ret": "bool"},
                 "isinstance(optimizer, (StochasticSolver, LBFGSB))": {"coq": "k_optimizer_supported", "type": "T_Opt -> bool", "ret": "bool"},
                 "isinstance(optimizer, LBFGSB)": {"coq": "k_optimizer_is_lbfgsb", "type": "T_Opt -> bool", "ret": "bool"},
                 "isinstance(optimizer, StochasticSolver)": {"coq": "k_optimizer_is_stochastic", "type": "T_Opt -> bool", "ret": "bool"},
             },
             opaque_stmt={
                 "function_handle, gradient_handle, lower_bound = objective":
                     {"coq": "k_unpack_objective", "type": "T_Obj -> T_FH * T_FH * T_LB", "targets": ["function_handle", "gradient_handle", "lower_bound"]},
                 "data *= mask": {"coq": "k_apply_mask", "type": "T_Data -> T_Mask -> T_Data", "targets": ["data"]},
                 "mask = mask.data": {"coq": "k_mask_data", "type": "T_Mask -> T_Mask", "targets": ["mask"]},
                 "result, info = optimizer.solve(M0, data, function_handle, gradient_handle, lower_bound, sampler)":
                     {"coq": "k_solve_stochastic", "type": "T_W -> T_Opt -> T_K -> T_Data -> T_FH -> T_FH -> T_LB -> T_SamplerArg -> T_W * (T_K * T_Info)",
                      "targets": ["result", "info"], "effect": True},
                 "result, info = optimizer.solve(M0, data, function_handle, gradient_handle, lower_bound, mask)":
                     {"coq": "k_solve_lbfgsb", "type": "T_W -> T_Opt -> T_K -> T_Data -> T_FH -> T_FH -> T_LB -> T_Mask -> T_W * (T_K * T_Info)",
                      "targets": ["result", "info"], "effect": True},
                 "info['main_time'] = time.perf_counter() - main_start": {"coq": "k_set_main_time", "type": "T_Info -> T_Info", "targets": ["info"]},
             }),
    ],
}

# ---- wave 7: cp_apr.py::tt_cp_apr_pdnr, region `M = init.copy()` .. `return (M, output)` (outer / mode / row / inner loops) ---------
# flags: continue (`continue` = next round of the innermost loop), col_vectors (np.zeros((n, 1)) / -np.ones((n, 1)) are length-n lists)
_ROWS_KERNELS = {
    "init.copy": {"identity": True},
    "M.normalize/normtype": {"coq": "k_normalize", "type": "T_K -> nat -> T_K", "mutates": True},
    "M.normalize/mode,normtype": {"coq": "k_normalize_mode", "type": "T_K -> nat -> nat -> T_K", "mutates": True},
    "M.normalize/normtype,sort": {"coq": "k_normalize_sort", "type": "T_K -> nat -> bool -> T_K", "mutates": True},
    "M.redistribute/mode": {"coq": "k_redistribute", "type": "T_K -> nat -> T_K", "mutates": True},
    "time.time": {"coq": "k_time", "type": "T_W -> T_W * T_F", "effect": True, "ret": "T_F"},
    "tt_loglikelihood": {"coq": "k_loglikelihood", "type": "T_X -> T_K -> T_F", "ret": "T_F"},
}
_ROWS_OPAQUE_EXPR = {
    "isinstance(input_tensor, ttb.sptensor)": {"coq": "k_is_sptensor", "type": "T_X -> bool", "ret": "bool"},
    "isinstance(input_tensor, ttb.tensor)": {"coq": "k_is_tensor", "type": "T_X -> bool", "ret": "bool"},
    "isSparse is False": {"template": "negb {isSparse}", "uses": [], "ret": "bool"},
    "M.factor_matrices[n].shape[0]": {"coq": "k_num_rows", "type": "T_K -> nat -> nat", "ret": "nat"},
    "np.where(input_tensor.subs[:, n] == jj)[0]": {"coq": "k_row_indices", "type": "T_X -> nat -> nat -> T_Idx", "ret": "T_Idx"},
    "np.ones((1, rank))": {"coq": "k_ones_row", "type": "nat -> T_Row", "ret": "T_Row"},
    "sparse_indices.size == 0": {"coq": "k_idx_empty", "type": "T_Idx -> bool", "ret": "bool"},
    "input_tensor.vals[sparse_indices]": {"coq": "k_vals_at", "type": "T_X -> T_Idx -> T_Row", "ret": "T_Row"},
    "X_mat[jj, :]": {"coq": "k_xmat_row", "type": "T_Xmat -> nat -> T_Row", "ret": "T_Row"},
    "np.any(x_row)": {"coq": "k_any_row", "type": "T_Row -> bool", "ret": "bool"},
    "M.factor_matrices[n][jj, :]": {"coq": "k_get_row", "type": "T_K -> nat -> nat -> T_Row", "ret": "T_Row"},
    "(e_vec - phi_row).transpose()": {"coq": "k_grad", "type": "T_Row -> T_Row -> T_Row", "ret": "T_Row"},
    "np.max(np.abs(np.minimum(m_row, gradM.transpose()[0])))": {"coq": "k_kkt_row", "type": "T_Row -> T_Row -> T_F", "ret": "T_F"},
    "actual_red / -predicted_red": {"coq": "k_rho", "type": "T_F -> T_F -> T_F", "ret": "T_F"},
    "predicted_red == 0": {"coq": "k_is_zeroF", "type": "T_F -> bool", "ret": "bool"},
    "rho < 1 / 4": {"coq": "k_lt_quarter", "type": "T_F -> bool", "ret": "bool"},
    "rho > 3 / 4": {"coq": "k_gt_three_quarters", "type": "T_F -> bool", "ret": "bool"},
    "np.count_nonzero(M.factor_matrices[n] == 0)": {"coq": "k_count_zero", "type": "T_K -> nat -> nat", "ret": "nat"},
    "np.max(kktModeViolations)": {"coq": "k_max", "type": "list T_F -> T_F", "ret": "T_F"},
    "np.maximum(stoptol, kktViolations[iteration]) / 100.0": {"coq": "k_inexact_tol", "type": "T_F -> list T_F -> nat -> T_F", "ret": "T_F"},
    "divmod(iteration, printitn)[1] == 0": {"coq": "k_print_now", "type": "nat -> nat -> bool", "ret": "bool"},
    "-tt_loglikelihood(input_tensor, M)": {"coq": "k_neg_loglikelihood", "type": "T_X -> T_K -> T_F", "ret": "T_F"},
}
_ROWS_OPAQUE_STMT = {
    "Pi = tt_calcpi_prowsubprob(input_tensor, M, rank, n, N, isSparse)":
        {"coq": "k_calcpi_dense", "type": "T_X -> T_K -> nat -> nat -> nat -> bool -> T_Pi", "targets": ["Pi"]},
    "Pi = tt_calcpi_prowsubprob(input_tensor, M, rank, n, N, isSparse, sparse_indices)":
        {"coq": "k_calcpi_sparse", "type": "T_X -> T_K -> nat -> nat -> nat -> bool -> T_Idx -> T_Pi", "targets": ["Pi"]},
    "X_mat = input_tensor.to_tenmat(np.array([n], order=input_tensor.order), copy=False).data":
        {"coq": "k_unfold", "type": "T_X -> nat -> T_Xmat", "targets": ["X_mat"]},
    "M.factor_matrices[n][jj, :] = 0": {"coq": "k_zero_row", "type": "T_K -> nat -> nat -> T_K", "targets": ["M"]},
    "M.factor_matrices[n][jj, :] = m_row": {"coq": "k_set_row", "type": "T_K -> nat -> nat -> T_Row -> T_K", "targets": ["M"]},
    "[phi_row, ups_row] = calc_partials(isSparse, Pi, epsDivZero, x_row, m_row)":
        {"coq": "k_calc_partials", "type": "bool -> T_Pi -> T_F -> T_Row -> T_Row -> T_Row * T_Row", "targets": ["phi_row", "ups_row"]},
    "mu *= 10": {"coq": "k_mu_times_10", "type": "T_F -> T_F", "targets": ["mu"]},
    "mu *= 7 / 2": {"coq": "k_mu_times_7_2", "type": "T_F -> T_F", "targets": ["mu"]},
    "mu *= 2 / 7": {"coq": "k_mu_times_2_7", "type": "T_F -> T_F", "targets": ["mu"]},
}
_ROWS_VARS = {
    "M": "T_K", "isSparse": "bool", "fnEvals": "list nat", "fnVals": "list T_F", "kktViolations": "list T_F", "nInnerIters": "list nat",
    "nzeros": "list nat", "times": "list T_F", "dispLineWarn": "bool", "start": "T_F", "sparseIx": "list (list T_Idx)",
    "row_indices": "list T_Idx", "num_rows": "nat", "jj": "nat", "n": "nat", "e_vec": "T_Row", "rowsubprobStopTol": "T_F", "iteration": "nat",
    "isConverged": "bool", "kktModeViolations": "list T_F", "countInnerIters": "list nat", "Pi": "T_Pi", "X_mat": "T_Xmat",
    "isRowNOTconverged": "list nat", "mu": "T_F", "sparse_indices": "T_Idx", "x_row": "T_Row", "m_row": "T_Row", "innerIterMaximum": "nat",
    "i": "nat", "phi_row": "T_Row", "ups_row": "T_Row", "gradM": "T_Row", "kkt_violation": "T_F", "search_dir": "T_Row",
    "predicted_red": "T_F", "m_rowNew": "T_Row", "f_old": "T_F", "f_unit": "T_F", "num_evals": "nat", "actual_red": "T_F", "rho": "T_F",
    "num_zero": "nat", "t_stop": "T_F", "obj": "T_F", "output": "output",
}
_ROWS_COMMON = {
    "file": "pyttb/cp_apr.py", "start": "M = init.copy()", "end": "return (M, output)",
    "types": ["T_W", "T_F", "T_K", "T_X", "T_Pi", "T_Xmat", "T_Idx", "T_Row"],
    "consts": [("c_leF", "T_F -> T_F -> bool"), ("c_zeroF", "T_F"), ("c_m1F", "T_F"), ("c_subF", "T_F -> T_F -> T_F")],
    "ordered": {"T_F": "c_leF"}, "zeros": {"T_F": "c_zeroF", "nat": "0"}, "neg_ones": {"T_F": "c_m1F"}, "sub": {"T_F": "c_subF"},
    "mutable": ["T_K"], "continue": True, "col_vectors": True, "maybe_free": True,
    "drop_vars": ["normTensor", "normresidual", "fit", "f_new"], "drop_keys": ["params"], "return_dicts": {"output": True},
}
CPAPR_PDNR = {
    "name": "GenCpAprPdnr",
    "functions": [dict(_ROWS_COMMON, **{
        "name": "cp_apr_pdnr", "func": "tt_cp_apr_pdnr",
        "params": [("$w", "T_W"), ("input_tensor", "T_X"), ("rank", "nat"), ("init", "T_K"), ("stoptol", "T_F"), ("stoptime", "T_F"), ("maxiters", "nat"),
                   ("maxinneriters", "nat"), ("epsDivZero", "T_F"), ("printitn", "nat"), ("printinneritn", "nat"), ("epsActive", "T_F"),
                   ("mu0", "T_F"), ("precompinds", "bool"), ("inexact", "bool"), ("N", "nat")],
        "vars": _ROWS_VARS,
        "kernels": _ROWS_KERNELS,
        "opaque_expr": _ROWS_OPAQUE_EXPR,
        "opaque_stmt": dict(_ROWS_OPAQUE_STMT, **{
            "search_dir, predicted_red = get_search_dir_pdnr(Pi, ups_row, rank, gradM.transpose()[0], m_row, mu, epsActive)":
                {"coq": "k_search_dir_pdnr", "type": "T_Pi -> T_Row -> nat -> T_Row -> T_Row -> T_F -> T_F -> T_Row * T_F",
                 "targets": ["search_dir", "predicted_red"]},
            # f_new is only printed (drop variable): the kernel answers the four values the skeleton uses
            "m_rowNew, f_old, f_unit, f_new, num_evals = tt_linesearch_prowsubprob(search_dir.transpose()[0], gradM.transpose(), m_row, 1, 1 / 2, 10, 0.0001, isSparse, x_row, Pi, phi_row, dispLineWarn)":
                {"coq": "k_linesearch", "type": "T_Row -> T_Row -> T_Row -> bool -> T_Row -> T_Pi -> T_Row -> bool -> T_Row * T_F * T_F * nat",
                 "targets": ["m_rowNew", "f_old", "f_unit", "num_evals"]},
        }),
    })],
}

# ---- wave 7: cp_apr.py::tt_cp_apr_pqnr, same region; the L-BFGS memory (delm, delg) is an opaque value, rho a list, lbfgsPos a nat ----
_PQNR_VARS = dict({k: v for k, v in _ROWS_VARS.items() if k not in ("rho", "mu", "ups_row", "predicted_red", "m_rowNew", "f_old", "f_unit", "actual_red", "e_vec", "rowsubprobStopTol")},
                  **{"delm": "T_Mem", "delg": "T_Mem", "rho": "list T_F", "lbfgsPos": "nat", "m_rowOLD": "T_Row", "gradOLD": "T_Row", "tmp_delm": "T_Row",
                     "tmp_delg": "T_Row", "tmp_delm_dot": "T_F", "tmp_rho": "T_F"})
CPAPR_PQNR = {
    "name": "GenCpAprPqnr",
    "functions": [dict(_ROWS_COMMON, **{
        "name": "cp_apr_pqnr", "func": "tt_cp_apr_pqnr", "annassign": True,
        "types": ["T_W", "T_F", "T_K", "T_X", "T_Pi", "T_Xmat", "T_Idx", "T_Row", "T_Mem"],
        "params": [("$w", "T_W"), ("input_tensor", "T_X"), ("rank", "nat"), ("init", "T_K"), ("stoptol", "T_F"), ("stoptime", "T_F"), ("maxiters", "nat"),
                   ("maxinneriters", "nat"), ("epsDivZero", "T_F"), ("printitn", "nat"), ("printinneritn", "nat"), ("epsActive", "T_F"),
                   ("lbfgsMem", "nat"), ("precompinds", "bool"), ("N", "nat")],
        "vars": _PQNR_VARS,
        "kernels": _ROWS_KERNELS,
        "opaque_expr": dict({k: v for k, v in _ROWS_OPAQUE_EXPR.items() if k.startswith(("isinstance", "M.factor", "np.where", "sparse_indices", "input_tensor.vals",
                                                                                           "X_mat", "np.any(x_row)", "np.count", "np.max(kktMode", "divmod", "-tt_log"))}, **{
            "np.zeros((rank, lbfgsMem))": {"coq": "k_zeros_mem", "type": "nat -> nat -> T_Mem", "ret": "T_Mem"},
            "np.empty((), dtype=m_row.dtype)": {"coq": "k_empty_row", "type": "T_Row -> T_Row", "ret": "T_Row"},
            "np.max(np.abs(np.minimum(m_row, gradM)))": {"coq": "k_kkt_row", "type": "T_Row -> T_Row -> T_F", "ret": "T_F"},
            "m_row - m_rowOLD": {"coq": "k_row_sub", "type": "T_Row -> T_Row -> T_Row", "ret": "T_Row"},
            "gradM - gradOLD": {"coq": "k_row_sub", "type": "T_Row -> T_Row -> T_Row", "ret": "T_Row"},
            "tmp_delm.dot(tmp_delg.transpose())": {"coq": "k_row_dot", "type": "T_Row -> T_Row -> T_F", "ret": "T_F"},
            "np.any(tmp_delm_dot == 0)": {"coq": "k_is_zeroF", "type": "T_F -> bool", "ret": "bool"},
            "1 / tmp_delm_dot": {"coq": "k_recip", "type": "T_F -> T_F", "ret": "T_F"},
            "rho[lbfgsMem - 1] > 0": {"coq": "k_last_rho_positive", "type": "list T_F -> nat -> bool", "ret": "bool"},
            # trusted rewritings on non-negative ints (lbfgsMem >= 1; `lbfgsPos -= 1` is reached only when lbfgsPos != 0)
            "lbfgsMem - 1": {"template": "(Nat.pred {lbfgsMem})", "uses": [], "ret": "nat"},
            "np.mod(lbfgsPos, lbfgsMem)": {"template": "({lbfgsPos} mod {lbfgsMem})", "uses": [], "ret": "nat"},
        }),
        "opaque_stmt": dict({k: v for k, v in _ROWS_OPAQUE_STMT.items() if k.startswith(("Pi =", "X_mat =", "M.factor"))}, **{
            "gradM, phi_row = calc_grad(isSparse, Pi, epsDivZero, x_row, m_row)":
                {"coq": "k_calc_grad", "type": "bool -> T_Pi -> T_F -> T_Row -> T_Row -> T_Row * T_Row", "targets": ["gradM", "phi_row"]},
            # the three results that are not used (`_`, `_`, f_new: only printed) are dropped from the line-search answers
            "m_row, _, _, f_new, num_evals = tt_linesearch_prowsubprob(-gradM.transpose(), gradM.transpose(), m_rowOLD, 1, 1 / 2, 10, 0.0001, isSparse, x_row, Pi, phi_row, dispLineWarn)":
                {"coq": "k_linesearch_first", "type": "T_Row -> T_Row -> bool -> T_Row -> T_Pi -> T_Row -> bool -> T_Row * nat", "targets": ["m_row", "num_evals"]},
            "m_row, _, _, f_new, num_evals = tt_linesearch_prowsubprob(search_dir.transpose()[0], gradOLD.transpose(), m_rowOLD, 1, 1 / 2, 10, 0.0001, isSparse, x_row, Pi, phi_row, dispLineWarn)":
                {"coq": "k_linesearch", "type": "T_Row -> T_Row -> T_Row -> bool -> T_Row -> T_Pi -> T_Row -> bool -> T_Row * nat", "targets": ["m_row", "num_evals"]},
            "search_dir = get_search_dir_pqnr(m_row, gradM, epsActive, delm, delg, rho, lbfgsPos, i, dispLineWarn)":
                {"coq": "k_search_dir_pqnr", "type": "T_Row -> T_Row -> T_F -> T_Mem -> T_Mem -> list T_F -> nat -> nat -> bool -> T_Row", "targets": ["search_dir"]},
            "delm[:, lbfgsPos] = tmp_delm": {"coq": "k_set_col", "type": "T_Mem -> nat -> T_Row -> T_Mem", "targets": ["delm"]},
            "delg[:, lbfgsPos] = tmp_delg": {"coq": "k_set_col", "type": "T_Mem -> nat -> T_Row -> T_Mem", "targets": ["delg"]},
            "lbfgsPos -= 1": {"template": "(Nat.pred {lbfgsPos})", "targets": ["lbfgsPos"]},
        }),
    })],
}

SPECS = [SOLVER, HOSVD, CPALS, TUCKER, CPAPR, SAMPLER, HOSVDFULL, CPALSPRE, GCPOPT, CPAPR_PDNR, CPAPR_PQNR]


def main(argv):
    if len(argv) != 3:
        print("usage: pyx2v_skel.py <src_root> <outdir>")
        return 2
    src_root, outdir = argv[1], argv[2]
    os.makedirs(outdir, exist_ok=True)
    status = {}
    done = set()
    for unit in SPECS:
        name = unit["name"]
        done.add(name)
        try:
            text, names = render_unit(unit, src_root)
            path = os.path.join(outdir, name + ".v")
            changed = not os.path.exists(path) or open(path).read() != text
            if changed:
                with open(path, "w") as fh:
                    fh.write(text)
            status[name] = {"ok": True, "functions": names, "changed": changed}
        except Abort as ex:
            status[name] = {"ok": False, "error": str(ex)}
        except Exception as ex:          # a crash of the translator is a failed translation of that unit, nothing else
            status[name] = {"ok": False, "error": f"translator crashed: {type(ex).__name__}: {ex}"}
    for u in UNITS:
        if u not in done:
            status[u] = {"ok": False, "error": "unit not implemented"}
    print(json.dumps(status))
    return 0


if __name__ == "__main__":
    sys.exit(main(sys.argv))
