(* Proofs/C19Proofs.v — guard_<op> rejects exactly when pre_<op> fails (or: refuted + partial). *)
From Coq Require Import List ZArith Bool Lia Permutation.
From PV Require Import Np.NpZ Gen.GenUtils Proofs.NpZProofs Proofs.UtilsProofs Model.C19Guards.
Import ListNotations.
Local Open Scope Z_scope.

(* ---------------------------------------------------------------------------------------- *)
(* plumbing                                                                                   *)
(* ---------------------------------------------------------------------------------------- *)
Lemma res_unit_decide (r : res unit) : r = decide (is_ok r).
Proof. destruct r as [[]|]; reflexivity. Qed.

Lemma is_ok_chk b : is_ok (chk b) = b.
Proof. destruct b; reflexivity. Qed.

Lemma is_ok_andthen r1 r2 : is_ok (r1 ;; r2) = is_ok r1 && is_ok r2.
Proof. destruct r1 as [[]|]; reflexivity. Qed.

Lemma is_ok_decide b : is_ok (decide b) = b.
Proof. destruct b; reflexivity. Qed.

Lemma decide_by (r : res unit) (b : bool) : is_ok r = b -> r = decide b.
Proof. intros <-. apply res_unit_decide. Qed.

Lemma is_ok_chk_all {A} (f : A -> res unit) l : is_ok (chk_all f l) = forallb (fun x => is_ok (f x)) l.
Proof. induction l as [|x l IH]; [reflexivity|]. cbn. now rewrite is_ok_andthen, IH. Qed.

(* the two halves of the property follow from "guard = decide pre" *)
Lemma decide_rejects (g : res unit) p : g = decide p -> p = false -> g = Err.
Proof. intros -> ->. reflexivity. Qed.
Lemma decide_accepts (g : res unit) p : g = decide p -> p = true -> g = Ok tt.
Proof. intros -> ->. reflexivity. Qed.

Ltac okb := repeat (rewrite ?is_ok_andthen, ?is_ok_chk, ?is_ok_decide, ?is_ok_chk_all).

(* a rejected mutating request leaves the receiver as it was *)
Lemma run_mut_rejected {S} (g : res unit) (upd : S -> S) (s : S) : g = Err -> run_mut g upd s = (s, false).
Proof. intros ->. reflexivity. Qed.
Lemma run_mut_answered {S} (g : res unit) (upd : S -> S) (s : S) : g = Ok tt -> run_mut g upd s = (upd s, true).
Proof. intros ->. reflexivity. Qed.

Lemma forallb_perm {A} (f : A -> bool) l l' : Permutation l l' -> forallb f l = forallb f l'.
Proof.
  induction 1; cbn; try congruence.
  - destruct (f y), (f x); reflexivity.
Qed.

Lemma shape_eqb_refl s : shape_eqb s s = true.
Proof.
  unfold shape_eqb. rewrite Z.eqb_refl. cbn. induction s as [|x s IH]; [reflexivity|].
  cbn. now rewrite Z.eqb_refl.
Qed.

Lemma shape_eqb_eq a b : shape_eqb a b = true <-> a = b.
Proof.
  split; [|intros ->; apply shape_eqb_refl].
  unfold shape_eqb, zlen. rewrite andb_true_iff, Z.eqb_eq. intros [Hl H].
  apply Nat2Z.inj in Hl. revert b Hl H. induction a as [|x a IH]; intros [|y b] Hl H; try discriminate; [reflexivity|].
  cbn in *. apply andb_true_iff in H as [E H]. apply Z.eqb_eq in E. subst. f_equal. apply IH; auto.
Qed.

(* ---------------------------------------------------------------------------------------- *)
(* numpy's checks vs. the vocabulary of the preconditions, on non-negative arguments           *)
(* ---------------------------------------------------------------------------------------- *)
Lemma np_idx_ok_nonneg n k : 0 <= k -> np_idx_ok n k = in_range n k.
Proof.
  intros H. unfold np_idx_ok, in_range.
  destruct (Z.leb_spec (-n) k), (Z.leb_spec 0 k), (Z.ltb_spec k n); cbn; try reflexivity; lia.
Qed.

Lemma np_norm_nonneg n k : 0 <= k -> np_norm n k = k.
Proof. intros H. unfold np_norm. destruct (Z.ltb_spec k 0); [lia|reflexivity]. Qed.

Lemma map_np_norm_nonneg n l : (forall x, In x l -> 0 <= x) -> map (np_norm n) l = l.
Proof.
  induction l as [|x l IH]; intros H; [reflexivity|]. cbn. rewrite np_norm_nonneg by (apply H; now left).
  f_equal. apply IH. intros y Hy. apply H. now right.
Qed.

Lemma forallb_ext_in {A} (f g : A -> bool) l : (forall x, In x l -> f x = g x) -> forallb f l = forallb g l.
Proof.
  induction l as [|x l IH]; intros H; [reflexivity|]. cbn. rewrite (H x) by now left. f_equal.
  apply IH. intros y Hy. apply H. now right.
Qed.

Lemma np_transpose_ok_nonneg N o : (forall x, In x o -> 0 <= x) -> np_transpose_ok N o = is_permb N o.
Proof.
  intros H. unfold np_transpose_ok, is_permb, modes_ok. rewrite map_np_norm_nonneg by auto.
  rewrite (forallb_ext_in (np_idx_ok N) (in_range N)); [now rewrite andb_assoc|].
  intros x Hx. apply np_idx_ok_nonneg; auto.
Qed.

Lemma szw_nonneg s k : 0 <= k -> szw s k = sz s k.
Proof. intros H. unfold szw, sz. now rewrite np_norm_nonneg. Qed.

(* ======================================================================================== *)
(* tensor                                                                                     *)
(* ======================================================================================== *)
Theorem tensor_ctor_decides dshape shape : guard_tensor_ctor dshape shape = decide (pre_tensor_ctor dshape shape).
Proof.
  apply decide_by. unfold guard_tensor_ctor, pre_tensor_ctor, np_reshape_ok.
  destruct (zlen _ =? 0); okb; [reflexivity|]. now rewrite andb_diag.
Qed.

Theorem tensor_reshape_decides s new : guard_tensor_reshape s new = decide (pre_tensor_reshape s new).
Proof.
  apply decide_by. unfold guard_tensor_reshape, pre_tensor_reshape, np_reshape_ok. okb.
  rewrite (Z.eqb_sym (zprod new)). apply andb_diag.
Qed.

Theorem tensor_innerprod_decides s u : guard_tensor_innerprod s u = decide (pre_tensor_innerprod s u).
Proof. reflexivity. Qed.

(* permute: the code is weaker than the precondition (A-28 and negative axes) *)
Definition tensor_permute_stmt : Prop :=
  forall s order, guard_tensor_permute s order = decide (pre_tensor_permute s order).

Theorem tensor_permute_refuted : ~ tensor_permute_stmt.
Proof. intros H. specialize (H [4] [1]). vm_compute in H. discriminate. Qed.

Theorem tensor_permute_refuted_2way : guard_tensor_permute [2; 3] [1; 1] = Ok tt /\ pre_tensor_permute [2; 3] [1; 1] = false.
Proof. split; reflexivity. Qed.

Theorem tensor_permute_refuted_negative : guard_tensor_permute [2; 3] [-1; 0] = Ok tt /\ pre_tensor_permute [2; 3] [-1; 0] = false.
Proof. split; reflexivity. Qed.

Definition all_ones (o : vec) : bool := negb (zlen o =? 0) && forallb (fun x => x =? 1) o.

Theorem tensor_permute_partial s order :
  all_ones order = false -> (forall x, In x order -> 0 <= x) ->
  guard_tensor_permute s order = decide (pre_tensor_permute s order).
Proof.
  intros Hone Hnn. apply decide_by. unfold guard_tensor_permute, pre_tensor_permute. okb.
  unfold all_ones in Hone.
  destruct (zlen order =? 0) eqn:E0.
  - cbn. rewrite andb_true_r. apply Z.eqb_eq in E0. unfold is_permb. rewrite E0.
    destruct order; [|unfold zlen in E0; cbn in E0; lia]. cbn. now rewrite andb_true_r.
  - cbn in Hone. rewrite Hone. okb. rewrite np_transpose_ok_nonneg by auto.
    unfold is_permb. rewrite (Z.eqb_sym (ndim s)). now rewrite andb_assoc, andb_diag.
Qed.

(* the rejection half holds without side condition on the all-ones shortcut only for the length test *)
Theorem tensor_permute_rejects_length s order : zlen order <> ndim s -> guard_tensor_permute s order = Err.
Proof.
  intros H. unfold guard_tensor_permute. destruct (ndim s =? zlen order) eqn:E; [|reflexivity].
  apply Z.eqb_eq in E. congruence.
Qed.

(* element-wise binary operations: numpy broadcasting answers mismatched shapes *)
Definition tensor_binop_stmt : Prop := forall s u, guard_tensor_binop s u = decide (pre_tensor_binop s u).
Theorem tensor_binop_refuted : ~ tensor_binop_stmt.
Proof. intros H. specialize (H [2; 3] [1; 3]). vm_compute in H. discriminate. Qed.

Lemma bcast_rev_refl a : bcast_rev a a = true.
Proof. induction a as [|x a IH]; [reflexivity|]. cbn. now rewrite Z.eqb_refl, IH. Qed.

Theorem tensor_binop_accepts s u : pre_tensor_binop s u = true -> guard_tensor_binop s u = Ok tt.
Proof.
  unfold pre_tensor_binop, guard_tensor_binop, np_broadcast_ok. intros H. apply shape_eqb_eq in H. subst.
  now rewrite bcast_rev_refl.
Qed.

(* partial rejection: same number of modes and no mode of size 1 on either side *)
Lemma bcast_rev_no_ones a b : length a = length b -> forallb (fun x => negb (x =? 1)) a = true ->
  forallb (fun x => negb (x =? 1)) b = true -> bcast_rev a b = true -> a = b.
Proof.
  revert b. induction a as [|x a IH]; intros [|y b] Hl Ha Hb H; try discriminate; [reflexivity|].
  cbn in *. apply andb_true_iff in Ha as [Hx Ha]. apply andb_true_iff in Hb as [Hy Hb]. apply andb_true_iff in H as [E H].
  apply negb_true_iff in Hx, Hy. rewrite Hx, Hy, !orb_false_r in E. apply Z.eqb_eq in E. subst. f_equal.
  apply IH; auto.
Qed.

Theorem tensor_binop_rejects_partial s u :
  length s = length u -> forallb (fun x => negb (x =? 1)) s = true -> forallb (fun x => negb (x =? 1)) u = true ->
  pre_tensor_binop s u = false -> guard_tensor_binop s u = Err.
Proof.
  intros Hl Hs Hu Hp. unfold guard_tensor_binop, np_broadcast_ok.
  destruct (bcast_rev (rev s) (rev u)) eqn:E; [|reflexivity]. exfalso.
  apply bcast_rev_no_ones in E.
  - assert (s = u) by (rewrite <- (rev_involutive s), <- (rev_involutive u); now f_equal). subst.
    unfold pre_tensor_binop in Hp. now rewrite shape_eqb_refl in Hp.
  - now rewrite !rev_length.
  - rewrite forallb_forall in *. intros x Hx. apply Hs. now apply in_rev.
  - rewrite forallb_forall in *. intros x Hx. apply Hu. now apply in_rev.
Qed.

(* contract: negative modes wrap around on a 2-way tensor *)
Definition tensor_contract_stmt : Prop :=
  forall s i1 i2, guard_tensor_contract s i1 i2 = decide (pre_tensor_contract s i1 i2).
Theorem tensor_contract_refuted : ~ tensor_contract_stmt.
Proof. intros H. specialize (H [3; 3] (-1) 0). vm_compute in H. discriminate. Qed.

(* every ill-formed request with non-negative modes is rejected *)
Theorem tensor_contract_rejects_partial s i1 i2 : 0 <= i1 -> 0 <= i2 ->
  pre_tensor_contract s i1 i2 = false -> guard_tensor_contract s i1 i2 = Err.
Proof.
  intros H1 H2 Hp. unfold guard_tensor_contract, pre_tensor_contract in *.
  rewrite !np_idx_ok_nonneg, !szw_nonneg by auto.
  destruct (in_range (ndim s) i1); [|reflexivity]. destruct (in_range (ndim s) i2); [|reflexivity].
  cbn in Hp |- *. destruct (sz s i1 =? sz s i2); cbn; [|reflexivity].
  destruct (i1 =? i2); cbn in *; [reflexivity|discriminate].
Qed.

Theorem tensor_contract_accepts_2way s i1 i2 : ndim s = 2 ->
  pre_tensor_contract s i1 i2 = true -> guard_tensor_contract s i1 i2 = Ok tt.
Proof.
  intros HN Hp. unfold guard_tensor_contract, pre_tensor_contract in *.
  apply andb_true_iff in Hp as [Hp Hsz]. apply andb_true_iff in Hp as [Hp Hne]. apply andb_true_iff in Hp as [Hr1 Hr2].
  assert (0 <= i1 /\ 0 <= i2) as [A B].
  { unfold in_range in *. apply andb_true_iff in Hr1 as [Hr1 _]. apply andb_true_iff in Hr2 as [Hr2 _].
    apply Z.leb_le in Hr1, Hr2. lia. }
  rewrite !np_idx_ok_nonneg, !szw_nonneg by auto. rewrite Hr1, Hr2, Hsz, Hne. cbn. now rewrite HN.
Qed.
