(* Proofs/C06W5.v — wave 5.
   1. sptensor.from_aggregator with ANY reducer that does not look at the order of the group it is handed (np.max, np.min, np.prod, len,
      sum, ...): two inputs that list the same (subscript, value) pairs in different orders give the same well-formed result
      (C03's from_aggregator_correct gives the well-formedness and the denotation for every reducer).  The Z reducers of the
      correspondence cases (Model/C06W5.v red_max / red_min / red_prod / red_len) are such reducers; red_first is not (counterexample).
   2. the linear-time evaluators of the huge cases (Model/C06W5.v minner, mmul: one simultaneous walk over two strictly ascending
      coordinate lists): minner is the defining sum of the inner product (= C02's transliteration impl_innerprod_sp_sp = Σ over all
      subscripts), mmul lists exactly the nonzero products at the common subscripts, ascending — so the huge innerprod / sparse*sparse
      observations that pass huge_inner_ok / huge_mul_ok are the specified results.  Values: any commutative ring. *)
From Coq Require Import List Arith ZArith Lia Bool Permutation Ring QArith Qcanon.
From PV Require Import Base.Index Base.Perm Base.Sum Np.Array Model.Sparse Model.Repr Model.Harness Model.C03Ops Model.C06Ops
                       Model.C02Spec Model.C02Sparse Model.C06Cont Model.C01Unique Model.C06W4 Model.C06W5
                       Proofs.C03Lemmas Proofs.C03Proofs Proofs.C03More Proofs.C06Proofs Proofs.C06Other Proofs.C01Unique Proofs.C02SparseProofs
                       Proofs.C06Kernels Proofs.C06Cont Proofs.C06W4.
Import ListNotations.

(* ------------------------------------------------------------------------------------------------ 1. reducers *)
Section AnyRed.
Variable V : Type.
Variable v0 : V.
Variable isz : V -> bool.
Hypothesis isz_spec : forall v, isz v = true <-> v = v0.

Lemma collect_perm i (es es' : list (idx * V)) : Permutation es es' -> Permutation (collect i es) (collect i es').
Proof.
  induction 1 as [|[j v] l l' P IH|[j v] [k w] l|l l' l'' P IH P' IH']; cbn [collect]; auto.
  - destruct (idx_eqb i j); auto.
  - destruct (idx_eqb i k), (idx_eqb i j); auto. apply perm_swap.
  - eapply perm_trans; eauto.
Qed.

Lemma combine_fst_snd_es (es : list (idx * V)) : combine (map fst es) (map snd es) = es.
Proof. induction es as [|[j v] r IH]; cbn; auto. now rewrite IH. Qed.

Lemma mem_perm i (l l' : list idx) : Permutation l l' -> mem i l = mem i l'.
Proof.
  intros P. destruct (mem i l) eqn:E, (mem i l') eqn:E'; auto.
  - apply mem_spec in E. apply mem_false in E'. exfalso. apply E'. eapply Permutation_in; eauto.
  - apply mem_spec in E'. apply mem_false in E. exfalso. apply E. eapply Permutation_in; [symmetry|]; eauto.
Qed.

Theorem from_aggregator_indep_any (func : list V -> V) : perm_inv func ->
  forall (s : shape) (es es' : list (idx * V)), Permutation es es' -> (forall e, In e es -> inb s (fst e) = true) ->
  same_result v0 isz (from_aggregator isz func s (map fst es) (map snd es)) (from_aggregator isz func s (map fst es') (map snd es')).
Proof.
  intros Hf s es es' P Hb.
  assert (Hb1 : forall i, In i (map fst es) -> inb s i = true).
  { intros i Hi. apply in_map_iff in Hi as (e & <- & He). auto. }
  assert (Hb2 : forall i, In i (map fst es') -> inb s i = true).
  { intros i Hi. apply in_map_iff in Hi as (e & <- & He). apply Hb. eapply Permutation_in; [symmetry; exact P|exact He]. }
  destruct (from_aggregator_correct v0 isz isz_spec func s _ (map snd es) Hb1) as (W & Hs & D).
  destruct (from_aggregator_correct v0 isz isz_spec func s _ (map snd es') Hb2) as (W' & Hs' & D').
  apply (same_den_same_result v0 isz isz_spec _ _ W W'); [congruence|]. intros i _. rewrite D, D', !combine_fst_snd_es.
  rewrite (mem_perm i _ _ (Permutation_map fst P)). destruct (mem i (map fst es')); auto.
  apply Hf. now apply collect_perm.
Qed.

(* ---- collapse with such a reducer: the same kind of container and the same result for every stored order; a sparse result is well-formed ---- *)
Lemma collect_nil_perm (l l' : list V) : Permutation l l' -> forall func : list V -> V, perm_inv func ->
  match l with [] => v0 | _ => func l end = match l' with [] => v0 | _ => func l' end.
Proof.
  intros P func Hf. destruct l as [|x l], l' as [|x' l']; auto.
  - apply Permutation_nil in P. discriminate.
  - symmetry in P. apply Permutation_nil in P. discriminate.
Qed.

Theorem cont_collapse_f_indep (func : list V -> V) : perm_inv func -> forall (S S' : sparse V) dims, reordered V isz S S' ->
  ksame V v0 isz (cont_collapse_f v0 isz func S dims) (cont_collapse_f v0 isz func S' dims).
Proof.
  intros Hf S S' dims (W & W' & Hs & P).
  assert (Pe : Permutation (proj_entries S dims (entries S)) (proj_entries S' dims (entries S'))).
  { unfold proj_entries. rewrite Hs. now apply Permutation_map. }
  assert (Hb : forall e, In e (proj_entries S dims (entries S)) -> inb (ttv_shape (sshape S) dims) (fst e) = true).
  { intros e. apply proj_entries_inb. intros e0 He0. apply in_entries_inb; auto. now apply (wf_sp_struct isz). }
  unfold cont_collapse_f. rewrite Hs.
  set (es := proj_entries S dims (entries S)) in *. set (es' := proj_entries S' dims (entries S')) in *.
  destruct (ttv_shape (sshape S) dims) as [|n [|m s'']] eqn:Es; cbn [ksame].
  - apply Hf. now apply Permutation_map.
  - f_equal. unfold accum_f. apply map_ext. intros k. cbv zeta.
    exact (collect_nil_perm (collect [k] es) (collect [k] es') (collect_perm [k] es es' Pe) func Hf).
  - now apply from_aggregator_indep_any.
Qed.

Theorem cont_collapse_f_wf (func : list V -> V) (S : sparse V) dims R : wf_sp isz S -> cont_collapse_f v0 isz func S dims = KSp R ->
  wf_sp isz R /\ sshape R = ttv_shape (sshape S) dims.
Proof.
  intros W E. unfold cont_collapse_f in E.
  destruct (ttv_shape (sshape S) dims) as [|n [|m s'']] eqn:Es; try discriminate. injection E as <-.
  destruct (from_aggregator_correct v0 isz isz_spec func (n :: m :: s'') (map fst (proj_entries S dims (entries S)))
              (map snd (proj_entries S dims (entries S)))) as (W1 & H1 & _); auto.
  intros i Hi. apply in_map_iff in Hi as (e & <- & He). rewrite <- Es. revert He. apply proj_entries_inb.
  intros e0 He0. apply in_entries_inb; auto. now apply (wf_sp_struct isz).
Qed.
End AnyRed.

(* the Z reducers of the correspondence cases *)
Lemma fold_max_spec x r : In (fold_right Z.max x r) (x :: r) /\ forall z, In z (x :: r) -> (z <= fold_right Z.max x r)%Z.
Proof.
  induction r as [|y r (Hin & Hle)]; cbn [fold_right].
  - split; [now left|]. intros z [<-|[]]. lia.
  - split.
    + destruct (Z.max_spec y (fold_right Z.max x r)) as [[_ ->]|[_ ->]]; [|right; now left].
      destruct Hin as [<-|Hin]; [now left|right; now right].
    + intros z [<-|[<-|Hz]].
      * specialize (Hle x (or_introl eq_refl)). lia.
      * lia.
      * specialize (Hle z (or_intror Hz)). lia.
Qed.
Lemma fold_min_spec x r : In (fold_right Z.min x r) (x :: r) /\ forall z, In z (x :: r) -> (fold_right Z.min x r <= z)%Z.
Proof.
  induction r as [|y r (Hin & Hle)]; cbn [fold_right].
  - split; [now left|]. intros z [<-|[]]. lia.
  - split.
    + destruct (Z.min_spec y (fold_right Z.min x r)) as [[_ ->]|[_ ->]]; [right; now left|].
      destruct Hin as [<-|Hin]; [now left|right; now right].
    + intros z [<-|[<-|Hz]].
      * specialize (Hle x (or_introl eq_refl)). lia.
      * lia.
      * specialize (Hle z (or_intror Hz)). lia.
Qed.

Lemma red_max_perm_inv : perm_inv red_max.
Proof.
  intros [|x r] [|x' r'] P; auto.
  - apply Permutation_nil in P. discriminate.
  - symmetry in P. apply Permutation_nil in P. discriminate.
  - unfold red_max. destruct (fold_max_spec x r) as (I1 & L1). destruct (fold_max_spec x' r') as (I2 & L2).
    pose proof (L2 _ (Permutation_in _ P I1)). pose proof (L1 _ (Permutation_in _ (Permutation_sym P) I2)). lia.
Qed.
Lemma red_min_perm_inv : perm_inv red_min.
Proof.
  intros [|x r] [|x' r'] P; auto.
  - apply Permutation_nil in P. discriminate.
  - symmetry in P. apply Permutation_nil in P. discriminate.
  - unfold red_min. destruct (fold_min_spec x r) as (I1 & L1). destruct (fold_min_spec x' r') as (I2 & L2).
    pose proof (L2 _ (Permutation_in _ P I1)). pose proof (L1 _ (Permutation_in _ (Permutation_sym P) I2)). lia.
Qed.
Lemma red_prod_perm_inv : perm_inv red_prod.
Proof. intros l l' P. unfold red_prod. induction P; cbn [fold_right]; [reflexivity|now rewrite IHP|lia|congruence]. Qed.
Lemma red_len_perm_inv : perm_inv red_len.
Proof. intros l l' P. unfold red_len. now rewrite (Permutation_length P). Qed.
Lemma red_first_not_perm_inv : ~ perm_inv red_first.
Proof. intros H. specialize (H [1%Z; 2%Z] [2%Z; 1%Z] (perm_swap _ _ _)). discriminate. Qed.

Theorem from_aggregator_reducers_indep (func : list Z -> Z) : func = red_max \/ func = red_min \/ func = red_prod \/ func = red_len ->
  forall (s : shape) (es es' : list (idx * Z)), Permutation es es' -> (forall e, In e es -> inb s (fst e) = true) ->
  same_result 0%Z zisz (from_aggregator zisz func s (map fst es) (map snd es)) (from_aggregator zisz func s (map fst es') (map snd es')).
Proof.
  intros H. apply (from_aggregator_indep_any Z 0%Z zisz zisz_spec).
  destruct H as [ -> | [ -> | [ -> | -> ] ] ]; [apply red_max_perm_inv|apply red_min_perm_inv|apply red_prod_perm_inv|apply red_len_perm_inv].
Qed.

(* ------------------------------------------------------------------------------------------------ 2. the simultaneous walk *)
Lemma ltb_neq_sym j k : idx_ltb j k = true -> idx_eqb k j = false.
Proof.
  intros H. destruct (idx_eqb k j) eqn:E; auto. apply idx_eqb_spec in E. subst. now rewrite idx_ltb_irrefl in H.
Qed.

Section Walk.
Variable V : Type.
Variables (v0 v1 : V) (vadd vmul vsub : V -> V -> V) (vopp : V -> V).
Hypothesis Vring : ring_theory v0 v1 vadd vmul vsub vopp (@eq V).
Variable isz : V -> bool.
Hypothesis isz_spec : forall v, isz v = true <-> v = v0.
Add Ring VringC06W5 : Vring.
Notation ssum := (sum_over v0 vadd).
Notation minner := (minner v0 vadd vmul).
Notation mmul := (mmul vmul isz).
Notation ent := (idx * V)%type.

Definition keys_len (n : nat) (A : list ent) : Prop := Forall (fun e => length (fst e) = n) A.

Lemma minner_cc i a A' j b B' :
  minner ((i, a) :: A') ((j, b) :: B') =
  if idx_ltb i j then minner A' ((j, b) :: B') else if idx_ltb j i then minner ((i, a) :: A') B' else vadd (vmul b a) (minner A' B').
Proof. reflexivity. Qed.
Lemma minner_nil_l B : minner [] B = v0.
Proof. destruct B; reflexivity. Qed.
Lemma minner_nil_r A : minner A [] = v0.
Proof. destruct A as [|[i a] A']; reflexivity. Qed.

Lemma mmul_cc i a A' j b B' :
  mmul ((i, a) :: A') ((j, b) :: B') =
  if idx_ltb i j then mmul A' ((j, b) :: B') else if idx_ltb j i then mmul ((i, a) :: A') B'
  else if isz (vmul a b) then mmul A' B' else (i, vmul a b) :: mmul A' B'.
Proof. reflexivity. Qed.
Lemma mmul_nil_l B : mmul [] B = [].
Proof. destruct B; reflexivity. Qed.
Lemma mmul_nil_r A : mmul A [] = [].
Proof. destruct A as [|[i a] A']; reflexivity. Qed.

(* a key below the head of an ascending list is not in it *)
Lemma below_head_notin i j (b : V) B' : ssorted (map fst ((j, b) :: B')) -> idx_ltb i j = true ->
  forall e, In e ((j, b) :: B') -> fst e <> i.
Proof.
  cbn [map fst ssorted]. intros (F & _) Hij e [<-|He] E; cbn [fst] in *.
  - subst. now rewrite idx_ltb_irrefl in Hij.
  - rewrite Forall_forall in F. specialize (F (fst e) (in_map fst _ _ He)). rewrite E in F.
    pose proof (idx_ltb_trans _ _ _ Hij F) as H. now rewrite idx_ltb_irrefl in H.
Qed.
Lemma head_notin_tail j (b : V) B' : ssorted (map fst ((j, b) :: B')) -> forall e, In e B' -> fst e <> j.
Proof.
  cbn [map fst ssorted]. intros (F & _) e He E. rewrite Forall_forall in F. specialize (F (fst e) (in_map fst _ _ He)).
  rewrite E in F. now rewrite idx_ltb_irrefl in F.
Qed.
(* dropping a head that is below every key asked for does not change the look-ups *)
Lemma lookup_drop_head j (b : V) B' k : idx_ltb j k = true -> last_match k ((j, b) :: B') v0 = last_match k B' v0.
Proof. intros H. cbn [last_match]. now rewrite (ltb_neq_sym _ _ H). Qed.

Theorem minner_correct n : forall A B : list ent, ssorted (map fst A) -> ssorted (map fst B) -> keys_len n A -> keys_len n B ->
  minner A B = ssum A (fun e => vmul (last_match (fst e) B v0) (snd e)).
Proof.
  induction A as [|[i a] A' IHA]; intros B SA SB LA LB.
  - now rewrite minner_nil_l, sum_over_nil.
  - assert (SA' : ssorted (map fst A')) by (cbn [map ssorted] in SA; tauto).
    assert (LA' : keys_len n A') by (inversion LA; auto).
    assert (Hia : forall e, In e A' -> idx_ltb i (fst e) = true).
    { cbn [map fst ssorted] in SA. destruct SA as (F & _). rewrite Forall_forall in F. intros e He. apply F. now apply in_map. }
    induction B as [|[j b] B' IHB].
    + rewrite minner_nil_r. symmetry. apply (sum_over_zero _ _ _ _ _ _ _ Vring). intros e _. cbn [last_match]. ring.
    + assert (SB' : ssorted (map fst B')) by (cbn [map ssorted] in SB; tauto).
      assert (LB' : keys_len n B') by (inversion LB; auto).
      rewrite minner_cc. destruct (idx_ltb i j) eqn:Eij.
      * rewrite (IHA _ SA' SB LA' LB), sum_over_cons. cbn [fst snd].
        rewrite (last_match_notin i ((j, b) :: B') v0 (below_head_notin i j b B' SB Eij)). ring.
      * destruct (idx_ltb j i) eqn:Eji.
        -- rewrite (IHB SB' LB'). apply sum_over_ext. intros e He. f_equal. symmetry. apply lookup_drop_head.
           destruct He as [<-|He]; [exact Eji|]. cbn [fst]. eapply idx_ltb_trans; [exact Eji|auto].
        -- assert (E : idx_eqb i j = true).
           { destruct (idx_eqb i j) eqn:E; auto. assert (Hl : length i = length j).
             { inversion LA as [|? ? H1 _]; inversion LB as [|? ? H2 _]; subst. cbn [fst] in *. congruence. }
             pose proof (idx_ltb_total i j Hl E Eij). congruence. }
           apply idx_eqb_spec in E. subst j.
           rewrite (IHA _ SA' SB' LA' LB'), sum_over_cons. cbn [fst snd]. f_equal.
           ++ f_equal. cbn [last_match]. rewrite idx_eqb_refl. symmetry. apply last_match_notin. exact (head_notin_tail i b B' SB).
           ++ apply sum_over_ext. intros e He. f_equal. symmetry. apply lookup_drop_head. auto.
Qed.

(* mmul: ascending, keys of the first list, holds exactly the nonzero products *)
Lemma mmul_keys_above i : forall A B : list ent, (forall e, In e A -> idx_ltb i (fst e) = true) ->
  forall e, In e (mmul A B) -> idx_ltb i (fst e) = true.
Proof.
  induction A as [|[k a] A' IHA]; intros B HA e He.
  - rewrite mmul_nil_l in He. contradiction.
  - induction B as [|[j b] B' IHB].
    + rewrite mmul_nil_r in He. contradiction.
    + rewrite mmul_cc in He. destruct (idx_ltb k j).
      * apply (IHA ((j, b) :: B')); auto. intros; apply HA; now right.
      * destruct (idx_ltb j k); [now apply IHB|].
        destruct (isz (vmul a b)).
        -- apply (IHA B'); auto. intros; apply HA; now right.
        -- destruct He as [<-|He]; [apply (HA (k, a)); now left|]. apply (IHA B'); auto. intros; apply HA; now right.
Qed.

Lemma mmul_sorted : forall A B : list ent, ssorted (map fst A) -> ssorted (map fst (mmul A B)).
Proof.
  induction A as [|[i a] A' IHA]; intros B SA.
  - rewrite mmul_nil_l. exact I.
  - assert (SA' : ssorted (map fst A')) by (cbn [map ssorted] in SA; tauto).
    assert (Hia : forall e, In e A' -> idx_ltb i (fst e) = true).
    { cbn [map fst ssorted] in SA. destruct SA as (F & _). rewrite Forall_forall in F. intros e He. apply F. now apply in_map. }
    induction B as [|[j b] B' IHB].
    + rewrite mmul_nil_r. exact I.
    + rewrite mmul_cc. destruct (idx_ltb i j); [now apply IHA|]. destruct (idx_ltb j i); [exact IHB|].
      destruct (isz (vmul a b)); [now apply IHA|]. cbn [map fst ssorted]. split; [|now apply IHA].
      rewrite Forall_forall. intros k Hk. apply in_map_iff in Hk as (e & <- & He). exact (mmul_keys_above i A' B' Hia e He).
Qed.

Lemma lm_cons k i (a : V) (L : list ent) : last_match k ((i, a) :: L) v0 = last_match k L (if idx_eqb k i then a else v0).
Proof. reflexivity. Qed.

Theorem mmul_lookup n : forall A B : list ent, ssorted (map fst A) -> ssorted (map fst B) -> keys_len n A -> keys_len n B ->
  forall k, last_match k (mmul A B) v0 = vmul (last_match k A v0) (last_match k B v0).
Proof.
  induction A as [|[i a] A' IHA]; intros B SA SB LA LB k.
  - rewrite mmul_nil_l. cbn [last_match]. ring.
  - assert (SA' : ssorted (map fst A')) by (cbn [map ssorted] in SA; tauto).
    assert (LA' : keys_len n A') by (inversion LA; auto).
    assert (Hia : forall e, In e A' -> idx_ltb i (fst e) = true).
    { cbn [map fst ssorted] in SA. destruct SA as (F & _). rewrite Forall_forall in F. intros e He. apply F. now apply in_map. }
    assert (Hn : forall x (L : list ent) d, (forall e, In e L -> idx_ltb x (fst e) = true) -> last_match x L d = d).
    { intros x L d HL. apply last_match_notin. intros e He E. specialize (HL e He). rewrite E in HL. now rewrite idx_ltb_irrefl in HL. }
    induction B as [|[j b] B' IHB].
    + rewrite mmul_nil_r. cbn [last_match]. ring.
    + assert (SB' : ssorted (map fst B')) by (cbn [map ssorted] in SB; tauto).
      assert (LB' : keys_len n B') by (inversion LB; auto).
      assert (Hjb : forall e, In e B' -> idx_ltb j (fst e) = true).
      { cbn [map fst ssorted] in SB. destruct SB as (F & _). rewrite Forall_forall in F. intros e He. apply F. now apply in_map. }
      rewrite mmul_cc. destruct (idx_ltb i j) eqn:Eij.
      * (* i is not a key of B: the head of A contributes nothing *)
        rewrite (IHA _ SA' SB LA' LB k). rewrite (lm_cons k i a A'). destruct (idx_eqb k i) eqn:Eki; auto.
        apply idx_eqb_spec in Eki. subst k.
        rewrite (Hn i A' v0 Hia), (Hn i A' a Hia).
        rewrite (last_match_notin i ((j, b) :: B') v0 (below_head_notin i j b B' SB Eij)). ring.
      * destruct (idx_ltb j i) eqn:Eji.
        -- (* j is not a key of A *)
           rewrite IHB by auto. rewrite (lm_cons k j b B'). destruct (idx_eqb k j) eqn:Ekj; auto.
           apply idx_eqb_spec in Ekj. subst k.
           assert (HA0 : last_match j ((i, a) :: A') v0 = v0).
           { apply last_match_notin. intros e [<-|He] E; cbn [fst] in *.
             - subst. now rewrite idx_ltb_irrefl in Eji.
             - specialize (Hia e He). rewrite E in Hia. pose proof (idx_ltb_trans _ _ _ Eji Hia) as H. now rewrite idx_ltb_irrefl in H. }
           rewrite HA0. ring.
        -- assert (E : idx_eqb i j = true).
           { destruct (idx_eqb i j) eqn:E; auto. assert (Hl : length i = length j).
             { inversion LA as [|? ? H1 _]; inversion LB as [|? ? H2 _]; subst. cbn [fst] in *. congruence. }
             pose proof (idx_ltb_total i j Hl E Eij). congruence. }
           apply idx_eqb_spec in E. subst j.
           destruct (isz (vmul a b)) eqn:Ez.
           ++ apply isz_spec in Ez. rewrite (IHA _ SA' SB' LA' LB' k). rewrite (lm_cons k i a A'), (lm_cons k i b B').
              destruct (idx_eqb k i) eqn:Eki; auto.
              apply idx_eqb_spec in Eki. subst k. rewrite (Hn i A' v0 Hia), (Hn i A' a Hia), (Hn i B' v0 Hjb), (Hn i B' b Hjb). rewrite Ez. ring.
           ++ rewrite (lm_cons k i (vmul a b) (mmul A' B')), (lm_cons k i a A'), (lm_cons k i b B'). destruct (idx_eqb k i) eqn:Eki.
              ** apply idx_eqb_spec in Eki. subst k.
                 now rewrite (Hn i (mmul A' B') _ (mmul_keys_above i A' B' Hia)), (Hn i A' a Hia), (Hn i B' b Hjb).
              ** apply (IHA _ SA' SB' LA' LB' k).
Qed.

Lemma mmul_nonzero : forall A B : list ent, forall e, In e (mmul A B) -> isz (snd e) = false.
Proof.
  induction A as [|[i a] A' IHA]; intros B e He.
  - rewrite mmul_nil_l in He. contradiction.
  - induction B as [|[j b] B' IHB].
    + rewrite mmul_nil_r in He. contradiction.
    + rewrite mmul_cc in He. destruct (idx_ltb i j); [now apply (IHA ((j, b) :: B'))|]. destruct (idx_ltb j i); [now apply IHB|].
      destruct (isz (vmul a b)) eqn:Ez; [now apply (IHA B')|]. destruct He as [<-|He]; [exact Ez|now apply (IHA B')].
Qed.

Lemma mmul_keys_in : forall A B : list ent, forall e, In e (mmul A B) -> In (fst e) (map fst A).
Proof.
  induction A as [|[i a] A' IHA]; intros B e He.
  - rewrite mmul_nil_l in He. contradiction.
  - induction B as [|[j b] B' IHB].
    + rewrite mmul_nil_r in He. contradiction.
    + rewrite mmul_cc in He. destruct (idx_ltb i j); [right; now apply (IHA ((j, b) :: B'))|]. destruct (idx_ltb j i); [now apply IHB|].
      destruct (isz (vmul a b)); [right; now apply (IHA B')|]. destruct He as [<-|He]; [now left|right; now apply (IHA B')].
Qed.

(* ---- on coordinate lists: the walk over the entries of two sparse tensors listed ascending ---- *)
Notation den := (den_sp v0).
Notation wf := (wf_sp isz).

Lemma wf_keys_len (A : sparse V) : wf A -> keys_len (length (sshape A)) (entries A).
Proof.
  intros (_ & _ & Hb & _). unfold keys_len. rewrite Forall_forall in *. intros [i v] He. cbn [fst].
  apply inb_length. apply Hb. unfold entries in He. now apply in_combine_l in He.
Qed.

(* inner product: the walk computes the defining sum over ALL subscripts of the shape, hence what pyttb's transliteration computes *)
Theorem minner_innerprod (A B : sparse V) : wf A -> wf B -> ssorted (ssubs A) -> ssorted (ssubs B) -> sshape A = sshape B ->
  minner (entries A) (entries B) = spec_innerprod v0 vadd vmul (den A) (den B) (sshape A) /\
  minner (entries A) (entries B) = impl_innerprod_sp_sp v0 vadd vmul A B.
Proof.
  intros WA WB SA SB Hs.
  assert (E : minner (entries A) (entries B) = spec_innerprod v0 vadd vmul (den A) (den B) (sshape A)).
  { rewrite (minner_correct (length (sshape A)) (entries A) (entries B)).
    - unfold spec_innerprod. rewrite (sparse_sum V v0 v1 vadd vmul vsub vopp Vring isz A (den B) WA).
      apply sum_over_ext. intros e _. unfold den_sp. ring.
    - rewrite map_fst_entries; [exact SA|now destruct WA].
    - rewrite map_fst_entries; [exact SB|now destruct WB].
    - now apply wf_keys_len.
    - rewrite Hs. now apply wf_keys_len. }
  split; [exact E|]. rewrite E. symmetry. now apply (impl_innerprod_sp_sp_correct V v0 v1 vadd vmul vsub vopp Vring isz).
Qed.

(* element-wise product: the walk's list is a well-formed sparse tensor, ascending, and denotes the product of the two arrays *)
Definition mmul_sp (A B : sparse V) : sparse V :=
  mkSp (sshape A) (map fst (mmul (entries A) (entries B))) (map snd (mmul (entries A) (entries B))).

Theorem mmul_sp_correct (A B : sparse V) : wf A -> wf B -> ssorted (ssubs A) -> ssorted (ssubs B) -> sshape A = sshape B ->
  wf (mmul_sp A B) /\ ssorted (ssubs (mmul_sp A B)) /\ forall i, den (mmul_sp A B) i = vmul (den A i) (den B i).
Proof.
  intros WA WB SA SB Hs.
  assert (SA' : ssorted (map fst (entries A))) by (rewrite map_fst_entries; [exact SA|now destruct WA]).
  assert (SB' : ssorted (map fst (entries B))) by (rewrite map_fst_entries; [exact SB|now destruct WB]).
  pose proof (mmul_sorted (entries A) (entries B) SA') as SM.
  split; [|split; [exact SM|]].
  - unfold mmul_sp. split; [cbn [ssubs svals]; now rewrite !map_length|]. split; [cbn [ssubs]; now apply ssorted_NoDup|]. split.
    + cbn [ssubs sshape]. rewrite Forall_forall. intros k Hk. apply in_map_iff in Hk as (e & <- & He).
      apply mmul_keys_in in He. rewrite map_fst_entries in He by (now destruct WA).
      destruct WA as (_ & _ & Hb & _). rewrite Forall_forall in Hb. auto.
    + cbn [svals]. rewrite Forall_forall. intros v Hv. apply in_map_iff in Hv as (e & <- & He). exact (mmul_nonzero _ _ e He).
  - intros i. unfold den_sp at 1. unfold mmul_sp, entries at 1. cbn [ssubs svals]. rewrite combine_fst_snd_es.
    apply (mmul_lookup (length (sshape A))); auto; [now apply wf_keys_len|rewrite Hs; now apply wf_keys_len].
Qed.

(* ... hence the same result (canonical form, entries up to order) as C03's transliteration of sparse * sparse *)
Theorem mmul_sp_same_as_impl (A B : sparse V) : wf A -> wf B -> ssorted (ssubs A) -> ssorted (ssubs B) -> sshape A = sshape B ->
  same_result v0 isz (mmul_sp A B) (impl_mul v0 isz vmul A B).
Proof.
  intros WA WB SA SB Hs. destruct (mmul_sp_correct A B WA WB SA SB Hs) as (W & _ & D).
  destruct (impl_mul_correct v0 isz isz_spec vmul) with (A := A) (B := B) as (W' & Hs' & D'); auto; try (intros; ring).
  apply (same_den_same_result v0 isz isz_spec _ _ W W'); [now rewrite Hs'|]. intros i _. now rewrite D, D'.
Qed.
Theorem mmul_sp_all (A B : sparse V) : wf A -> wf B -> ssorted (ssubs A) -> ssorted (ssubs B) -> sshape A = sshape B ->
  wf (mmul_sp A B) /\ ssorted (ssubs (mmul_sp A B)) /\ (forall i, den (mmul_sp A B) i = vmul (den A i) (den B i)) /\
  same_result v0 isz (mmul_sp A B) (impl_mul v0 isz vmul A B).
Proof.
  intros WA WB SA SB Hs. destruct (mmul_sp_correct A B WA WB SA SB Hs) as (W & S & D).
  split; [exact W|]. split; [exact S|]. split; [exact D|]. now apply mmul_sp_same_as_impl.
Qed.
End Walk.

(* ---- the boolean checkers of the huge cases are sound ---- *)
Lemma list_eqb_true {A} (eqb : A -> A -> bool) : (forall a b, eqb a b = true -> a = b) ->
  forall l1 l2, list_eqb eqb l1 l2 = true -> l1 = l2.
Proof.
  intros H. induction l1 as [|x l1 IH]; intros [|y l2] E; cbn [list_eqb] in E; try discriminate; auto.
  apply andb_true_iff in E as [E1 E2]. f_equal; auto.
Qed.
Lemma nvec_eqb_spec a b : nvec_eqb a b = true -> a = b.
Proof. apply list_eqb_true. intros x y. apply Nat.eqb_eq. Qed.
Lemma sp_raw_eqb_spec (X Y : sparse Z) : sp_raw_eqb X Y = true -> X = Y.
Proof.
  unfold sp_raw_eqb. intros H. apply andb_true_iff in H as [H H3]. apply andb_true_iff in H as [H1 H2].
  destruct X as [s1 u1 w1], Y as [s2 u2 w2]. cbn [sshape ssubs svals] in *.
  apply nvec_eqb_spec in H1. apply (list_eqb_true nvec_eqb nvec_eqb_spec) in H2. apply (list_eqb_true Z.eqb) in H3; [|intros x y; apply Z.eqb_eq].
  now subst.
Qed.
Lemma sorted_wfb_sorted (X : sparse Z) : sorted_wfb X = true -> ssorted (ssubs X).
Proof.
  unfold sorted_wfb. intros H. apply andb_true_iff in H as [H _]. apply andb_true_iff in H as [H _]. apply andb_true_iff in H as [_ Hs].
  now apply adj_ltb_ssorted.
Qed.

Theorem huge_inner_sound (A B : sparse Z) (q : list Qc) : huge_inner_ok A B q = true ->
  wf_sp zisz A /\ wf_sp zisz B /\
  scalar_is q (spec_innerprod 0%Z Z.add Z.mul (zden_sp A) (zden_sp B) (sshape A)) = true /\
  scalar_is q (impl_innerprod_sp_sp 0%Z Z.add Z.mul A B) = true.
Proof.
  unfold huge_inner_ok. intros H. apply andb_true_iff in H as [H Hq]. apply andb_true_iff in H as [H Hs]. apply andb_true_iff in H as [HA HB].
  apply nvec_eqb_spec in Hs.
  pose proof (sorted_wfb_sound A HA) as WA. pose proof (sorted_wfb_sound B HB) as WB.
  destruct (minner_innerprod Z 0%Z 1%Z Z.add Z.mul Z.sub Z.opp Zth zisz A B WA WB (sorted_wfb_sorted A HA) (sorted_wfb_sorted B HB) Hs) as (E1 & E2).
  split; [exact WA|]. split; [exact WB|]. unfold zden_sp. now rewrite <- E1, <- E2.
Qed.

Theorem huge_mul_sound (A B X : sparse Z) : huge_mul_ok A B X = true ->
  wf_sp zisz A /\ wf_sp zisz B /\ wf_sp zisz X /\ sshape X = sshape A /\
  (forall i, zden_sp X i = (zden_sp A i * zden_sp B i)%Z) /\ same_result 0%Z zisz X (impl_mul 0%Z zisz Z.mul A B).
Proof.
  unfold huge_mul_ok. intros H. apply andb_true_iff in H as [H Hx]. apply andb_true_iff in H as [H Hs]. apply andb_true_iff in H as [HA HB].
  apply nvec_eqb_spec in Hs. apply sp_raw_eqb_spec in Hx. fold (mmul_sp Z Z.mul zisz A B) in Hx. subst X.
  pose proof (sorted_wfb_sound A HA) as WA. pose proof (sorted_wfb_sound B HB) as WB.
  destruct (mmul_sp_correct Z 0%Z 1%Z Z.add Z.mul Z.sub Z.opp Zth zisz zisz_spec A B WA WB (sorted_wfb_sorted A HA) (sorted_wfb_sorted B HB) Hs) as (W & _ & D).
  split; [exact WA|]. split; [exact WB|]. split; [exact W|]. split; [reflexivity|]. split; [exact D|].
  exact (mmul_sp_same_as_impl Z 0%Z 1%Z Z.add Z.mul Z.sub Z.opp Zth zisz zisz_spec A B WA WB (sorted_wfb_sorted A HA) (sorted_wfb_sorted B HB) Hs).
Qed.
