(* Model/C15Inst.v — Qc / Z instances of the symmetrisation spec and comparers for the generated cases of C15. *)
From Coq Require Import List ZArith QArith Qabs Qcanon Bool Arith.
From PV Require Import Base.Index Base.Perm Base.Sum Np.Array Model.Sparse Model.Repr Model.Harness Model.C15Sym.
Import ListNotations.

Definition q_sym (T : dense Qc) (G : list (list nat)) : idx -> Qc := spec_sym q0 q1 Qcplus Qcmult Qcinv (qden T) G.
(* pyttb's symmetrised tensor O is (within the float tolerance) the spec average of T *)
Definition q_sym_matches (T : dense Qc) (G : list (list nat)) (O : dense Qc) : bool :=
  qden_matches tol9 (dshape T) (q_sym T G) O.
Definition q_same (A B : dense Qc) : bool := qden_matches tol9 (dshape A) (qden A) B.
(* the spec result is exactly symmetric (evaluated, exact rationals) *)
Definition q_sym_result_symmetric (T : dense Qc) (G : list (list nat)) : bool :=
  spec_issym Qc_eq_bool (dshape T) (q_sym T G) G.
Definition z_issym (T : dense Z) (G : list (list nat)) : bool := spec_issym Z.eqb (dshape T) (zden T) G.
Definition z_mats_identical (fs : list (list (list Z))) : bool :=
  match fs with [] => true | A :: rest => forallb (mat_eqb A) rest end.
Definition q_mats_identical (fs : list (list (list Qc))) : bool :=
  match fs with [] => true | A :: rest => forallb (list_eqb (list_eqb Qc_eq_bool) A) rest end.

(* ---- wave 2: the transliterated implementation models (Model/C15Impl.v), executed group after group through a
        materialised array as pyttb does, and compared EXACTLY with the spec on every generated input ---- *)
From PV Require Import Model.C15Impl Model.C15Dense.
Definition q_issym (T : dense Qc) (G : list (list nat)) : bool := spec_issym Qc_eq_bool (dshape T) (qden T) G.
(* wave 4: these are the generic container-level executions of Model/C15Dense.v at Qc (Proofs/C15Dense.v proves that they
   denote the spec: the tabulate / den round trip between the groups / max-fix rounds loses nothing) *)
Definition q_sym_new_d (T : dense Qc) (G : list (list nat)) : dense Qc := sym_new_d q0 q1 Qcplus Qcmult Qcinv Qc_eq_bool T G.
Definition q_sym_old_d (T : dense Qc) (G : list (list nat)) : dense Qc := sym_old_d q0 q1 Qcplus Qcmult Qcinv qmax T G.
Definition q_dense_eqb (A B : dense Qc) : bool := nvec_eqb (dshape A) (dshape B) && list_eqb Qc_eq_bool (ddata A) (ddata B).
(* wave 4: OLD symmetrize at code level, the permutation table built as the code builds it (Model/C15OldTable.v) *)
From PV Require Import Model.C15Details Model.C15OldTable.
Definition q_sym_old_code (T : dense Qc) (G : list (list nat)) : dense Qc := sym_old_code q0 q1 Qcplus Qcmult Qcinv qmax T G.
Definition q_impls_agree (T : dense Qc) (G : list (list nat)) : bool :=
  let S := tabulate (dshape T) (q_sym T G) in q_dense_eqb (q_sym_new_d T G) S && q_dense_eqb (q_sym_old_code T G) S.
Definition z_issym_impls_agree (T : dense Z) (G : list (list nat)) : bool :=
  let b := z_issym T G in
  Bool.eqb (impl_issym_new Z.eqb (dshape T) (zden T) G) b && Bool.eqb (impl_issym_old Z.eqb (dshape T) (zden T) G) b.
Definition q_issym_impls_agree (T : dense Qc) (G : list (list nat)) : bool :=
  let b := q_issym T G in
  Bool.eqb (impl_issym_new Qc_eq_bool (dshape T) (qden T) G) b && Bool.eqb (impl_issym_old Qc_eq_bool (dshape T) (qden T) G) b.
(* a Kruskal tensor is symmetric in all modes (its denoted array passes the spec test on the single group of all modes) *)
Definition q_k_symmetric (s : shape) (K : ktensor Qc) : bool := spec_issym Qc_eq_bool s (qden_k K) [seq 0 (length s)].

(* ---- wave 3: the body of ktensor.symmetrize (Model/C15K.v) over Qc with the exact test "x < 0" ---- *)
From PV Require Import Model.C15K.
Definition q_neg15 (x : Qc) : bool := negb (qleb q0 x).
Definition q_k15_core (K1 : ktensor Qc) : ktensor Qc := k15_core q0 q1 Qcplus Qcmult Qcopp Qcinv q_neg15 K1.
(* pyttb's symmetrised Kruskal tensor O is (weights and factors, within the float tolerance) the model applied to
   the OBSERVED result K1 of pyttb's own normalize("all") on a copy of the input *)
Definition q_k15_matches (K1 O : ktensor Qc) : bool :=
  let M := q_k15_core K1 in
  qvec_close tol9 (kweights O) (kweights M) && list_eqb (list_eqb (qvec_close tol9)) (kfactors O) (kfactors M).
(* the hypothesis of theorem C15_ksym_keeps on the observed normalised tensor: every factor is, column by column, factor 0 up
   to a sign *)
Definition q_k15_signed_copies (K1 : ktensor Qc) : bool :=
  match kfactors K1 with
  | [] => false
  | A0 :: _ => forallb (signed_copyb q0 q1 Qcmult Qcopp (fun a b => qclose tol9 a b) A0 (nrows A0) (krank K1)) (kfactors K1)
  end.

(* ---- wave 4: the code-level transliteration of NEW symmetrize / issymmetric over the GENERATED tt_ind2sub / tt_sub2ind
        (Model/C15Lin.v; Props/C15w4.v proves it equal to the spec) executed on the generated inputs: its answer must be
        pyttb's (value within the float tolerance, AssertionError exactly where the model says Err, the boolean exactly) ---- *)
From PV Require Import Np.NpZ Model.C15Lin.
Definition q_code_sym (T : dense Qc) (G : list (list nat)) : res (dense Qc) := sym_new_lin q0 q1 Qcplus Qcmult Qcinv Qc_eq_bool T G.
Definition q_code_issym (T : dense Qc) (G : list (list nat)) : res bool := issym_new_lin q0 Qc_eq_bool T G.
Definition q_res_dense_eqb (r : res (dense Qc)) (B : dense Qc) : bool := match r with Ok A => q_dense_eqb A B | Err => false end.
Definition q_code_matches (T : dense Qc) (G : list (list nat)) (O : dense Qc) : bool :=
  match q_code_sym T G with Ok R => q_same R O | Err => false end.
Definition q_code_rejects (T : dense Qc) (G : list (list nat)) : bool := match q_code_sym T G with Err => true | Ok _ => false end.
Definition q_code_issym_is (T : dense Qc) (G : list (list nat)) (b : bool) : bool :=
  match q_code_issym T G with Ok r => Bool.eqb r b | Err => false end.
Definition z_code_issym_is (T : dense Z) (G : list (list nat)) (b : bool) : bool :=
  match issym_new_lin 0%Z Z.eqb T G with Ok r => Bool.eqb r b | Err => false end.

(* ---- wave 4: ktensor.issymmetric (Model/C15KSym.v) over Z: the answer and the zero pattern of the strict upper triangle of
        the returned difference matrix ---- *)
From PV Require Import Model.C15KSym.
Definition z_k_issym (K : ktensor Z) : bool := k_issym Z.eqb K.
Definition z_k_diffs_zero (K : ktensor Z) : list (list bool) := k_diffs_zero Z.eqb K.
Definition bmat_eqb (a b : list (list bool)) : bool := list_eqb (list_eqb Bool.eqb) a b.

(* ---- wave 4: OLD issymmetric WITH details (Model/C15Details.v): the answer, all_diffs (exact: max |x - x'| over the entries)
        and all_perms (rows in the order of itertools.permutations) must be pyttb's; None = the bare False of the size check ---- *)
From PV Require Import Model.C15Details.
Definition z_details (T : dense Z) (G : list (list nat)) :=
  impl_issym_old_details 0%Z Z.eqb (fun a b => Z.abs (a - b)) Z.max (dshape T) (zden T) G.
Definition z_details_match (T : dense Z) (G : list (list nat)) (ok : bool) (diffs : list Z) (rows : list (list nat)) : bool :=
  match z_details T G with
  | Some (b, d, p) => Bool.eqb b ok && vec_eqb d diffs && nmat_eqb p rows
  | None => false
  end.
Definition z_details_refused (T : dense Z) (G : list (list nat)) : bool := match z_details T G with None => true | Some _ => false end.
Definition q_details (T : dense Qc) (G : list (list nat)) :=
  impl_issym_old_details q0 Qc_eq_bool (fun a b => qabs (a - b)) qmax (dshape T) (qden T) G.
Definition q_details_match (T : dense Qc) (G : list (list nat)) (ok : bool) (diffs : list Qc) (rows : list (list nat)) : bool :=
  match q_details T G with
  | Some (b, d, p) => Bool.eqb b ok && list_eqb Qc_eq_bool d diffs && nmat_eqb p rows
  | None => false
  end.
