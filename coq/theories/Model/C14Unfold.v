(* Model/C14Unfold.v — the Gram matrices of tensor.nvecs and ttensor.nvecs (dense core) built from the matricisation the code calls:
   the modes come from the GENERATED gather_wrap_dims (Gen/GenUtils2.v, regenerated from pyttb/pyttb_utils.py on every run), the
   matrix from C01's transliteration of tensor.to_tenmat (Model/C01Conv.v: permute, F-order reshape) and tenmat.double.
   Definitions only; proofs in Proofs/C14Unfold.v. *)
From Coq Require Import List Arith Lia Bool ZArith.
From PV Require Import Base.Index Base.Perm Base.Sum Np.Array Np.NpZ Np.NpZ2 Model.Sparse Model.Repr Model.C07Ops Model.C01Conv
                       Model.C01Unique Model.C01Coo Model.C02Spec Model.C02Dense Model.C01Ttm Gen.GenUtils Gen.GenUtils2 Model.C14Nvecs Model.C14Gram.
Import ListNotations.

(* (rdims, cdims) as the generated gather_wrap_dims returns them for a tensor with N modes *)
Definition dims_of_gen (N : nat) (rd cd : option (list nat)) (cy : option cyclic) : option (list nat * list nat) :=
  match GenUtils2.gather_wrap_dims (Z.of_nat N) (option_map (map Z.of_nat) rd) (option_map (map Z.of_nat) cd) cy with
  | Ok (r, c) => Some (map Z.to_nat r, map Z.to_nat c)
  | Err => None
  end.

(* the modes other than n, increasing *)
Definition rest_modes (N n : nat) : list nat := seq 0 n ++ seq (S n) (N - S n).

Section Unfold.
Context {V : Type} (v0 v1 : V) (vadd vmul : V -> V -> V).
Notation matrix := (list (list V)).

(* tensor.to_tenmat(rdims, cdims).double(): a 2-way array *)
Definition tenmat_double_gen (X : dense V) (rd cd : option (list nat)) : option (dense V) :=
  match dims_of_gen (length (dshape X)) rd cd None with
  | Some (r, c) => option_map (@tm_double V) (to_tenmat v0 X r c)
  | None => None
  end.

(* the rows of a 2-way array *)
Definition rows_of (D : dense V) : matrix :=
  mtab (nth 0 (dshape D) 0) (nth 1 (dshape D) 0) (fun a c => den_dense v0 D [a; c]).

(* ---- tensor.nvecs:  Xn = ttb.tensor(self.double(), copy=False).to_tenmat(rdims=np.array([n])).double();  y = Xn @ Xn.T
   (gram_dense_tm on the double-precision tensor; gram_dense_held below starts from the holder as the caller built it) *)
Definition gram_dense_tm (X : dense V) (n : nat) : option matrix :=
  match tenmat_double_gen X (Some [n]) None with
  | Some Xn => let R := rows_of Xn in
               Some (map (fun ra => map (fun rb => row_dot v0 vadd vmul (nth 1 (dshape Xn) 0) ra rb) R) R)
  | None => None
  end.

(* ---- /repo 08011d5 (finding C10-N03 repaired): the data holder of a dense tensor may have ANY element type B (bool, int8 ... uint16,
   float32: ttb.tensor keeps the caller's dtype); `self.double()` converts entry by entry to float64 and `ttb.tensor(..., copy=False)`
   wraps the converted array with the same shape BEFORE the matricisation and the product — the Gram matrix is formed in V (float64),
   never in B (where products would wrap around / be rounded to single precision / not exist for bool) *)
Definition t_double {B : Type} (dbl : B -> V) (X : dense B) : dense V := mkDense (dshape X) (map dbl (ddata X)).
Definition gram_dense_held {B : Type} (dbl : B -> V) (X : dense B) (n : nat) : option matrix := gram_dense_tm (t_double dbl X) n.

(* ---- ttensor.nvecs, dense core:
     V_m = U_m^T U_m (m <> n), V_n = U_n;  H = core.ttm(V)                      (tensor.ttm over all modes: C02Dense / C01_tucker_impl)
     HnT = H.to_tenmat(cdims=[n]).double();  GnT = core.to_tenmat(cdims=[n]).double()
     XnT = GnT.dot(U_n^T);  Y = HnT^T.dot(XnT) *)
Definition gram_t_tm (T : ttensor V) (n : nat) : option matrix :=
  let Un := nth n (tfactors T) [] in
  let H := ttensor_full_impl v0 vadd vmul (mkT (tcore T) (tucker_vs v0 vadd vmul (tfactors T) n)) in
  match tenmat_double_gen H None (Some [n]), tenmat_double_gen (tcore T) None (Some [n]) with
  | Some HnT, Some GnT =>
      let K := nth 0 (dshape GnT) 0 in
      let Jn := nth 1 (dshape GnT) 0 in
      let XnT := fun c b => sum_n v0 vadd Jn (fun q => vmul (den_dense v0 GnT [c; q]) (mget v0 Un b q)) in
      Some (mtab (nrows Un) (nrows Un) (fun a b => sum_n v0 vadd K (fun c => vmul (den_dense v0 HnT [c; a]) (XnT c b))))
  | _, _ => None
  end.

(* ---- ttensor.nvecs, sparse core:
     H = core.ttm(V) is a sptensor or (when it fills up) a tensor;
     HnT = H.to_sptenmat(np.array([n]), cdims_cyclic="t").double()   (a scipy COO matrix)   |   H.to_tenmat(cdims=[n]).double()
     GnT = core.to_sptenmat(np.array([n]), cdims_cyclic="t").double()
     XnT = GnT.dot(U_n^T);  Y = HnT^T.dot(XnT)      — scipy's products of a COO matrix with an array read the COO matrix through
     its denotation den_coo (repeated positions summed) *)
Variable isz : V -> bool.
Definition sptenmat_double_gen (S : sparse V) (n : nat) : option (coo V) :=
  match dims_of_gen (length (sshape S)) (Some [n]) None (Some NpZ2.CycT) with
  | Some (r, c) => option_map (@stm_double V) (to_sptenmat_sorted vadd isz S r c)
  | None => None
  end.

Inductive hrepr := HDense (H : dense V) | HSparse (H : sparse V).
Definition hshape (H : hrepr) : shape := match H with HDense D => dshape D | HSparse Sp => sshape Sp end.
Definition hden (H : hrepr) : idx -> V := match H with HDense D => den_dense v0 D | HSparse Sp => den_sp v0 Sp end.
Definition hwf (H : hrepr) : Prop := match H with HDense D => wf_dense D | HSparse Sp => wf_sp isz Sp end.
(* entries of HnT *)
Definition hnT (H : hrepr) (n : nat) : option (idx -> V) :=
  match H with
  | HDense D => option_map (den_dense v0) (tenmat_double_gen D None (Some [n]))
  | HSparse Sp => option_map (den_coo v0 vadd) (sptenmat_double_gen Sp n)
  end.

Definition gram_tsp_tm (H : hrepr) (GS : sparse V) (Un : matrix) (n : nat) : option matrix :=
  match hnT H n, sptenmat_double_gen GS n with
  | Some h, Some GnT =>
      let K := nth 0 (coo_shape GnT) 0 in
      let Jn := nth 1 (coo_shape GnT) 0 in
      let XnT := fun c b => sum_n v0 vadd Jn (fun q => vmul (den_coo v0 vadd GnT [c; q]) (mget v0 Un b q)) in
      Some (mtab (nrows Un) (nrows Un) (fun a b => sum_n v0 vadd K (fun c => vmul (h [c; a]) (XnT c b))))
  | _, _ => None
  end.
End Unfold.
