(* Model/C02Harness.v — Z instances of the C02 spec layer and boolean matchers used by the generated
   correspondence cases (tools/props/c02.py). No proofs. *)
From Coq Require Import List ZArith Bool Arith.
From PV Require Import Base.Index Base.Perm Base.Sum Np.NpZ Np.Array Model.Sparse Model.Repr Model.Harness
                       Model.C02Spec Model.C02Dense Model.C02Sparse Model.C02Modes Model.C02Kruskal Model.C02SpKernels Model.C02Absorb Model.C02Tenmat Model.C02SpMore Model.C02KruskalMore Model.C02Tucker Model.C02TuckerFull Model.C02TenmatReq Model.C02DimsReq.
Import ListNotations.

Definition zsp_ttv := @spec_ttv Z 0%Z Z.add Z.mul.
Definition zsp_ttm := @spec_ttm Z 0%Z Z.add Z.mul.
Definition zsp_ttm_list := @spec_ttm_list Z 0%Z Z.add Z.mul.
Definition zsp_mttkrp := @spec_mttkrp Z 0%Z 1%Z Z.add Z.mul.
Definition zsp_innerprod := @spec_innerprod Z 0%Z Z.add Z.mul.
Definition zsp_normsq := @spec_normsq Z 0%Z Z.add Z.mul.
Definition zsp_collapse := @spec_collapse Z 0%Z Z.add.
Definition zsp_contract := @spec_contract Z 0%Z Z.add.
Definition zsp_scale := @spec_scale Z Z.mul.
Definition zsp_ttt := @spec_ttt Z 0%Z Z.add Z.mul.
Definition zden_sum (parts : list (idx -> Z)) : idx -> Z := den_sum 0%Z Z.add parts.

(* evaluate a denotation once on its shape, then look values up (keeps nested sums cheap) *)
Definition zmemo (s : shape) (f : idx -> Z) : idx -> Z := zden (ztab s f).

Definition fun_matches (s : shape) (f g : idx -> Z) : bool :=
  forallb (fun k => (f (ind2sub s k) =? g (ind2sub s k))%Z) (seq 0 (size s)).

(* observations of each result class against an expected denotation f on shape s *)
Definition sp_matches (s : shape) (f : idx -> Z) (S : sparse Z) : bool :=
  wf_spb zisz S && nvec_eqb (sshape S) s && fun_matches s f (zden_sp S).
(* an all-zero sptensor may be stored with an empty (0-column) subs array: subs rows are not checked then *)
Definition k_matches (s : shape) (f : idx -> Z) (K : ktensor Z) : bool :=
  nvec_eqb (kshape K) s && forallb (fun A => forallb (fun r => Nat.eqb (length r) (krank K)) A) (kfactors K) &&
  fun_matches s f (zden_k K).
Definition t_matches (s : shape) (f : idx -> Z) (T : ttensor Z) : bool :=
  nvec_eqb (tshape T) s && wf_denseb (tcore T) && fun_matches s f (zden_t T).
Definition mat_matches (m n : nat) (f : nat -> nat -> Z) (M : list (list Z)) : bool :=
  wf_matrixb M m n &&
  forallb (fun i => forallb (fun r => (f i r =? mget 0%Z M i r)%Z) (seq 0 n)) (seq 0 m).
Definition ones (R : nat) : list Z := repeat 1%Z R.

(* impl models at Z *)
Definition zimpl_ttv_dense := @impl_ttv_dense Z 0%Z Z.add Z.mul.

(* ttensor.reconstruct with index-list samples: mode m of the result reads row sel[m][x] of the full tensor *)
Fixpoint zsample_idx (sel : list (option (list nat))) (i : idx) : idx :=
  match sel, i with
  | o :: sel', x :: i' => (match o with None => x | Some l => nth x l 0%nat end) :: zsample_idx sel' i'
  | _, _ => []
  end.
Definition zsample (sel : list (option (list nat))) (f : idx -> Z) : idx -> Z := fun i => f (zsample_idx sel i).

(* what C02 needs of a sparse observation to read its denotation: one value per stored subscript, all in bounds
   (explicit zeros / duplicates are C06's subject: sptensor.scale keeps explicit zeros) *)
Definition sp_okb (S : sparse Z) : bool :=
  Nat.eqb (length (ssubs S)) (length (svals S)) && forallb (inb (sshape S)) (ssubs S).
Definition zimpl_ttm_dense := @impl_ttm_dense Z 0%Z Z.add Z.mul.
Definition zimpl_mttkrp_dense := @impl_mttkrp_dense Z 0%Z Z.add Z.mul.
Definition zimpl_innerprod_dense := @impl_innerprod_dense Z 0%Z Z.add Z.mul.
Definition zimpl_normsq_dense := @impl_normsq_dense Z 0%Z Z.add Z.mul.

(* sparse / Kruskal impl models at Z *)
Definition zimpl_innerprod_sp_dense := @impl_innerprod_sp_dense Z 0%Z Z.add Z.mul.
Definition zimpl_innerprod_sp_sp := @impl_innerprod_sp_sp Z 0%Z Z.add Z.mul.
Definition zimpl_normsq_sp := @impl_normsq_sp Z 0%Z Z.add Z.mul.
Definition zimpl_ttv_k1 := @impl_ttv_k1 Z 0%Z Z.add Z.mul.
Definition k_eqb (A B : ktensor Z) : bool :=
  vec_eqb (kweights A) (kweights B) && list_eqb mat_eqb (kfactors A) (kfactors B).

(* tensor.ttv / tensor.ttm resolved by the GENERATED tt_dimscheck (Model/C02Modes.v): the raw request as the caller wrote it *)
Definition zimpl_ttv_req := @impl_ttv_req Z 0%Z Z.add Z.mul.
Definition zimpl_ttm_req := @impl_ttm_req Z 0%Z Z.add Z.mul.
Definition zres_is (r : res (dense Z)) (T : dense Z) : bool := match r with Ok Y => dense_eqb Y T | Err => false end.

(* Kruskal Gram/Hadamard kernels and sparse coordinate-list kernels at Z *)
Definition zimpl_innerprod_kk := @impl_innerprod_kk Z 0%Z Z.add Z.mul.
Definition zimpl_normsq_k := @impl_normsq_k Z 0%Z Z.add Z.mul.
Definition zimpl_mttkrp_k := @impl_mttkrp_k Z 0%Z Z.add Z.mul.
Definition zimpl_ttv_sp1 := @impl_ttv_sp1 Z 0%Z Z.add Z.mul.
Definition zimpl_mttkrp_sp := @impl_mttkrp_sp Z 0%Z 1%Z Z.add Z.mul.

(* get_mttkrp_factors for a Kruskal operand (weights absorbed into factor 1 if n = 0 else factor 0) *)
Definition zget_mttkrp_factors_k := @get_mttkrp_factors_k Z Z.mul.

(* the 50%-fill switch of the sparse kernels (sptensor.ttv / contract): the result is densified iff more than half of the entries
   of the expected array f on shape s are nonzero (nnz > 0.5 * prod(shape)); isdense = the container pyttb returned *)
Definition zswitch_ok (s : shape) (f : idx -> Z) (isdense : bool) : bool :=
  Bool.eqb (size s <? 2 * length (filter (fun k => negb (f (ind2sub s k) =? 0)%Z) (seq 0 (size s)))) isdense.

(* wave 3: the matricisation-route kernels of tensor.py (Model/C02Tenmat.v) at Z *)
Definition zimpl_ttt_dense := @impl_ttt_dense Z 0%Z Z.add Z.mul.
Definition zimpl_collapse_dense := @impl_collapse_dense Z 0%Z (sumv 0%Z Z.add).
Definition zimpl_contract_dense := @impl_contract_dense Z 0%Z Z.add.
Definition zimpl_scale_dense := @impl_scale_dense Z 0%Z Z.mul.
Definition zimpl_mask_dense := @impl_mask_dense Z 0%Z.

(* wave 3: sparse kernels over the coordinate list (Model/C02SpKernels.v, Model/C02SpMore.v) at Z *)
Definition zimpl_ttv_sp := @impl_ttv_sp Z 0%Z 1%Z Z.add Z.mul.
Definition zimpl_ttm_sp := @impl_ttm_sp Z 0%Z Z.add Z.mul.
Definition zimpl_collapse_sp := @impl_collapse_sp Z 0%Z Z.add.
Definition zimpl_contract_sp := @impl_contract_sp Z 0%Z Z.add.
Definition zimpl_scale_sp := @impl_scale_sp Z Z.mul zisz.
Definition zimpl_mask_sp := @impl_mask_sp Z 0%Z.
Definition sp_raw_eqb (A B : sparse Z) : bool :=
  nvec_eqb (sshape A) (sshape B) && list_eqb nvec_eqb (ssubs A) (ssubs B) && vec_eqb (svals A) (svals B).

(* wave 3: Kruskal ttv over several modes, Tucker ttm (list form) at Z; raw comparison of weights / factors / core *)
Definition zimpl_ttv_k := @impl_ttv_k Z 0%Z 1%Z Z.add Z.mul.
Definition zimpl_ttm_t := @impl_ttm_t Z 0%Z Z.add Z.mul.
Definition zsumw (K : ktensor Z) : Z := fold_right Z.add 0%Z (kweights K).
Definition t_eqb (A B : ttensor Z) : bool := dense_eqb (tcore A) (tcore B) && list_eqb mat_eqb (tfactors A) (tfactors B).
Definition zimpl_ttv_t := @impl_ttv_t Z 0%Z Z.add Z.mul.
Definition zimpl_mttkrp_t := @impl_mttkrp_t Z 0%Z Z.add Z.mul.
Definition zimpl_full_t := @impl_full_t Z 0%Z Z.add Z.mul.
Definition zimpl_innerprod_t_dense := @impl_innerprod_t_dense Z 0%Z Z.add Z.mul.
Definition zimpl_normsq_t := @impl_normsq_t Z 0%Z Z.add Z.mul.
Definition zimpl_innerprod_tt := @impl_innerprod_tt Z 0%Z Z.add Z.mul.
(* ktensor.innerprod(tensor | sptensor): res += weights[r] * other.ttv(columns r) over all modes, with the operand's own (proved) ttv model *)
Definition zkcols (As : list (list (list Z))) (r : nat) : list (list Z) :=
  map (fun A => map (fun x => mget 0%Z A x r) (seq 0 (length A))) As.
Definition zimpl_innerprod_k_dense (K : ktensor Z) (X : dense Z) : Z :=
  fold_left (fun acc r => (acc + nth r (kweights K) 0 * zden (zimpl_ttv_dense X (seq 0 (length (kfactors K))) (zkcols (kfactors K) r)) [])%Z)
            (seq 0 (krank K)) 0%Z.
Definition zimpl_innerprod_k_sp (K : ktensor Z) (S : sparse Z) : Z :=
  fold_left (fun acc r => (acc + nth r (kweights K) 0 * zimpl_ttv_sp S (seq 0 (length (kfactors K))) (zkcols (kfactors K) r) [])%Z)
            (seq 0 (krank K)) 0%Z.
Definition zimpl_ttt_req := @impl_ttt_req Z 0%Z Z.add Z.mul.
Definition zimpl_collapse_req := @impl_collapse_req Z 0%Z (sumv 0%Z Z.add).
Definition zimpl_scale_req := @impl_scale_req Z 0%Z Z.mul.
