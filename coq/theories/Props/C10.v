(* Props/C10.v — Tucker decompositions (hosvd, tucker_als). Only statements, `exact`, Print Assumptions.
   Partial by design (DESIGN §C10): exact real arithmetic; LAPACK/ARPACK are certificate-checked oracles in the
   correspondence (Model/C10Check.v). *)
From Coq Require Import List Arith Bool ZArith Reals Ring.
From PV Require Import Base.Index Base.Sum Np.Array Np.NpR Model.Repr Model.C10Tucker Proofs.C10Proofs Proofs.C10Ttm Proofs.C10Spectral
                       Proofs.C10Proj Proofs.C10ProjR.
Import ListNotations.
Local Open Scope R_scope.

(* hosvd.py:113-128, automatic ranks: for every non-negative spectrum and budget t >= 0, ranks[k] = r is the number of leading
   columns kept (pi[0:r]), the discarded eigenvalue energy is <= t, and no smaller count meets the budget *)
Theorem C10_rank_choice : forall (eig : list R) (t : R) (r : nat),
  Forall (fun x => 0 <= x) eig -> 0 <= t ->
  auto_rank 0 Rplus Rltb eig t = Some r ->
  (0 < r <= length eig)%nat /\
  (forall (A : Type) (p : list A), length p = length eig -> length (keep_cols r p) = r) /\
  sumR (skipn r eig) <= t /\
  (forall r', (r' < r)%nat -> t < sumR (skipn r' eig)).
Proof. exact rank_choice. Qed.
Print Assumptions C10_rank_choice.

(* the rule yields a rank whenever the total energy exceeds the budget (tol < 1, X <> 0) *)
Theorem C10_rank_choice_total : forall (eig : list R) (t : R),
  0 <= t -> t < sumR eig -> exists r, auto_rank 0 Rplus Rltb eig t = Some r.
Proof. exact rank_choice_total. Qed.
Print Assumptions C10_rank_choice_total.

(* user-given ranks (slice pi[0:ranks[k]], hosvd.py:128 after the A-32 repair): factor n has exactly ranks[n] columns *)
Theorem C10_given_ranks : forall (A : Type) (rk : nat) (p : list A),
  (rk <= length p)%nat -> length (keep_cols rk p) = rk.
Proof. exact given_ranks. Qed.
Print Assumptions C10_given_ranks.

(* column count of every factor as coded = as the property demands, for given and automatic (0) entries of ranks *)
Theorem C10_ncols : forall (user_rank : nat) (eig : list R) (t : R),
  Forall (fun x => 0 <= x) eig -> 0 <= t -> (user_rank <= length eig)%nat ->
  ncols_impl 0 Rplus Rltb user_rank eig t = ncols_spec 0 Rplus Rltb user_rank eig t.
Proof. exact ncols_correct. Qed.
Print Assumptions C10_ncols.

Section C10_space.
(* an abstract real inner-product space: only the laws used are assumed *)
Variable E : Type.
Variables (sub : E -> E -> E) (inner : E -> E -> R).
Hypothesis inner_sym : forall a b, inner a b = inner b a.
Hypothesis inner_sub : forall a b c, inner (sub a b) c = inner a c - inner b c.
Hypothesis inner_pos : forall a, 0 <= inner a a.

(* ||x - P_d..P_1 x||^2 = sum_k ||(I - P_k) P_{k-1}..P_1 x||^2  and each term <= ||(I - P_k) x||^2,
   for orthogonal projectors (additive, idempotent, self-adjoint) that commute pairwise *)
Theorem C10_projector_bound : forall (Ps : list (E -> E)) (x : E),
  Forall (oproj E sub inner) Ps -> pairwise_commute E Ps ->
  nrm2 E inner (sub x (applyPs E Ps x)) = sumR (terms E sub inner x Ps) /\
  Forall2 Rle (terms E sub inner x Ps) (direct E sub inner x Ps).
Proof. exact (projector_bound E sub inner inner_sym inner_sub inner_pos). Qed.

(* hence both truncation strategies and every mode order meet the tolerance *)
Theorem C10_error_bound : forall (Ps : list (E -> E)) (x : E) (tolsq : R),
  Ps <> [] -> Forall (oproj E sub inner) Ps -> pairwise_commute E Ps ->
  let budget := tolsq * nrm2 E inner x / INR (length Ps) in
  (Forall (fun t => t <= budget) (terms E sub inner x Ps) \/ Forall (fun t => t <= budget) (direct E sub inner x Ps)) ->
  nrm2 E inner (sub x (applyPs E Ps x)) <= tolsq * nrm2 E inner x.
Proof. exact (error_bound E sub inner inner_sym inner_sub inner_pos). Qed.

(* Tucker-ALS: with orthonormal factors (A (S c) = c, S adjoint to A)  ||X - T||^2 = ||X||^2 - ||core||^2 *)
Variable F : Type.
Variable innerF : F -> F -> R.
Theorem C10_tucker_als_fit : forall (A : E -> F) (S : F -> E),
  (forall c x, inner (S c) x = innerF c (A x)) -> (forall c, A (S c) = c) ->
  forall x, nrm2 E inner (sub x (S (A x))) = nrm2 E inner x - innerF (A x) (A x).
Proof. exact (tucker_fit E sub inner inner_sym inner_sub F innerF). Qed.

(* the spectral step: an orthonormal eigenbasis of the mode-k Gram matrix of y is given as orthogonal projectors Q_j (component
   along eigenvector u_j in mode k) resolving the identity, the eigenvalue contract is lambda_j = u_j^T Z u_j = ||Q_j y||^2, and the
   truncation projector P keeps the first r of them: the energy discarded by P is exactly the sum of the discarded eigenvalues *)
Theorem C10_spectral_step : forall (Qs : list (E -> E)) (P : E -> E) (r : nat) (y : E) (eig : list R),
  Forall (oproj E sub inner) Qs ->
  (forall a b, inner a b = sumR (map (fun Q => inner (Q a) b) Qs)) ->
  oproj E sub inner P ->
  (forall a b, inner (P a) b = sumR (map (fun Q => inner (Q a) b) (firstn r Qs))) ->
  eig = map (fun Q => nrm2 E inner (Q y)) Qs ->
  nrm2 E inner (sub y (P y)) = sumR (skipn r eig) /\
  Forall (fun l => 0 <= l) eig /\ sumR eig = nrm2 E inner y.
Proof. exact (spectral_step E sub inner inner_sym inner_sub inner_pos). Qed.

(* end to end: every mode's rank is chosen by the transliterated rule of hosvd.py on the spectrum of the tensor hosvd looks at
   (the running, shrunk one when sequential; the original one otherwise) with budget tol^2 ||x||^2 / d  ==>  relative error <= tol *)
Theorem C10_hosvd_error_bound : forall (sequential : bool) (ms : list (mode_data E)) (x : E) (tolsq : R),
  let Ps := map (md_P E) ms in
  let budget := tolsq * nrm2 E inner x / INR (length Ps) in
  Ps <> [] -> pairwise_commute E Ps -> 0 <= tolsq ->
  (if sequential then seq_ok E sub inner budget x ms else nonseq_ok E sub inner budget x ms) ->
  nrm2 E inner (sub x (applyPs E Ps x)) <= tolsq * nrm2 E inner x.
Proof. exact (hosvd_error_bound E sub inner inner_sym inner_sub inner_pos). Qed.

(* HOOI: replacing the projector of one mode by one that captures at least as much of the tensor projected on all OTHER factors
   (eigen-oracle contract of nvecs) does not decrease ||core||^2 = ||P_d..P_1 x||^2; any sequence of such updates (a sweep, many
   sweeps) keeps the reported fit 1 - ||x - T|| / ||x|| from decreasing *)
Theorem C10_hooi_monotone : forall (Ps1 Ps2 : list (E -> E)) (P P' : E -> E) (x : E),
  pairwise_commute E (Ps1 ++ P :: Ps2) -> pairwise_commute E (Ps1 ++ P' :: Ps2) ->
  nrm2 E inner (P (applyPs E (Ps1 ++ Ps2) x)) <= nrm2 E inner (P' (applyPs E (Ps1 ++ Ps2) x)) ->
  nrm2 E inner (applyPs E (Ps1 ++ P :: Ps2) x) <= nrm2 E inner (applyPs E (Ps1 ++ P' :: Ps2) x).
Proof. exact (hooi_monotone E inner). Qed.

Theorem C10_hooi_fit_monotone : forall (x : E) (Ps Ps' : list (E -> E)),
  hooi_steps E inner x Ps Ps' ->
  Forall (oproj E sub inner) Ps -> pairwise_commute E Ps ->
  Forall (oproj E sub inner) Ps' -> pairwise_commute E Ps' ->
  0 < nrm2 E inner x ->
  nrm2 E inner (applyPs E Ps x) <= nrm2 E inner (applyPs E Ps' x) /\
  1 - sqrt (nrm2 E inner (sub x (applyPs E Ps x))) / sqrt (nrm2 E inner x) <=
  1 - sqrt (nrm2 E inner (sub x (applyPs E Ps' x))) / sqrt (nrm2 E inner x).
Proof. exact (hooi_core_and_fit_monotone E sub inner inner_sym inner_sub). Qed.
End C10_space.
Print Assumptions C10_projector_bound.
Print Assumptions C10_error_bound.
Print Assumptions C10_tucker_als_fit.
Print Assumptions C10_spectral_step.
Print Assumptions C10_hosvd_error_bound.
Print Assumptions C10_hooi_monotone.
Print Assumptions C10_hooi_fit_monotone.

(* core relation in ANY mode order: products along different modes commute (every commutative ring, every denotation), so
   X x_n U_n^T over all n is the same tensor whatever dimorder / sequential shrink order the code uses *)
Section C10_ring.
Variable V : Type.
Variables (v0 v1 : V) (vadd vmul vsub : V -> V -> V) (vopp : V -> V).
Hypothesis Vring : ring_theory v0 v1 vadd vmul vsub vopp (@eq V).
Theorem C10_core_relation_order : forall (X : idx -> V) (Im In m n : nat) (A B : list (list V)) (i : idx),
  m <> n -> (m < length i)%nat -> (n < length i)%nat ->
  ttm_den v0 vadd vmul (ttm_den v0 vadd vmul X Im m A) In n B i =
  ttm_den v0 vadd vmul (ttm_den v0 vadd vmul X In n B) Im m A i.
Proof. exact (ttm_den_comm V v0 v1 vadd vmul vsub vopp Vring). Qed.
End C10_ring.
Print Assumptions C10_core_relation_order.

(* ---- the abstract space and its projectors INSTANTIATED by concrete dense real tensors and mode-n products (wave 3) ---- *)
(* dense real arrays of a fixed shape with the Frobenius inner product satisfy the three laws assumed in C10_space *)
Theorem C10_frob_space : forall (s : shape),
  (forall a b, innerR s a b = innerR s b a) /\
  (forall a b c, innerR s (subR s a b) c = innerR s a c - innerR s b c) /\
  (forall a, 0 <= innerR s a a).
Proof. exact frob_space. Qed.
Print Assumptions C10_frob_space.

(* X |-> X x_n M with M symmetric and idempotent is an orthogonal projector (additive, idempotent, self-adjoint) *)
Theorem C10_mode_projector : forall (s : shape) (n : nat) (M : @matrix R),
  (n < length s)%nat -> msymR (nth n s 0%nat) M -> midemR (nth n s 0%nat) M ->
  oproj (dense R) (subR s) (innerR s) (projR s n M).
Proof. exact oproj_mode. Qed.
Print Assumptions C10_mode_projector.

(* ... in particular M = U U^T for a factor U (I_n x r) with orthonormal columns *)
Theorem C10_uut_projector : forall (s : shape) (n r : nat) (U : @matrix R),
  (n < length s)%nat -> orthocols R 0 1 Rplus Rmult (nth n s 0%nat) r U ->
  oproj (dense R) (subR s) (innerR s) (projR s n (uut R 0 Rplus Rmult (nth n s 0%nat) r U)).
Proof. exact oproj_uut. Qed.
Print Assumptions C10_uut_projector.

(* projectors of pairwise different modes commute (the pairwise_commute hypothesis of the abstract theorems) *)
Theorem C10_modes_commute : forall (s : shape) (mMs : list (nat * @matrix R)),
  Forall (good_mode s) mMs -> NoDup (map fst mMs) -> pairwise_commute (dense R) (projs s mMs).
Proof. exact modes_commute. Qed.
Print Assumptions C10_modes_commute.

(* C10_projector_bound / C10_error_bound for concrete tensors: no hypothesis about the space or the projectors is left *)
Theorem C10_concrete_projector_bound : forall (s : shape) (mMs : list (nat * @matrix R)) (X : dense R),
  Forall (good_mode s) mMs -> NoDup (map fst mMs) ->
  let Ps := projs s mMs in
  nrm2 (dense R) (innerR s) (subR s X (applyPs (dense R) Ps X)) = sumR (terms (dense R) (subR s) (innerR s) X Ps) /\
  Forall2 Rle (terms (dense R) (subR s) (innerR s) X Ps) (direct (dense R) (subR s) (innerR s) X Ps).
Proof. exact concrete_projector_bound. Qed.
Print Assumptions C10_concrete_projector_bound.

Theorem C10_concrete_error_bound : forall (s : shape) (mMs : list (nat * @matrix R)) (X : dense R) (tolsq : R),
  mMs <> [] -> Forall (good_mode s) mMs -> NoDup (map fst mMs) ->
  let Ps := projs s mMs in
  let budget := tolsq * nrm2 (dense R) (innerR s) X / INR (length Ps) in
  (Forall (fun t => t <= budget) (terms (dense R) (subR s) (innerR s) X Ps) \/
   Forall (fun t => t <= budget) (direct (dense R) (subR s) (innerR s) X Ps)) ->
  nrm2 (dense R) (innerR s) (subR s X (applyPs (dense R) Ps X)) <= tolsq * nrm2 (dense R) (innerR s) X.
Proof. exact concrete_error_bound. Qed.
Print Assumptions C10_concrete_error_bound.

(* ||X - T||^2 = ||X||^2 - ||T||^2 for T = X x_n M_n over the treated modes: the identity behind the reported fit *)
Theorem C10_concrete_fit : forall (s : shape) (mMs : list (nat * @matrix R)) (X : dense R),
  Forall (good_mode s) mMs -> NoDup (map fst mMs) ->
  let T := applyPs (dense R) (projs s mMs) X in
  nrm2 (dense R) (innerR s) (subR s X T) = nrm2 (dense R) (innerR s) X - nrm2 (dense R) (innerR s) T.
Proof. exact concrete_pythagoras. Qed.
Print Assumptions C10_concrete_fit.

Section C10_ring_proj.
Variable V : Type.
Variables (v0 v1 : V) (vadd vmul vsub : V -> V -> V) (vopp : V -> V).
Hypothesis Vring : ring_theory v0 v1 vadd vmul vsub vopp (@eq V).
(* what hosvd's shrink followed by ttensor.full does in one mode — (X x_n U^T) x_n U with the model's ttm — IS the projector
   X x_n (U U^T); every commutative ring, every shape, every U *)
Theorem C10_ttm_is_projector : forall (X : dense V) (n r : nat) (U : @matrix V),
  (n < length (dshape X))%nat -> nrows U = nth n (dshape X) 0%nat ->
  ttm v0 vadd vmul (ttm v0 vadd vmul X n (mtrans v0 U (nth n (dshape X) 0%nat) r)) n U =
  mproj V v0 vadd vmul (dshape X) n (uut V v0 vadd vmul (nth n (dshape X) 0%nat) r U) X.
Proof. exact (ttm_ttm_uut V v0 v1 vadd vmul vsub vopp Vring). Qed.
(* U^T U = I  ==>  U U^T symmetric and idempotent *)
Theorem C10_uut_sym_idem : forall (I r : nat) (U : @matrix V),
  orthocols V v0 v1 vadd vmul I r U ->
  msym V v0 I (uut V v0 vadd vmul I r U) /\ midem V v0 vadd vmul I (uut V v0 vadd vmul I r U).
Proof. exact (uut_sym_idem V v0 v1 vadd vmul vsub vopp Vring). Qed.
End C10_ring_proj.
Print Assumptions C10_ttm_is_projector.
Print Assumptions C10_uut_sym_idem.

(* non-vacuity *)
Example C10_example_concrete_space :
  let s := [2; 2]%nat in
  let X := mkDense s [1; 2; 3; 4] in
  let mMs := [(0%nat, uut R 0 Rplus Rmult 2 1 U35)] in
  Forall (good_mode s) mMs /\ NoDup (map fst mMs) /\
  oproj (dense R) (subR s) (innerR s) (projR s 0 (uut R 0 Rplus Rmult 2 1 U35)) /\
  ddata (projR s 0 (uut R 0 Rplus Rmult 2 1 U35) X) =
    [ (3/5*(3/5) + 0) * 1 + ((3/5*(4/5) + 0) * 2 + 0); (4/5*(3/5) + 0) * 1 + ((4/5*(4/5) + 0) * 2 + 0);
      (3/5*(3/5) + 0) * 3 + ((3/5*(4/5) + 0) * 4 + 0); (4/5*(3/5) + 0) * 3 + ((4/5*(4/5) + 0) * 4 + 0) ] /\
  nrm2 (dense R) (innerR s) (subR s X (applyPs (dense R) (projs s mMs) X)) =
    nrm2 (dense R) (innerR s) X - nrm2 (dense R) (innerR s) (applyPs (dense R) (projs s mMs) X).
Proof. exact concrete_space_example. Qed.
Example C10_example_ttm_projector :
  let X := mkDense [3; 2]%nat [1; 2; 3; 4; 5; 6]%Z in
  let U := [[0; 1]; [-1; 0]; [0; 0]]%Z in
  ttm 0%Z Z.add Z.mul (ttm 0%Z Z.add Z.mul X 0 (mtrans 0%Z U 3 2)) 0 U = mkDense [3; 2]%nat [1; 2; 0; 4; 5; 0]%Z /\
  mproj Z 0%Z Z.add Z.mul [3; 2]%nat 0 (uut Z 0%Z Z.add Z.mul 3 2 U) X = mkDense [3; 2]%nat [1; 2; 0; 4; 5; 0]%Z /\
  ddata (ttm 0%Z Z.add Z.mul X 0 (mtrans 0%Z U 3 2)) = [-2; 1; -5; 4]%Z.
Proof. exact ttm_ttm_uut_example. Qed.
Example C10_example_ttm :
  let X := mkDense [2; 3]%nat [1; 2; 3; 4; 5; 6]%nat in
  let A := [[1; 2]; [0; 1]; [3; 0]]%nat in let B := [[1; 0; 2]; [0; 1; 1]]%nat in
  ttm 0%nat Nat.add Nat.mul (ttm 0%nat Nat.add Nat.mul X 0 A) 1 B = ttm 0%nat Nat.add Nat.mul (ttm 0%nat Nat.add Nat.mul X 1 B) 0 A
  /\ ddata (ttm 0%nat Nat.add Nat.mul X 0 A) = [5; 2; 3; 11; 4; 9; 17; 6; 15]%nat.
Proof. split; reflexivity. Qed.
Example C10_example_rank : auto_rank 0 Rplus Rltb [9; 4; 1; 0] 2 = Some 2%nat /\ keep_cols 2 [3; 0; 2; 1]%nat = [3; 0]%nat.
Proof. exact rank_choice_example. Qed.
Example C10_example_projectors :
  let x := (1, 2, 3) in
  nrm2 v3 inner3 (sub3 x (applyPs v3 [drop3; drop2] x)) = 9 + 4 /\
  terms v3 sub3 inner3 x [drop3; drop2] = [nrm2 v3 inner3 (0, 0, 3); nrm2 v3 inner3 (0, 2, 0)].
Proof. exact projector_bound_example. Qed.
Example C10_example_spectral :
  let y : v3 := (1, 2, 3) in
  let Qs := [keep3; keep1; keep2] in
  let eig := [9; 1; 4] in
  Forall (oproj v3 sub3 inner3) Qs /\
  (forall a b, inner3 a b = sumR (map (fun Q => inner3 (Q a) b) Qs)) /\
  oproj v3 sub3 inner3 drop2 /\
  (forall a b, inner3 (drop2 a) b = sumR (map (fun Q => inner3 (Q a) b) (firstn 2 Qs))) /\
  eig = map (fun Q => nrm2 v3 inner3 (Q y)) Qs /\
  nrm2 v3 inner3 (sub3 y (drop2 y)) = 4 /\ sumR eig = nrm2 v3 inner3 y.
Proof. exact spectral_step_example. Qed.
Example C10_example_hosvd_bound :
  let x : v3 := (1, 2, 3) in
  let ms := [MkMode v3 drop1 [keep3; keep2; keep1] 2 [9; 4; 1]; MkMode v3 drop1 [keep2; keep3; keep1] 2 [4; 9; 0]] in
  seq_ok v3 sub3 inner3 (1 / 2 * nrm2 v3 inner3 x / INR (length (map (md_P v3) ms))) x ms /\
  pairwise_commute v3 (map (md_P v3) ms) /\
  nrm2 v3 inner3 (sub3 x (applyPs v3 (map (md_P v3) ms) x)) <= 1 / 2 * nrm2 v3 inner3 x /\
  nrm2 v3 inner3 (sub3 x (applyPs v3 (map (md_P v3) ms) x)) = 1.
Proof. exact hosvd_error_bound_example. Qed.
Example C10_example_hooi :
  let x : v3 := (1, 2, 3) in
  hooi_steps v3 inner3 x [keep1; drop3] [keep2; drop1] /\
  nrm2 v3 inner3 (applyPs v3 [keep1; drop3] x) = 1 /\ nrm2 v3 inner3 (applyPs v3 [keep2; drop1] x) = 4 /\
  nrm2 v3 inner3 (sub3 x (applyPs v3 [keep2; drop1] x)) <= nrm2 v3 inner3 (sub3 x (applyPs v3 [keep1; drop3] x)).
Proof. exact hooi_sweep_example. Qed.
