(* Proofs/C15Code.v — wave 4: the sentences of property C15 stated on the CODE-LEVEL transliteration
   (Model/C15Lin.v: NEW symmetrize / issymmetric on the stored container over the generated tt_ind2sub / tt_sub2ind):
     * symmetrize returns the tabulated spec average (end to end);
     * the result passes the symmetry test;
     * symmetrising again changes nothing;
     * a tensor that passes the symmetry test is returned unchanged (no ring hypothesis: the short-cut is taken);
     * the symmetry test answers true exactly when the groups are cubical and the stored array is invariant under every
       within-group rearrangement of in-bounds subscripts;
     * NEW (generated-helper transliteration) and OLD (container model) symmetrize agree. *)
From Coq Require Import List Arith ZArith Lia Bool Permutation Ring.
From PV Require Import Base.Index Base.Perm Base.Sum Np.Array Np.NpZ Model.Sparse Model.Repr Model.C15Sym Model.C15Impl
  Model.C15Dense Model.C15Lin Proofs.C15Proofs Proofs.C15Orbit Proofs.C15ImplProofs Proofs.C15Old Proofs.C15Dense
  Proofs.C15Lin.
Import ListNotations.
Local Open Scope nat_scope.

Section Code15.
Variable V : Type.
Variables (v0 v1 : V) (vadd vmul vsub : V -> V -> V) (vopp vinv : V -> V) (veqb : V -> V -> bool).
Hypothesis Vring : ring_theory v0 v1 vadd vmul vsub vopp (@eq V).
Hypothesis veqb_spec : forall a b, veqb a b = true <-> a = b.
Notation ofn := (of_nat v0 v1 vadd).
Notation symg := (sym_group v0 v1 vadd vmul vinv).
Notation ssym := (spec_sym v0 v1 vadd vmul vinv).
Notation den := (den_dense v0).
Notation code_sym := (sym_new_lin v0 v1 vadd vmul vinv veqb).
Notation code_issym := (issym_new_lin v0 veqb).

(* the spec average reads its argument only at in-bounds subscripts (cubical groups) *)
Lemma spec_sym_ext_inb s G : (forall g, In g G -> okg (length s) g /\ group_cubical s g = true) ->
  forall X Y : idx -> V, (forall j, inb s j = true -> X j = Y j) -> forall i, inb s i = true -> ssym X G i = ssym Y G i.
Proof.
  induction G as [|g G IH]; intros HG X Y H i Hi; [now apply H|].
  change (ssym (symg X g) G i = ssym (symg Y g) G i). destruct (HG g (or_introl eq_refl)) as [Hok Hc].
  apply IH; auto.
  - intros g' Hg'. apply HG. now right.
  - intros j Hj. now apply (sym_group_ext_inb V v0 v1 vadd vmul vinv s).
Qed.

(* NEW issymmetric, end to end: the transliteration over the generated tt_ind2sub answers the spec test *)
Theorem code_issym_new (T : dense V) G : wf_dense T -> (forall g, In g G -> okg (length (dshape T)) g) ->
  code_issym T G = Ok (spec_issym veqb (dshape T) (den T) G).
Proof.
  intros W HG. rewrite issym_new_lin_spec by exact W. f_equal. now apply (impl_issym_new_correct V veqb veqb_spec).
Qed.

(* "the symmetry test answers true exactly when the tensor is invariant under every permutation within the given groups" *)
Theorem code_issym_exact (T : dense V) G : wf_dense T -> (forall g, In g G -> okg (length (dshape T)) g) ->
  (code_issym T G = Ok true <->
   forall g, In g G -> group_cubical (dshape T) g = true /\
     forall i vals, inb (dshape T) i = true -> Permutation (pick 0 g i) vals -> den T (put g vals i) = den T i).
Proof.
  intros W HG. rewrite code_issym_new by auto.
  rewrite <- (spec_issym_all_rearrangements V veqb veqb_spec (dshape T) (den T) G HG).
  split; [now intros [= ->]|now intros ->].
Qed.

(* a tensor that passes the test is returned as it is (the "already symmetric" short-cut of every group is taken) —
   no hypothesis on the values at all *)
Theorem code_sym_keeps_symmetric (T : dense V) G : wf_dense T -> dshape T <> [] -> groups_ok (length (dshape T)) G ->
  code_issym T G = Ok true -> code_sym T G = Ok T.
Proof.
  intros W Hs HG E. rewrite issym_new_lin_spec in E by exact W. injection E as E.
  unfold issym_new_d, impl_issym_new in E. rewrite forallb_forall in E.
  assert (Hc : forall g, In g G -> group_cubical (dshape T) g = true).
  { intros g Hg. specialize (E g Hg). now apply andb_true_iff in E as [E _]. }
  rewrite sym_new_lin_spec by auto. f_equal.
  clear HG Hc. induction G as [|g G IH]; [reflexivity|].
  change (sym_new_d v0 v1 vadd vmul vinv veqb T (g :: G))
    with (sym_new_d v0 v1 vadd vmul vinv veqb (sym_new_step v0 v1 vadd vmul vinv veqb T g) G).
  assert (St : sym_new_step v0 v1 vadd vmul vinv veqb T g = T).
  { unfold sym_new_step, sym_new_group. specialize (E g (or_introl eq_refl)). apply andb_true_iff in E as [_ E].
    rewrite E. now apply tabulate_den. }
  rewrite St. apply IH. intros g' Hg'. apply E. now right.
Qed.

Hypothesis char0 : forall n, n <> 0 -> ofn n <> v0.
Hypothesis vinv_l : forall x, x <> v0 -> vmul (vinv x) x = v1.

(* NEW symmetrize, end to end: the transliteration over the generated helpers returns the tabulated spec average *)
Theorem code_sym_new (T : dense V) G : wf_dense T -> dshape T <> [] -> groups_ok (length (dshape T)) G ->
  (forall g, In g G -> group_cubical (dshape T) g = true) ->
  code_sym T G = Ok (tabulate (dshape T) (ssym (den T) G)).
Proof.
  intros W Hs HG Hc. rewrite sym_new_lin_spec by auto. f_equal.
  apply (sym_new_d_tabulate V v0 v1 vadd vmul vsub vopp vinv veqb Vring veqb_spec char0 vinv_l); auto.
  intros g Hg. split; [eapply groups_ok_okg; eauto|auto].
Qed.

(* "the result passes the symmetry test" *)
Theorem code_result_passes_test (T S : dense V) G : wf_dense T -> dshape T <> [] -> groups_ok (length (dshape T)) G ->
  (forall g, In g G -> group_cubical (dshape T) g = true) ->
  code_sym T G = Ok S -> code_issym S G = Ok true.
Proof.
  intros W Hs HG Hc E. rewrite code_sym_new in E by auto. injection E as <-.
  set (s := dshape T) in *. set (Z := ssym (den T) G).
  assert (Hokg : forall g, In g G -> okg (length s) g) by (intros g Hg; eapply groups_ok_okg; eauto).
  apply code_issym_exact; [apply wf_tabulate|now rewrite dshape_tabulate|]. rewrite dshape_tabulate.
  intros g Hg. split; [now apply Hc|]. intros i vals Hi P.
  pose proof (cubical_sizes s g (Hc g Hg)) as Hd.
  assert (Hb : inb s (put g vals i) = true).
  { apply (inb_put s g vals i (nth (hd 0 g) s 0)); auto.
    - rewrite <- (Permutation_length P). apply pick_length.
    - eapply Permutation_Forall; [exact P|]. apply (pick_inb_lt s g i); auto. }
  rewrite !den_tabulate by auto.
  apply (spec_sym_symmetric V v0 v1 vadd vmul vsub vopp vinv veqb Vring (length s) G HG (den T) g Hg); auto.
  now apply inb_length.
Qed.

(* "symmetrising again changes nothing" *)
Theorem code_sym_idempotent (T S : dense V) G : wf_dense T -> dshape T <> [] -> groups_ok (length (dshape T)) G ->
  (forall g, In g G -> group_cubical (dshape T) g = true) ->
  code_sym T G = Ok S -> code_sym S G = Ok S.
Proof.
  intros W Hs HG Hc E. apply code_sym_keeps_symmetric.
  - rewrite code_sym_new in E by auto. injection E as <-. apply wf_tabulate.
  - rewrite code_sym_new in E by auto. injection E as <-. now rewrite dshape_tabulate.
  - rewrite code_sym_new in E by auto. injection E as <-. now rewrite dshape_tabulate.
  - now apply (code_result_passes_test T S G).
Qed.

(* "the two implementations of each dense operation agree with each other": the transliteration of NEW symmetrize over
   the generated helpers and the container execution of OLD symmetrize (explicit average + max-fix rounds) *)
Theorem code_sym_versions_agree (vmax : V -> V -> V) : (forall a, vmax a a = a) ->
  forall (T : dense V) G, wf_dense T -> dshape T <> [] -> groups_ok (length (dshape T)) G ->
  (forall g, In g G -> group_cubical (dshape T) g = true) ->
  code_sym T G = Ok (sym_old_d v0 v1 vadd vmul vinv vmax T G).
Proof.
  intros Hm T G W Hs HG Hc. rewrite code_sym_new by auto. f_equal. symmetry.
  now apply (sym_old_d_correct V v0 v1 vadd vmul vsub vopp vinv Vring char0 vinv_l vmax Hm).
Qed.
End Code15.
