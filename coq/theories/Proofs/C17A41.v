(* Proofs/C17A41.v — wave 4: exact request-level triggers of the two open C17 findings, over the GENERATED helpers.

   A-41 (tt_intersect_rows / tt_setdiff_rows with repeated rows in the first argument): the helpers work with ranks in
   `dedup A` (distinct rows of A in first-occurrence order) where positions in A are meant.  Trigger on the request:
       a41_trigger A B  :=  some row r of A that also occurs in B is NOT the row of A at position rank_A(r)
   (equivalently: r's first occurrence in A comes after a repeated row of A).  tt_intersect_rows meets its full contract
   EXACTLY on the requests outside the trigger (a41_intersect_exact, both directions); tt_setdiff_rows meets its full
   contract on every request outside the trigger (a41_setdiff_outside).  That tt_setdiff_rows is wrong on EVERY request
   inside the trigger is not proved here: it is carried by the correspondence stream (tools/props/c17.py judges every
   observed result by the full contract and attributes a failure to A-41 only under the trigger) and by an exhaustive
   comparison of the trigger with pyttb on 3 146 small requests.

   C17-WRAP-UINT (gather_wrap_dims, rdims = [0] unsigned, 'bc'): over unbounded integers the generated function answers the
   request by the documented convention (wrapdims_bc0); only numpy's unsigned `0 - 1` differs. *)
From Coq Require Import List ZArith Arith Bool Lia Permutation Sorted.
From PV Require Import Base.Index Np.NpZ Np.NpZ2 Proofs.NpZProofs Gen.GenUtils Gen.GenUtils2 Proofs.RowsProofs Proofs.C03Rows
  Proofs.GenRows Proofs.C17Dup Proofs.GenWrapDims.
Import ListNotations.
Local Open Scope Z_scope.

(* ---- A-41 ---- *)
Definition a41_trigger (A B : mat) : bool :=
  existsb (fun r => negb (row_eqb (znth [] A (loc (dedup A) r)) r)) (filter (inrows A) (dedup B)).

Lemma map_fix_iff {X} (f : X -> X) l : map f l = l <-> forall x, In x l -> f x = x.
Proof.
  induction l as [|a l IH]; cbn [map In]; [tauto|]. split.
  - intros E x [<-|Hx]; [congruence|]. apply IH; [congruence|exact Hx].
  - intros H. f_equal; [apply H; now left|]. apply IH. intros x Hx. apply H. now right.
Qed.

Theorem a41_intersect_exact (A B : mat) : okw A -> okw B ->
  ((exists idx, tt_intersect_rows A B = Ok idx /\ np_take [] A idx = filter (inrows A) (dedup B))
   <-> a41_trigger A B = false).
Proof.
  intros HA HB. rewrite (tt_intersect_rows_gen A B HA HB). unfold a41_trigger.
  set (C := filter (inrows A) (dedup B)). split.
  - intros (idx & E & T). inversion E; subst idx. clear E. unfold np_take in T. rewrite map_map in T.
    pose proof (proj1 (map_fix_iff _ C) T) as HT.
    apply not_true_is_false. intros H. apply existsb_exists in H as (r & Hr & Hn).
    rewrite (HT r Hr), row_eqb_refl in Hn. discriminate.
  - intros H. eexists. split; [reflexivity|]. unfold np_take. rewrite map_map. apply map_fix_iff. intros r Hr.
    destruct (row_eqb (znth [] A (loc (dedup A) r)) r) eqn:E; [now apply row_eqb_spec in E|].
    exfalso. assert (Ht : existsb (fun r => negb (row_eqb (znth [] A (loc (dedup A) r)) r)) C = true).
    { apply existsb_exists. exists r. split; [exact Hr|]. now rewrite E. }
    rewrite H in Ht. discriminate.
Qed.

(* a first argument without repeated rows is never inside the trigger *)
Theorem a41_trigger_nodup (A B : mat) : NoDup A -> okw A -> okw B -> a41_trigger A B = false.
Proof.
  intros Hn HA HB. apply (a41_intersect_exact A B HA HB). now apply intersect_rows_contract_nodupA.
Qed.

(* the trigger is a proper class: repeated rows alone do not trigger it (the repeat must come BEFORE the first occurrence
   of a common row), and the finding's witness is inside *)
Example a41_trigger_witness : a41_trigger [[1]; [1]; [2]] [[2]] = true.
Proof. reflexivity. Qed.
Example a41_trigger_dup_after : a41_trigger [[2]; [1]; [1]] [[2]; [1]] = false /\
  tt_intersect_rows [[2]; [1]; [1]] [[2]; [1]] = Ok [0; 1] /\ tt_setdiff_rows [[2]; [1]; [1]; [5]] [[2]] = Ok [1; 3].
Proof. repeat split; reflexivity. Qed.
Example a41_trigger_dup_not_common : a41_trigger [[1]; [1]; [2]] [[1]] = false /\
  tt_intersect_rows [[1]; [1]; [2]] [[1]] = Ok [0].
Proof. split; reflexivity. Qed.
(* inside the trigger both helpers are wrong on the witness: position 1 of A is not the common row, row 2 of A is in B *)
Example a41_inside_wrong :
  tt_intersect_rows [[1]; [1]; [2]] [[2]] = Ok [1] /\ tt_setdiff_rows [[1]; [1]; [2]] [[2]] = Ok [0; 2].
Proof. split; reflexivity. Qed.

(* ---- C17-WRAP-UINT: what the request means (and what the generated code answers over unbounded integers) ---- *)
Theorem wrapdims_bc0 (N : Z) : 1 <= N ->
  gather_wrap_dims N (Some [0]) None (Some CycBC) = Ok ([0], np_arange_down (N - 1) 0).
Proof.
  intros HN.
  assert (Hok : request_okZ N (Some [0]) None (Some CycBC)).
  { split; [split; [repeat constructor; intros []|intros k [<-|[]]; lia]|intros _; discriminate]. }
  destruct (gather_wrap_dims_gen N _ _ _ Hok) as (r & c & E & _ & _ & _ & _ & _ & _ & Hbc).
  destruct (Hbc 0 eq_refl eq_refl eq_refl) as [-> ->]. rewrite E. reflexivity.
Qed.

Example wrapdims_bc0_example : gather_wrap_dims 3 (Some [0]) None (Some CycBC) = Ok ([0], [2; 1]).
Proof. reflexivity. Qed.

(* ---- A-41, tt_setdiff_rows: outside the trigger the full contract holds ---- *)
Lemma zmem_in x l : zmem x l = true <-> In x l.
Proof.
  unfold zmem. rewrite existsb_exists. split.
  - intros (y & Hy & E). apply Z.eqb_eq in E. now subst.
  - intros H. exists x. split; [exact H|apply Z.eqb_refl].
Qed.

Lemma filter_of_map {X Y} (f : X -> Y) (g : Y -> bool) l : filter g (map f l) = map f (filter (fun x => g (f x)) l).
Proof. induction l as [|a l IH]; cbn; [reflexivity|]. destruct (g (f a)); cbn; now rewrite IH. Qed.

(* the pair kept for a row is its FIRST occurrence: no occurrence carries a smaller tag *)
Lemma firstpairs_min ps : StronglySorted Z.lt (map snd ps) -> forall p0, In p0 ps ->
  exists q, In q (firstpairs ps) /\ fst q = fst p0 /\ snd q <= snd p0.
Proof.
  induction ps as [|a ps IH]; intros Hs p0 Hp; [contradiction|].
  cbn [map] in Hs. apply StronglySorted_inv in Hs as [Hs Ha]. rewrite Forall_forall in Ha.
  cbn [firstpairs]. destruct Hp as [<-|Hp].
  - exists a. split; [now left|split; [reflexivity|lia]].
  - destruct (IH Hs p0 Hp) as (q & Hq & Ef & Es).
    destruct (row_eqb (fst a) (fst q)) eqn:E.
    + exists a. split; [now left|]. apply row_eqb_spec in E. split; [congruence|].
      assert (snd a < snd p0) by (apply Ha; now apply in_map). lia.
    + exists q. split; [|split; [exact Ef|exact Es]]. right. unfold remove_row. apply filter_In. split; [exact Hq|now rewrite E].
Qed.

Lemma sorted_ge_index (F : vec) : forall o, StronglySorted Z.lt F -> (forall x, In x F -> o <= x) ->
  forall j, (j < length F)%nat -> o + Z.of_nat j <= nth j F 0.
Proof.
  induction F as [|x F IH]; intros o Hs Hlo j Hj; [cbn in Hj; lia|].
  apply StronglySorted_inv in Hs as [Hs Hx]. rewrite Forall_forall in Hx.
  pose proof (Hlo x (or_introl eq_refl)) as Hox.
  destruct j as [|j]; cbn [nth]; [lia|].
  cbn [length] in Hj.
  assert (H1 : forall y, In y F -> x + 1 <= y) by (intros y Hy; specialize (Hx y Hy); lia).
  pose proof (IH (x + 1) Hs H1 j ltac:(lia)). lia.
Qed.

Lemma in_combine_tags_fwd (A : mat) j : (j < length A)%nat -> In (nth j A [], Z.of_nat j) (combine A (tags A)).
Proof.
  intros Hj. assert (E : nth j (combine A (tags A)) ([], 0) = (nth j A [], Z.of_nat j)).
  { rewrite combine_nth by (now rewrite tags_length). f_equal. unfold tags.
    rewrite (nth_indep _ 0 (Z.of_nat 0)) by (rewrite map_length, seq_length; lia).
    rewrite map_nth, seq_nth by lia. reflexivity. }
  rewrite <- E. apply nth_In. rewrite combine_length, tags_length. lia.
Qed.

Theorem a41_setdiff_outside (A B : mat) : okw A -> okw B -> a41_trigger A B = false ->
  exists idx, tt_setdiff_rows A B = Ok idx /\ np_take [] A idx = filter (fun r => negb (inrows B r)) (dedup A).
Proof.
  intros HA HB Htr. rewrite (tt_setdiff_rows_gen A B HA HB). eexists. split; [reflexivity|].
  set (C := filter (inrows A) (dedup B)). set (D := dedup A).
  set (P := firstpairs (combine A (tags A))).
  assert (HD : map fst P = D) by (apply firstpairs_fst; apply tags_length).
  assert (HF : firstpos A = map snd P) by reflexivity.
  assert (HT : forall r, In r C -> znth [] A (loc D r) = r).
  { intros r Hr. destruct (row_eqb (znth [] A (loc D r)) r) eqn:E; [now apply row_eqb_spec in E|].
    exfalso. unfold a41_trigger in Htr. fold C D in Htr.
    assert (Ht : existsb (fun r => negb (row_eqb (znth [] A (loc D r)) r)) C = true)
      by (apply existsb_exists; exists r; split; [exact Hr|now rewrite E]).
    rewrite Htr in Ht. discriminate. }
  assert (HP : forall p, In p P -> exists j, snd p = Z.of_nat j /\ (j < length A)%nat /\ fst p = nth j A []).
  { intros [r z] Hp. apply firstpairs_incl in Hp. unfold tags in Hp. apply in_combine_tags in Hp as (j & Hz & Hj & Hr).
    exists j. cbn [fst snd]. split; [rewrite Hz; reflexivity|split; [exact Hj|exact Hr]]. }
  assert (HnP : NoDup (map fst P)) by (rewrite HD; apply dedup_nodup).
  assert (Hsort : StronglySorted Z.lt (map snd P)) by (rewrite <- HF; apply firstpos_sorted).
  assert (Hkey : forall p, In p P -> zmem (snd p) (map (loc D) C) = inrows B (fst p)).
  { intros p Hp. apply eq_true_iff_eq. rewrite zmem_in, in_map_iff, inrows_spec.
    destruct (HP p Hp) as (j & Hs & Hj & Hf). split.
    - intros (r' & El & Hr'). pose proof (HT r' Hr') as E. rewrite El, Hs, znth_nat, <- Hf in E.
      unfold C in Hr'. apply filter_In in Hr' as [Hr' _]. apply (proj1 (dedup_in _ _)) in Hr'. now rewrite E.
    - intros HinB. set (r := fst p) in *.
      assert (HrA : In r A) by (rewrite Hf; now apply nth_In).
      assert (HrC : In r C).
      { unfold C. apply filter_In. split; [now apply dedup_in|now apply inrows_spec]. }
      exists r. split; [|exact HrC].
      assert (HrD : In r D) by (unfold D; now apply dedup_in).
      destruct (dedup_reading D) as (_ & _ & _ & _ & _ & _ & Hloc).
      destruct (Hloc r HrD) as (j0 & El & Hj0 & Hn0). rewrite El.
      (* the pair of P at rank j0 is p *)
      assert (HlenP : length P = length D) by (rewrite <- HD; now rewrite map_length).
      set (q0 := nth j0 P ([], 0)).
      assert (Hq0 : In q0 P) by (apply nth_In; lia).
      assert (Efq0 : fst q0 = r).
      { unfold q0. rewrite <- Hn0, <- HD. rewrite (nth_indep _ [] (fst (@nil Z, 0))) by (rewrite map_length; lia).
        now rewrite (map_nth fst). }
      assert (Eq0 : q0 = p) by (apply (nodup_map_inj fst P); auto).
      (* rank <= first position *)
      assert (Hge : Z.of_nat j0 <= snd p).
      { assert (Hnn : forall x, In x (map snd P) -> 0 <= x).
        { intros x Hx. apply in_map_iff in Hx as (pp & <- & Hpp). destruct (HP pp Hpp) as (jj & -> & _). lia. }
        pose proof (sorted_ge_index (map snd P) 0 Hsort Hnn j0 ltac:(rewrite map_length; lia)) as G.
        rewrite (nth_indep _ 0 (snd (@nil Z, 0))) in G by (rewrite map_length; lia).
        rewrite (map_nth snd) in G. fold q0 in G. rewrite Eq0 in G. lia. }
      (* first position <= rank: row r sits at position j0 of A (trigger false) *)
      assert (Hj0A : (j0 < length A)%nat) by lia.
      pose proof (HT r HrC) as E. rewrite El, znth_nat in E.
      assert (Hs2 : StronglySorted Z.lt (map snd (combine A (tags A)))).
      { rewrite map_snd_combine by (now rewrite tags_length). apply seqz_sorted. }
      destruct (firstpairs_min _ Hs2 _ (in_combine_tags_fwd A j0 Hj0A)) as (q & Hq & Efq & Esq).
      cbn [fst snd] in Efq, Esq. fold P in Hq.
      assert (Eq : q = p) by (apply (nodup_map_inj fst P); auto; rewrite Efq; exact E).
      subst q. lia. }
  assert (ER : filter (fun r => negb (inrows B r)) D = map fst (filter (fun x => negb (inrows B (fst x))) P))
    by (rewrite <- HD; exact (filter_of_map fst (fun r => negb (inrows B r)) P)).
  rewrite ER, HF, filter_of_map. unfold np_take. rewrite map_map.
  rewrite (filter_ext_in _ (fun x => negb (inrows B (fst x))) P) by (intros p Hp; cbv beta; now rewrite Hkey).
  apply map_ext_in. intros p Hp. apply filter_In in Hp as [Hp _].
  destruct (HP p Hp) as (j & Hs & Hj & Hf). now rewrite Hs, znth_nat.
Qed.
