(* Model/C03Ops.v — sparse element-wise operators of pyttb.sptensor (C03): element-wise specification on
   denotations, the value type for IEEE division, executable models of the sparse algorithms, and the
   boolean checkers used by the generated correspondence cases.  Definitions only (proofs: Proofs/C03*.v).
   Source anchors: pyttb/sptensor.py __add__/__sub__/__mul__/__truediv__/__neg__/logical_*/__eq__/__ne__/
   _compare/elemfun/ones/from_aggregator. *)
From Coq Require Import List ZArith Bool Arith QArith Qabs Qcanon.
From PV Require Import Base.Index Np.Array Model.Sparse Model.Harness.
Import ListNotations.

(* ------------------------------------------------------------------------------------------ *)
(* 1. element-wise specification, for any value types                                          *)
(* ------------------------------------------------------------------------------------------ *)
Section Spec.
Context {V W : Type}.
(* the array whose entry at i is f (a_i) (b_i): "the same operation on the fully expanded arrays" *)
Definition ew2 (f : V -> V -> W) (da db : idx -> V) : idx -> W := fun i => f (da i) (db i).
Definition ew1 (g : V -> W) (da : idx -> V) : idx -> W := fun i => g (da i).
Definition spec_dense2 (f : V -> V -> W) (s : shape) (da db : idx -> V) : dense W := tabulate s (ew2 f da db).
Definition spec_dense1 (g : V -> W) (s : shape) (da : idx -> V) : dense W := tabulate s (ew1 g da).
End Spec.

(* ------------------------------------------------------------------------------------------ *)
(* 2. executable models of the sparse algorithms, generic in the value type                    *)
(* ------------------------------------------------------------------------------------------ *)
Definition mem (i : idx) (l : list idx) : bool := existsb (idx_eqb i) l.

(* lexicographic order on subscript rows with the FIRST column most significant: the order in which
   numpy.unique(axis=0) returns rows *)
Fixpoint idx_ltb (i j : idx) : bool :=
  match i, j with
  | x :: i', y :: j' => if x <? y then true else if Nat.eqb x y then idx_ltb i' j' else false
  | [], _ :: _ => true
  | _, _ => false
  end.
(* sorted, de-duplicated rows: np.unique(subs, axis=0) — duplicates removed, then insertion sort *)
Definition idx_dec : forall i j : idx, {i = j} + {i <> j} := list_eq_dec Nat.eq_dec.
Fixpoint ins_sorted (i : idx) (l : list idx) : list idx :=
  match l with
  | [] => [i]
  | j :: r => if idx_ltb j i then j :: ins_sorted i r else i :: l
  end.
Definition sort_rows (l : list idx) : list idx := fold_right ins_sorted [] l.
Definition uniq_rows (l : list idx) : list idx := sort_rows (nodup idx_dec l).

Section Impl.
Context {V : Type} (v0 : V) (isz : V -> bool).

(* the stored values whose subscript is i, in stored order (what accumarray hands to the reducer) *)
Fixpoint collect (i : idx) (es : list (idx * V)) : list V :=
  match es with
  | [] => []
  | (j, v) :: r => if idx_eqb i j then v :: collect i r else collect i r
  end.

(* drop explicit zeros: newsubs[nzidx], newvals[nzidx] *)
Definition drop_zeros (es : list (idx * V)) : list (idx * V) := filter (fun e => negb (isz (snd e))) es.
Definition of_entries (s : shape) (es : list (idx * V)) : sparse V := mkSp s (map fst es) (map snd es).

(* sptensor.from_aggregator(subs, vals, shape, func): unique rows, reduce the values of each row, drop zeros *)
Definition from_aggregator (func : list V -> V) (s : shape) (subs : list idx) (vals : list V) : sparse V :=
  let es := combine subs vals in
  of_entries s (drop_zeros (map (fun i => (i, func (collect i es))) (uniq_rows subs))).

(* sptensor(subs, c * ones(len(subs)), shape) *)
Definition sp_const (s : shape) (subs : list idx) (c : V) : sparse V := mkSp s subs (map (fun _ => c) subs).

(* rows of l1 that are not / are rows of l2, in the order of l1 *)
Definition rows_diff (l1 l2 : list idx) : list idx := filter (fun i => negb (mem i l2)) l1.
Definition rows_inter (l1 l2 : list idx) : list idx := filter (fun i => mem i l2) l1.
(* allsubs()[tt_setdiff_rows(allsubs(), subs)] : the implicit-zero positions *)
Definition zero_subs (A : sparse V) : list idx := rows_diff (allsubs (sshape A)) (ssubs A).

Section Arith.
Variables (vadd : V -> V -> V) (vopp : V -> V) (vmul : V -> V -> V).
Definition vsum (l : list V) : V := fold_right vadd v0 l.

(* __neg__: same subscripts, negated values *)
Definition impl_neg (A : sparse V) : sparse V := mkSp (sshape A) (ssubs A) (map vopp (svals A)).
(* __sub__ / __add__ (sparse, sparse): from_aggregator(vstack(subs), vstack(vals, -+vals), sum) *)
Definition impl_add (A B : sparse V) : sparse V :=
  from_aggregator vsum (sshape A) (ssubs A ++ ssubs B) (svals A ++ svals B).
Definition impl_sub (A B : sparse V) : sparse V :=
  from_aggregator vsum (sshape A) (ssubs A ++ ssubs B) (svals A ++ map vopp (svals B)).
(* __mul__ by a scalar (zero products dropped — the repaired behaviour, see finding C06-F11) *)
Definition impl_mul_scalar (A : sparse V) (c : V) : sparse V :=
  of_entries (sshape A) (drop_zeros (map (fun e => (fst e, vmul (snd e) c)) (entries A))).
(* __mul__ (sparse, dense): gather the dense values at the stored subscripts *)
Definition impl_mul_dense (A : sparse V) (T : dense V) : sparse V :=
  of_entries (sshape A) (drop_zeros (map (fun e => (fst e, vmul (snd e) (den_dense v0 T (fst e)))) (entries A))).
(* __mul__ (sparse, sparse), repaired pairing: the common subscripts, each with the product of the two
   values stored AT THAT SUBSCRIPT (pyttb pairs two index lists by position: finding A-06) *)
Definition impl_mul (A B : sparse V) : sparse V :=
  of_entries (sshape A)
    (drop_zeros (map (fun e => (fst e, vmul (snd e) (den_sp v0 B (fst e))))
                     (filter (fun e => mem (fst e) (ssubs B)) (entries A)))).
End Arith.

Section Logic.
Variable (one : V).
Definition bval (b : bool) : V := if b then one else v0.
(* logical_and/or/xor (sparse, sparse): from_aggregator with a count predicate on the stacked lists *)
Definition impl_and (A B : sparse V) : sparse V :=
  from_aggregator (fun l => bval (Nat.eqb (length l) 2)) (sshape A) (ssubs A ++ ssubs B) (svals A ++ svals B).
Definition impl_or (A B : sparse V) : sparse V :=
  from_aggregator (fun l => bval (Nat.leb 1 (length l))) (sshape A) (ssubs A ++ ssubs B)
                  (map (fun _ => one) (ssubs A ++ ssubs B)).
Definition impl_xor (A B : sparse V) : sparse V :=
  from_aggregator (fun l => bval (Nat.eqb (length l) 1)) (sshape A) (ssubs A ++ ssubs B)
                  (map (fun _ => one) (ssubs A ++ ssubs B)).
(* logical_not: ones at the implicit-zero positions *)
Definition impl_not (A : sparse V) : sparse V := sp_const (sshape A) (zero_subs A) one.
(* ones(): same subscripts, all values 1 *)
Definition impl_ones (A : sparse V) : sparse V := sp_const (sshape A) (ssubs A) one.
(* logical_and with a scalar *)
Definition impl_and_scalar (A : sparse V) (c : V) : sparse V :=
  if isz c then mkSp (sshape A) [] [] else impl_ones A.

(* comparison with a scalar, _compare case 1: the stored entries that satisfy the comparison, plus every
   implicit-zero position when 0 itself satisfies it *)
Definition impl_cmp_scalar (cmp : V -> V -> bool) (A : sparse V) (c : V) : sparse V :=
  let subs1 := map fst (filter (fun e => cmp (snd e) c) (entries A)) in
  let subs2 := if cmp v0 c then zero_subs A else [] in
  sp_const (sshape A) (subs1 ++ subs2) one.
(* comparison of two sparse tensors, _compare case 2a (four groups) *)
Definition impl_cmp (cmp : V -> V -> bool) (A B : sparse V) : sparse V :=
  let subs1 := filter (fun i => cmp (den_sp v0 A i) v0) (rows_diff (ssubs A) (ssubs B)) in
  let subs2 := filter (fun i => cmp v0 (den_sp v0 B i)) (rows_diff (ssubs B) (ssubs A)) in
  (* tt_intersect_rows lists the common rows in the order of its SECOND argument *)
  let subs3 := filter (fun i => cmp (den_sp v0 A i) (den_sp v0 B i)) (rows_inter (ssubs B) (ssubs A)) in
  let subs4 := if cmp v0 v0 then rows_inter (zero_subs B) (zero_subs A) else [] in
  sp_const (sshape A) (subs1 ++ subs2 ++ subs3 ++ subs4) one.
(* comparison with a dense tensor, _compare case 2b *)
Definition impl_cmp_dense (cmp : V -> V -> bool) (A : sparse V) (T : dense V) : sparse V :=
  let subs1 := filter (fun i => cmp v0 (den_dense v0 T i)) (zero_subs A) in
  let subs2 := map fst (filter (fun e => cmp (snd e) (den_dense v0 T (fst e))) (entries A)) in
  sp_const (sshape A) (subs1 ++ subs2) one.
End Logic.

(* elemfun, repaired: apply g to the stored values, keep the NONZERO results (pyttb keeps the positive
   ones only: finding A-09) *)
Definition impl_elemfun (g : V -> V) (A : sparse V) : sparse V :=
  of_entries (sshape A) (drop_zeros (map (fun e => (fst e, g (snd e))) (entries A))).

(* sparse (+ - or xor rdiv) scalar / dense: pyttb expands with full() and applies the dense operator *)
Definition impl_dense_scalar {W} (f : V -> V -> W) (A : sparse V) (c : V) : dense W :=
  mkDense (sshape A) (map (fun v => f v c) (ddata (full v0 A))).
Definition impl_dense_dense {W} (f : V -> V -> W) (A : sparse V) (T : dense V) : dense W :=
  mkDense (sshape A) (map (fun p => f (fst p) (snd p)) (combine (ddata (full v0 A)) (ddata T))).

(* structural well-formedness (everything except "no explicit zero") *)
Definition wf_struct (S : sparse V) : Prop :=
  length (ssubs S) = length (svals S) /\ NoDup (ssubs S) /\ Forall (fun i => inb (sshape S) i = true) (ssubs S).
Definition wf_structb (S : sparse V) : bool :=
  Nat.eqb (length (ssubs S)) (length (svals S)) && nodupb (ssubs S) && forallb (inb (sshape S)) (ssubs S).
End Impl.

(* ------------------------------------------------------------------------------------------ *)
(* 3. Z instance: the element functions and the right-hand sides of the generated cases         *)
(* ------------------------------------------------------------------------------------------ *)
Local Open Scope Z_scope.
Definition zb (b : bool) : Z := if b then 1 else 0.
Definition znz (x : Z) : bool := negb (x =? 0).
Definition zand (x y : Z) : Z := zb (znz x && znz y).
Definition zor (x y : Z) : Z := zb (znz x || znz y).
Definition zxor (x y : Z) : Z := zb (xorb (znz x) (znz y)).
Definition znot (x : Z) : Z := zb (x =? 0).
Definition zones (x : Z) : Z := zb (znz x).
Definition zeq (x y : Z) : Z := zb (x =? y).
Definition zne (x y : Z) : Z := zb (negb (x =? y)).
Definition zlt (x y : Z) : Z := zb (x <? y).
Definition zle (x y : Z) : Z := zb (x <=? y).
Definition zgt (x y : Z) : Z := zb (y <? x).
Definition zge (x y : Z) : Z := zb (y <=? x).

Inductive rhs := RScalar (c : Z) | RDense (T : dense Z) | RSparse (B : sparse Z).
Definition rden (r : rhs) : idx -> Z :=
  match r with RScalar c => fun _ => c | RDense T => zden T | RSparse B => zden_sp B end.
Definition spec_ew (f : Z -> Z -> Z) (A : sparse Z) (r : rhs) : dense Z := spec_dense2 f (sshape A) (zden_sp A) (rden r).
Definition spec_un (g : Z -> Z) (A : sparse Z) : dense Z := spec_dense1 g (sshape A) (zden_sp A).
(* elemfun acts on the stored nonzeros only *)
Definition spec_elemfun (g : Z -> Z) (A : sparse Z) : dense Z :=
  spec_dense1 (fun v => if v =? 0 then 0 else g v) (sshape A) (zden_sp A).

(* a sparse observation is structurally well-formed and denotes the dense array T (C03 does not ask for
   "no explicit zero"; that clause belongs to C06 and is checked there with wf_spb) *)
Definition sp_denotes3 (S : sparse Z) (T : dense Z) : bool :=
  wf_structb S && nvec_eqb (sshape S) (dshape T) &&
  forallb (fun k => (zden_sp S (ind2sub (dshape T) k) =? nth k (ddata T) 0)%Z) (seq 0 (size (dshape T))).

(* ------------------------------------------------------------------------------------------ *)
(* 4. IEEE division: values extended with +inf, -inf, NaN                                       *)
(* ------------------------------------------------------------------------------------------ *)
Inductive xval := XFin (q : Qc) | XPInf | XNInf | XNaN.
Definition x0 : xval := XFin q0.
Definition xisz (x : xval) : bool := match x with XFin q => qisz q | _ => false end.
(* x / y on finite operands: 0/0 = NaN, x/0 = +-inf by the sign of x *)
Definition xdiv (x y : Qc) : xval :=
  if qisz y then (if qisz x then XNaN else if qleb q0 x then XPInf else XNInf)
  else XFin (x / y)%Qc.
Definition z2q (z : Z) : Qc := Q2Qc (inject_Z z).
Definition xdivz (x y : Z) : xval := xdiv (z2q x) (z2q y).
Definition spec_div (A : sparse Z) (r : rhs) : dense xval := spec_dense2 xdivz (sshape A) (zden_sp A) (rden r).
Definition spec_rdiv (c : Z) (A : sparse Z) : dense xval := spec_dense1 (fun v => xdivz c v) (sshape A) (zden_sp A).

Definition xclose (obs exact : xval) : bool :=
  match obs, exact with
  | XFin a, XFin b => qclose tol9 a b
  | XPInf, XPInf | XNInf, XNInf | XNaN, XNaN => true
  | _, _ => false
  end.
Definition xden_sp (S : sparse xval) : idx -> xval := den_sp x0 S.
Definition xsp_denotes (S : sparse xval) (T : dense xval) : bool :=
  wf_structb S && nvec_eqb (sshape S) (dshape T) &&
  forallb (fun k => xclose (xden_sp S (ind2sub (dshape T) k)) (nth k (ddata T) x0)) (seq 0 (size (dshape T))).
Definition xdense_close (O T : dense xval) : bool :=
  nvec_eqb (dshape O) (dshape T) && list_eqb xclose (ddata O) (ddata T).
