(* Model/C02HarnessW5.v — executable glue for the wave-5 correspondence cases of property C02: sptensor.collapse / scale / contract and
   tensor.contract AS CALLED (Model/C02SpReq.v) at Z; every sparse collapse / scale / contract case and every dense contract case evaluates
   them on the caller's raw arguments, and the rejection stream demands Err exactly where pyttb raises. *)
From Coq Require Import List ZArith Bool.
From PV Require Import Base.Index Np.NpZ Np.Array Model.Sparse Model.Repr Model.Harness Model.C02Harness Model.C02SpReq.
Import ListNotations.

Definition zcollapse_req_sp := @impl_collapse_sp_req Z 0%Z Z.add.
Definition zscale_req_sp := @impl_scale_sp_req Z Z.mul zisz.
Definition zcontract_req_sp := @impl_contract_sp_req Z 0%Z Z.add.
Definition zcontract_req_dense := @impl_contract_dense_req Z 0%Z Z.add.
Definition zres_err {A} (r : res A) : bool := match r with Ok _ => false | Err => true end.
Definition zres_fun (r : res (idx -> Z)) : idx -> Z := match r with Ok k => k | Err => fun _ => 0%Z end.
Definition zres_sp (r : res (sparse Z)) : sparse Z := match r with Ok R => R | Err => mkSp [] [] [] end.
Definition zres_accepts {A} (r : res A) : bool := match r with Ok _ => true | Err => false end.

(* sumtensor.innerprod / mttkrp / ttv AS EXECUTED part by part, ktensor.innerprod(tensor | sptensor | ttensor) (Model/C02SumParts.v) at Z *)
From PV Require Import Model.C02SumParts Proofs.C02TuckerSpProofs.
Definition zinnerprod_sum_dense := @impl_innerprod_sum_dense Z 0%Z Z.add Z.mul.
Definition zinnerprod_sum_sp := @impl_innerprod_sum_sp Z 0%Z 1%Z Z.add Z.mul (impl_innerprod_t_sp Z 0%Z Z.add Z.mul).
Definition zmttkrp_sum := @impl_mttkrp_sum Z 0%Z 1%Z Z.add Z.mul.
Definition zttv_sum := @impl_ttv_sum Z 0%Z 1%Z Z.add Z.mul.
Definition zinnerprod_k_dense_r := @impl_innerprod_k_dense Z 0%Z Z.add Z.mul.
Definition zinnerprod_k_sp_r := @impl_innerprod_k_sp Z 0%Z 1%Z Z.add Z.mul.
Definition zinnerprod_k_t_r := @impl_innerprod_k_t Z 0%Z 1%Z Z.add Z.mul.
