(* Proofs/C03More.v — correctness of the code paths of Model/C03More.v. *)
From Coq Require Import List ZArith Arith Lia Bool Permutation QArith Qcanon.
From PV Require Import Base.Index Np.NpZ Np.Array Gen.GenUtils Model.Sparse Model.Harness Model.C03Ops Model.C03Gen Model.C03More
                       Proofs.NpZProofs Proofs.C03Lemmas Proofs.C03Proofs Proofs.C03GenProofs.
Import ListNotations.
Local Open Scope nat_scope.

Section More.
Context {V : Type} (v0 : V) (isz : V -> bool).
Hypothesis isz_spec : forall v, isz v = true <-> v = v0.
Variable one : V.
Hypothesis one_nz : one <> v0.
Variable veqb : V -> V -> bool.
Hypothesis veqb_spec : forall a b, veqb a b = true <-> a = b.
Notation den := (den_sp v0).
Notation dend := (den_dense v0).
Notation wf := (wf_sp isz).
Notation wfs := (@wf_struct V).
Notation bv := (bval v0 one).
Notation nz x := (negb (isz x)).

Lemma veqb_false a b : veqb a b = false <-> a <> b.
Proof. rewrite <- veqb_spec. destruct (veqb a b); split; intros; try discriminate; auto. now exfalso. Qed.

Lemma isz_den_notin (A : sparse V) i : wf A -> (isz (den A i) = true <-> ~ In i (ssubs A)).
Proof.
  intros W. rewrite <- mem_false, (mem_subs v0 isz isz_spec A i W). destruct (isz (den A i)); cbn; intuition discriminate.
Qed.

(* logical_and with a dense tensor *)
Theorem impl_and_dense_correct (A : sparse V) (T : dense V) : wf A -> wf_dense T -> dshape T = sshape A ->
  wf (impl_and_dense v0 isz one A T) /\ sshape (impl_and_dense v0 isz one A T) = sshape A /\
  forall i, den (impl_and_dense v0 isz one A T) i = bv (nz (den A i) && nz (dend T i)).
Proof.
  intros WA WT Hs. unfold impl_and_dense.
  destruct (impl_and_correct v0 isz isz_spec one A (to_sptensor v0 isz T) WA (to_sptensor_wf v0 isz T WT) Hs) as (W & S & D).
  split; [exact W|split; [exact S|]]. intros i. rewrite D. now rewrite (den_to_sptensor v0 isz isz_spec T i WT).
Qed.

(* S == c *)
Theorem impl_eq_scalar_correct (A : sparse V) (c : V) : wf A ->
  wf (impl_eq_scalar isz one veqb A c) /\ sshape (impl_eq_scalar isz one veqb A c) = sshape A /\
  forall i, inb (sshape A) i = true -> den (impl_eq_scalar isz one veqb A c) i = bv (veqb (den A i) c).
Proof.
  intros WA. pose proof (wf_sp_struct isz A WA) as Ws. unfold impl_eq_scalar. destruct (isz c) eqn:Hc.
  - apply isz_spec in Hc. subst c. destruct (impl_not_correct v0 isz isz_spec one A one_nz WA) as (W & S & D).
    split; [exact W|split; [exact S|]]. intros i Hi. rewrite D by auto. f_equal.
    apply eq_true_iff_eq. now rewrite isz_spec, veqb_spec.
  - assert (Hcz : c <> v0) by (now apply (isz_false v0 isz isz_spec)).
    set (subs1 := map fst (filter (fun e => veqb (snd e) c) (entries A))).
    assert (H1 : forall i, In i subs1 <-> In i (ssubs A) /\ veqb (den A i) c = true).
    { intros i. unfold subs1. now rewrite (in_fst_filter_entries v0). }
    destruct (sp_const_char v0 isz isz_spec one one_nz (sshape A) subs1 (fun i => veqb (den A i) c)) as (W & D).
    + unfold subs1. apply NoDup_map_fst_filter. now apply NoDup_fst_entries.
    + intros i Hi. apply H1 in Hi. now apply wf_inb.
    + intros i Hi. rewrite H1. destruct (in_dec idx_dec i (ssubs A)) as [Hin|Hout]; [tauto|].
      rewrite (den_sp_notin v0 A i Hout). split; [tauto|]. intros E. apply veqb_spec in E. congruence.
    + split; [exact W|split; [reflexivity|exact D]].
Qed.

(* S == T (dense) *)
Theorem impl_eq_dense_correct (A : sparse V) (T : dense V) : wf A ->
  wf (impl_eq_dense v0 isz one veqb A T) /\ sshape (impl_eq_dense v0 isz one veqb A T) = sshape A /\
  forall i, inb (sshape A) i = true -> den (impl_eq_dense v0 isz one veqb A T) i = bv (veqb (den A i) (dend T i)).
Proof.
  intros WA. pose proof (wf_sp_struct isz A WA) as Ws. unfold impl_eq_dense.
  set (g1 := filter (fun i => isz (den A i)) (filter (fun i => isz (dend T i)) (allsubs (sshape A)))).
  set (g2 := map fst (filter (fun e => veqb (dend T (fst e)) (snd e)) (entries A))).
  assert (H1 : forall i, In i g1 <-> inb (sshape A) i = true /\ isz (dend T i) = true /\ ~ In i (ssubs A)).
  { intros i. unfold g1. rewrite !filter_In, in_allsubs, (isz_den_notin A i WA). tauto. }
  assert (H2 : forall i, In i g2 <-> In i (ssubs A) /\ veqb (dend T i) (den A i) = true).
  { intros i. unfold g2. now rewrite (in_fst_filter_entries v0). }
  destruct (sp_const_char v0 isz isz_spec one one_nz (sshape A) (g1 ++ g2) (fun i => veqb (den A i) (dend T i))) as (W & D).
  - apply NoDup_app_intro.
    + apply NoDup_filter, NoDup_filter, allsubs_NoDup.
    + unfold g2. apply NoDup_map_fst_filter. now apply NoDup_fst_entries.
    + intros i Hi1 Hi2. apply H1 in Hi1. apply H2 in Hi2. tauto.
  - intros i Hi. apply in_app_iff in Hi as [Hi|Hi]; [apply H1 in Hi; tauto|apply H2 in Hi; apply wf_inb; tauto].
  - intros i Hi. rewrite in_app_iff, H1, H2, !veqb_spec, isz_spec.
    destruct (in_dec idx_dec i (ssubs A)) as [Hin|Hout].
    + split; [intros [?|[_ E]]; [tauto|now symmetry]|intros E; right; split; [auto|now symmetry]].
    + rewrite (den_sp_notin v0 A i Hout). split; [intros [(_ & E & _)|?]; [now symmetry|tauto]|intros E; left; split; [auto|split; [now symmetry|auto]]].
  - split; [exact W|split; [reflexivity|exact D]].
Qed.

(* S != S2 *)
Theorem impl_ne_sparse_correct (A B : sparse V) : wf A -> wf B -> sshape B = sshape A ->
  wf (impl_ne_sparse v0 one veqb A B) /\ sshape (impl_ne_sparse v0 one veqb A B) = sshape A /\
  forall i, inb (sshape A) i = true -> den (impl_ne_sparse v0 one veqb A B) i = bv (negb (veqb (den A i) (den B i))).
Proof.
  intros WA WB Hs. pose proof (wf_sp_struct isz A WA) as WsA. pose proof (wf_sp_struct isz B WB) as WsB.
  unfold impl_ne_sparse.
  set (d1 := rows_diff (ssubs A) (ssubs B)). set (d2 := rows_diff (ssubs B) (ssubs A)).
  set (g2 := filter (fun i => mem i (ssubs B) && negb (veqb (den A i) (den B i))) (ssubs A)).
  assert (HnA : NoDup (ssubs A)) by (now destruct WsA as (_ & ? & _)).
  assert (HnB : NoDup (ssubs B)) by (now destruct WsB as (_ & ? & _)).
  assert (H1 : forall i, In i d1 <-> In i (ssubs A) /\ ~ In i (ssubs B)).
  { intros i. unfold d1, rows_diff. now rewrite filter_In, negb_true_iff, mem_false. }
  assert (H2 : forall i, In i d2 <-> In i (ssubs B) /\ ~ In i (ssubs A)).
  { intros i. unfold d2, rows_diff. now rewrite filter_In, negb_true_iff, mem_false. }
  assert (H3 : forall i, In i g2 <-> In i (ssubs A) /\ In i (ssubs B) /\ veqb (den A i) (den B i) = false).
  { intros i. unfold g2. now rewrite filter_In, andb_true_iff, mem_spec, negb_true_iff. }
  destruct (sp_const_char v0 isz isz_spec one one_nz (sshape A) ((d1 ++ d2) ++ g2) (fun i => negb (veqb (den A i) (den B i)))) as (W & D).
  - apply NoDup_app_intro; [apply NoDup_app_intro| |].
    + now apply NoDup_filter.
    + now apply NoDup_filter.
    + intros i Hi1 Hi2. apply H1 in Hi1. apply H2 in Hi2. tauto.
    + now apply NoDup_filter.
    + intros i Hi Hi3. apply H3 in Hi3. apply in_app_iff in Hi as [Hi|Hi]; [apply H1 in Hi|apply H2 in Hi]; tauto.
  - intros i Hi. rewrite !in_app_iff in Hi. destruct Hi as [[Hi|Hi]|Hi].
    + apply H1 in Hi. apply wf_inb; tauto.
    + apply H2 in Hi. rewrite <- Hs. apply wf_inb; tauto.
    + apply H3 in Hi. apply wf_inb; tauto.
  - intros i Hi. rewrite !in_app_iff, H1, H2, H3, negb_true_iff, veqb_false.
    destruct (in_dec idx_dec i (ssubs A)) as [HA|HA], (in_dec idx_dec i (ssubs B)) as [HB|HB].
    + tauto.
    + rewrite (den_sp_notin v0 B i HB). pose proof (proj1 (in_subs_iff v0 isz isz_spec A i WA) HA). tauto.
    + rewrite (den_sp_notin v0 A i HA). pose proof (proj1 (in_subs_iff v0 isz isz_spec B i WB) HB) as HB'.
      split; [intros _ E; now symmetry in E|tauto].
    + rewrite (den_sp_notin v0 A i HA), (den_sp_notin v0 B i HB). tauto.
  - split; [exact W|split; [reflexivity|exact D]].
Qed.

(* S != T (dense) *)
Theorem impl_ne_dense_correct (A : sparse V) (T : dense V) : wf A ->
  wf (impl_ne_dense v0 isz one veqb A T) /\ sshape (impl_ne_dense v0 isz one veqb A T) = sshape A /\
  forall i, inb (sshape A) i = true -> den (impl_ne_dense v0 isz one veqb A T) i = bv (negb (veqb (den A i) (dend T i))).
Proof.
  intros WA. pose proof (wf_sp_struct isz A WA) as Ws. unfold impl_ne_dense.
  set (g1 := filter (fun i => negb (mem i (ssubs A)) && nz (dend T i)) (allsubs (sshape A))).
  set (g2 := map fst (filter (fun e => negb (veqb (snd e) (dend T (fst e)))) (entries A))).
  assert (H1 : forall i, In i g1 <-> inb (sshape A) i = true /\ ~ In i (ssubs A) /\ dend T i <> v0).
  { intros i. unfold g1. rewrite filter_In, in_allsubs, andb_true_iff, !negb_true_iff, mem_false, (isz_false v0 isz isz_spec). tauto. }
  assert (H2 : forall i, In i g2 <-> In i (ssubs A) /\ negb (veqb (den A i) (dend T i)) = true).
  { intros i. unfold g2. now rewrite (in_fst_filter_entries v0). }
  destruct (sp_const_char v0 isz isz_spec one one_nz (sshape A) (g1 ++ g2) (fun i => negb (veqb (den A i) (dend T i)))) as (W & D).
  - apply NoDup_app_intro.
    + apply NoDup_filter, allsubs_NoDup.
    + unfold g2. apply NoDup_map_fst_filter. now apply NoDup_fst_entries.
    + intros i Hi1 Hi2. apply H1 in Hi1. apply H2 in Hi2. tauto.
  - intros i Hi. apply in_app_iff in Hi as [Hi|Hi]; [apply H1 in Hi; tauto|apply H2 in Hi; apply wf_inb; tauto].
  - intros i Hi. rewrite in_app_iff, H1, H2.
    destruct (in_dec idx_dec i (ssubs A)) as [Hin|Hout]; [tauto|].
    rewrite (den_sp_notin v0 A i Hout), negb_true_iff, veqb_false. split.
    + intros [(_ & _ & E)|?]; [|tauto]. intros E'. now symmetry in E'.
    + intros E. left. split; [auto|split; [auto|]]. intros E'. now symmetry in E'.
  - split; [exact W|split; [reflexivity|exact D]].
Qed.

(* ------------------------------------------------------------------------------------------ *)
(* division into an arbitrary result type X with zero x0                                        *)
(* ------------------------------------------------------------------------------------------ *)
Section Div.
Context {X : Type} (x0 : X).
Variables (dv : V -> V -> X) (xnan : X).
Notation denx := (den_sp x0).

Lemma last_match_app {Y} i (es1 es2 : list (idx * Y)) d : last_match i (es1 ++ es2) d = last_match i es2 (last_match i es1 d).
Proof. revert d; induction es1 as [|[j v] r IH]; intros d; cbn; auto. Qed.

Lemma in_combine_map {Y} (g : V -> Y) (l : list idx) (vals : list V) (i : idx) (v : V) : In (i, v) (combine l vals) -> In (i, g v) (combine l (map g vals)).
Proof.
  revert vals; induction l as [|j l IH]; intros [|w vals] H; cbn in *; try contradiction.
  destruct H as [H|H]; [inversion H; subst; auto|right; auto].
Qed.

(* values mapped entry-wise, subscripts kept *)
Lemma den_map_entries (h : idx * V -> X) (A : sparse V) i : wfs A ->
  denx (mkSp (sshape A) (ssubs A) (map h (entries A))) i = if mem i (ssubs A) then h (i, den A i) else x0.
Proof.
  intros W. pose proof W as (HL & Hn & Hb). destruct (mem i (ssubs A)) eqn:Hm.
  - apply mem_spec in Hm.
    assert (EL : length (map h (entries A)) = length (ssubs A)).
    { unfold entries. rewrite map_length, combine_length, <- HL. apply Nat.min_id. }
    change (last_match i (combine (ssubs A) (map h (entries A))) x0 = h (i, den A i)). apply last_match_in.
    + rewrite map_fst_combine; auto.
    + assert (G : forall (es : list (idx * V)), In (i, den A i) es -> In (i, h (i, den A i)) (combine (map fst es) (map h es))).
      { induction es as [|[j w] es IH]; cbn; [tauto|]. intros [E|H]; [inversion E; subst; auto|auto]. }
      rewrite <- (map_fst_entries A HL) at 1. apply G. now apply (in_subs_entry v0).
  - apply mem_false in Hm. now apply den_sp_notin.
Qed.

Theorem impl_div_dense_partial (A : sparse V) (T : dense V) : wf A ->
  (forall t, t <> v0 -> dv v0 t = x0) ->
  let R := impl_div_dense v0 dv A T in
  @wf_struct X R /\ sshape R = sshape A /\
  forall i, ~ (den A i = v0 /\ dend T i = v0) -> denx R i = dv (den A i) (dend T i).
Proof.
  intros WA H0 R. pose proof (wf_sp_struct isz A WA) as Ws. split; [|split; [reflexivity|]].
  - destruct Ws as (HL & Hn & Hb). unfold wf_struct, R, impl_div_dense. cbn [ssubs svals sshape].
    repeat split; auto. unfold entries. now rewrite map_length, combine_length, <- HL, Nat.min_id.
  - intros i Hi. unfold R, impl_div_dense.
    rewrite (den_map_entries (fun e => dv (snd e) (dend T (fst e))) A i Ws). cbn [fst snd].
    destruct (mem i (ssubs A)) eqn:Hm; [reflexivity|].
    apply mem_false in Hm. rewrite (den_sp_notin v0 A i Hm) in *. symmetry. apply H0. tauto.
Qed.

Theorem impl_div_scalar_gen_correct (A : sparse V) (c : V) : wf A -> sshape A <> [] ->
  (c <> v0 -> dv v0 c = x0) -> (c = v0 -> dv v0 c = xnan) ->
  exists R, impl_div_scalar_gen isz dv xnan A c = Ok R /\ @wf_struct X R /\ sshape R = sshape A /\
            forall i, inb (sshape A) i = true -> denx R i = dv (den A i) c.
Proof.
  intros WA Hne Hc0 Hcn. pose proof (wf_sp_struct isz A WA) as Ws. pose proof Ws as (HL & Hn & Hb).
  unfold impl_div_scalar_gen. destruct (isz c) eqn:Hc.
  - apply isz_spec in Hc. rewrite (gen_zero_subs A Ws Hne). cbn [bind]. eexists. split; [reflexivity|].
    split; [|split; [reflexivity|]].
    + unfold wf_struct. cbn [ssubs svals sshape]. rewrite !app_length, !map_length. split; [lia|]. split.
      * apply NoDup_app_intro; auto using NoDup_zero_subs. intros i H1 H2. apply in_zero_subs in H2. tauto.
      * apply Forall_app. split; auto. rewrite Forall_forall. intros i Hi. apply in_zero_subs in Hi. tauto.
    + intros i Hi. unfold den_sp at 1, entries at 1. cbn [ssubs svals].
      rewrite combine_app by (now rewrite map_length). rewrite last_match_app.
      destruct (in_dec idx_dec i (ssubs A)) as [Hin|Hout].
      * rewrite (last_match_notin i (combine (zero_subs A) _)).
        -- apply last_match_in; [rewrite map_fst_combine; auto; now rewrite map_length|].
           apply (in_combine_map (fun v => dv v c)). exact (in_subs_entry v0 A i Ws Hin).
        -- intros e He Hf. destruct e as [j w]. cbn in Hf. subst j. apply in_combine_l in He. apply in_zero_subs in He. tauto.
      * rewrite (last_match_notin i (combine (ssubs A) _)).
        -- rewrite (den_sp_notin v0 A i Hout). rewrite (Hcn Hc). apply last_match_in.
           ++ rewrite map_fst_combine; [apply NoDup_zero_subs|now rewrite map_length].
           ++ assert (G : forall l, In i l -> In (i, xnan) (combine l (map (fun _ : idx => xnan) l))).
              { induction l as [|j l IH]; cbn; [tauto|]. intros [->|H]; auto. }
              apply G. apply in_zero_subs. tauto.
        -- intros e He Hf. destruct e as [j w]. cbn in Hf. subst j. apply in_combine_l in He. contradiction.
  - assert (Hcz : c <> v0) by (now apply (isz_false v0 isz isz_spec)).
    eexists. split; [reflexivity|]. split; [|split; [reflexivity|]].
    + unfold wf_struct. cbn [ssubs svals sshape]. now rewrite map_length.
    + intros i Hi. unfold den_sp at 1, entries at 1. cbn [ssubs svals].
      destruct (in_dec idx_dec i (ssubs A)) as [Hin|Hout].
      * apply last_match_in; [rewrite map_fst_combine; auto; now rewrite map_length|].
        apply (in_combine_map (fun v => dv v c)). exact (in_subs_entry v0 A i Ws Hin).
      * rewrite (den_sp_notin v0 A i Hout), (Hc0 Hcz). apply last_match_notin.
        intros e He Hf. destruct e as [j w]. cbn in Hf. subst j. apply in_combine_l in He. contradiction.
Qed.
End Div.
End More.

(* ------------------------------------------------------------------------------------------ *)
(* the IEEE instance: Z operands, xval results                                                  *)
(* ------------------------------------------------------------------------------------------ *)
Local Open Scope Z_scope.
Lemma zisz_spec v : zisz v = true <-> v = 0.
Proof. unfold zisz. apply Z.eqb_eq. Qed.

Lemma z2q_nz c : c <> 0 -> qisz (z2q c) = false.
Proof.
  intros H. unfold qisz, z2q. destruct (Qc_eq_bool (Q2Qc (inject_Z c)) (Q2Qc 0)) eqn:E; auto.
  apply Qc_eq_bool_correct in E. apply Q2Qc_eq_iff in E. unfold Qeq in E. cbn in E. lia.
Qed.

Lemma xdivz_0_l c : c <> 0 -> xdivz 0 c = x0.
Proof.
  intros H. unfold xdivz, xdiv. rewrite (z2q_nz c H). unfold x0. f_equal.
  change (z2q 0) with q0. unfold q0. apply Qc_is_canon. unfold Qcdiv, Qcmult, Q2Qc, this. rewrite !Qred_correct. 
  unfold Qmult, Qeq. cbn. lia.
Qed.

Lemma xdivz_0_0 : xdivz 0 0 = XNaN.
Proof. reflexivity. Qed.

(* finding C03-N5 (open): sparse / dense is NOT the element-wise quotient where both operands are 0 *)
Definition div_dense_stmt : Prop :=
  forall (A : sparse Z) (T : dense Z), wf_sp zisz A -> wf_dense T -> dshape T = sshape A ->
  forall i, inb (sshape A) i = true -> den_sp x0 (impl_div_dense 0 xdivz A T) i = xdivz (zden_sp A i) (zden T i).

Theorem div_dense_refuted : ~ div_dense_stmt.
Proof.
  intros H.
  specialize (H (mkSp [2; 2]%nat [[1; 1]; [0; 0]]%nat [3; 2]) (mkDense [2; 2]%nat [1; 0; 2; 3])).
  assert (W : wf_sp zisz (mkSp [2; 2]%nat [[1; 1]; [0; 0]]%nat [3; 2])).
  { unfold wf_sp; cbn. repeat split; auto. repeat constructor; cbn; intuition discriminate. }
  specialize (H W eq_refl eq_refl [1; 0]%nat eq_refl). vm_compute in H. discriminate.
Qed.

(* sparse / scalar (any scalar, 0 included) and sparse / dense over Z operands with IEEE results *)
Theorem div_scalar_ieee (A : sparse Z) (c : Z) : wf_sp zisz A -> sshape A <> [] ->
  exists R, impl_div_scalar_gen zisz xdivz XNaN A c = Ok R /\ wf_struct R /\ sshape R = sshape A /\
            forall i, inb (sshape A) i = true -> den_sp x0 R i = xdivz (zden_sp A i) c.
Proof.
  intros WA Hne. apply (impl_div_scalar_gen_correct 0 zisz zisz_spec x0 xdivz XNaN); auto using xdivz_0_l.
  intros ->. reflexivity.
Qed.

Theorem div_dense_ieee_partial (A : sparse Z) (T : dense Z) : wf_sp zisz A ->
  wf_struct (impl_div_dense 0 xdivz A T) /\ sshape (impl_div_dense 0 xdivz A T) = sshape A /\
  forall i, ~ (zden_sp A i = 0 /\ zden T i = 0) -> den_sp x0 (impl_div_dense 0 xdivz A T) i = xdivz (zden_sp A i) (zden T i).
Proof. intros WA. exact (impl_div_dense_partial 0 zisz x0 xdivz A T WA xdivz_0_l). Qed.

(* ------------------------------------------------------------------------------------------ *)
(* finding A-07 (open): sparse / sparse as pyttb computes it (Model/C03Gen.v impl_div_asis over the generated helpers) *)
(* ------------------------------------------------------------------------------------------ *)
Definition div_sparse_asis_stmt : Prop :=
  forall (A B : sparse Z), wf_sp zisz A -> wf_sp zisz B -> sshape B = sshape A -> sshape A <> [] ->
  exists R, impl_div_asis 0 xdivz XNaN x0 (allsubsC (sshape A)) A B = Ok R /\
            forall i, inb (sshape A) i = true -> den_sp x0 R i = xdivz (zden_sp A i) (zden_sp B i).

Definition wdA : sparse Z := mkSp [2; 2]%nat [[1; 0]]%nat [4].
Definition wdB : sparse Z := mkSp [2; 2]%nat [[1; 1]; [0; 0]]%nat [3; 2].

Theorem div_sparse_asis_refuted : ~ div_sparse_asis_stmt.
Proof.
  intros H.
  assert (WA : wf_sp zisz wdA) by (unfold wf_sp; cbn; repeat split; auto; repeat constructor; cbn; intuition discriminate).
  assert (WB : wf_sp zisz wdB) by (unfold wf_sp; cbn; repeat split; auto; repeat constructor; cbn; intuition discriminate).
  destruct (H wdA wdB WA WB eq_refl) as (R & E & D); [discriminate|].
  vm_compute in E. inversion E; subst R. specialize (D [1; 0]%nat eq_refl). vm_compute in D. discriminate.
Qed.

Section DivPartial.
Context {V X : Type} (v0 : V) (isz : V -> bool) (x0 : X).
Hypothesis isz_spec : forall v, isz v = true <-> v = v0.
Variables (dv : V -> V -> X) (xnan xzero : X).
Notation den := (den_sp v0).

Lemma nonempty_cases {Y} (l : list Y) : l = [] \/ nonempty l = true.
Proof. destruct l; auto. Qed.

Lemma rows_diff_nil (l : list idx) : rows_diff l [] = l.
Proof. unfold rows_diff. cbn. induction l; cbn; auto. now f_equal. Qed.

Lemma filter_mem_self (l : list idx) : filter (fun i => mem i l) l = l.
Proof.
  assert (G : forall l0, (forall i, In i l0 -> In i l) -> filter (fun i => mem i l) l0 = l0).
  { induction l0 as [|j l0 IH]; intros H; cbn; auto. rewrite (proj2 (mem_spec j l)) by (apply H; cbn; auto).
    f_equal. apply IH. intros i Hi. apply H. cbn; auto. }
  now apply G.
Qed.

Lemma filter_mem_diff (l1 l2 : list idx) : filter (fun i => mem i l2) (rows_diff l1 l2) = [].
Proof.
  unfold rows_diff. induction l1 as [|j l1 IH]; cbn; auto. destruct (mem j l2) eqn:E; cbn; auto. now rewrite E.
Qed.

(* where the code is right: both operands store the same subscripts in the same order *)
Theorem impl_div_asis_partial (alls : list idx) (A B : sparse V) :
  wf_sp isz A -> wf_sp isz B -> sshape B = sshape A -> sshape A <> [] -> ssubs B = ssubs A ->
  NoDup alls -> (forall i, In i alls <-> inb (sshape A) i = true) -> xnan = dv v0 v0 ->
  exists R, impl_div_asis v0 dv xnan xzero alls A B = Ok R /\ @wf_struct X R /\ sshape R = sshape A /\
            forall i, inb (sshape A) i = true -> den_sp x0 R i = dv (den A i) (den B i).
Proof.
  intros WA WB Hs Hne Hsub Hnd Hall Hnan.
  pose proof (wf_sp_struct isz A WA) as WsA. pose proof (wf_sp_struct isz B WB) as WsB.
  assert (HN : (0 < length (sshape A))%nat) by (destruct (sshape A); [contradiction|cbn; lia]).
  pose proof (width_subs A WsA) as WdA. pose proof WsA as (HLA & HnA & HbA).
  assert (Wall : width (length (sshape A)) alls) by (intros i Hi; apply Hall in Hi; now apply inb_length).
  set (Zs := rows_diff alls (ssubs A)).
  assert (WZ : width (length (sshape A)) Zs) by (now apply width_filter).
  assert (NZ : NoDup Zs) by (now apply NoDup_filter).
  set (f := fun i => dv (den A i) (den B i)).
  unfold impl_div_asis. rewrite Hsub.
  assert (E0 : (if nonempty (ssubs A) then gen_diff alls (ssubs A) else Ok alls) = Ok Zs).
  { destruct (nonempty_cases (ssubs A)) as [El|El]; rewrite El; [unfold Zs; now rewrite El, rows_diff_nil|].
    now apply (gen_diff_spec _ HN). }
  rewrite E0. cbn [bind].
  assert (E1 : (if nonempty (ssubs A) && nonempty (ssubs A) then
                  bind (tt_intersect_rows (zrows (ssubs A)) (zrows (ssubs A))) (fun idxSelf =>
                  bind (tt_intersect_rows (zrows (ssubs A)) (zrows (ssubs A))) (fun idxOther =>
                  Ok (np_take [] (ssubs A) idxSelf, zipw dv (np_take v0 (svals A) idxSelf) (np_take v0 (svals B) idxOther))))
                else Ok ([], [])) = Ok (ssubs A, map f (ssubs A))).
  { destruct (nonempty_cases (ssubs A)) as [El|El]; [rewrite El; reflexivity|rewrite El]. cbn [andb].
    rewrite (intersect_rows_idx _ HN (ssubs A) (ssubs A)) by auto. cbn [bind]. rewrite filter_mem_self. rewrite !take_pos. f_equal. f_equal.
    - transitivity (map (fun i : idx => i) (ssubs A)); [|apply map_id]. apply map_ext_in. intros i Hi. now apply pos_spec.
    - rewrite (map_ext_in _ (fun i => den A i)) by (intros i Hi; now apply (nth_pos_vals v0)).
      rewrite (map_ext_in (fun i => nth (pos i (ssubs A)) (svals B) v0) (fun i => den B i)).
      + apply zipw_map.
      + intros i Hi. rewrite <- Hsub in *. now apply (nth_pos_vals v0). }
  rewrite E1. cbn [bind].
  assert (E2 : forall (acc : list idx * list X) (src : list idx) (fill : X),
            (if nonempty (ssubs A) then bind (tt_intersect_rows (zrows (ssubs A)) (zrows Zs)) (fun moresubs => more_rows acc src moresubs fill)
             else Ok acc) = Ok acc).
  { intros acc src fill. destruct (nonempty_cases (ssubs A)) as [El|El]; [rewrite El; reflexivity|rewrite El].
    rewrite (intersect_rows_idx _ HN (ssubs A) Zs) by auto. cbn [bind]. unfold Zs. now rewrite filter_mem_diff. }
  rewrite E2. cbn [bind]. rewrite E2. cbn [bind].
  rewrite (intersect_rows_idx _ HN Zs Zs) by auto. cbn [bind]. rewrite filter_mem_self.
  assert (E3 : more_rows (ssubs A, map f (ssubs A)) Zs (map (fun i => Z.of_nat (pos i Zs)) Zs) xnan =
               Ok (ssubs A ++ Zs, map f (ssubs A) ++ map (fun _ => xnan) Zs)).
  { unfold more_rows. destruct (nonempty_cases Zs) as [EZ|EZ].
    - rewrite EZ. cbn [map nonempty fst snd]. now rewrite !app_nil_r.
    - assert (EZ' : nonempty (map (fun i => Z.of_nat (pos i Zs)) Zs) = true) by (destruct Zs; [discriminate|reflexivity]).
      rewrite EZ'. unfold take_chk.
      match goal with |- context [forallb ?p ?l] => assert (Hchk : forallb p l = true) end.
      { apply forallb_forall. intros k Hk. apply in_map_iff in Hk as (i & <- & Hi). destruct (pos_spec i Zs Hi) as [Hp _].
        unfold zlen. unfold idx in *. apply andb_true_iff. split; [apply Z.leb_le|apply Z.ltb_lt]; lia. }
      rewrite Hchk. cbn [bind fst snd]. rewrite take_pos, map_map. f_equal. f_equal. f_equal.
      transitivity (map (fun i : idx => i) Zs); [|apply map_id]. apply map_ext_in. intros i Hi. now apply pos_spec. }
  rewrite E3. cbn [bind fst snd]. eexists. split; [reflexivity|]. split; [|split; [reflexivity|]].
  - unfold wf_struct. cbn [ssubs svals sshape]. rewrite !app_length, !map_length. split; [lia|]. split.
    + apply NoDup_app_intro; auto. intros i H1 H2. apply filter_In in H2 as [_ H2]. apply negb_true_iff, mem_false in H2. contradiction.
    + apply Forall_app. split; auto. rewrite Forall_forall. intros i Hi. apply filter_In in Hi as [Hi _]. now apply Hall.
  - intros i Hi. unfold den_sp at 1, entries at 1. cbn [ssubs svals].
    rewrite combine_app by (now rewrite map_length). rewrite last_match_app.
    destruct (in_dec idx_dec i (ssubs A)) as [Hin|Hout].
    + rewrite (last_match_notin i (combine Zs _)).
      * apply last_match_in; [rewrite map_fst_combine; auto; now rewrite map_length|].
        assert (G : forall l0, In i l0 -> In (i, f i) (combine l0 (map f l0))).
        { induction l0 as [|j l0 IH]; cbn; [tauto|]. intros [->|H]; auto. }
        now apply G.
      * intros e He Hf. destruct e as [j w]. cbn in Hf. subst j. apply in_combine_l in He.
        apply filter_In in He as [_ He]. apply negb_true_iff, mem_false in He. contradiction.
    + rewrite (last_match_notin i (combine (ssubs A) _)).
      * rewrite (den_sp_notin v0 A i Hout). rewrite (den_sp_notin v0 B i) by (now rewrite Hsub). rewrite <- Hnan.
        apply last_match_in; [rewrite map_fst_combine; auto; now rewrite map_length|].
        assert (G : forall l0, In i l0 -> In (i, xnan) (combine l0 (map (fun _ : idx => xnan) l0))).
        { induction l0 as [|j l0 IH]; cbn; [tauto|]. intros [->|H]; auto. }
        apply G. apply filter_In. split; [now apply Hall|]. now apply negb_true_iff, mem_false.
      * intros e He Hf. destruct e as [j w]. cbn in Hf. subst j. apply in_combine_l in He. contradiction.
Qed.
End DivPartial.
