(* Props/C06.v — sparse results are well-formed and independent of the stored order of the nonzeros.
   Only statements, `exact`, Print Assumptions.  V: any value type with decidable zero; operands: arbitrary
   well-formed coordinate lists; "stored order" = any Permutation of the entry list. *)
From Coq Require Import List Arith Bool ZArith Permutation Ring.
From PV Require Import Base.Index Base.Perm Np.NpZ Np.Array Model.Sparse Model.Repr Model.Harness Model.C03Ops Model.C03Gen Model.C06Ops
                       Model.C07Ops Model.C01Conv Model.C04Model Model.C06Stm
                       Model.C02Spec Model.C02Sparse Model.C02SpKernels Model.C02SpMore Model.C06Cont
                       Proofs.C03Lemmas Proofs.C03Proofs Proofs.C03GenProofs Proofs.C06Proofs Proofs.C06Other Proofs.C06Stm Proofs.C06Squash Proofs.C06Kernels
                       Proofs.C04Region Proofs.C06Set Proofs.C06Cont.
Import ListNotations.

Section C06.
Context {V : Type} (v0 : V) (isz : V -> bool).
Hypothesis isz_spec : forall v, isz v = true <-> v = v0.
Notation den := (den_sp v0).
Notation wf := (wf_sp isz).
Notation canon := (canon v0 isz).

(* two well-formed coordinate lists that denote the same array store the same entries, in some order *)
Theorem C06_canon_unique : forall X Y : sparse V, wf X -> wf Y ->
  (forall i, den X i = den Y i) -> Permutation (entries X) (entries Y).
Proof. exact (canon_unique v0 isz isz_spec). Qed.

(* re-ordering the stored entries does not change the array denoted *)
Theorem C06_den_perm : forall X Y : sparse V, wf_struct X -> Permutation (entries X) (entries Y) ->
  forall i, den X i = den Y i.
Proof. exact (den_perm v0). Qed.

(* canonical form: well-formed, same array, a re-ordering of the stored entries, and equal for equal arrays *)
Theorem C06_canon : forall S : sparse V, wf S ->
  wf (canon S) /\ (forall i, den (canon S) i = den S i) /\ Permutation (entries S) (entries (canon S)).
Proof.
  intros S W. exact (conj (canon_wf v0 isz S) (conj (fun i => canon_den v0 isz isz_spec S i W) (canon_perm v0 isz isz_spec S W))).
Qed.

Theorem C06_canon_eq : forall X Y : sparse V, wf X -> wf Y -> sshape X = sshape Y ->
  Permutation (entries X) (entries Y) -> canon X = canon Y.
Proof. exact (canon_of_perm v0 isz). Qed.

(* any binary / unary operation that computes an element-wise function of the denotations returns the same result
   (same canonical form, entries equal up to order) whatever the stored order of its operands *)
Theorem C06_order_indep_binary : forall (op : sparse V -> sparse V -> sparse V) (f : V -> V -> V),
  (forall A B, wf A -> wf B -> sshape B = sshape A ->
     wf (op A B) /\ sshape (op A B) = sshape A /\
     forall i, inb (sshape A) i = true -> den (op A B) i = f (den A i) (den B i)) ->
  forall A A' B B', wf A -> wf A' -> wf B -> wf B' ->
    sshape A' = sshape A -> sshape B = sshape A -> sshape B' = sshape A ->
    Permutation (entries A) (entries A') -> Permutation (entries B) (entries B') ->
    canon (op A B) = canon (op A' B') /\ Permutation (entries (op A B)) (entries (op A' B')).
Proof. exact (order_indep2 v0 isz isz_spec). Qed.

Theorem C06_order_indep_unary : forall (op : sparse V -> sparse V) (g : V -> V),
  (forall A, wf A -> wf (op A) /\ sshape (op A) = sshape A /\
     forall i, inb (sshape A) i = true -> den (op A) i = g (den A i)) ->
  forall A A', wf A -> wf A' -> sshape A' = sshape A -> Permutation (entries A) (entries A') ->
    canon (op A) = canon (op A') /\ Permutation (entries (op A)) (entries (op A')).
Proof. exact (order_indep1 v0 isz isz_spec). Qed.

(* ---- sparse-returning operations proved correct under other properties (C07 permute/reshape/squeeze, C01 to_sptenmat /
        to_sptensor, C04 every __setitem__/__getitem__ path): results well-formed, same result for every stored order ---- *)
Theorem C06_ops_permute : forall (S S' : sparse V) p, wf S -> wf S' -> sshape S' = sshape S ->
  Permutation (entries S) (entries S') -> is_perm p (length (sshape S)) ->
  exists R R', permute_sp S p = Some R /\ permute_sp S' p = Some R' /\ same_result v0 isz R R'.
Proof. exact (indep_permute v0 isz isz_spec). Qed.

Theorem C06_ops_reshape : forall (S S' : sparse V) s', wf S -> wf S' -> sshape S' = sshape S ->
  Permutation (entries S) (entries S') -> size s' = size (sshape S) ->
  exists R R', reshape_sp_all S s' = Some R /\ reshape_sp_all S' s' = Some R' /\ same_result v0 isz R R'.
Proof. exact (indep_reshape v0 isz isz_spec). Qed.

Theorem C06_ops_reshape_modes : forall (S S' : sparse V) s' old, wf S -> wf S' -> sshape S' = sshape S ->
  Permutation (entries S) (entries S') ->
  Forall (fun k => k < length (sshape S)) old -> size s' = size (pick 0 old (sshape S)) ->
  exists R R', reshape_sp S s' old = Some R /\ reshape_sp S' s' old = Some R' /\ same_result v0 isz R R'.
Proof. exact (indep_reshape_modes v0 isz). Qed.

Theorem C06_ops_squeeze : forall (S S' : sparse V), wf S -> wf S' -> sshape S' = sshape S ->
  Permutation (entries S) (entries S') ->
  match squeeze_sp v0 S, squeeze_sp v0 S' with
  | SqT R, SqT R' => same_result v0 isz R R'
  | SqScalar v, SqScalar v' => v = v'
  | _, _ => False
  end.
Proof. exact (indep_squeeze v0 isz isz_spec). Qed.

Theorem C06_ops_sptenmat : forall (S S' : sparse V) r c, wf S -> wf S' -> sshape S' = sshape S ->
  Permutation (entries S) (entries S') -> is_perm (r ++ c) (length (sshape S)) ->
  exists M M', to_sptenmat S r c = Some M /\ to_sptenmat S' r c = Some M' /\
    wf (stm_sp M) /\ wf (stm_sp M') /\ length (stm_subs M) = nnz S /\
    (forall i, inb (sshape S) i = true -> den_sptenmat v0 M i = den_sptenmat v0 M' i) /\
    sptenmat_to_sptensor M = S /\ sptenmat_to_sptensor M' = S'.
Proof. exact (indep_to_sptenmat v0 isz). Qed.

Theorem C06_ops_setitem : forall (S S' : sparse V) (o : op V) S1 out S1' out', wf S -> wf S' -> sshape S' = sshape S ->
  Permutation (entries S) (entries S') ->
  step_sparse v0 isz S o = Some (S1, out) -> step_sparse v0 isz S' o = Some (S1', out') ->
  same_result v0 isz S1 S1' /\ out = out'.
Proof. exact (indep_step v0 isz isz_spec). Qed.

(* wave 3b — the TOTAL form (corollary of C04_refine_sparse_total / C04_sparse_region_admissible, which carry no hypothesis on the key any
   more): on every operation sptensor offers (all reads; writes by subscript array; writes by region — index lists may REPEAT an index,
   the right-hand side may be a scalar, zero or the values of a sparse / dense tensor, extent and order may GROW), whenever the
   specification accepts the request on the denoted array, the sparse model performs it for EVERY stored order of the receiver, both
   new states are well-formed, equal up to stored order and denote the specified array, and the outputs agree *)
Theorem C06_ops_setitem_total : forall (S S' : sparse V) (o : op V) a' out, wf S -> wf S' -> sshape S' = sshape S ->
  Permutation (entries S) (entries S') -> sparse_op_ok o ->
  spec_step v0 (abs_sp v0 S) o = Some (a', out) ->
  exists S1 S1', step_sparse v0 isz S o = Some (S1, out) /\ step_sparse v0 isz S' o = Some (S1', out) /\
                 same_result v0 isz S1 S1' /\ eq_amap (abs_sp v0 S1) a' /\ eq_amap (abs_sp v0 S1') a'.
Proof. exact (indep_step_total v0 isz isz_spec). Qed.

Theorem C06_ops_region_set : forall (S S' : sparse V) es (r : rhs V) s' asg, wf S -> wf S' -> sshape S' = sshape S ->
  Permutation (entries S) (entries S') ->
  resolve_set cartF (sshape S) (KRegion es) r = Some (s', asg) ->
  exists S1 S1', step_sparse v0 isz S (OSet (KRegion es) r) = Some (S1, ([], [])) /\
                 step_sparse v0 isz S' (OSet (KRegion es) r) = Some (S1', ([], [])) /\
                 same_result v0 isz S1 S1' /\ sshape S1 = s'.
Proof. exact (indep_region_set v0 isz isz_spec). Qed.

(* same_result, spelled out *)
Theorem C06_same_result_def : forall R R' : sparse V,
  same_result v0 isz R R' <-> (wf R /\ wf R' /\ canon R = canon R' /\ Permutation (entries R) (entries R')).
Proof. exact (fun R R' => iff_refl _). Qed.

(* sptenmat.__setitem__ (transliteration impl_stm_setitem of pyttb/sptenmat.py on the 2-way coordinate list behind the sptenmat;
   t = the (subscript, value) targets in pyttb's loop order, pairwise distinct, values may be zero): the result is well-formed
   (no explicit zero also when a zero lands on a stored entry and nothing is appended), keeps the shape, denotes the assigned
   array, and is the same for every stored order of the receiver *)
Theorem C06_stm_setitem : forall (S : sparse V) (t : list (idx * V)), wf S ->
  NoDup (map fst t) -> Forall (fun j => inb (sshape S) j = true) (map fst t) ->
  let R := impl_stm_setitem isz S t in
  wf R /\ sshape R = sshape S /\ forall i, den R i = assign_den (den S) t i.
Proof. exact (impl_stm_setitem_correct v0 isz isz_spec). Qed.

Theorem C06_ops_stm_setitem : forall (S S' : sparse V) (t : list (idx * V)), wf S -> wf S' -> sshape S' = sshape S ->
  Permutation (entries S) (entries S') ->
  NoDup (map fst t) -> Forall (fun j => inb (sshape S) j = true) (map fst t) ->
  same_result v0 isz (impl_stm_setitem isz S t) (impl_stm_setitem isz S' t).
Proof. exact (indep_stm_setitem v0 isz isz_spec). Qed.

(* squash ("remove empty slices": every mode renumbered by the rank of each index among the distinct indices used in that mode):
   well-formed, same stored values, extent of mode n = number of distinct indices used in mode n, and the same result for
   every stored order.  (pyttb's squash gives every mode the extent nnz instead — open finding A-27; subscripts and values of
   pyttb's result are compared with this model in the correspondence.) *)
Theorem C06_squash : forall S : sparse V, wf S ->
  wf (squash S) /\ nnz (squash S) = nnz S /\ svals (squash S) = svals S /\
  sshape (squash S) = map (fun n => length (uniq_nat (column n (ssubs S)))) (seq 0 (length (sshape S))).
Proof. exact (squash_wf isz). Qed.

Theorem C06_ops_squash : forall S S' : sparse V, wf S -> wf S' -> sshape S' = sshape S ->
  Permutation (entries S) (entries S') -> same_result v0 isz (squash S) (squash S').
Proof. exact (indep_squash v0 isz). Qed.

(* instances: the modelled operators (result well-formed + same result for every stored order of each operand) *)
Variables (one : V) (vadd vmul : V -> V -> V) (vopp : V -> V).
Hypothesis one_nz : one <> v0.
Hypothesis vadd_0_l : forall x, vadd v0 x = x.
Hypothesis vadd_0_r : forall x, vadd x v0 = x.
Hypothesis vopp_nz : forall v, v <> v0 -> vopp v <> v0.
Hypothesis vopp_0 : vopp v0 = v0.
Hypothesis vmul_0_l : forall x, vmul v0 x = v0.
Hypothesis vmul_0_r : forall x, vmul x v0 = v0.

Theorem C06_ops_binary :
  indep2 v0 isz (impl_add v0 isz vadd) /\ indep2 v0 isz (impl_sub v0 isz vadd vopp) /\ indep2 v0 isz (impl_mul v0 isz vmul) /\
  indep2 v0 isz (impl_and v0 isz one) /\ indep2 v0 isz (impl_or v0 isz one) /\ indep2 v0 isz (impl_xor v0 isz one) /\
  forall cmp, indep2 v0 isz (impl_cmp v0 one cmp).
Proof.
  exact (conj (indep_add v0 isz isz_spec vadd vadd_0_l vadd_0_r)
        (conj (indep_sub v0 isz isz_spec vadd vopp vadd_0_l vadd_0_r vopp_nz vopp_0)
        (conj (indep_mul v0 isz isz_spec vmul vmul_0_l vmul_0_r)
        (conj (indep_and v0 isz isz_spec one) (conj (indep_or v0 isz isz_spec one) (conj (indep_xor v0 isz isz_spec one)
              (indep_cmp v0 isz isz_spec one one_nz))))))).
Qed.

Theorem C06_ops_unary :
  indep1 v0 isz (impl_neg vopp) /\ indep1 v0 isz (impl_not one) /\ indep1 v0 isz (impl_ones one) /\
  (forall g, indep1 v0 isz (impl_elemfun isz g)) /\
  (forall c, indep1 v0 isz (fun A => impl_mul_scalar isz vmul A c)) /\
  (forall T, indep1 v0 isz (fun A => impl_mul_dense v0 isz vmul A T)) /\
  (forall cmp c, indep1 v0 isz (fun A => impl_cmp_scalar v0 one cmp A c)) /\
  (forall cmp T, indep1 v0 isz (fun A => impl_cmp_dense v0 one cmp A T)).
Proof.
  exact (conj (indep_neg v0 isz isz_spec vopp vopp_nz vopp_0)
        (conj (indep_not v0 isz isz_spec one one_nz) (conj (indep_ones v0 isz isz_spec one one_nz)
        (conj (indep_elemfun v0 isz isz_spec)
        (conj (indep_mul_scalar v0 isz isz_spec vmul vmul_0_l)
        (conj (indep_mul_dense v0 isz isz_spec vmul vmul_0_l)
        (conj (indep_cmp_scalar v0 isz isz_spec one one_nz) (indep_cmp_dense v0 isz isz_spec one one_nz)))))))).
Qed.

(* the repaired sparse*sparse, sparse==sparse and the sparse/sparse comparisons, transliterated over the row helpers
   GENERATED from pyttb_utils.py: for operands of order >= 1 they succeed, return well-formed tensors and the same result
   for every stored order of each operand (for *: in a value ring without zero divisors) *)
Theorem C06_ops_generated :
  ((forall x y, x <> v0 -> y <> v0 -> vmul x y <> v0) -> indep2_res v0 isz (@has_modes V) (impl_mul_gen v0 vmul)) /\
  (forall veqb, (forall a b, veqb a b = true <-> a = b) -> indep2_res v0 isz (@has_modes V) (impl_eq_gen v0 one veqb)) /\
  (forall cmp, indep2_res v0 isz (@has_modes V) (impl_cmp_gen v0 one cmp)).
Proof.
  exact (conj (indep_mul_gen v0 isz isz_spec vmul vmul_0_l vmul_0_r)
        (conj (indep_eq_gen v0 isz isz_spec one one_nz) (indep_cmp_gen v0 isz isz_spec one one_nz))).
Qed.
End C06.

(* ---- the multilinear kernels of a sparse tensor (models and denotational theorems: C02): values in any commutative ring with
        decidable zero.  `reordered isz S S'` = S and S' are well-formed, have the same shape and store the same entries in
        some order.  ttv / ttm / collapse / contract: the C02 models give the value of the result at a subscript, so the
        statement is "the same value (the defining sum over the denoted array) at every subscript for every stored order";
        scale returns a coordinate list and is also well-formed; mask returns the values in the order of the mask's rows. ---- *)
Section C06K.
Variable V : Type.
Variables (v0 v1 : V) (vadd vmul vsub : V -> V -> V) (vopp : V -> V).
Hypothesis Vring : ring_theory v0 v1 vadd vmul vsub vopp (@eq V).
Variable isz : V -> bool.
Hypothesis isz_spec : forall v, isz v = true <-> v = v0.
Notation den := (den_sp v0).
Notation wf := (wf_sp isz).
Notation reord := (reordered V isz).

Theorem C06_reordered_def : forall S S' : sparse V,
  reord S S' <-> (wf S /\ wf S' /\ sshape S' = sshape S /\ Permutation (entries S) (entries S')).
Proof. exact (fun S S' => iff_refl _). Qed.

Theorem C06_ops_ttv : forall (S S' : sparse V) dims vs i', reord S S' ->
  NoDup dims -> (forall x, In x dims -> x < length (sshape S)) -> length vs = length dims ->
  inb (ttv_shape (sshape S) dims) i' = true ->
  impl_ttv_sp v0 v1 vadd vmul S dims vs i' = impl_ttv_sp v0 v1 vadd vmul S' dims vs i' /\
  impl_ttv_sp v0 v1 vadd vmul S dims vs i' = spec_ttv v0 vadd vmul (den S) (sshape S) dims vs i'.
Proof. exact (indep_ttv V v0 v1 vadd vmul vsub vopp Vring isz). Qed.

Theorem C06_ops_ttm : forall (S S' : sparse V) n U tr i, reord S S' ->
  n < length (sshape S) -> length i = length (sshape S) ->
  inb (remove_at n (sshape S)) (remove_at n i) = true ->
  impl_ttm_sp v0 vadd vmul S n U tr i = impl_ttm_sp v0 vadd vmul S' n U tr i /\
  impl_ttm_sp v0 vadd vmul S n U tr i = spec_ttm v0 vadd vmul (den S) (sshape S) n U tr i.
Proof. exact (indep_ttm V v0 v1 vadd vmul vsub vopp Vring isz). Qed.

Theorem C06_ops_collapse : forall (S S' : sparse V) dims i', reord S S' ->
  NoDup dims -> (forall x, In x dims -> x < length (sshape S)) ->
  inb (ttv_shape (sshape S) dims) i' = true ->
  impl_collapse_sp v0 vadd S dims i' = impl_collapse_sp v0 vadd S' dims i' /\
  impl_collapse_sp v0 vadd S dims i' = spec_collapse v0 vadd (den S) (sshape S) dims i'.
Proof. exact (indep_collapse V v0 v1 vadd vmul vsub vopp Vring isz). Qed.

Theorem C06_ops_contract : forall (S S' : sparse V) i1 i2 i', reord S S' ->
  i1 <> i2 -> i1 < length (sshape S) -> i2 < length (sshape S) ->
  nth i1 (sshape S) 0 = nth i2 (sshape S) 0 ->
  inb (ttv_shape (sshape S) [i1; i2]) i' = true ->
  impl_contract_sp v0 vadd S i1 i2 i' = impl_contract_sp v0 vadd S' i1 i2 i' /\
  impl_contract_sp v0 vadd S i1 i2 i' = spec_contract v0 vadd (den S) (sshape S) i1 i2 i'.
Proof. exact (indep_contract V v0 v1 vadd vmul vsub vopp Vring isz). Qed.

Theorem C06_ops_scale : forall (S S' : sparse V) dims (g : idx -> V), reord S S' ->
  same_result v0 isz (impl_scale_sp vmul isz S dims g) (impl_scale_sp vmul isz S' dims g).
Proof. exact (indep_scale V v0 v1 vadd vmul vsub vopp Vring isz isz_spec). Qed.

Theorem C06_ops_mask : forall (S S' : sparse V) wsubs, reord S S' ->
  impl_mask_sp v0 S wsubs = impl_mask_sp v0 S' wsubs /\ impl_mask_sp v0 S wsubs = map (den S) wsubs.
Proof. exact (indep_mask V v0 isz). Qed.

Theorem C06_ops_innerprod :
  (forall (S S' : sparse V) (T : dense V), reord S S' ->
     impl_innerprod_sp_dense v0 vadd vmul S T = impl_innerprod_sp_dense v0 vadd vmul S' T) /\
  (forall A A' B B' : sparse V, reord A A' -> reord B B' -> sshape A = sshape B ->
     impl_innerprod_sp_sp v0 vadd vmul A B = impl_innerprod_sp_sp v0 vadd vmul A' B').
Proof.
  exact (conj (indep_innerprod_dense V v0 v1 vadd vmul vsub vopp Vring isz)
              (indep_innerprod_sparse V v0 v1 vadd vmul vsub vopp Vring isz)).
Qed.

Theorem C06_ops_normsq : forall S S' : sparse V, reord S S' ->
  impl_normsq_sp v0 vadd vmul S = impl_normsq_sp v0 vadd vmul S'.
Proof. exact (indep_normsq V v0 v1 vadd vmul vsub vopp Vring isz). Qed.

(* ---- wave 3b: the CONTAINERS pyttb returns for ttv / collapse / contract / ttm (Model/C06Cont.v: the projected subscripts and
        scaled values handed to from_aggregator / accumarray / np.sum, the empty-operand exits and the 50% sparse/dense switch).
        kwf r s': r is a well-formed sptensor of shape s' (one value per subscript, in bounds, pairwise distinct, NO explicit zero —
        also when contributions cancel exactly), or a well-formed dense array of shape s', or a number and s' = [];
        kden r: the array r denotes;  ksame r r': the same KIND of container and the same result (sptensors: same canonical form,
        entries equal up to order; dense / number: equal). ---- *)
Notation kwf := (kwf isz).
Notation kden := (kden v0).
Notation ksame := (ksame V v0 isz).

Theorem C06_ksame_def : forall r r' : @kres V,
  ksame r r' <-> match r, r' with
                 | KSp R, KSp R' => same_result v0 isz R R'
                 | KDen D, KDen D' => D = D'
                 | KNum x, KNum y => x = y
                 | _, _ => False
                 end.
Proof. exact (fun r r' => iff_refl _). Qed.

Theorem C06_cont_ttv : forall (S : sparse V) dims vs, wf S ->
  NoDup dims -> (forall x, In x dims -> x < length (sshape S)) -> length vs = length dims ->
  let r := cont_ttv v0 v1 vadd vmul isz S dims vs in
  kwf r (ttv_shape (sshape S) dims) /\
  forall i', inb (ttv_shape (sshape S) dims) i' = true -> kden r i' = spec_ttv v0 vadd vmul (den S) (sshape S) dims vs i'.
Proof. exact (cont_ttv_spec V v0 v1 vadd vmul vsub vopp Vring isz isz_spec). Qed.

Theorem C06_cont_ttv_indep : forall (S S' : sparse V) dims vs, reord S S' ->
  ksame (cont_ttv v0 v1 vadd vmul isz S dims vs) (cont_ttv v0 v1 vadd vmul isz S' dims vs).
Proof. exact (cont_ttv_indep V v0 v1 vadd vmul vsub vopp Vring isz isz_spec). Qed.

Theorem C06_cont_collapse : forall (S : sparse V) dims, wf S ->
  NoDup dims -> (forall x, In x dims -> x < length (sshape S)) ->
  let r := cont_collapse v0 vadd isz S dims in
  kwf r (ttv_shape (sshape S) dims) /\
  forall i', inb (ttv_shape (sshape S) dims) i' = true -> kden r i' = spec_collapse v0 vadd (den S) (sshape S) dims i'.
Proof. exact (cont_collapse_spec V v0 v1 vadd vmul vsub vopp Vring isz isz_spec). Qed.

Theorem C06_cont_collapse_indep : forall (S S' : sparse V) dims, reord S S' ->
  ksame (cont_collapse v0 vadd isz S dims) (cont_collapse v0 vadd isz S' dims).
Proof. exact (cont_collapse_indep V v0 v1 vadd vmul vsub vopp Vring isz isz_spec). Qed.

Theorem C06_cont_contract : forall (S : sparse V) i1 i2, wf S ->
  i1 <> i2 -> i1 < length (sshape S) -> i2 < length (sshape S) -> nth i1 (sshape S) 0 = nth i2 (sshape S) 0 ->
  let r := cont_contract v0 vadd isz S i1 i2 in
  kwf r (ttv_shape (sshape S) [i1; i2]) /\
  forall i', inb (ttv_shape (sshape S) [i1; i2]) i' = true -> kden r i' = spec_contract v0 vadd (den S) (sshape S) i1 i2 i'.
Proof. exact (cont_contract_spec V v0 v1 vadd vmul vsub vopp Vring isz isz_spec). Qed.

Theorem C06_cont_contract_indep : forall (S S' : sparse V) i1 i2, reord S S' ->
  ksame (cont_contract v0 vadd isz S i1 i2) (cont_contract v0 vadd isz S' i1 i2).
Proof. exact (cont_contract_indep V v0 v1 vadd vmul vsub vopp Vring isz isz_spec). Qed.

(* ttm, one mode n, J rows after orientation: the sptensor Ynt pyttb rebuilds from the product array (returned as it is for a scipy
   matrix when at most half full) is well-formed, has the shape with mode n replaced by J and holds the C02 value at every subscript;
   the tensor returned for a numpy matrix is its expansion; Ynt is literally the same for every stored order *)
Theorem C06_cont_ttm : forall (S : sparse V) n J U tr,
  let s' := ttm_shape (sshape S) n J in
  let Y := ttm_Ynt v0 vadd vmul isz S n J U tr in
  wf Y /\ sshape Y = s' /\ (forall i, inb s' i = true -> den Y i = impl_ttm_sp v0 vadd vmul S n U tr i) /\
  (kwf (cont_ttm_ndarray v0 vadd vmul isz S n J U tr) s' /\
   forall i, inb s' i = true -> kden (cont_ttm_ndarray v0 vadd vmul isz S n J U tr) i = impl_ttm_sp v0 vadd vmul S n U tr i).
Proof. exact (cont_ttm_correct V v0 vadd vmul isz isz_spec). Qed.

Theorem C06_cont_ttm_indep : forall (S S' : sparse V) n J U tr, reord S S' ->
  ttm_Ynt v0 vadd vmul isz S n J U tr = ttm_Ynt v0 vadd vmul isz S' n J U tr.
Proof. exact (cont_ttm_indep V v0 v1 vadd vmul vsub vopp Vring isz). Qed.

(* extract(searchsubs): one value per requested row (rows may repeat or be absent), the denoted array read at that row, the same
   list for every stored order *)
Theorem C06_ops_extract : forall (S S' : sparse V) q, reord S S' ->
  impl_extract v0 S q = map (den S) q /\ length (impl_extract v0 S q) = length q /\ impl_extract v0 S q = impl_extract v0 S' q.
Proof. exact (extract_correct V v0 isz). Qed.
End C06K.

Print Assumptions C06_ops_setitem_total.
Print Assumptions C06_ops_region_set.
Print Assumptions C06_same_result_def.
Print Assumptions C06_ksame_def.
Print Assumptions C06_cont_ttv.
Print Assumptions C06_cont_ttv_indep.
Print Assumptions C06_cont_collapse.
Print Assumptions C06_cont_collapse_indep.
Print Assumptions C06_cont_contract.
Print Assumptions C06_cont_contract_indep.
Print Assumptions C06_cont_ttm.
Print Assumptions C06_cont_ttm_indep.
Print Assumptions C06_ops_extract.
Print Assumptions C06_ops_reshape_modes.
Print Assumptions C06_squash.
Print Assumptions C06_ops_squash.
Print Assumptions C06_stm_setitem.
Print Assumptions C06_ops_stm_setitem.
Print Assumptions C06_reordered_def.
Print Assumptions C06_ops_ttv.
Print Assumptions C06_ops_ttm.
Print Assumptions C06_ops_collapse.
Print Assumptions C06_ops_contract.
Print Assumptions C06_ops_scale.
Print Assumptions C06_ops_mask.
Print Assumptions C06_ops_innerprod.
Print Assumptions C06_ops_normsq.
Print Assumptions C06_canon_unique.
Print Assumptions C06_den_perm.
Print Assumptions C06_canon.
Print Assumptions C06_canon_eq.
Print Assumptions C06_order_indep_binary.
Print Assumptions C06_order_indep_unary.
Print Assumptions C06_ops_binary.
Print Assumptions C06_ops_unary.
Print Assumptions C06_ops_generated.
Print Assumptions C06_ops_permute.
Print Assumptions C06_ops_reshape.
Print Assumptions C06_ops_squeeze.
Print Assumptions C06_ops_sptenmat.
Print Assumptions C06_ops_setitem.

(* non-vacuity: the same 2x3 tensor stored in two orders; + and the comparison <= give the same canonical result *)
Local Open Scope Z_scope.
Definition c6A : sparse Z := mkSp [2; 3]%nat [[1; 2]; [0; 1]; [1; 0]]%nat [9; -7; 5].
Definition c6A' : sparse Z := mkSp [2; 3]%nat [[1; 0]; [1; 2]; [0; 1]]%nat [5; 9; -7].
Definition c6B : sparse Z := mkSp [2; 3]%nat [[1; 0]; [0; 0]; [1; 2]]%nat [5; 4; -2].
Example C06_example :
  wf_spb zisz c6A = true /\ wf_spb zisz c6A' = true /\
  canon 0 zisz c6A = mkSp [2; 3]%nat [[1; 0]; [0; 1]; [1; 2]]%nat [5; -7; 9] /\
  canon 0 zisz c6A = canon 0 zisz c6A' /\
  canon 0 zisz (impl_add 0 zisz Z.add c6A c6B) = canon 0 zisz (impl_add 0 zisz Z.add c6A' c6B) /\
  canon 0 zisz (impl_cmp 0 1 Z.leb c6A c6B) = canon 0 zisz (impl_cmp 0 1 Z.leb c6A' c6B) /\
  squash c6B = mkSp [2; 2]%nat [[1; 0]; [0; 0]; [1; 1]]%nat [5; 4; -2].
Proof. repeat split; reflexivity. Qed.

(* sptenmat.__setitem__: a zero written onto the stored entry [1;2] (nothing appended) removes it; a mixed call (zero onto
   stored [0;1], 8 onto absent [0;0]) appends, sorts by (row, column) and drops the zero; both stored orders agree *)
Definition c6M : sparse Z := mkSp [2; 3]%nat [[1; 2]; [0; 1]; [1; 0]]%nat [9; -7; 5].
Definition c6M' : sparse Z := mkSp [2; 3]%nat [[1; 0]; [1; 2]; [0; 1]]%nat [5; 9; -7].
Example C06_stm_example :
  impl_stm_setitem zisz c6M [([1; 2]%nat, 0)] = mkSp [2; 3]%nat [[0; 1]; [1; 0]]%nat [-7; 5] /\
  impl_stm_setitem zisz c6M [([0; 1]%nat, 0); ([0; 0]%nat, 8)] = mkSp [2; 3]%nat [[0; 0]; [1; 0]; [1; 2]]%nat [8; 5; 9] /\
  canon 0 zisz (impl_stm_setitem zisz c6M [([1; 2]%nat, 0)]) = canon 0 zisz (impl_stm_setitem zisz c6M' [([1; 2]%nat, 0)]).
Proof. repeat split; reflexivity. Qed.

(* kernels: ttv in mode 1 with the vector (1, 2, 3) and scale by a factor that vanishes at a stored position, both stored orders *)
Example C06_kernel_example :
  map (impl_ttv_sp 0 1 Z.add Z.mul c6A [1%nat] [[1; 2; 3]]) [[0%nat]; [1%nat]] = [-14; 32] /\
  map (impl_ttv_sp 0 1 Z.add Z.mul c6A' [1%nat] [[1; 2; 3]]) [[0%nat]; [1%nat]] = [-14; 32] /\
  canon 0 zisz (impl_scale_sp Z.mul zisz c6A [1%nat] (fun j => nth (nth 0 j 0%nat) [2; 0; 3] 0)) =
    mkSp [2; 3]%nat [[1; 0]; [1; 2]]%nat [10; 27] /\
  canon 0 zisz (impl_scale_sp Z.mul zisz c6A' [1%nat] (fun j => nth (nth 0 j 0%nat) [2; 0; 3] 0)) =
    mkSp [2; 3]%nat [[1; 0]; [1; 2]]%nat [10; 27].
Proof. repeat split; reflexivity. Qed.

(* containers (wave 3b): a 2x2x3 tensor in two stored orders.  ttv in mode 2 with (1,2,3): the contributions 1*3 and -3*1 to
   [1;0] cancel exactly and nothing is stored there (sparse container, 2 of 4); with (1,2,5) three of four positions are nonzero
   and the container is dense; over modes 1,2 one mode is left (accumarray vector, dense); over all modes a number;
   collapse over mode 2 is always sparse; contract(0,1) sums the diagonal entry; ttm with the 1x3 matrix; extract with a repeated
   and an absent row *)
Definition c6T : sparse Z := mkSp [2; 2; 3]%nat [[1; 0; 2]; [0; 1; 1]; [1; 0; 0]; [1; 1; 0]]%nat [1; -7; -3; 4].
Definition c6T' : sparse Z := mkSp [2; 2; 3]%nat [[1; 1; 0]; [1; 0; 0]; [1; 0; 2]; [0; 1; 1]]%nat [4; -3; 1; -7].
Example C06_cont_example :
  cont_ttv 0 1 Z.add Z.mul zisz c6T [2%nat] [[1; 2; 3]] = KSp (mkSp [2; 2]%nat [[0; 1]; [1; 1]]%nat [-14; 4]) /\
  cont_ttv 0 1 Z.add Z.mul zisz c6T' [2%nat] [[1; 2; 3]] = KSp (mkSp [2; 2]%nat [[0; 1]; [1; 1]]%nat [-14; 4]) /\
  cont_ttv 0 1 Z.add Z.mul zisz c6T [2%nat] [[1; 2; 5]] = KDen (mkDense [2; 2]%nat [0; 2; -14; 4]) /\
  cont_ttv 0 1 Z.add Z.mul zisz c6T [1%nat; 2%nat] [[1; 1]; [1; 2; 3]] = KDen (mkDense [2]%nat [-14; 4]) /\
  cont_ttv 0 1 Z.add Z.mul zisz c6T [0%nat; 1%nat; 2%nat] [[1; 1]; [1; 1]; [1; 2; 3]] = KNum (-10) /\
  cont_collapse 0 Z.add zisz c6T [2%nat] = KSp (mkSp [2; 2]%nat [[0; 1]; [1; 0]; [1; 1]]%nat [-7; -2; 4]) /\
  cont_collapse 0 Z.add zisz c6T [0%nat; 2%nat] = KDen (mkDense [2]%nat [-2; -3]) /\
  cont_contract 0 Z.add zisz c6T 0%nat 1%nat = KSp (mkSp [3]%nat [[0]]%nat [4]) /\
  cont_contract 0 Z.add zisz c6T' 0%nat 1%nat = KSp (mkSp [3]%nat [[0]]%nat [4]) /\
  ttm_Ynt 0 Z.add Z.mul zisz c6T 2 1 [[1; 2; 3]] false = mkSp [2; 2; 1]%nat [[0; 1; 0]; [1; 1; 0]]%nat [-14; 4] /\
  impl_extract 0 c6T [[1; 0; 0]; [0; 0; 0]; [1; 0; 0]]%nat = [-3; 0; -3].
Proof. repeat split; reflexivity. Qed.
