(* Proofs/W4SCpAlsPre.v — the PROLOGUE of pyttb/cp_als.py::cp_als as generated (Gen/GenCpAlsPre.v: N, normX, dimorder / optdims
   defaults and checks, `assert rank > 0`, dispatch on the initial guess: ktensor (checked), "random", "nvecs", anything else) against
   a hand reference; then the rejection / default / dispatch statements over the generated code.  The region ends where the region
   of Gen/GenCpAls.v (`U = init.copy().factor_matrices` ..) begins.  Everything numeric / every type test is an arbitrary kernel. *)
From Coq Require Import String List Arith Bool Lia.
From PV Require Import Model.W4SPrelude Gen.GenCpAlsPre.
Import ListNotations.
Local Open Scope nat_scope.

Section Pre.
Variables T_W T_F T_Mat T_Init T_X : Type.
Variable k_ndims : T_X -> nat.
Variable k_norm : T_X -> T_F.
Variable k_not_permutation : nat -> list nat -> bool.
Variable k_optdims_invalid : list nat -> nat -> bool.
Variable k_init_is_ktensor : T_Init -> bool.
Variable k_init_ndims : T_Init -> nat.
Variable k_init_ncomponents : T_Init -> nat.
Variable k_init_factor_misshaped : T_Init -> nat -> T_X -> nat -> bool.
Variable k_init_is_str : T_Init -> bool.
Variable k_init_names_random : T_Init -> bool.
Variable k_append_random_factor : T_W -> list T_Mat -> T_X -> nat -> nat -> T_W * list T_Mat.
Variable k_ktensor_of_factors : list T_Mat -> T_Init.
Variable k_init_names_nvecs : T_Init -> bool.
Variable k_is_sumtensor : T_X -> bool.
Variable k_nvecs : T_X -> nat -> nat -> T_Mat.

Notation gpre := (GenCpAlsPre.cp_als_prologue T_W T_F T_Mat T_Init T_X k_ndims k_norm k_not_permutation k_optdims_invalid k_init_is_ktensor
  k_init_ndims k_init_ncomponents k_init_factor_misshaped k_init_is_str k_init_names_random k_append_random_factor k_ktensor_of_factors
  k_init_names_nvecs k_is_sumtensor k_nvecs).
Notation gl1 := (GenCpAlsPre.cp_als_prologue_loop1 T_Init T_X k_init_factor_misshaped).
Notation gl2 := (GenCpAlsPre.cp_als_prologue_loop2 T_W T_Mat T_X k_append_random_factor).
Notation gl3 := (GenCpAlsPre.cp_als_prologue_loop3 T_Mat T_X k_nvecs).

(* ---- hand reference ---- *)
Definition h_shapes_ok (init : T_Init) (X : T_X) (rank : nat) (order : list nat) : bool :=
  forallb (fun n => negb (k_init_factor_misshaped init n X rank)) order.
Fixpoint h_random (w : T_W) (fm : list T_Mat) (X : T_X) (rank fuel i : nat) : T_W * list T_Mat :=
  match fuel with
  | O => (w, fm)
  | S fuel' => let '(w', fm') := k_append_random_factor w fm X i rank in h_random w' fm' X rank fuel' (S i)
  end.
Definition h_nvecs (X : T_X) (rank i fuel : nat) : list T_Mat := map (fun n => k_nvecs X n rank) (seq i fuel).

Definition h_dispatch (w : T_W) (X : T_X) (rank N : nat) (order : list nat) (init : T_Init) : option (T_Init * T_W) :=
  if k_init_is_ktensor init then
    if (k_init_ndims init =? N) && (k_init_ncomponents init =? rank) && h_shapes_ok init X rank order then Some (init, w) else None
  else if k_init_is_str init && k_init_names_random init then
    let '(w', fm) := h_random w [] X rank N 0 in Some (k_ktensor_of_factors fm, w')
  else if k_init_is_str init && k_init_names_nvecs init then
    if k_is_sumtensor X then None else Some (k_ktensor_of_factors (h_nvecs X rank 0 N), w)
  else None.
Definition h_optdims (N : nat) (optdims : option (list nat)) : option (list nat) :=
  match optdims with None => Some (seq 0 N) | Some od => if k_optdims_invalid od N then None else Some od end.
Definition h_prologue (w : T_W) (X : T_X) (rank : nat) (dimorder optdims : option (list nat)) (init : T_Init) :=
  let N := k_ndims X in
  let o := match dimorder with None => seq 0 N | Some o => o end in
  if k_not_permutation N o then None else
  match h_optdims N optdims with
  | None => None
  | Some od =>
    if 0 <? rank
    then match h_dispatch w X rank N o init with
         | None => None
         | Some (init', w') => Some (N, k_norm X, o, od, init', w')
         end
    else None
  end.

(* ---- the three loops ---- *)
Lemma loop1_spec init X rank : forall xs st,
  match gl1 init X rank xs st with None => h_shapes_ok init X rank xs = false | Some _ => h_shapes_ok init X rank xs = true end.
Proof.
  induction xs as [|n xs IH]; intros st; [reflexivity|].
  cbn [GenCpAlsPre.cp_als_prologue_loop1 h_shapes_ok forallb].
  destruct (k_init_factor_misshaped init n X rank); cbn [negb andb]; [reflexivity|]. apply IH.
Qed.
Lemma loop2_spec X rank : forall fuel i fm n w,
  exists n', gl2 X rank fuel i (fm, n, w) = Some (snd (h_random w fm X rank fuel i), n', fst (h_random w fm X rank fuel i)).
Proof.
  induction fuel as [|fuel IH]; intros i fm n w.
  - exists n. reflexivity.
  - cbn [GenCpAlsPre.cp_als_prologue_loop2 h_random].
    destruct (k_append_random_factor w fm X i rank) as [w' fm']. apply IH.
Qed.
Lemma loop3_spec X rank : forall fuel i fm n,
  exists n', gl3 X rank fuel i (fm, n) = Some (fm ++ h_nvecs X rank i fuel, n').
Proof.
  induction fuel as [|fuel IH]; intros i fm n.
  - exists n. unfold h_nvecs. cbn. now rewrite app_nil_r.
  - cbn [GenCpAlsPre.cp_als_prologue_loop3]. destruct (IH (S i) (fm ++ [k_nvecs X i rank]) (Some i)) as [n' E].
    exists n'. rewrite E. unfold h_nvecs. cbn [seq map]. now rewrite <- app_assoc.
Qed.

Theorem prologue_bridge w X rank stoptol maxiters dimorder optdims init printitn fixsigns :
  gpre w X rank stoptol maxiters dimorder optdims init printitn fixsigns = h_prologue w X rank dimorder optdims init.
Proof.
  unfold GenCpAlsPre.cp_als_prologue, h_prologue, h_optdims.
  set (N := k_ndims X). set (o := match dimorder with None => seq 0 N | Some o => o end).
  destruct (k_not_permutation N o); [reflexivity|].
  assert (Eod : (match optdims with
                 | None => Some (seq 0 N)
                 | Some od => match (if k_optdims_invalid od N then None else Some tt) with None => None | Some _ => Some od end
                 end) = match optdims with None => Some (seq 0 N) | Some od => if k_optdims_invalid od N then None else Some od end).
  { destruct optdims as [od|]; [|reflexivity]. destruct (k_optdims_invalid od N); reflexivity. }
  rewrite Eod. clear Eod.
  destruct (match optdims with None => Some (seq 0 N) | Some od => if k_optdims_invalid od N then None else Some od end) as [od|]; [|reflexivity].
  destruct (0 <? rank); [|reflexivity].
  unfold h_dispatch.
  destruct (k_init_is_ktensor init).
  - destruct (k_init_ndims init =? N); [|reflexivity]. destruct (k_init_ncomponents init =? rank); [|reflexivity]. cbn [andb].
    pose proof (loop1_spec init X rank o (@None nat)) as L. destruct (gl1 init X rank o None); rewrite L; reflexivity.
  - destruct (k_init_is_str init && k_init_names_random init).
    + destruct (loop2_spec X rank N 0 [] (@None nat) w) as [n' E]. rewrite E.
      destruct (h_random w [] X rank N 0) as [w' fm]. reflexivity.
    + destruct (k_init_is_str init && k_init_names_nvecs init); [|reflexivity].
      destruct (k_is_sumtensor X); cbn [negb]; [reflexivity|].
      destruct (loop3_spec X rank N 0 [] (@None nat)) as [n' E]. rewrite E. reflexivity.
Qed.

(* ---- statements over the generated prologue ---- *)
(* rejected calls *)
Theorem prologue_rejects w X stoptol maxiters dimorder optdims init printitn fixsigns rank :
  (rank = 0 -> gpre w X rank stoptol maxiters dimorder optdims init printitn fixsigns = None) /\
  (forall o, k_not_permutation (k_ndims X) o = true -> gpre w X rank stoptol maxiters (Some o) optdims init printitn fixsigns = None) /\
  (forall od, k_optdims_invalid od (k_ndims X) = true -> gpre w X rank stoptol maxiters dimorder (Some od) init printitn fixsigns = None) /\
  (k_init_is_ktensor init = false -> k_init_is_str init = false -> gpre w X rank stoptol maxiters dimorder optdims init printitn fixsigns = None) /\
  (k_init_is_ktensor init = false -> k_init_names_random init = false -> k_init_names_nvecs init = false ->
   gpre w X rank stoptol maxiters dimorder optdims init printitn fixsigns = None) /\
  (k_init_is_ktensor init = false -> k_init_names_random init = false -> k_is_sumtensor X = true ->
   gpre w X rank stoptol maxiters dimorder optdims init printitn fixsigns = None) /\
  (k_init_is_ktensor init = true ->
   k_init_ndims init <> k_ndims X \/ k_init_ncomponents init <> rank ->
   gpre w X rank stoptol maxiters dimorder optdims init printitn fixsigns = None).
Proof.
  repeat split.
  - intros ->. rewrite prologue_bridge. unfold h_prologue. destruct (k_not_permutation _ _); [reflexivity|].
    destruct (h_optdims _ _); reflexivity.
  - intros o Ho. rewrite prologue_bridge. unfold h_prologue. now rewrite Ho.
  - intros od Ho. rewrite prologue_bridge. unfold h_prologue, h_optdims. rewrite Ho. destruct (k_not_permutation _ _); reflexivity.
  - intros H1 H2. rewrite prologue_bridge. unfold h_prologue, h_dispatch. rewrite H1, H2. cbn [andb].
    destruct (k_not_permutation _ _); [reflexivity|]. destruct (h_optdims _ _); [|reflexivity]. destruct (0 <? rank); reflexivity.
  - intros H1 H2 H3. rewrite prologue_bridge. unfold h_prologue, h_dispatch. rewrite H1, H2, H3. rewrite !andb_false_r.
    destruct (k_not_permutation _ _); [reflexivity|]. destruct (h_optdims _ _); [|reflexivity]. destruct (0 <? rank); reflexivity.
  - intros H1 H2 H3. rewrite prologue_bridge. unfold h_prologue, h_dispatch. rewrite H1, H2, H3. rewrite andb_false_r.
    destruct (k_not_permutation _ _); [reflexivity|]. destruct (h_optdims _ _); [|reflexivity]. destruct (0 <? rank); [|reflexivity].
    destruct (k_init_is_str init && k_init_names_nvecs init); reflexivity.
  - intros H1 H2. rewrite prologue_bridge. unfold h_prologue, h_dispatch. rewrite H1.
    destruct (k_not_permutation _ _); [reflexivity|]. destruct (h_optdims _ _); [|reflexivity]. destruct (0 <? rank); [|reflexivity].
    destruct H2 as [H2|H2]; apply Nat.eqb_neq in H2; rewrite H2; [reflexivity|]. now rewrite andb_false_r.
Qed.

(* what a successful prologue hands to the main part *)
Theorem prologue_result w X rank stoptol maxiters dimorder optdims init printitn fixsigns N normX o od init' w' :
  gpre w X rank stoptol maxiters dimorder optdims init printitn fixsigns = Some (N, normX, o, od, init', w') ->
  N = k_ndims X /\ normX = k_norm X /\ 0 < rank /\
  o = match dimorder with None => seq 0 N | Some o => o end /\ k_not_permutation N o = false /\
  od = match optdims with None => seq 0 N | Some od => od end /\
  (* a ktensor guess is handed over as it is, checked, and no random number is drawn *)
  (k_init_is_ktensor init = true ->
   init' = init /\ w' = w /\ k_init_ndims init = N /\ k_init_ncomponents init = rank /\
   forall n, In n o -> k_init_factor_misshaped init n X rank = false) /\
  (* "nvecs": one nvecs call per mode 0 .. N-1, in order, no random number *)
  (k_init_is_ktensor init = false -> k_init_names_random init = false ->
   init' = k_ktensor_of_factors (map (fun n => k_nvecs X n rank) (seq 0 N)) /\ w' = w /\ k_is_sumtensor X = false) /\
  (* "random": N draws through the world, mode 0 first *)
  (k_init_is_ktensor init = false -> k_init_is_str init = true -> k_init_names_random init = true ->
   init' = k_ktensor_of_factors (snd (h_random w [] X rank N 0)) /\ w' = fst (h_random w [] X rank N 0)).
Proof.
  rewrite prologue_bridge. unfold h_prologue.
  destruct (k_not_permutation _ _) eqn:Ep; [discriminate|].
  destruct (h_optdims (k_ndims X) optdims) as [od0|] eqn:Eo; [|discriminate].
  destruct (0 <? rank) eqn:Er; [|discriminate]. apply Nat.ltb_lt in Er.
  destruct (h_dispatch _ _ _ _ _ _) as [[i0 w0]|] eqn:Ed; [|discriminate].
  intros H. inversion H. subst N normX o od init' w'. clear H.
  repeat split; try assumption.
  - unfold h_optdims in Eo. destruct optdims as [od|]; [|now inversion Eo]. destruct (k_optdims_invalid od _); [discriminate|now inversion Eo].
  - unfold h_dispatch in Ed. rewrite H in Ed. destruct (_ && _ && _); [now inversion Ed|discriminate].
  - unfold h_dispatch in Ed. rewrite H in Ed. destruct (_ && _ && _); [now inversion Ed|discriminate].
  - unfold h_dispatch in Ed. rewrite H in Ed. destruct (k_init_ndims init =? k_ndims X) eqn:E1; [now apply Nat.eqb_eq in E1|discriminate].
  - unfold h_dispatch in Ed. rewrite H in Ed. destruct (k_init_ndims init =? k_ndims X); [|discriminate].
    destruct (k_init_ncomponents init =? rank) eqn:E2; [now apply Nat.eqb_eq in E2|discriminate].
  - intros n Hn. unfold h_dispatch in Ed. rewrite H in Ed.
    destruct (k_init_ndims init =? k_ndims X); [|discriminate]. destruct (k_init_ncomponents init =? rank); [|discriminate]. cbn [andb] in Ed.
    destruct (h_shapes_ok init X rank _) eqn:Es; [|discriminate]. unfold h_shapes_ok in Es. rewrite forallb_forall in Es.
    specialize (Es n Hn). now apply negb_true_iff in Es.
  - unfold h_dispatch in Ed. rewrite H, H0 in Ed. rewrite andb_false_r in Ed.
    destruct (k_init_is_str init && k_init_names_nvecs init); [|discriminate]. destruct (k_is_sumtensor X); [discriminate|now inversion Ed].
  - unfold h_dispatch in Ed. rewrite H, H0 in Ed. rewrite andb_false_r in Ed.
    destruct (k_init_is_str init && k_init_names_nvecs init); [|discriminate]. destruct (k_is_sumtensor X); [discriminate|now inversion Ed].
  - unfold h_dispatch in Ed. rewrite H, H0 in Ed. rewrite andb_false_r in Ed.
    destruct (k_init_is_str init && k_init_names_nvecs init); [|discriminate]. destruct (k_is_sumtensor X); [discriminate|reflexivity].
  - unfold h_dispatch in Ed. rewrite H, H0, H1 in Ed. cbn [andb] in Ed. destruct (h_random w [] X rank (k_ndims X) 0). now inversion Ed.
  - unfold h_dispatch in Ed. rewrite H, H0, H1 in Ed. cbn [andb] in Ed. destruct (h_random w [] X rank (k_ndims X) 0). now inversion Ed.
Qed.
End Pre.
