(* Proofs/C15K.v — the body of ktensor.symmetrize (Model/C15K.v, after normalize("all")):
     * the result has N copies of ONE factor matrix, hence denotes an array symmetric in all modes (for every input);
     * on a Kruskal tensor whose factors are, column by column, the same matrix up to a sign +-1 (the normalised form of
       a tensor with identical factors and weights of either sign, or with factor columns stored with scrambled signs)
       the denoted array is unchanged — for all orders N >= 1, ranks, sizes and weights.
   The oracle "x < 0" is constrained only by: a sum of squares is not negative; if minus a sum of squares is not
   negative either, every term is zero. *)
From Coq Require Import List Arith Lia Bool Permutation Ring.
From PV Require Import Base.Index Base.Perm Base.Sum Np.Array Model.Repr Model.C15Sym Model.C15K Proofs.C15Proofs.
Import ListNotations.

Lemma nth_map_seq {A} (g : nat -> A) n r d : r < n -> nth r (map g (seq 0 n)) d = g r.
Proof.
  intros H. rewrite (nth_indep _ d (g 0)) by (now rewrite map_length, seq_length).
  rewrite map_nth. now rewrite seq_nth.
Qed.

Lemma map_const_repeat {A B} (f : A -> B) l c : (forall a, In a l -> f a = c) -> map f l = repeat c (length l).
Proof.
  induction l as [|a l IH]; intros H; cbn; auto. rewrite H by now left. f_equal. apply IH. intros b Hb. apply H. now right.
Qed.

Section PK15.
Variable V : Type.
Variables (v0 v1 : V) (vadd vmul vsub : V -> V -> V) (vopp vinv : V -> V) (neg : V -> bool).
Hypothesis Vring : ring_theory v0 v1 vadd vmul vsub vopp (@eq V).
Add Ring VrK15 : Vring.
Notation "x + y" := (vadd x y).
Notation "x * y" := (vmul x y).
Notation ofn := (of_nat v0 v1 vadd).
Notation mg := (mget v0).
Notation m1 := (km1 v1 vopp).
Notation sg := (ksgn v1 vopp).
Notation den := (den_k v0 v1 vadd vmul).
Notation core := (k15_core v0 v1 vadd vmul vopp vinv neg).
Notation flip := (kflip v0 vadd vmul neg).
Notation scopy := (signed_copy v0 v1 vmul vopp).
Notation mat := (list (list V)).

(* ---- every result is symmetric in all modes ---- *)
Theorem k15_core_identical K1 A0 As : kfactors K1 = A0 :: As ->
  exists w M, core K1 = mkK w (repeat M (S (length As))).
Proof. intros E. unfold k15_core. rewrite E. eauto. Qed.

Theorem k15_core_symmetric K1 i i' : Permutation i i' -> den (core K1) i = den (core K1) i'.
Proof.
  intros P. unfold k15_core. destruct (kfactors K1) as [|A0 As] eqn:E.
  - destruct K1 as [w fs]. cbn in E. subst fs.
    exact (den_identical_factors_symmetric V v0 v1 vadd vmul vsub vopp Vring w [] 0 i i' P).
  - now apply (den_identical_factors_symmetric V v0 v1 vadd vmul vsub vopp Vring).
Qed.

(* ---- small algebra ---- *)
Fixpoint kpow (c : V) (n : nat) : V := match n with 0 => v1 | S n' => c * kpow c n' end.

Lemma sg_sq b : sg b * sg b = v1.
Proof. destruct b; unfold ksgn, km1; ring. Qed.

Lemma kpow_one n : kpow v1 n = v1.
Proof. induction n as [|n IH]; cbn; [reflexivity|]. rewrite IH. ring. Qed.

Lemma kpow_m1_double k : kpow m1 (Nat.mul 2 k) = v1.
Proof.
  induction k as [|k IH]; [reflexivity|]. replace (Nat.mul 2 (S k)) with (S (S (Nat.mul 2 k))) by lia. cbn [kpow]. rewrite IH.
  unfold km1. ring.
Qed.

Lemma kpow_m1_even n : Nat.even n = true -> kpow m1 n = v1.
Proof. intros H. apply Nat.even_spec in H as [k ->]. apply kpow_m1_double. Qed.

Lemma fold_w (f : mat -> bool) As : forall w,
  fold_left (fun w Ai => w * sg (f Ai)) As w = w * prodv v1 vmul (map (fun Ai => sg (f Ai)) As).
Proof. induction As as [|A As IH]; intros w; cbn; [ring|]. rewrite IH. ring. Qed.

Lemma fold_sum (g : mat -> V) As : forall a, fold_left (fun acc Ai => acc + g Ai) As a = a + sum_over v0 vadd As g.
Proof.
  induction As as [|A As IH]; intros a; cbn [fold_left]; [unfold sum_over; cbn; ring|].
  rewrite IH. unfold sum_over. cbn [map sumv]. ring.
Qed.

Lemma mget_tab (g : nat -> nat -> V) m R x r : x < m -> r < R ->
  mg (map (fun x => map (fun j => g x j) (seq 0 R)) (seq 0 m)) x r = g x r.
Proof. intros Hx Hr. unfold mget. rewrite (nth_map_seq _ m x []) by exact Hx. now apply nth_map_seq. Qed.

Lemma prodv_scale c (g : nat -> V) l :
  prodv v1 vmul (map (fun x => c * g x) l) = kpow c (length l) * prodv v1 vmul (map g l).
Proof. induction l as [|x l IH]; cbn; [ring|]. rewrite IH. ring. Qed.

Lemma prodv_zero (g : nat -> V) l : l <> [] -> (forall x, In x l -> g x = v0) -> prodv v1 vmul (map g l) = v0.
Proof. destruct l as [|x l]; intros Hne H; [contradiction|]. cbn. rewrite (H x) by now left. ring. Qed.

Lemma sum_n_scale n c (h : nat -> V) : sum_n v0 vadd n (fun x => c * h x) = c * sum_n v0 vadd n h.
Proof. unfold sum_n. apply (sum_over_scale_l V v0 v1 vadd vmul vsub vopp Vring). Qed.

(* ---- the oracle ---- *)
Hypothesis neg_sq : forall (h : nat -> V) n, neg (sum_n v0 vadd n (fun x => h x * h x)) = false.
Hypothesis neg_opp_sq : forall (h : nat -> V) n, neg (vopp (sum_n v0 vadd n (fun x => h x * h x))) = false ->
  forall x, x < n -> h x = v0.
Hypothesis char0 : forall n, n <> 0 -> ofn n <> v0.
Hypothesis vinv_l : forall x, x <> v0 -> vinv x * x = v1.

Section Column.
Variables (B : mat) (m R r : nat).
Hypothesis Hr : r < R.
Let q : V := sum_n v0 vadd m (fun x => mg B x r * mg B x r).

(* a column that is not zero: the alignment makes every factor's column equal to factor 0's *)
Lemma aligned_entry A0 Ak : scopy B m R A0 -> scopy B m R Ak -> neg (vopp q) = true ->
  forall x, x < m -> sg (flip A0 Ak r) * mg Ak x r = mg A0 x r.
Proof.
  intros (H0m & H0c) (Hkm & Hkc) HNZ. destruct (H0c r Hr) as (t0 & Ht0 & E0). destruct (Hkc r Hr) as (tk & Htk & Ek).
  assert (Hc : coldot v0 vadd vmul A0 Ak r = (t0 * tk) * q).
  { unfold coldot. rewrite H0m. unfold q. rewrite <- sum_n_scale. apply sum_n_ext. intros x Hx.
    rewrite (E0 x Hx), (Ek x Hx). ring. }
  intros x Hx. unfold kflip. rewrite Hc, (E0 x Hx), (Ek x Hx).
  destruct Ht0 as [-> | ->], Htk as [-> | ->].
  - replace (v1 * v1 * q) with q by ring. unfold q. rewrite neg_sq. unfold ksgn. ring.
  - replace (v1 * m1 * q) with (vopp q) by (unfold km1; ring). rewrite HNZ. unfold ksgn, km1. ring.
  - replace (m1 * v1 * q) with (vopp q) by (unfold km1; ring). rewrite HNZ. unfold ksgn, km1. ring.
  - replace (m1 * m1 * q) with q by (unfold km1; ring). unfold q. rewrite neg_sq. unfold ksgn. ring.
Qed.

(* a zero column of B is a zero column of every signed copy *)
Lemma zero_entry A : scopy B m R A -> neg (vopp q) = false -> forall x, x < m -> mg A x r = v0.
Proof.
  intros (Hm & Hc) HZ x Hx. destruct (Hc r Hr) as (t & _ & E). rewrite (E x Hx).
  rewrite (neg_opp_sq (fun x => mg B x r) m HZ x Hx). ring.
Qed.

Lemma kprod_aligned (a : nat -> V) (F : mat -> bool) As : forall i, length i = length As -> Forall (fun x => x < m) i ->
  (forall Ak, In Ak As -> forall x, x < m -> sg (F Ak) * mg Ak x r = a x) ->
  kprod v0 v1 vmul As i r = prodv v1 vmul (map (fun Ai => sg (F Ai)) As) * prodv v1 vmul (map a i).
Proof.
  induction As as [|A As IH]; intros [|x i] HL Hi HP; cbn in HL; try lia; cbn; [ring|].
  inversion Hi as [|? ? Hx Hi']; subst. rewrite (IH i) by (auto; intros Ak Hk; apply HP; now right).
  assert (E : mg A x r = sg (F A) * a x).
  { rewrite <- (HP A (or_introl eq_refl) x Hx). transitivity ((sg (F A) * sg (F A)) * mg A x r); [rewrite sg_sq; ring|ring]. }
  rewrite E. ring.
Qed.
End Column.

(* ---- symmetrize keeps the value of a Kruskal tensor whose factors agree up to column signs ---- *)
Theorem k15_core_keeps (B : mat) (m R : nat) K1 : kfactors K1 <> [] -> krank K1 = R ->
  (forall A, In A (kfactors K1) -> scopy B m R A) ->
  forall i, den (core K1) i = den K1 i.
Proof.
  destruct K1 as [ws fs]. cbn [kfactors krank kweights]. intros Hne HR HA i. unfold krank in HR. cbn [kweights] in HR.
  destruct fs as [|A0 As]; [contradiction|]. unfold k15_core. cbn [kfactors kweights krank].
  set (N := S (length As)). set (M := k15_factor v0 v1 vadd vmul vopp vinv neg A0 As ws).
  assert (H0 : scopy B m R A0) by (apply HA; now left).
  assert (HAs : forall Ak, In Ak As -> scopy B m R Ak) by (intros Ak Hk; apply HA; now right).
  assert (HMrows : nrows M = m).
  { unfold M, k15_factor, nrows. rewrite map_length, seq_length. exact (proj1 H0). }
  unfold den_k. rewrite kshape_repeat, HMrows.
  assert (Hsh : kshape (mkK ws (A0 :: As)) = repeat m N).
  { unfold kshape. cbn [kfactors]. unfold N. change (S (length As)) with (length (A0 :: As)).
    apply map_const_repeat. intros A HinA. exact (proj1 (HA A HinA)). }
  rewrite Hsh. destruct (inb (repeat m N) i) eqn:Hinb; [|reflexivity].
  rewrite inb_repeat in Hinb. apply andb_true_iff in Hinb as [HL Hlt]. apply Nat.eqb_eq in HL.
  assert (Hi : Forall (fun x => x < m) i).
  { apply Forall_forall. intros x Hx. rewrite forallb_forall in Hlt. now apply Nat.ltb_lt, Hlt. }
  unfold krank. cbn [kweights kfactors]. rewrite map_length, seq_length. apply sum_n_ext. intros r Hr.
  assert (HrR : r < R) by lia.
  rewrite (nth_map_seq _ (length ws) r v0 Hr).
  rewrite (kprod_repeat V v0 v1 vmul M N i r HL).
  set (F := fun Ai : mat => flip A0 Ai r).
  set (pi := prodv v1 vmul (map (fun Ai => sg (F Ai)) As)).
  set (w := nth r ws v0).
  assert (Hw : w_aligned v0 v1 vadd vmul vopp neg A0 As w r = w * pi).
  { unfold w_aligned. apply (fold_w F). }
  set (fx := kfix neg N (w * pi)).
  assert (HMx : forall x, x < m -> mg M x r = sg fx * v_entry v0 v1 vadd vmul vopp vinv neg A0 As x r).
  { intros x Hx. unfold M, k15_factor. rewrite (proj1 H0).
    etransitivity;
      [exact (mget_tab (fun x j => sg (kfix neg (S (length As)) (w_aligned v0 v1 vadd vmul vopp neg A0 As (nth j ws v0) j)) *
                                   v_entry v0 v1 vadd vmul vopp vinv neg A0 As x j) m (length ws) x r Hx Hr)|].
    cbv beta.
    fold w. rewrite Hw. reflexivity. }
  unfold k15_weight. fold w. rewrite Hw. fold N. fold fx.
  destruct i as [|x0 i']; [cbn in HL; unfold N in HL; lia|].
  pose proof (Forall_inv Hi) as Hx0. pose proof (Forall_inv_tail Hi) as Hi'. cbn beta in Hx0.
  set (q := sum_n v0 vadd m (fun x => mg B x r * mg B x r)).
  destruct (neg (vopp q)) eqn:HNZ.
  - (* the column is not zero: every (flipped) column equals factor 0's, the average is that column *)
    assert (HP : forall Ak, In Ak As -> forall x, x < m -> sg (F Ak) * mg Ak x r = mg A0 x r).
    { intros Ak Hk x Hx. unfold F. apply (aligned_entry B m R r HrR A0 Ak H0 (HAs Ak Hk) HNZ x Hx). }
    assert (Hent : forall x, x < m -> v_entry v0 v1 vadd vmul vopp vinv neg A0 As x r = mg A0 x r).
    { intros x Hx. unfold v_entry. rewrite (fold_sum (fun Ai => sg (flip A0 Ai r) * mg Ai x r)).
      rewrite (sum_over_ext V v0 vadd As _ (fun _ => mg A0 x r)) by (intros Ak Hk; now apply HP).
      rewrite (sum_const V v0 v1 vadd vmul vsub vopp Vring).
      assert (Hn : ofn (S (length As)) <> v0) by (apply char0; lia).
      assert (Hid : forall u n' z : V, (u + n' * u) * z = u * (z * (v1 + n'))) by (intros; ring).
      assert (Hid1 : forall u : V, u * v1 = u) by (intros; ring).
      transitivity (mg A0 x r * (vinv (ofn (S (length As))) * ofn (S (length As)))); [cbn [of_nat]; apply Hid|].
      rewrite (vinv_l _ Hn). apply Hid1. }
    rewrite (map_ext_in _ (fun x => sg fx * mg A0 x r)).
    2:{ intros x Hx. rewrite HMx, Hent; auto; rewrite Forall_forall in Hi; now apply Hi. }
    rewrite prodv_scale. cbn [kprod].
    rewrite (kprod_aligned m R r HrR (fun x => mg A0 x r) F As i') by (auto; cbn in HL; unfold N in HL; lia).
    fold pi. cbn [map prodv length].
    assert (Hpow : sg fx * kpow (sg fx) (length (x0 :: i')) = v1).
    { rewrite HL. change (sg fx * kpow (sg fx) N) with (kpow (sg fx) (S N)).
      destruct fx eqn:Efx; cbn [ksgn]; [|apply kpow_one].
      apply kpow_m1_even. unfold fx, kfix in Efx. apply andb_true_iff in Efx as [Hodd _].
      rewrite Nat.even_succ. exact Hodd. }
    cbn [length] in Hpow. change (kfix neg (S (length As)) (w * pi)) with fx.
    assert (Hid : forall s k w p a0 P : V, s * k = v1 -> s * (w * p) * (k * (a0 * P)) = w * (a0 * (p * P))).
    { intros s k w' p a0 P H. transitivity ((s * k) * (w' * (a0 * (p * P)))); [ring|]. rewrite H. ring. }
    now apply Hid.
  - (* a zero column: both sides vanish *)
    assert (Hz : forall A, In A (A0 :: As) -> forall x, x < m -> mg A x r = v0).
    { intros A HinA x Hx. apply (zero_entry B m R r HrR A (HA A HinA) HNZ x Hx). }
    assert (Hent : forall x, x < m -> v_entry v0 v1 vadd vmul vopp vinv neg A0 As x r = v0).
    { intros x Hx. unfold v_entry. rewrite (fold_sum (fun Ai => sg (flip A0 Ai r) * mg Ai x r)).
      rewrite (Hz A0 (or_introl eq_refl) x Hx).
      rewrite (sum_over_zero V v0 v1 vadd vmul vsub vopp Vring).
      - ring.
      - intros Ak Hk. rewrite (Hz Ak (or_intror Hk) x Hx). ring. }
    rewrite (prodv_zero (fun x => mg M x r) (x0 :: i')).
    + cbn [kprod]. rewrite (Hz A0 (or_introl eq_refl) x0 Hx0). ring.
    + discriminate.
    + intros x Hx. rewrite Forall_forall in Hi. rewrite HMx, Hent by (now apply Hi). ring.
Qed.

End PK15.

(* ------------------------------------------------------------------------------------------------ *)
(* the oracle hypotheses hold for the exact test "x < 0" over the rationals: a closed theorem over Qc  *)
(* ------------------------------------------------------------------------------------------------ *)
From Coq Require Import QArith Qcanon.
From PV Require Import Model.Harness Model.C15Inst.
Local Open Scope Qc_scope.

Lemma q15_neg_false x : q_neg15 x = false <-> 0 <= x.
Proof.
  unfold q_neg15, qleb. rewrite negb_false_iff, Qle_bool_iff. unfold Qcle. reflexivity.
Qed.

Lemma q15_sq_nonneg (x : Qc) : 0 <= x * x.
Proof.
  destruct (Qclt_le_dec x 0) as [H|H].
  - assert (H' : 0 <= - x).
    { apply Qclt_le_weak in H. apply Qcopp_le_compat in H. now replace (- 0) with 0 in H by ring. }
    replace (x * x) with (- x * - x) by ring. replace 0 with (0 * - x) by ring. now apply Qcmult_le_compat_r.
  - replace 0 with (0 * x) by ring. now apply Qcmult_le_compat_r.
Qed.

Lemma q15_sumsq_nonneg (h : nat -> Qc) n : 0 <= sum_n q0 Qcplus n (fun x => h x * h x).
Proof.
  induction n as [|n IH]; [apply Qcle_refl|].
  rewrite (sum_n_S Qc q0 q1 Qcplus Qcmult Qcminus Qcopp Qcrt). replace 0 with (0 + 0) by ring.
  apply Qcplus_le_compat; [exact IH|apply q15_sq_nonneg].
Qed.

Lemma q15_neg_sq : forall (h : nat -> Qc) n, q_neg15 (sum_n q0 Qcplus n (fun x => h x * h x)) = false.
Proof. intros h n. apply q15_neg_false, q15_sumsq_nonneg. Qed.

Lemma q15_nonneg_sum_zero a b : 0 <= a -> 0 <= b -> a + b <= 0 -> a = 0 /\ b = 0.
Proof.
  intros Ha Hb H. split; apply Qcle_antisym; auto.
  - eapply Qcle_trans; [|exact H]. replace a with (a + 0) at 1 by ring. apply Qcplus_le_compat; [apply Qcle_refl|auto].
  - eapply Qcle_trans; [|exact H]. replace b with (0 + b) at 1 by ring. apply Qcplus_le_compat; [auto|apply Qcle_refl].
Qed.

Lemma q15_neg_opp_sq : forall (h : nat -> Qc) n, q_neg15 (- sum_n q0 Qcplus n (fun x => h x * h x)) = false ->
  forall x, (x < n)%nat -> h x = q0.
Proof.
  intros h n H. apply q15_neg_false in H.
  assert (Hle : sum_n q0 Qcplus n (fun x => h x * h x) <= 0).
  { apply Qcopp_le_compat in H. rewrite Qcopp_involutive in H. now replace (- 0) with 0 in H by ring. }
  clear H. induction n as [|n IH]; intros x Hx; [lia|].
  rewrite (sum_n_S Qc q0 q1 Qcplus Qcmult Qcminus Qcopp Qcrt) in Hle.
  destruct (q15_nonneg_sum_zero _ _ (q15_sumsq_nonneg h n) (q15_sq_nonneg (h n)) Hle) as [E1 E2].
  destruct (Nat.eq_dec x n) as [->|Hne].
  - destruct (Qcmult_integral _ _ E2); assumption.
  - apply IH; [rewrite E1; apply Qcle_refl|lia].
Qed.

Lemma q15_ofn_pos n : 0 <= of_nat q0 q1 Qcplus n.
Proof.
  induction n as [|n IH]; cbn; [apply Qcle_refl|]. replace 0 with (0 + 0) by ring.
  apply Qcplus_le_compat; [discriminate|exact IH].
Qed.

Lemma q15_char0 : forall n, n <> 0%nat -> of_nat q0 q1 Qcplus n <> q0.
Proof.
  intros [|n] Hn E; [contradiction|]. cbn in E.
  assert (H : q1 + of_nat q0 q1 Qcplus n <= 0) by (rewrite E; apply Qcle_refl).
  destruct (q15_nonneg_sum_zero q1 _ ltac:(discriminate) (q15_ofn_pos n) H) as [E1 _]. discriminate E1.
Qed.

Lemma q15_vinv_l : forall x : Qc, x <> q0 -> / x * x = q1.
Proof. intros x H. rewrite Qcmult_comm. now apply Qcmult_inv_r. Qed.

(* over the rationals, with the exact sign test: no hypothesis on an oracle is left *)
Theorem q_k15_core_keeps (B : list (list Qc)) (m R : nat) (K1 : ktensor Qc) : kfactors K1 <> [] -> krank K1 = R ->
  (forall A, In A (kfactors K1) -> signed_copy q0 q1 Qcmult Qcopp B m R A) ->
  forall i, qden_k (q_k15_core K1) i = qden_k K1 i.
Proof.
  exact (k15_core_keeps Qc q0 q1 Qcplus Qcmult Qcminus Qcopp Qcinv q_neg15 Qcrt q15_neg_sq q15_neg_opp_sq q15_char0 q15_vinv_l
           B m R K1).
Qed.
