(* Props/C01.v — conversions preserve the tensor. Only statements, `exact`, Print Assumptions. *)
From Coq Require Import List Arith Bool ZArith Ring.
From PV Require Import Base.Index Base.Perm Base.Sum Np.Array Model.Sparse Model.Repr Model.C07Ops Model.C01Conv
  Proofs.C01Proofs Proofs.C01Kruskal Proofs.C01Tucker.
Import ListNotations.

Section C01.
Context {V : Type} (v0 : V) (isz : V -> bool).
Hypothesis isz_spec : forall v, isz v = true <-> v = v0.

(* dense -> sparse: well-formed, same array, nnz = number of nonzero entries, and back = identity *)
Theorem C01_dense_sparse : forall T : dense V, wf_dense T ->
  wf_sp isz (to_sptensor v0 isz T) /\
  (forall i, den_sp v0 (to_sptensor v0 isz T) i = den_dense v0 T i) /\
  nnz (to_sptensor v0 isz T) = length (filter (fun v => negb (isz v)) (ddata T)) /\
  full v0 (to_sptensor v0 isz T) = T.
Proof.
  intros T W. exact (conj (to_sptensor_wf v0 isz T W)
    (conj (fun i => den_to_sptensor v0 isz isz_spec T i W)
    (conj (nnz_to_sptensor v0 isz T W) (full_to_sptensor v0 isz isz_spec T W)))).
Qed.

(* sparse -> dense: same array for EVERY in-bounds coordinate list (duplicates: last stored entry wins,
   any stored order), and the result is a well-formed dense tensor of the same shape *)
Theorem C01_sparse_dense : forall S : sparse V,
  Forall (fun j => inb (sshape S) j = true) (ssubs S) ->
  wf_dense (full v0 S) /\ dshape (full v0 S) = sshape S /\
  (forall i, den_dense v0 (full v0 S) i = den_sp v0 S i).
Proof.
  intros S Hb. exact (conj (wf_full v0 S) (conj eq_refl (fun i => den_full v0 S i Hb))).
Qed.
End C01.

Print Assumptions C01_dense_sparse.
Print Assumptions C01_sparse_dense.

(* non-vacuity: a concrete non-symmetric 2x3 instance *)
Example C01_example :
  let T := mkDense [2; 3] [0; 5; 7; 0; 0; 9]%Z in
  to_sptensor 0%Z (Z.eqb 0) T = mkSp [2; 3] [[1; 0]; [0; 1]; [1; 2]] [5; 7; 9]%Z
  /\ full 0%Z (to_sptensor 0%Z (Z.eqb 0) T) = T.
Proof. split; reflexivity. Qed.

(* ---------------------------------------------------------------------------------------------------------
   Matricisation, Kruskal / sum to dense (models in Model/C01Conv.v).
   [pick 0 r s] is numpy's s[r]; tm_pos s r c i = [sub2ind s[r] i[r]; sub2ind s[c] i[c]] is the matrix position of
   tensor entry i; den_tenmat / den_sptenmat read the matrix there. *)
Section C01conv.
Variable V : Type.
Variables (v0 v1 : V) (vadd vmul vsub : V -> V -> V) (vopp : V -> V) (isz : V -> bool).
Hypothesis Vring : ring_theory v0 v1 vadd vmul vsub vopp (@eq V).

(* every ordered partition (r, c) of the modes (either side may be empty): the matrix has Π s[r] rows and Π s[c] columns,
   entry (sub2ind s[r] i[r], sub2ind s[c] i[c]) is T[i], and to_tensor returns the identical tensor *)
Theorem C01_tenmat : forall (T : dense V) r c, wf_dense T -> is_perm (r ++ c) (length (dshape T)) ->
  exists M, to_tenmat v0 T r c = Some M /\ tm_r M = r /\ tm_c M = c /\ tm_tshape M = dshape T /\
    wf_dense (tm_data M) /\ dshape (tm_data M) = [size (pick 0 r (dshape T)); size (pick 0 c (dshape T))] /\
    (forall i, inb (dshape T) i = true ->
       inb (dshape (tm_data M)) (tm_pos (dshape T) r c i) = true /\ den_tenmat v0 M i = den_dense v0 T i) /\
    tenmat_to_tensor v0 M = T.
Proof. exact (to_tenmat_correct v0). Qed.

(* the request forms (rdims only, cdims only, both, and the fc / bc / t conventions for a single row mode) all produce
   an ordered partition, so C01_tenmat / C01_sptenmat apply to them *)
Theorem C01_request_forms : forall N rd cd cy, request_ok N rd cd ->
  exists r c, gather_wrap_dims N rd cd cy = Some (r, c) /\ is_perm (r ++ c) N /\
    (forall r0 c0, rd = Some r0 -> cd = Some c0 -> r = r0 /\ c = c0) /\
    (forall c0, rd = None -> cd = Some c0 -> c = c0) /\
    (forall r0, rd = Some r0 -> cd = None -> cy = None \/ length r0 <> 1 -> r = r0) /\
    (forall m, rd = Some [m] -> cd = None -> cy = Some CycT -> c = [m]) /\
    (forall m k, rd = Some [m] -> cd = None -> cy = Some k -> k <> CycT -> r = [m]).
Proof. exact gather_wrap_dims_partition. Qed.

(* sparse matricisation: same position law for every in-bounds coordinate list; values and nnz kept, triples in bounds,
   well-formedness preserved; full() of the sptenmat is the tenmat of the tensor; to_sptensor returns the identical object *)
Theorem C01_sptenmat : forall (S : sparse V) r c, is_perm (r ++ c) (length (sshape S)) ->
  Forall (fun j => inb (sshape S) j = true) (ssubs S) ->
  exists M, to_sptenmat S r c = Some M /\ stm_r M = r /\ stm_c M = c /\ stm_tshape M = sshape S /\
    stm_vals M = svals S /\ length (stm_subs M) = nnz S /\
    Forall (fun rc => inb (stm_shape M) rc = true) (stm_subs M) /\
    (wf_sp isz S -> wf_sp isz (stm_sp M)) /\
    (forall i, inb (sshape S) i = true -> den_sptenmat v0 M i = den_sp v0 S i) /\
    (forall i, inb (sshape S) i = true -> den_tenmat v0 (sptenmat_full v0 M) i = den_sp v0 S i) /\
    sptenmat_to_sptensor M = S.
Proof. exact (to_sptenmat_correct v0 isz). Qed.

(* Kruskal -> dense: the Khatri-Rao algorithm (two reversed Khatri-Rao products, weights, matrix product, F-order reshape)
   yields den_k for EVERY split point, any rank (0 included), any number >= 2 of modes *)
Theorem C01_kruskal_any_split : forall (K : ktensor V) isplit,
  rows_ok V (krank K) (kfactors K) -> 0 < isplit < length (kfactors K) ->
  exists D, ktensor_full_at v0 vadd vmul K isplit = Some D /\ wf_dense D /\ dshape D = kshape K /\
    forall i, den_dense v0 D i = den_k v0 v1 vadd vmul K i.
Proof. exact (ktensor_full_at_correct V v0 v1 vadd vmul vsub vopp Vring). Qed.

(* ... and ktensor.full as the code is, for every N >= 1: the single-mode branch (factor @ weights) and, for N >= 2, the
   split point the code chooses (min_split_dims) *)
Theorem C01_kruskal : forall K : ktensor V, rows_ok V (krank K) (kfactors K) -> 1 <= length (kfactors K) ->
  exists D, ktensor_full_impl v0 vadd vmul K = Some D /\ wf_dense D /\ dshape D = kshape K /\
    (forall i, den_dense v0 D i = den_k v0 v1 vadd vmul K i) /\
    D = ktensor_full_spec v0 v1 vadd vmul K.
Proof. exact (ktensor_full_correct V v0 v1 vadd vmul vsub vopp Vring). Qed.

(* Tucker -> dense: multiplying the core by U_0, U_1, ... mode by mode (each product defined on subscripts:
   Y[i] = sum_j U[i_n, j] X[i with n := j]) yields den_t; result well-formed with shape (rows of U_n)_n *)
Theorem C01_tucker : forall T : ttensor V, wf_dense (tcore T) -> length (dshape (tcore T)) = length (tfactors T) ->
  wf_dense (ttensor_full v0 vadd vmul T) /\ dshape (ttensor_full v0 vadd vmul T) = tshape T /\
  forall i, den_dense v0 (ttensor_full v0 vadd vmul T) i = den_t v0 v1 vadd vmul T i.
Proof. exact (ttensor_full_correct V v0 v1 vadd vmul vsub vopp Vring). Qed.

(* sum -> dense: densify the first part, add the others; parts of any kind whose own densification is right *)
Theorem C01_sum : forall s (parts : list (part V)), parts <> [] -> Forall (part_ok V v0 v1 vadd vmul s) parts ->
  exists R, sum_full v0 v1 vadd vmul parts = Some R /\ wf_dense R /\ dshape R = s /\
    forall i, inb s i = true -> den_dense v0 R i = den_sum v0 vadd (map (part_den v0 v1 vadd vmul) parts) i.
Proof. exact (sum_full_correct V v0 v1 vadd vmul vsub vopp Vring). Qed.

Theorem C01_sum_parts : (forall T : dense V, wf_dense T -> part_ok V v0 v1 vadd vmul (dshape T) (PD T)) /\
  (forall S : sparse V, Forall (fun j => inb (sshape S) j = true) (ssubs S) -> part_ok V v0 v1 vadd vmul (sshape S) (PS S)) /\
  (forall K : ktensor V, part_ok V v0 v1 vadd vmul (kshape K) (PK K)) /\
  (forall T : ttensor V, wf_dense (tcore T) -> length (dshape (tcore T)) = length (tfactors T) ->
     part_ok V v0 v1 vadd vmul (tshape T) (PT T)).
Proof. exact (conj (part_ok_dense V v0 v1 vadd vmul) (conj (part_ok_sparse V v0 v1 vadd vmul)
        (conj (part_ok_kruskal V v0 v1 vadd vmul) (part_ok_tucker V v0 v1 vadd vmul vsub vopp Vring)))). Qed.
End C01conv.

Print Assumptions C01_tenmat.
Print Assumptions C01_request_forms.
Print Assumptions C01_sptenmat.
Print Assumptions C01_kruskal_any_split.
Print Assumptions C01_kruskal.
Print Assumptions C01_tucker.
Print Assumptions C01_sum.
Print Assumptions C01_sum_parts.

(* non-vacuity on a non-symmetric 2x3x4 instance: rows = modes [2;0] (non-involutive order), columns = [1] *)
Example C01_example_tenmat :
  let T := mkDense [2; 3; 4] (map Z.of_nat (seq 0 24)) in
  option_map (fun M => (dshape (tm_data M), den_tenmat 0%Z M [1; 2; 3], tenmat_to_tensor 0%Z M)) (to_tenmat 0%Z T [2; 0] [1])
    = Some ([8; 3], 23%Z, T) /\
  tm_pos [2; 3; 4] [2; 0] [1] [1; 2; 3] = [7; 2] /\
  gather_wrap_dims 3 (Some [1]) None (Some CycBC) = Some ([1], [0; 2]) /\
  gather_wrap_dims 4 (Some [1]) None (Some CycFC) = Some ([1], [2; 3; 0]).
Proof. repeat split; reflexivity. Qed.

Example C01_example_sptenmat :
  let S := mkSp [2; 3; 4] [[1; 2; 3]; [0; 1; 0]] [5; 7]%Z in
  option_map (fun M => (stm_subs M, stm_shape M, sptenmat_to_sptensor M)) (to_sptenmat S [2; 0] [1])
    = Some ([[7; 2]; [0; 1]], [8; 3], S).
Proof. reflexivity. Qed.

Example C01_example_kruskal :
  let K := mkK [2; 3]%Z [[[1; 2]; [3; 4]]; [[5; 6]; [7; 8]; [9; 1]]; [[1; 0]; [2; 1]; [0; 3]; [1; 1]]]%Z in
  ktensor_full_impl 0%Z Z.add Z.mul K = Some (ktensor_full_spec 0%Z 1%Z Z.add Z.mul K) /\
  ktensor_full_at 0%Z Z.add Z.mul K 2 = ktensor_full_at 0%Z Z.add Z.mul K 1 /\
  den_k 0%Z 1%Z Z.add Z.mul K [1; 2; 3] = 66%Z /\ min_split_dims [2; 3; 4] = Some 2 /\
  ktensor_full_impl 0%Z Z.add Z.mul (mkK [2; 3]%Z [[[1; 2]; [3; 4]; [5; 6]]%Z]) = Some (mkDense [3] [8; 18; 28]%Z).
Proof. repeat split; reflexivity. Qed.

Example C01_example_sum :
  let T := mkDense [2; 3] [1; 2; 3; 4; 5; 6]%Z in
  let S := mkSp [2; 3] [[1; 2]] [10%Z] in
  let K := mkK [2%Z] [[[1]; [2]]; [[1]; [0]; [3]]]%Z in
  sum_full 0%Z 1%Z Z.add Z.mul [PS S; PD T; PK K] = Some (mkDense [2; 3] [3; 6; 3; 4; 11; 28]%Z).
Proof. reflexivity. Qed.

Example C01_example_tucker :
  let Tk := mkT (mkDense [2; 1; 2] [2; 3; 1; 4]%Z) [[[1; 2]; [3; 4]; [0; 5]]; [[5]; [7]]; [[1; 0]; [2; 1]; [0; 3]; [1; 1]]]%Z in
  dshape (ttensor_full 0%Z Z.add Z.mul Tk) = [3; 2; 4] /\
  den_dense 0%Z (ttensor_full 0%Z Z.add Z.mul Tk) [2; 1; 3] = den_t 0%Z 1%Z Z.add Z.mul Tk [2; 1; 3] /\
  den_t 0%Z 1%Z Z.add Z.mul Tk [2; 1; 3] = 245%Z.
Proof. repeat split; reflexivity. Qed.
