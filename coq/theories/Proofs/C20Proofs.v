(* Proofs/C20Proofs.v — generators and aggregating constructors build what they advertise (Model/C20Gen.v). *)
From Coq Require Import List Arith ZArith Lia Bool Permutation.
From PV Require Import Base.Index Base.Sum Np.Array Model.Sparse Model.Repr Model.C20Gen.
Import ListNotations.

(* ================================================================ dense generators *)
Section Dense.
Context {V : Type} (v0 v1 : V).

Lemma nth_repeat_lt (v d : V) n k : k < n -> nth k (repeat v n) d = v.
Proof. revert k; induction n as [|n IH]; intros [|k] H; cbn; try lia; auto. apply IH. lia. Qed.

(* tensor.from_function: shape exact, data = the function's output listed first-index-fastest *)
Theorem from_function_ok (s : shape) (out : dense V) :
  wf_dense out -> size (dshape out) = size s ->
  exists T, from_function v0 s out = Some T /\ dshape T = s /\ wf_dense T /\ ddata T = ddata out /\
            (forall i, inb s i = true -> den_dense v0 T i = nth (sub2ind s i) (ddata out) v0).
Proof.
  intros W Hs. exists (np_reshapeF v0 out s). unfold from_function.
  assert (E : length (ddata out) = size s) by (unfold wf_dense in W; lia).
  rewrite E, Nat.eqb_refl.
  split; [reflexivity|]. split; [reflexivity|]. split; [apply wf_tabulate|]. split; [now apply np_reshapeF_data|].
  intros i Hi. unfold np_reshapeF. now rewrite den_tabulate.
Qed.

(* an output that already has the requested shape is taken as it is *)
Theorem from_function_same_shape (out : dense V) : wf_dense out ->
  from_function v0 (dshape out) out = Some out.
Proof.
  intros W. unfold from_function. rewrite W, Nat.eqb_refl. f_equal.
  apply (dense_ext v0); [apply wf_tabulate | exact W | reflexivity |].
  intros i Hi. unfold np_reshapeF in *. cbn [dshape tabulate] in Hi. rewrite den_tabulate by auto.
  unfold den_dense. now rewrite Hi.
Qed.

Theorem from_function_reject (s : shape) (out : dense V) :
  length (ddata out) <> size s -> from_function v0 s out = None.
Proof. intros H. unfold from_function. apply Nat.eqb_neq in H. now rewrite H. Qed.

Lemma tenfill_ok (s : shape) (v : V) :
  exists T, from_function v0 s (np_full s v) = Some T /\ dshape T = s /\ wf_dense T /\
            ddata T = repeat v (size s) /\ (forall i, inb s i = true -> den_dense v0 T i = v).
Proof.
  destruct (from_function_ok s (np_full s v)) as (T & E & Hs & W & Hd & Hden).
  - unfold wf_dense, np_full. cbn. now rewrite repeat_length.
  - reflexivity.
  - exists T. repeat split; auto. intros i Hi. rewrite Hden by auto. cbn [np_full ddata].
    apply nth_repeat_lt. now apply sub2ind_lt.
Qed.

Theorem tenones_ok (s : shape) :
  exists T, tenones v0 v1 s = Some T /\ dshape T = s /\ wf_dense T /\
            ddata T = repeat v1 (size s) /\ (forall i, inb s i = true -> den_dense v0 T i = v1).
Proof. exact (tenfill_ok s v1). Qed.

Theorem tenzeros_ok (s : shape) :
  exists T, tenzeros v0 s = Some T /\ dshape T = s /\ wf_dense T /\
            ddata T = repeat v0 (size s) /\ (forall i, den_dense v0 T i = v0).
Proof.
  destruct (tenfill_ok s v0) as (T & E & Hs & W & Hd & Hden). exists T. repeat split; auto.
  intros i. destruct (inb s i) eqn:Hi; auto. apply den_dense_out. now rewrite Hs.
Qed.
End Dense.

(* ================================================================ rows: sort / unique *)
Lemma existsb_idx_eqb i l : existsb (idx_eqb i) l = true <-> In i l.
Proof.
  rewrite existsb_exists. split.
  - intros (j & Hj & E). apply idx_eqb_spec in E. now subst.
  - intros H. exists i. split; auto. apply idx_eqb_refl.
Qed.

Lemma ins_idx_perm i l : Permutation (ins_idx i l) (i :: l).
Proof.
  induction l as [|j r IH]; cbn; auto. destruct (idx_ltb j i); auto.
  rewrite IH. apply perm_swap.
Qed.

Lemma sort_idx_perm l : Permutation (sort_idx l) l.
Proof.
  induction l as [|i l IH]; cbn; auto. rewrite ins_idx_perm. now constructor.
Qed.

Lemma dedup_In i l : In i (dedup l) <-> In i l.
Proof.
  induction l as [|j r IH]; cbn; [tauto|].
  destruct (existsb (idx_eqb j) r) eqn:E.
  - apply existsb_idx_eqb in E. rewrite IH. split; auto. intros [->|H]; auto.
  - cbn. rewrite IH. tauto.
Qed.

Lemma dedup_NoDup l : NoDup (dedup l).
Proof.
  induction l as [|j r IH]; cbn; [constructor|].
  destruct (existsb (idx_eqb j) r) eqn:E; auto.
  constructor; auto. rewrite dedup_In. intros H. apply existsb_idx_eqb in H. congruence.
Qed.

Lemma unique_rows_In i l : In i (unique_rows l) <-> In i l.
Proof.
  unfold unique_rows. split; intros H.
  - apply dedup_In. eapply Permutation_in; [apply sort_idx_perm|exact H].
  - eapply Permutation_in; [symmetry; apply sort_idx_perm|]. now apply dedup_In.
Qed.

Lemma unique_rows_NoDup l : NoDup (unique_rows l).
Proof.
  unfold unique_rows. eapply Permutation_NoDup; [symmetry; apply sort_idx_perm|apply dedup_NoDup].
Qed.

Lemma dedup_length_le l : length (dedup l) <= length l.
Proof. induction l as [|j r IH]; cbn; auto. destruct (existsb (idx_eqb j) r); cbn; lia. Qed.

Lemma dedup_NoDup_id l : NoDup l -> dedup l = l.
Proof.
  induction 1 as [|j r Hj Hn IH]; cbn; auto.
  destruct (existsb (idx_eqb j) r) eqn:E; [apply existsb_idx_eqb in E; contradiction|]. now rewrite IH.
Qed.

Lemma dedup_length_eq l : length (dedup l) = length l <-> NoDup l.
Proof.
  split.
  - induction l as [|j r IH]; cbn; [constructor|].
    destruct (existsb (idx_eqb j) r) eqn:E; cbn; intros H.
    + pose proof (dedup_length_le r). lia.
    + constructor; [|apply IH; lia]. intros Hin. apply existsb_idx_eqb in Hin. congruence.
  - intros H. now rewrite dedup_NoDup_id.
Qed.

Lemma unique_rows_length l : length (unique_rows l) = length (dedup l).
Proof. unfold unique_rows. apply Permutation_length, sort_idx_perm. Qed.

(* ================================================================ aggregating constructor *)
Section Agg.
Context {V : Type} (v0 : V) (isz : V -> bool).
Hypothesis isz_spec : forall v, isz v = true <-> v = v0.

Lemma combine_map_self {A B} (g : A -> B) (l : list A) : combine l (map g l) = map (fun a => (a, g a)) l.
Proof. induction l as [|a l IH]; cbn; auto. now rewrite IH. Qed.

Section One.
Variables (s : shape) (subs : list idx) (vals : list V) (f : list V -> V).
Let g (i : idx) : V := f (vals_at i subs vals).
Let R : sparse V := from_aggregator isz s subs vals f.

Lemma agg_subs : ssubs R = filter (fun i => negb (isz (g i))) (unique_rows subs).
Proof. reflexivity. Qed.

Lemma agg_entries : entries R = map (fun i => (i, g i)) (ssubs R).
Proof. unfold entries. cbn [R from_aggregator ssubs svals]. apply combine_map_self. Qed.

(* which subscripts get an entry: those present in the input whose reduced value is non-zero *)
Theorem agg_entry_iff i : In i (ssubs R) <-> In i subs /\ isz (f (vals_at i subs vals)) = false.
Proof.
  rewrite agg_subs, filter_In, unique_rows_In, negb_true_iff. reflexivity.
Qed.

Theorem agg_wf : Forall (fun i => inb s i = true) subs -> wf_sp isz R.
Proof.
  intros Hb. unfold wf_sp. cbn [R from_aggregator ssubs svals sshape]. repeat split.
  - now rewrite map_length.
  - apply NoDup_filter, unique_rows_NoDup.
  - rewrite Forall_forall. intros i Hi. apply filter_In in Hi as [Hi _]. apply (proj1 (unique_rows_In _ _)) in Hi.
    rewrite Forall_forall in Hb. auto.
  - rewrite Forall_forall. intros v Hv. apply in_map_iff in Hv as (i & <- & Hi).
    apply filter_In in Hi as [_ Hz]. now apply negb_true_iff in Hz.
Qed.

(* the array the result denotes: at every subscript of the input, the reducer applied to the values carrying that
   subscript, in input order (a zero result is not stored and reads back as zero); zero everywhere else *)
Theorem agg_den i :
  den_sp v0 R i = if existsb (idx_eqb i) subs then f (vals_at i subs vals) else v0.
Proof.
  destruct (existsb (idx_eqb i) subs) eqn:E.
  - apply existsb_idx_eqb in E. destruct (isz (g i)) eqn:Hz.
    + rewrite den_sp_notin; [symmetry; now apply isz_spec|].
      intros Hin. apply agg_entry_iff in Hin as [_ H]. unfold g in Hz. congruence.
    + unfold den_sp. apply last_match_in.
      * rewrite agg_entries, map_map. cbn [fst]. rewrite map_id. rewrite agg_subs.
        apply NoDup_filter, unique_rows_NoDup.
      * rewrite agg_entries. change (i, f (vals_at i subs vals)) with ((fun j => (j, g j)) i).
        apply in_map. apply agg_entry_iff. auto.
  - apply den_sp_notin. intros Hin. apply agg_entry_iff in Hin as [H _].
    apply existsb_idx_eqb in H. congruence.
Qed.

Theorem agg_shape : sshape R = s.
Proof. reflexivity. Qed.
End One.

(* the values of one group, when the subscripts are pairwise distinct *)
Lemma vals_at_nth (subs : list idx) (vals : list V) j :
  NoDup subs -> length subs = length vals -> j < length subs ->
  vals_at (nth j subs []) subs vals = [nth j vals v0].
Proof.
  revert vals j. induction subs as [|i subs IH]; intros [|v vals] j Hn HL Hj; cbn in HL, Hj; try lia.
  inversion Hn as [|? ? Hi Hn']; subst. unfold vals_at. cbn [combine filter fst].
  destruct j as [|j]; cbn [nth].
  - rewrite idx_eqb_refl. cbn [map snd]. f_equal.
    assert (E : filter (fun e : idx * V => idx_eqb i (fst e)) (combine subs vals) = []).
    { clear -Hi. revert vals. induction subs as [|k subs IH]; intros [|w vals]; cbn; auto.
      rewrite idx_eqb_neq by (intro; subst; apply Hi; cbn; auto). apply IH. intros H. apply Hi. cbn; auto. }
    now rewrite E.
  - rewrite idx_eqb_neq.
    + apply IH; auto; lia.
    + intros E. apply Hi. rewrite <- E. apply nth_In. lia.
Qed.
End Agg.

(* ================================================================ diagonal tensors *)
Lemma repeat_inj_nat (k k' M : nat) : 1 <= M -> repeat k M = repeat k' M -> k = k'.
Proof. destruct M; [lia|]. cbn. intros _ H. now inversion H. Qed.

Lemma diag_subs_length N M : length (diag_subs N M) = N.
Proof. unfold diag_subs. now rewrite map_length, seq_length. Qed.

Lemma diag_subs_nth N M k : k < N -> nth k (diag_subs N M) [] = repeat k M.
Proof.
  intros H. unfold diag_subs.
  rewrite (nth_indep _ [] ((fun k => repeat k M) 0)) by (now rewrite map_length, seq_length).
  rewrite (map_nth (fun k => repeat k M)). now rewrite seq_nth.
Qed.

Lemma In_diag_subs i N M : In i (diag_subs N M) <-> exists k, k < N /\ i = repeat k M.
Proof.
  unfold diag_subs. rewrite in_map_iff. split.
  - intros (k & <- & Hk). apply in_seq in Hk. exists k. split; [lia|reflexivity].
  - intros (k & Hk & ->). exists k. split; auto. apply in_seq. lia.
Qed.

Lemma diag_subs_NoDup N M : 1 <= M -> NoDup (diag_subs N M).
Proof.
  intros HM. unfold diag_subs. apply NoDup_map_inj; [apply seq_NoDup|].
  intros a b _ _ E. now apply (repeat_inj_nat a b M).
Qed.

Lemma inb_repeat cs k : Forall (fun d => k < d) cs -> inb cs (repeat k (length cs)) = true.
Proof.
  induction 1 as [|d cs Hd Hcs IH]; cbn; auto. rewrite IH, andb_true_r. now apply Nat.ltb_lt.
Qed.

Lemma diag_shape_ge N so : Forall (fun d => N <= d) (diag_shape N so).
Proof.
  destruct so as [s|]; cbn.
  - rewrite Forall_forall. intros d Hd. apply in_map_iff in Hd as (x & <- & _). lia.
  - rewrite Forall_forall. intros d Hd. apply repeat_spec in Hd. lia.
Qed.

Lemma diag_subs_inb N so :
  Forall (fun i => inb (diag_shape N so) i = true) (diag_subs N (length (diag_shape N so))).
Proof.
  rewrite Forall_forall. intros i Hi. apply In_diag_subs in Hi as (k & Hk & ->).
  apply inb_repeat. eapply Forall_impl; [|apply diag_shape_ge]. cbn. intros; lia.
Qed.

Section Diag.
Context {V : Type} (v0 : V).

(* tendiag: shape by the rule, e_k at (k,...,k), zero everywhere else — element vector longer or shorter than the shape *)
Theorem tendiag_ok (e : list V) (so : option shape) :
  let N := length e in let cs := diag_shape N so in let M := length cs in
  1 <= M ->
  dshape (tendiag v0 e so) = cs /\ wf_dense (tendiag v0 e so) /\
  (forall k, k < N -> den_dense v0 (tendiag v0 e so) (repeat k M) = nth k e v0) /\
  (forall i, (forall k, k < N -> i <> repeat k M) -> den_dense v0 (tendiag v0 e so) i = v0).
Proof.
  intros N cs M HM. unfold tendiag. fold N. fold cs. fold M.
  split; [reflexivity|]. split; [apply wf_full|].
  assert (Hb : Forall (fun i => inb cs i = true) (diag_subs N M)) by apply diag_subs_inb.
  set (S := mkSp cs (diag_subs N M) e).
  assert (HL : length (ssubs S) = length (svals S)) by (cbn; now rewrite diag_subs_length).
  split.
  - intros k Hk. rewrite den_full by exact Hb. fold S. unfold den_sp. apply last_match_in.
    + rewrite map_fst_entries by exact HL. cbn. now apply diag_subs_NoDup.
    + unfold entries. cbn [S ssubs svals]. rewrite <- (diag_subs_nth N M k Hk).
      rewrite <- (combine_nth (diag_subs N M) e k [] v0) by (now rewrite diag_subs_length).
      apply nth_In. rewrite combine_length, diag_subs_length. fold N. lia.
  - intros i Hi. rewrite den_full by exact Hb. apply den_sp_notin. cbn [ssubs].
    intros Hin. apply In_diag_subs in Hin as (k & Hk & E). now apply (Hi k).
Qed.
End Diag.

Section SpDiag.
Context {V : Type} (v0 : V) (vadd : V -> V -> V) (isz : V -> bool).
Hypothesis isz_spec : forall v, isz v = true <-> v = v0.
Hypothesis vadd_0_r : forall x, vadd x v0 = x.

(* sptendiag: same array as tendiag, as a well-formed sparse tensor (zero elements are not stored) *)
Theorem sptendiag_ok (e : list V) (so : option shape) :
  let N := length e in let cs := diag_shape N so in let M := length cs in
  1 <= M ->
  sshape (sptendiag v0 vadd isz e so) = cs /\ wf_sp isz (sptendiag v0 vadd isz e so) /\
  (forall k, k < N -> den_sp v0 (sptendiag v0 vadd isz e so) (repeat k M) = nth k e v0) /\
  (forall i, (forall k, k < N -> i <> repeat k M) -> den_sp v0 (sptendiag v0 vadd isz e so) i = v0) /\
  (forall k, k < N -> (In (repeat k M) (ssubs (sptendiag v0 vadd isz e so)) <-> isz (nth k e v0) = false)).
Proof.
  intros N cs M HM. unfold sptendiag. fold N. fold cs. fold M.
  assert (Hv : forall k, k < N -> sumv v0 vadd (vals_at (repeat k M) (diag_subs N M) e) = nth k e v0).
  { intros k Hk. rewrite <- (diag_subs_nth N M k Hk).
    rewrite (vals_at_nth v0) by (auto using diag_subs_NoDup; rewrite diag_subs_length; auto).
    cbn. apply vadd_0_r. }
  split; [reflexivity|]. split; [apply agg_wf, diag_subs_inb|]. split; [|split].
  - intros k Hk. rewrite (agg_den v0 isz isz_spec).
    replace (existsb (idx_eqb (repeat k M)) (diag_subs N M)) with true; [now apply Hv|].
    symmetry. apply existsb_idx_eqb, In_diag_subs. eauto.
  - intros i Hi. rewrite (agg_den v0 isz isz_spec).
    replace (existsb (idx_eqb i) (diag_subs N M)) with false; [reflexivity|].
    symmetry. apply not_true_is_false. intros H. apply existsb_idx_eqb, In_diag_subs in H as (k & Hk & E).
    now apply (Hi k).
  - intros k Hk. rewrite agg_entry_iff, (Hv k Hk). split; [tauto|]. intros H. split; auto.
    apply In_diag_subs. eauto.
Qed.
End SpDiag.

(* ================================================================ Kruskal tensor from a function *)
Section KFun.
Context {V : Type} (v0 v1 : V) (vadd vmul : V -> V -> V).
Hypothesis vmul_1_l : forall x, vmul v1 x = x.

Theorem kfrom_function_ok (s : shape) (R : nat) (outs : list (list (list V))) :
  Forall2 (fun d A => length A = d /\ Forall (fun row => length row = R) A) s outs ->
  let K := kfrom_function v1 R outs in
  kshape K = s /\ kweights K = repeat v1 R /\ kfactors K = outs /\ krank K = R /\ wf_k K /\
  (forall i, inb s i = true ->
     den_k v0 v1 vadd vmul K i = sum_n v0 vadd R (fun r => kprod v0 v1 vmul outs i r)).
Proof.
  intros H.
  assert (HW : Forall (fun A => Forall (fun r : list V => length r = R) A) outs).
  { induction H as [|d A s' outs' [_ HA] _ IH]; constructor; auto. }
  assert (Hm : map (@nrows V) outs = s).
  { clear HW. induction H as [|d A s' outs' [HA _] _ IH]; cbn; auto. unfold nrows at 1. now rewrite HA, IH. }
  intros K.
  assert (Hs : kshape K = s) by exact Hm.
  assert (HR : krank K = R) by (unfold krank, K, kfrom_function; cbn; apply repeat_length).
  split; [exact Hs|]. split; [reflexivity|]. split; [reflexivity|]. split; [exact HR|]. split.
  - unfold wf_k. rewrite HR. exact HW.
  - intros i Hi. unfold den_k. rewrite Hs, Hi, HR. apply sum_n_ext. intros r Hr.
    cbn [K kfrom_function kweights kfactors]. rewrite (nth_repeat_lt v1 v0) by exact Hr. apply vmul_1_l.
Qed.
End KFun.

(* ================================================================ random sparse generator: post-processing of the draws *)
Local Open Scope Z_scope.
Lemma scale1_lt (d : nat) (m : Z) : 0 <= m < 2 ^ 53 -> (0 < d)%nat -> (scale1 d m < d)%nat.
Proof.
  intros Hm Hd. unfold scale1.
  assert (H0 : 0 <= m * Z.of_nat d / 2 ^ 53) by (apply Z.div_pos; nia).
  assert (H1 : m * Z.of_nat d / 2 ^ 53 < Z.of_nat d) by (apply Z.div_lt_upper_bound; nia).
  apply Nat2Z.inj_lt. rewrite Z2Nat.id by exact H0. exact H1.
Qed.
Local Close Scope Z_scope.

Definition valid_row (s : shape) (row : list Z) : Prop :=
  length row = length s /\ Forall (fun m => (0 <= m < 2 ^ 53)%Z) row.
Definition valid_draw (s : shape) (d : list (list Z)) : Prop := Forall (valid_row s) d.

Lemma inb_scale_row s row : Forall (fun d => 0 < d) s -> valid_row s row -> inb s (scale_row s row) = true.
Proof.
  intros Hs [HL Hr]. revert row HL Hr. induction Hs as [|d s Hd Hs IH]; intros [|m row] HL Hr; cbn in HL; try lia; auto.
  inversion Hr as [|? ? Hm Hr']; subst. cbn [scale_row inb].
  rewrite IH by (auto; lia). rewrite andb_true_r. apply Nat.ltb_lt. now apply scale1_lt.
Qed.

Definition good (s : shape) (l : list idx) : Prop := NoDup l /\ Forall (fun i => inb s i = true) l.

Lemma cand_good s d : Forall (fun d => 0 < d) s -> valid_draw s d -> good s (cand s d).
Proof.
  intros Hs Hd. split; [apply unique_rows_NoDup|].
  rewrite Forall_forall. intros i Hi. unfold cand in Hi. apply (proj1 (unique_rows_In _ _)) in Hi. apply in_map_iff in Hi as (row & <- & Hrow).
  apply inb_scale_row; auto. unfold valid_draw in Hd. rewrite Forall_forall in Hd. auto.
Qed.

Lemma redraw_good fuel nz s cur ds : Forall (fun d => 0 < d) s -> Forall (valid_draw s) ds ->
  good s cur -> good s (fst (redraw fuel nz s cur ds)).
Proof.
  intros Hs. revert cur ds. induction fuel as [|f IH]; intros cur ds Hds Hc; cbn [redraw]; auto.
  destruct (length cur <? nz); auto. destruct ds as [|d ds]; auto.
  inversion Hds; subst. cbn [fst]. apply IH; auto. now apply cand_good.
Qed.

Lemma In_firstn {A} (x : A) n l : In x (firstn n l) -> In x l.
Proof. revert l; induction n as [|n IH]; intros [|a l]; cbn; auto; try tauto. intros [H|H]; auto. Qed.

Lemma NoDup_firstn {A} n (l : list A) : NoDup l -> NoDup (firstn n l).
Proof.
  revert l; induction n as [|n IH]; intros [|a l] H; cbn; try constructor.
  - inversion H; subst. intros Hin. apply In_firstn in Hin. contradiction.
  - inversion H; subst. now apply IH.
Qed.

Lemma dedup_first_NoDup l : NoDup (dedup_first l).
Proof. unfold dedup_first. apply NoDup_rev, dedup_NoDup. Qed.
Lemma dedup_first_In i l : In i (dedup_first l) <-> In i l.
Proof. unfold dedup_first. rewrite <- in_rev, dedup_In, <- in_rev. tauto. Qed.

(* the number of distinct rows does not depend on the order of the list *)
Lemma dedup_length_incl l l' : NoDup l -> incl l l' -> length l <= length (dedup l').
Proof. intros Hn Hi. apply NoDup_incl_length; [exact Hn|]. intros i H. apply dedup_In. now apply Hi. Qed.
Lemma dedup_length_same l l' : (forall i, In i l <-> In i l') -> length (dedup l) = length (dedup l').
Proof.
  intros H. apply Nat.le_antisymm; (apply dedup_length_incl; [apply dedup_NoDup|]); intros i Hi;
    apply (proj1 (dedup_In _ _)) in Hi; specialize (H i); tauto.
Qed.
Lemma dedup_first_length l : length (dedup_first l) = length (dedup l).
Proof. unfold dedup_first. rewrite rev_length. apply dedup_length_same. intros i. symmetry. apply in_rev. Qed.

Lemma redraw_NoDup fuel nz s cur ds : NoDup cur -> NoDup (fst (redraw fuel nz s cur ds)).
Proof.
  revert cur ds. induction fuel as [|f IH]; intros cur ds Hc; cbn [redraw]; auto.
  destruct (length cur <? nz); auto. destruct ds as [|d ds]; auto. cbn [fst]. apply IH, unique_rows_NoDup.
Qed.

(* the loop's final candidate is the start value or the candidate of one of the consumed draws *)
Lemma redraw_origin fuel nz s cur ds :
  fst (redraw fuel nz s cur ds) = cur \/
  exists d, In d (firstn (snd (redraw fuel nz s cur ds)) ds) /\ fst (redraw fuel nz s cur ds) = cand s d.
Proof.
  revert cur ds. induction fuel as [|f IH]; intros cur ds; cbn [redraw]; auto.
  destruct (length cur <? nz); auto. destruct ds as [|d ds]; auto.
  cbn [fst snd firstn]. destruct (IH (cand s d) ds) as [E|(d' & Hin & E)].
  - right. exists d. split; [now left|exact E].
  - right. exists d'. split; [now right|exact E].
Qed.

Lemma sprand_subs_NoDup nz s draws : NoDup (sprand_subs nz s draws).
Proof.
  unfold sprand_subs. cbv zeta. destruct (_ <? _); [apply unique_rows_NoDup|].
  unfold sprand_loop_subs. apply NoDup_firstn, redraw_NoDup. constructor.
Qed.

Lemma sprand_subs_length_le nz s draws : length (sprand_subs nz s draws) <= nz.
Proof.
  unfold sprand_subs. cbv zeta. destruct (_ <? _).
  - rewrite unique_rows_length. etransitivity; [apply dedup_length_le|]. rewrite firstn_length. lia.
  - unfold sprand_loop_subs. rewrite firstn_length. lia.
Qed.

Lemma pool_rows_inb s draws : Forall (fun d => 0 < d) s -> Forall (valid_draw s) draws ->
  forall i, In i (pool_rows s draws) -> inb s i = true.
Proof.
  intros Hs Hd i Hi. unfold pool_rows in Hi. apply in_flat_map in Hi as (d & Hd1 & Hd2).
  apply in_map_iff in Hd2 as (row & <- & Hrow). rewrite Forall_forall in Hd. specialize (Hd d Hd1).
  unfold valid_draw in Hd. rewrite Forall_forall in Hd. apply inb_scale_row; auto.
Qed.

Lemma Forall_firstn {A} (P : A -> Prop) n l : Forall P l -> Forall P (firstn n l).
Proof. rewrite !Forall_forall. intros H x Hx. apply H. eapply In_firstn, Hx. Qed.

(* distinct and inside the shape, whatever the (valid) draws - the loop's candidate and the fallback alike *)
Lemma sprand_subs_good nz s draws : Forall (fun d => 0 < d) s -> Forall (valid_draw s) draws ->
  good s (sprand_subs nz s draws).
Proof.
  intros Hs Hd. split; [apply sprand_subs_NoDup|].
  unfold sprand_subs. cbv zeta. destruct (_ <? _).
  - rewrite Forall_forall. intros i Hi. apply (proj1 (unique_rows_In _ _)) in Hi. apply In_firstn in Hi.
    apply (proj1 (dedup_first_In _ _)) in Hi. revert Hi. apply pool_rows_inb; [exact Hs|]. now apply Forall_firstn.
  - destruct (redraw_good 10 nz s [] draws Hs Hd) as [_ Hb]; [split; constructor|].
    unfold sprand_loop_subs. rewrite Forall_forall in *. intros i Hi. apply In_firstn in Hi. auto.
Qed.

Section SpRand.
Context {V : Type} (isz : V -> bool).

(* whatever the draws: a well-formed sparse tensor of exactly the requested shape with at most the requested
   number of nonzeros, values = the supplied function's output *)
Theorem sprand_wf (nz : nat) (s : shape) (draws : list (list (list Z))) (vals : list V) :
  Forall (fun d => 0 < d) s -> Forall (valid_draw s) draws ->
  length vals = length (sprand_subs nz s draws) -> Forall (fun v => isz v = false) vals ->
  wf_sp isz (sprand nz s draws vals) /\ sshape (sprand nz s draws vals) = s /\
  svals (sprand nz s draws vals) = vals /\ nnz (sprand nz s draws vals) <= nz.
Proof.
  intros Hs Hd HL Hv.
  destruct (sprand_subs_good nz s draws Hs Hd) as [Hn Hb].
  split; [|split; [reflexivity|split; [reflexivity|]]].
  - unfold wf_sp, sprand. cbn [ssubs svals sshape]. repeat split; auto.
  - unfold nnz, sprand. cbn [ssubs]. apply sprand_subs_length_le.
Qed.
End SpRand.

Lemma cand_length s d :
  length (cand s d) <= length d /\ (length (cand s d) = length d <-> NoDup (map (scale_row s) d)).
Proof.
  unfold cand. rewrite unique_rows_length. split.
  - rewrite <- (map_length (scale_row s) d). apply dedup_length_le.
  - rewrite <- (map_length (scale_row s) d). apply dedup_length_eq.
Qed.

Definition distinct_rows (s : shape) (d : list (list Z)) : Prop := NoDup (map (scale_row s) d).

Lemma redraw_length fuel nz s cur ds : Forall (fun d => length d = nz) ds -> length cur <= nz ->
  length (fst (redraw fuel nz s cur ds)) <= nz.
Proof.
  revert cur ds. induction fuel as [|f IH]; intros cur ds Hds Hc; cbn [redraw]; auto.
  destruct (length cur <? nz); auto. destruct ds as [|d ds]; auto.
  inversion Hds; subst. cbn [fst]. apply IH; auto. apply cand_length.
Qed.

Lemma redraw_full fuel nz s cur ds : Forall (fun d => length d = nz) ds -> length cur <= nz -> fuel <= length ds ->
  (length (fst (redraw fuel nz s cur ds)) = nz <-> length cur = nz \/ Exists (distinct_rows s) (firstn fuel ds)).
Proof.
  revert cur ds. induction fuel as [|f IH]; intros cur ds Hds Hc Hf; cbn [redraw firstn fst].
  - split; auto. intros [H|H]; auto. inversion H.
  - destruct (Nat.ltb_spec (length cur) nz) as [Hlt|Hge].
    + destruct ds as [|d ds]; [cbn in Hf; lia|]. inversion Hds as [|? ? Hd Hds']; subst.
      assert (Hc' : length (cand s d) <= length d) by apply cand_length.
      assert (Hf' : f <= length ds) by (cbn in Hf; lia).
      cbn [fst firstn]. rewrite (IH (cand s d) ds Hds' Hc' Hf').
      rewrite Exists_cons. destruct (cand_length s d) as [_ Hiff]. rewrite Hiff. unfold distinct_rows. split.
      * intros [H|H]; auto.
      * intros [H|[H|H]]; auto. lia.
    + cbn [fst]. split; auto. intros _. lia.
Qed.

(* the number of nonzeros (after the repair of finding A-46): min(request, number of DISTINCT rows over ALL consumed draws);
   so it equals the request exactly when the consumed draws together hold that many distinct rows - in particular
   whenever the request is zero or one single draw of the (at most ten) has pairwise distinct scaled rows *)
Theorem sprand_count (nz : nat) (s : shape) (draws : list (list (list Z))) :
  let pool := pool_rows s (firstn (sprand_consumed nz s draws) draws) in
  length (sprand_subs nz s draws) = Nat.min nz (length (dedup pool)) /\
  (length (sprand_subs nz s draws) = nz <-> nz <= length (dedup pool)) /\
  (Forall (fun d => length d = nz) draws -> 10 <= length draws ->
   nz = 0 \/ Exists (distinct_rows s) (firstn 10 draws) -> length (sprand_subs nz s draws) = nz).
Proof.
  intros pool.
  assert (H1 : length (sprand_subs nz s draws) = Nat.min nz (length (dedup pool))).
  { unfold pool, sprand_consumed, sprand_subs, sprand_loop_subs. cbv zeta.
    pose proof (redraw_origin 10 nz s [] draws) as Ho.
    set (r := redraw 10 nz s [] draws) in *.
    destruct (Nat.ltb_spec (length (fst r)) nz) as [Hlt|Hge].
    - rewrite unique_rows_length, dedup_NoDup_id by apply NoDup_firstn, dedup_first_NoDup.
      rewrite firstn_length, dedup_first_length. reflexivity.
    - rewrite firstn_length.
      assert (nz <= length (dedup (pool_rows s (firstn (snd r) draws)))); [|lia].
      destruct Ho as [E|(d & Hin & E)].
      + rewrite E in Hge. cbn in Hge. lia.
      + etransitivity; [exact Hge|]. rewrite E. apply dedup_length_incl; [apply unique_rows_NoDup|].
        intros i Hi. apply (proj1 (unique_rows_In _ _)) in Hi. unfold pool_rows. apply in_flat_map. exists d. split; auto. }
  split; [exact H1|]. split; [rewrite H1; lia|].
  intros Hd HL Hex.
  pose proof (redraw_length 10 nz s [] draws Hd (Nat.le_0_l nz)) as Hle.
  assert (Hfull : length (fst (redraw 10 nz s [] draws)) = nz).
  { apply (redraw_full 10 nz s [] draws Hd (Nat.le_0_l nz) HL). cbn [length]. destruct Hex as [->|H]; auto. }
  unfold sprand_subs, sprand_loop_subs. cbv zeta. rewrite Hfull, Nat.ltb_irrefl, firstn_length. lia.
Qed.

(* the first draw already distinct: one draw is consumed and the stored subscripts are its sorted rows *)
Theorem sprand_first_draw (nz : nat) (s : shape) (d : list (list Z)) (ds : list (list (list Z))) :
  0 < nz -> length d = nz -> distinct_rows s d ->
  sprand_subs nz s (d :: ds) = cand s d /\ sprand_consumed nz s (d :: ds) = 1.
Proof.
  intros Hnz HL Hd. unfold sprand_subs, sprand_loop_subs, sprand_consumed. cbv zeta.
  assert (E : length (cand s d) = nz) by (rewrite <- HL; now apply cand_length).
  assert (R : redraw 10 nz s [] (d :: ds) = (cand s d, 1)).
  { cbn [redraw length]. destruct (Nat.ltb_spec 0 nz); [|lia]. cbn [redraw].
    rewrite E, Nat.ltb_irrefl. reflexivity. }
  rewrite R. cbn [fst snd]. rewrite E, Nat.ltb_irrefl. split; auto. rewrite <- E. apply firstn_all.
Qed.

(* ================================================================ teneye, order 2 *)
Lemma teneye_count_2 a b : teneye_count [a; b] = if Nat.eqb a b then 2 else 0.
Proof.
  unfold teneye_count. cbn. rewrite (Nat.eqb_sym b a). destruct (Nat.eqb a b); reflexivity.
Qed.

(* ================================================================ what the code does NOT guarantee *)
(* "the requested number of nonzeros" as the property states it, for every admissible stream of draws *)
Definition requested_count_stmt : Prop :=
  forall (nz : nat) (s : shape) (draws : list (list (list Z))),
  Forall (fun d => 0 < d) s -> Forall (valid_draw s) draws -> Forall (fun d => length d = nz) draws ->
  10 <= length draws -> nz < size s -> length (sprand_subs nz s draws) = nz.

(* still refuted for the REPAIRED code (union fallback, /repo bc5da93) by a stream whose ten draws all hit one and the same
   cell: no bounded number of draws with replacement can guarantee the request; what IS guaranteed is sprand_count
   (nnz = min(request, distinct rows over all consumed draws)) *)
Theorem requested_count_refuted : ~ requested_count_stmt.
Proof.
  intros H. specialize (H 2 [2; 3] (repeat [[0; 0]; [0; 0]]%Z 10)).
  assert (Hv : valid_draw [2; 3] [[0; 0]; [0; 0]]%Z).
  { repeat constructor; cbn; lia. }
  assert (E : length (sprand_subs 2 [2; 3] (repeat [[0; 0]; [0; 0]]%Z 10)) = 1) by (vm_compute; reflexivity).
  rewrite E in H. assert (1 = 2); [|lia]. apply H.
  - repeat constructor.
  - cbn [repeat]. repeat (constructor; [exact Hv|]). constructor.
  - cbn [repeat]. repeat constructor.
  - cbn. lia.
  - cbn. lia.
Qed.

(* ================================================================ request normalisation (exact rational model) *)
Local Open Scope Z_scope.
Lemma div_eq_cross (a c : Z) (b d : positive) : a * Zpos d = c * Zpos b -> a / Zpos b = c / Zpos d.
Proof.
  intros H. rewrite <- (Z.div_mul_cancel_r a (Zpos b) (Zpos d)) by lia.
  rewrite H, Z.mul_comm with (n := Zpos b). apply Z.div_mul_cancel_r; lia.
Qed.

Lemma zceil_bounds n d : Zpos d * (zceil n d - 1) < n <= Zpos d * zceil n d.
Proof.
  unfold zceil. pose proof (Z.div_mod (- n) (Zpos d) ltac:(lia)) as E.
  pose proof (Z.mod_pos_bound (- n) (Zpos d) ltac:(lia)) as B. nia.
Qed.

(* the double product is exact (rn/rd = total * p/q as rationals): the faithful model is the exact-rational one *)
Theorem norm_request_fl_exact (total : nat) p q rn rd :
  rn * Zpos q = Z.of_nat total * p * Zpos rd -> norm_request_fl total p q rn rd = norm_request total p q.
Proof.
  intros H. unfold norm_request, norm_request_fl, zceil.
  rewrite (div_eq_cross (- rn) (- (Z.of_nat total * p)) rd q) by lia. reflexivity.
Qed.

(* sptensor.from_function's reading of a request p/q after /repo 2b4b024 (repair of C20-N3), case by case (t = prod(shape)):
   rejected  iff  p/q < 0 or p/q > t or t = 0;   p/q = t: SATURATED, count t;   0 <= p/q < 1: a density, count =
   ceil(t * p/q), which lies in [0, t] and is positive iff p > 0;   1 <= p/q < t: a count, floor(p/q), which lies in [1, t) *)
Theorem norm_request_cases (total : nat) p q :
  let t := Z.of_nat total in
  (norm_request total p q = None <-> p < 0 \/ t * Zpos q < p \/ total = 0%nat) /\
  ((0 < total)%nat -> p = t * Zpos q -> norm_request total p q = Some (true, total)) /\
  (0 <= p < Zpos q -> p < t * Zpos q ->
     exists c, norm_request total p q = Some (false, c) /\ Z.of_nat c = zceil (t * p) q /\
               Zpos q * (Z.of_nat c - 1) < t * p <= Zpos q * Z.of_nat c /\ (c <= total)%nat /\ ((0 < c)%nat <-> 0 < p)) /\
  (Zpos q <= p < t * Zpos q ->
     exists c, norm_request total p q = Some (false, c) /\ Z.of_nat c = p / Zpos q /\
               Zpos q * Z.of_nat c <= p < Zpos q * (Z.of_nat c + 1) /\ (1 <= c < total)%nat).
Proof.
  intros t. unfold norm_request, norm_request_fl. fold t.
  assert (Ht : 0 <= t) by (unfold t; lia).
  assert (Ht0 : t = 0 <-> total = 0%nat) by (unfold t; lia).
  repeat split.
  - destruct (Z.ltb_spec p 0); [intros _; now left|].
    destruct (Z.ltb_spec (t * Zpos q) p); [intros _; right; now left|].
    destruct (Z.eqb_spec t 0) as [E|E]; [intros _; right; right; now apply Ht0|]. cbn [orb].
    destruct (Z.eqb_spec p (t * Zpos q)); [discriminate|]. destruct (Z.ltb_spec p (Zpos q)); discriminate.
  - intros [H|[H|H]].
    + destruct (Z.ltb_spec p 0); [reflexivity|lia].
    + destruct (Z.ltb_spec (t * Zpos q) p); [now rewrite orb_true_r|lia].
    + apply Ht0 in H. rewrite H. cbn [Z.eqb]. now rewrite orb_true_r.
  - intros Hpos ->. destruct (Z.ltb_spec (t * Zpos q) 0); [nia|]. rewrite Z.ltb_irrefl.
    destruct (Z.eqb_spec t 0); [lia|]. cbn [orb]. now rewrite Z.eqb_refl.
  - intros H1 H2. destruct (Z.ltb_spec p 0); [lia|]. destruct (Z.ltb_spec (t * Zpos q) p); [lia|].
    destruct (Z.eqb_spec t 0); [nia|]. cbn [orb]. destruct (Z.eqb_spec p (t * Zpos q)); [lia|].
    destruct (Z.ltb_spec p (Zpos q)); [|lia].
    pose proof (zceil_bounds (t * p) q) as B.
    assert (Hc0 : 0 <= zceil (t * p) q) by nia.
    exists (Z.to_nat (zceil (t * p) q)). rewrite Z2Nat.id by exact Hc0.
    split; [reflexivity|]. split; [reflexivity|]. split; [exact B|]. split; [|split; intros; nia].
    apply Nat2Z.inj_le. rewrite Z2Nat.id by exact Hc0. fold t. nia.
  - intros H1. destruct (Z.ltb_spec p 0); [lia|]. destruct (Z.ltb_spec (t * Zpos q) p); [lia|].
    destruct (Z.eqb_spec t 0); [nia|]. cbn [orb]. destruct (Z.eqb_spec p (t * Zpos q)); [lia|].
    destruct (Z.ltb_spec p (Zpos q)); [lia|].
    pose proof (Z.div_mod p (Zpos q) ltac:(lia)) as E. pose proof (Z.mod_pos_bound p (Zpos q) ltac:(lia)) as B.
    assert (Hc0 : 0 <= p / Zpos q) by (apply Z.div_pos; lia).
    exists (Z.to_nat (p / Zpos q)). rewrite Z2Nat.id by exact Hc0.
    split; [reflexivity|]. split; [reflexivity|]. split; [nia|].
    split; apply Nat2Z.inj_le || apply Nat2Z.inj_lt; rewrite ?Z2Nat.id by exact Hc0; fold t; cbn; nia.
Qed.

(* saturated exactly when the request equals the (positive) tensor size; the count is then the size itself *)
Theorem norm_request_saturated (total : nat) p q c :
  norm_request total p q = Some (true, c) <-> (p = Z.of_nat total * Zpos q /\ (0 < total)%nat /\ c = total).
Proof.
  split.
  - unfold norm_request, norm_request_fl. set (t := Z.of_nat total).
    destruct (_ || _ || (t =? 0)) eqn:G; [discriminate|].
    apply orb_false_iff in G as [_ G]. apply Z.eqb_neq in G.
    destruct (Z.eqb_spec p (t * Zpos q)) as [E|E].
    + intros H. inversion H. unfold t in *. repeat split; auto; lia.
    + destruct (p <? Zpos q); discriminate.
  - intros (-> & H & ->). now apply norm_request_cases.
Qed.

(* after the repair of C20-N3 the code reads EVERY request as the property does (the count; no exception any more) *)
Theorem norm_request_eq_spec (total : nat) p q :
  option_map snd (norm_request total p q) = norm_request_spec total p q.
Proof.
  unfold norm_request, norm_request_fl, norm_request_spec. set (t := Z.of_nat total).
  destruct (_ || _ || (t =? 0)) eqn:G; [reflexivity|].
  apply orb_false_iff in G as [G G0]. apply orb_false_iff in G as [G1 G2].
  apply Z.eqb_neq in G0. apply Z.ltb_ge in G1, G2.
  assert (Ht : 0 < t) by (unfold t in *; lia).
  destruct (Z.eqb_spec p (t * Zpos q)) as [E|E]; cbn [option_map snd].
  - destruct (Z.ltb_spec p (Zpos q)); [nia|]. rewrite E, Z.div_mul by lia. unfold t. now rewrite Nat2Z.id.
  - destruct (p <? Zpos q); reflexivity.
Qed.

(* sptenrand(shape, density = p/q) after repair C20-N1: the count the code derives IS floor(prod(shape) * density)
   for every density in (0, 1) and every non-empty shape (a count of zero included); never saturated *)
Theorem density_count (total : nat) (p : Z) (q : positive) :
  (0 < total)%nat -> 0 < p < Zpos q ->
  sptenrand_count_impl total p q = Some (false, sptenrand_count_spec total p q).
Proof.
  intros Ht Hp. unfold sptenrand_count_impl, sptenrand_count_fl, sptenrand_guard, sptenrand_count_spec.
  destruct (Z.ltb_spec 0 p); [|lia]. destruct (Z.leb_spec p (Zpos q)); [|lia]. cbn [andb].
  set (t := Z.of_nat total). set (c := t * p / Zpos q).
  assert (Ht' : 0 < t) by (unfold t; lia).
  assert (Hc0 : 0 <= c) by (apply Z.div_pos; nia).
  assert (Hc1 : c < t) by (apply Z.div_lt_upper_bound; nia).
  unfold norm_request, norm_request_fl. fold t.
  destruct (Z.ltb_spec c 0); [lia|]. destruct (Z.ltb_spec (t * 1) c); [lia|].
  destruct (Z.eqb_spec t 0); [lia|]. cbn [orb]. destruct (Z.eqb_spec c (t * 1)); [lia|].
  destruct (Z.ltb_spec c 1).
  - assert (c = 0) by lia. replace c with 0 by lia. rewrite Z.mul_0_r. reflexivity.
  - now rewrite Z.div_1_r.
Qed.

(* the guard: a density outside (0, 1] is rejected; density = 1 is admitted by the guard, by the property AND (after
   the repair of C20-N3) by from_function: the saturated request, all prod(shape) entries *)
Theorem density_guard (total : nat) (p : Z) (q : positive) :
  (p <= 0 \/ Zpos q < p -> sptenrand_count_impl total p q = None /\ sptenrand_request_spec total p q = None) /\
  (p = Zpos q -> (0 < total)%nat ->
   sptenrand_count_impl total p q = Some (true, total) /\ sptenrand_request_spec total p q = Some total).
Proof.
  unfold sptenrand_count_impl, sptenrand_count_fl, sptenrand_request_spec, sptenrand_guard, sptenrand_count_spec. split.
  - intros [H|H].
    + destruct (Z.ltb_spec 0 p); [lia|]. cbn [andb]. auto.
    + destruct (Z.leb_spec p (Zpos q)); [lia|]. rewrite andb_false_r. auto.
  - intros -> Ht. destruct (Z.ltb_spec 0 (Zpos q)); [|lia]. rewrite Z.leb_refl. cbn [andb].
    rewrite Z.div_mul by lia. rewrite Nat2Z.id. destruct (Nat.eqb_spec total 0); [lia|]. cbn [negb]. split; [|reflexivity].
    apply norm_request_cases; [exact Ht|lia].
Qed.

(* sptenrand's reading of EVERY density equals the property's (count; rejected alike) - no exception any more *)
Theorem density_eq_spec (total : nat) (p : Z) (q : positive) :
  option_map snd (sptenrand_count_impl total p q) = sptenrand_request_spec total p q.
Proof.
  unfold sptenrand_count_impl, sptenrand_count_fl, sptenrand_request_spec, sptenrand_count_spec.
  destruct (sptenrand_guard p q) eqn:G; [|reflexivity]. cbn [andb].
  rewrite norm_request_eq_spec. unfold norm_request_spec.
  unfold sptenrand_guard in G. apply andb_true_iff in G as [G1 G2]. apply Z.ltb_lt in G1. apply Z.leb_le in G2.
  set (t := Z.of_nat total). set (c := t * p / Zpos q).
  assert (Ht : 0 <= t) by (unfold t; lia).
  assert (Hc0 : 0 <= c) by (apply Z.div_pos; nia).
  assert (Hc1 : c <= t) by (apply Z.div_le_upper_bound; nia).
  destruct (Z.ltb_spec c 0); [lia|]. destruct (Z.ltb_spec (t * 1) c); [lia|]. cbn [orb].
  destruct (Nat.eqb_spec total 0) as [E|E].
  - destruct (Z.eqb_spec t 0); [reflexivity|unfold t in *; lia].
  - destruct (Z.eqb_spec t 0); [unfold t in *; lia|]. cbn [negb].
    destruct (Z.ltb_spec c 1).
    + assert (c = 0) by lia. replace c with 0 by lia. rewrite Z.mul_0_r. reflexivity.
    + now rewrite Z.div_1_r.
Qed.

(* the double product is exact: the faithful count is the exact-rational one *)
Theorem sptenrand_count_fl_exact (total : nat) p q rn rd :
  rn * Zpos q = Z.of_nat total * p * Zpos rd -> sptenrand_count_fl total p q rn rd = sptenrand_count_impl total p q.
Proof.
  intros H. unfold sptenrand_count_impl, sptenrand_count_fl.
  rewrite (div_eq_cross rn (Z.of_nat total * p) rd q) by lia. reflexivity.
Qed.
Local Close Scope Z_scope.

(* ================================================================ guards of from_aggregator *)
Section AggGuard.
Context {V : Type} (isz : V -> bool).
Definition agg_shape_of (so : option shape) (N : nat) (subs : list idx) : shape :=
  match so with Some s => s | None => infer_shape N subs end.

Theorem agg_guard_accept so N subs (vals : list V) f :
  length subs = length vals -> Forall (fun i => inb (agg_shape_of so N subs) i = true) subs ->
  from_aggregator_chk isz so N subs vals f = Some (from_aggregator isz (agg_shape_of so N subs) subs vals f).
Proof.
  intros HL Hb. unfold from_aggregator_chk. fold (agg_shape_of so N subs).
  rewrite HL, Nat.eqb_refl. cbn [negb].
  replace (forallb (inb (agg_shape_of so N subs)) subs) with true; [reflexivity|].
  symmetry. apply forallb_forall. rewrite Forall_forall in Hb. exact Hb.
Qed.

Theorem agg_guard_reject so N subs (vals : list V) f :
  length subs <> length vals \/ Exists (fun i => inb (agg_shape_of so N subs) i = false) subs ->
  from_aggregator_chk isz so N subs vals f = None.
Proof.
  intros H. unfold from_aggregator_chk. fold (agg_shape_of so N subs).
  destruct (Nat.eqb_spec (length subs) (length vals)) as [E|E]; cbn [negb]; auto.
  destruct H as [H|H]; [contradiction|].
  replace (forallb (inb (agg_shape_of so N subs)) subs) with false; [reflexivity|].
  symmetry. apply not_true_is_false. intros Hf. rewrite forallb_forall in Hf.
  apply Exists_exists in H as (i & Hi & Hz). rewrite (Hf i Hi) in Hz. discriminate.
Qed.
End AggGuard.

(* ================================================================ stored order: ascending lexicographic, strictly *)
From Coq Require Import Sorting.Sorted Relations.
Definition idx_lt (i j : idx) : Prop := idx_ltb i j = true.

Lemma idx_ltb_irrefl i : idx_ltb i i = false.
Proof. induction i as [|x i IH]; cbn [idx_ltb]; auto. rewrite Nat.ltb_irrefl, Nat.eqb_refl, IH. reflexivity. Qed.

Lemma idx_ltb_trans i j k : idx_ltb i j = true -> idx_ltb j k = true -> idx_ltb i k = true.
Proof.
  revert j k; induction i as [|x i IH]; intros [|y j] [|z k]; cbn [idx_ltb]; auto; try discriminate.
  intros H1 H2. apply orb_true_iff in H1, H2. apply orb_true_iff.
  destruct H1 as [H1|H1], H2 as [H2|H2].
  - left. apply Nat.ltb_lt in H1, H2. apply Nat.ltb_lt. lia.
  - apply andb_true_iff in H2 as [E _]. apply Nat.eqb_eq in E. subst. now left.
  - apply andb_true_iff in H1 as [E _]. apply Nat.eqb_eq in E. subst. now left.
  - apply andb_true_iff in H1 as [E1 R1]. apply andb_true_iff in H2 as [E2 R2].
    apply Nat.eqb_eq in E1, E2. subst. right. rewrite Nat.eqb_refl. cbn [andb]. eapply IH; eauto.
Qed.

Lemma idx_ltb_total i j : idx_ltb i j = false -> i <> j -> idx_ltb j i = true.
Proof.
  revert j; induction i as [|x i IH]; intros [|y j]; cbn [idx_ltb]; auto; try discriminate; try congruence.
  intros H Hne. apply orb_false_iff in H as [H1 H2]. apply Nat.ltb_ge in H1.
  destruct (Nat.eqb_spec x y) as [->|Hxy].
  - cbn [andb] in H2. rewrite Nat.ltb_irrefl, Nat.eqb_refl. cbn [orb andb]. apply IH; auto. congruence.
  - apply orb_true_iff. left. apply Nat.ltb_lt. lia.
Qed.

Lemma ins_idx_hd j i r : HdRel idx_lt j r -> idx_lt j i -> HdRel idx_lt j (ins_idx i r).
Proof.
  intros H Hji. destruct r as [|k r]; cbn; [now constructor|].
  destruct (idx_ltb k i); constructor; auto. now inversion H.
Qed.

Lemma ins_idx_sorted i l : ~ In i l -> Sorted idx_lt l -> Sorted idx_lt (ins_idx i l).
Proof.
  induction l as [|j r IH]; intros Hi Hs; cbn; [repeat constructor|].
  inversion Hs as [|? ? Hr Hh]; subst.
  destruct (idx_ltb j i) eqn:E.
  - constructor; [apply IH; auto; intros H; apply Hi; cbn; auto|]. now apply ins_idx_hd.
  - constructor; auto. constructor. apply idx_ltb_total; auto. intros ->. apply Hi. cbn; auto.
Qed.

Lemma sort_idx_sorted l : NoDup l -> Sorted idx_lt (sort_idx l).
Proof.
  induction 1 as [|i l Hi Hn IH]; cbn; [constructor|].
  apply ins_idx_sorted; auto. intros H. apply Hi. eapply Permutation_in; [apply sort_idx_perm|exact H].
Qed.

Theorem unique_rows_sorted l : StronglySorted idx_lt (unique_rows l).
Proof.
  apply Sorted_StronglySorted; [intros i j k; apply idx_ltb_trans|].
  apply sort_idx_sorted, dedup_NoDup.
Qed.

Lemma StronglySorted_filter {A} (R : A -> A -> Prop) (p : A -> bool) l :
  StronglySorted R l -> StronglySorted R (filter p l).
Proof.
  induction 1 as [|a l Hs IH Ha]; cbn; [constructor|].
  destruct (p a); auto. constructor; auto.
  rewrite Forall_forall in *. intros x Hx. apply filter_In in Hx as [Hx _]. auto.
Qed.

Lemma StronglySorted_firstn {A} (R : A -> A -> Prop) n l :
  StronglySorted R l -> StronglySorted R (firstn n l).
Proof.
  intros H. revert n. induction H as [|a l Hs IH Ha]; intros [|n]; cbn; try constructor; auto.
  rewrite Forall_forall in *. intros x Hx. apply In_firstn in Hx. auto.
Qed.

(* the stored subscripts of from_aggregator's result ascend strictly in lexicographic order *)
Theorem agg_sorted {V} (isz : V -> bool) s subs (vals : list V) f :
  StronglySorted idx_lt (ssubs (from_aggregator isz s subs vals f)).
Proof. cbn [from_aggregator ssubs]. apply StronglySorted_filter, unique_rows_sorted. Qed.

Lemma redraw_sorted fuel nz s cur ds : StronglySorted idx_lt cur ->
  StronglySorted idx_lt (fst (redraw fuel nz s cur ds)).
Proof.
  revert cur ds. induction fuel as [|f IH]; intros cur ds Hc; cbn [redraw]; auto.
  destruct (length cur <? nz); auto. destruct ds as [|d ds]; auto.
  cbn [fst]. apply IH. apply unique_rows_sorted.
Qed.

(* ... and so do those of the random sparse generator, whatever the draws *)
Theorem sprand_sorted nz s draws : StronglySorted idx_lt (sprand_subs nz s draws).
Proof.
  unfold sprand_subs. cbv zeta. destruct (_ <? _); [apply unique_rows_sorted|].
  unfold sprand_loop_subs. apply StronglySorted_firstn, redraw_sorted. constructor.
Qed.

(* ================================================================ value ranges: the function's output verbatim *)
Section Values.
Context {V : Type} (v0 : V).

(* tensor.from_function / tenrand: every stored value and every entry of the tensor IS a value the function returned,
   so any predicate that holds for the function's output (e.g. 0 <= u < 1 for the uniform draws) holds for the tensor *)
Theorem from_function_values (P : V -> Prop) (s : shape) (out T : dense V) :
  wf_dense out -> from_function v0 s out = Some T -> Forall P (ddata out) ->
  Forall P (ddata T) /\ (forall i, inb s i = true -> P (den_dense v0 T i)).
Proof.
  intros W E HP. unfold from_function in E.
  destruct (Nat.eqb_spec (length (ddata out)) (size s)) as [HL|]; [|discriminate].
  assert (Hs : size (dshape out) = size s) by (unfold wf_dense in W; lia).
  destruct (from_function_ok v0 s out W Hs) as (T' & E' & _ & _ & Hd & Hden).
  unfold from_function in E'. rewrite HL, Nat.eqb_refl in E'. rewrite E' in E. inversion E; subst T'.
  split; [now rewrite Hd|]. intros i Hi. rewrite Hden by exact Hi.
  rewrite Forall_forall in HP. apply HP, nth_In. rewrite HL. now apply sub2ind_lt.
Qed.

(* sptensor.from_function / sptenrand: the stored values are the supplied function's output verbatim, and the entry
   at the k-th stored subscript is the k-th value *)
Theorem sprand_values (nz : nat) (s : shape) (draws : list (list (list Z))) (vals : list V) :
  length vals = length (sprand_subs nz s draws) ->
  svals (sprand nz s draws vals) = vals /\
  (forall k, k < length vals ->
     den_sp v0 (sprand nz s draws vals) (nth k (sprand_subs nz s draws) []) = nth k vals v0) /\
  (forall P : V -> Prop, P v0 -> Forall P vals -> forall i, P (den_sp v0 (sprand nz s draws vals) i)).
Proof.
  intros HL. split; [reflexivity|].
  assert (Hn : NoDup (sprand_subs nz s draws)) by apply sprand_subs_NoDup.
  assert (Hk' : forall k, k < length vals ->
     den_sp v0 (sprand nz s draws vals) (nth k (sprand_subs nz s draws) []) = nth k vals v0).
  { intros k Hk. unfold den_sp. apply last_match_in.
    + rewrite map_fst_entries by (cbn; lia). exact Hn.
    + unfold entries. cbn [sprand ssubs svals].
      rewrite <- (combine_nth (sprand_subs nz s draws) vals k [] v0) by lia.
      apply nth_In. rewrite combine_length. lia. }
  split; [exact Hk'|].
  intros P P0 HP i. destruct (in_dec (list_eq_dec Nat.eq_dec) i (sprand_subs nz s draws)) as [Hin|Hout].
  - destruct (In_nth _ _ [] Hin) as (k & Hk & E). rewrite <- E.
    assert (Hk2 : k < length vals) by (rewrite HL; exact Hk). rewrite Hk' by exact Hk2.
    rewrite Forall_forall in HP. apply HP, nth_In. exact Hk2.
  - rewrite den_sp_notin by exact Hout. exact P0.
Qed.
End Values.
