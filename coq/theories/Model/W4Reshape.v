(* Model/W4Reshape.v — hand reference for sptensor.reshape as generated into Gen/GenSptensor4d.v (record sptz of Np/NpZ3.v).
   reshape(new_shape, old_modes): the listed modes (all, when old_modes is None) are folded into one linear index (F order) and
   unfolded over new_shape; the other modes are kept, in ascending order, in front.  The two conversions are the GENERATED
   tt_sub2ind / tt_ind2sub of Gen/GenUtils.v (their own theorems: Proofs/UtilsProofs.v). *)
From Coq Require Import List ZArith Bool.
From PV Require Import Np.NpZ Np.NpZ2 Np.NpZ3 Np.NpZ3c Np.NpZ3d Np.NpZ3e Np.NpZ4 Np.NpZ4b Np.NpZ4e Gen.GenUtils.
Import ListNotations.
Local Open Scope Z_scope.

(* the reshaped modes and the kept modes; a mode number outside [0, ndims) is rejected (/repo b27c529) *)
Definition H_reshape_modes (n : Z) (old_modes : option vec) : res (vec * vec) :=
  match old_modes with
  | Some old => if existsb (fun k => (k <? 0) || (k >=? n)) old then Err else Ok (old, np_setdiff1d (np_arange 0 n) old)
  | None => Ok (np_arange 0 n, [])
  end.

Definition H_sp_reshape (self : sptz) (new_shape : vec) (old_modes : option vec) : res sptz :=
  let shp := spt_shape self in
  bind (H_reshape_modes (zlen shp) old_modes) (fun mk =>
    let old := fst mk in let keep := snd mk in
    if np_take_ok shp old && np_take_ok shp keep then
      let old_shape := np_take 0 shp old in
      let res_shape := np_take 0 shp keep ++ new_shape in
      if existsb (fun d => d <? 0) new_shape then Err
      else if negb (zprod new_shape =? zprod old_shape) then Err
      else if zlen new_shape =? 0 then Err      (* AS IS: np.concatenate((keep_shape, ())) is a float64 array, which the
                                                   constructor refuses as a shape ("must be integer valued") — or, with stored
                                                   entries, np.unravel_index refuses the 0-d target before that *)
      else if np_size2 (spt_subs self) =? 0 then Ok (mkspt [] [] res_shape)
      else if np_cols_ok (spt_subs self) old then
        bind (tt_sub2ind old_shape (np_cols (spt_subs self) old) OrdF) (fun inds =>
        bind (tt_ind2sub new_shape inds OrdF) (fun new_subs =>
          let subs := np_hstack (np_cols (spt_subs self) keep) new_subs in
          if np_cols_ok (spt_subs self) keep && np_hstack_ok (np_cols (spt_subs self) keep) new_subs
             && spt_make_ok subs (spt_vals self) res_shape
          then Ok (mkspt subs (spt_vals self) res_shape) else Err))
      else Err
    else Err).
