(* Props/C09.v — CP-ALS returns a model consistent with everything it reports (PARTIAL: exact-arithmetic theorems).
   Only statements, `exact`, Print Assumptions and non-vacuity examples. *)
From Coq Require Import List Arith Bool ZArith Ring.
From PV Require Import Base.Index Base.Sum Np.Array Model.Sparse Model.Repr Model.C09Als Proofs.C09Identity.
Import ListNotations.

Section C09.
Variable V : Type.
Variables (v0 v1 : V) (vadd vmul vsub : V -> V -> V) (vopp : V -> V).
Hypothesis Vring : ring_theory v0 v1 vadd vmul vsub vopp (@eq V).

(* (1) the reported residual.  For every data array X (the denotation of a dense / sparse / Tucker / sum tensor on shape s),
   every Kruskal model K of that shape (any rank, weights, factors) and EVERY mode n (cp_als uses the mode updated last):
   normX^2 + ||K||^2 - 2 * sum_r w_r sum_j A_n[j,r] * MTTKRP_n(X;A)[j,r]  =  ||X - K||^2 *)
Theorem C09_fit_identity : forall (s : shape) (X : idx -> V) (K : ktensor V) (n : nat),
  kshape K = s -> n < length s ->
  let iprod := iprod_saved v0 vadd vmul (krank K) (nth n s 0) (kweights K) (nth n (kfactors K) [])
                 (mttkrp_den v0 v1 vadd vmul s X (kfactors K) n) in
  vsub (vadd (normsq_den v0 vadd vmul s X) (normsq_den v0 vadd vmul s (den_k v0 v1 vadd vmul K))) (vadd iprod iprod)
  = resid_den v0 vadd vmul vsub s X (den_k v0 v1 vadd vmul K).
Proof. exact (fit_identity V v0 v1 vadd vmul vsub vopp Vring). Qed.

(* sum-tensor data (its norm is reported as 0): the reported value is ||K||^2 - 2 <X,K> *)
Theorem C09_fit_identity_sum : forall (s : shape) (X : idx -> V) (K : ktensor V) (n : nat),
  kshape K = s -> n < length s ->
  let iprod := iprod_saved v0 vadd vmul (krank K) (nth n s 0) (kweights K) (nth n (kfactors K) [])
                 (mttkrp_den v0 v1 vadd vmul s X (kfactors K) n) in
  vsub (normsq_den v0 vadd vmul s (den_k v0 v1 vadd vmul K)) (vadd iprod iprod)
  = vsub (normsq_den v0 vadd vmul s (den_k v0 v1 vadd vmul K))
         (vadd (innerprod_den v0 vadd vmul s X (den_k v0 v1 vadd vmul K)) (innerprod_den v0 vadd vmul s X (den_k v0 v1 vadd vmul K))).
Proof. exact (fit_identity_sum V v0 v1 vadd vmul vsub vopp Vring). Qed.
End C09.

Print Assumptions C09_fit_identity.
Print Assumptions C09_fit_identity_sum.

(* non-vacuity: a concrete non-symmetric 3x2 rank-2 instance over Z, mode 1 *)
Example C09_fit_identity_example :
  let s := [3; 2] in
  let X := den_dense 0%Z (mkDense s [1; -2; 3; 0; 5; 4]%Z) in
  let K := mkK [2; -1]%Z [ [[1; 0]; [2; 1]; [0; 3]]; [[1; 2]; [-1; 1]] ]%Z in
  let iprod := iprod_saved 0%Z Z.add Z.mul 2 2 (kweights K) (nth 1 (kfactors K) [])
                 (mttkrp_den 0%Z 1%Z Z.add Z.mul s X (kfactors K) 1) in
  (iprod = -57 /\ innerprod_den 0%Z Z.add Z.mul s X (den_k 0%Z 1%Z Z.add Z.mul K) = -57 /\ resid_den 0%Z Z.add Z.mul Z.sub s X (den_k 0%Z 1%Z Z.add Z.mul K) = 251)%Z.
Proof. vm_compute. repeat split; reflexivity. Qed.
