(* Proofs/C20Lines.v — wave 5: tenones / tenzeros with a flexible shape argument, line by line over the GENERATED parse_shape. *)
From Coq Require Import List Arith ZArith Bool Lia.
From PV Require Import Np.NpZ Np.NpZ2 Np.NpZ3 Np.NpZ3b Gen.GenUtils3b Proofs.W3ShapeArgs.
From PV Require Import Base.Index Np.Array Model.Sparse Model.Repr Model.Harness Model.C20Gen Model.C20Harness Model.C20Diag
  Model.C20Lines.
From PV Require Import Proofs.C20Proofs Proofs.C20Guards.
Import ListNotations.
Local Open Scope Z_scope.

(* the lines are the request models of Model/C20Harness.v (C20_dense_generator_guard) behind the generated parse_shape *)
Theorem py_dense_generator_chk sp :
  py_tenones sp = bind (parse_shape sp) (fun s => res_of (ztenones_chk s)) /\
  py_tenzeros_req sp = bind (parse_shape sp) (fun s => res_of (ztenzeros_chk s)).
Proof.
  unfold py_tenones, py_tenzeros_req, py_dense_generator, ztenones_chk, ztenzeros_chk, dense_gen_guard.
  destruct (parse_shape sp) as [s|]; [|split; reflexivity]. cbn [bind].
  destruct (zshape_ok s); cbn [negb andb]; [|split; reflexivity].
  destruct (Nat.eqb (length s) 0); cbn [negb]; split; reflexivity.
Qed.

(* every request, any constant fill: rejected EXACTLY WHEN the generated parse_shape rejects the argument, or the parsed shape is
   empty or holds a negative size; otherwise the tensor has exactly the parsed shape and every stored cell is the fill value *)
Theorem py_dense_generator_spec (fill : Z) sp :
  (py_dense_generator fill sp = Err <->
     parse_shape sp = Err \/ exists s, parse_shape sp = Ok s /\ (s = [] \/ Exists (fun d => d < 0) s)) /\
  (forall T, py_dense_generator fill sp = Ok T ->
     exists s, parse_shape sp = Ok s /\ dshape T = to_shape s /\ wf_dense T /\
               ddata T = repeat fill (size (to_shape s)) /\
               forall i, inb (to_shape s) i = true -> den_dense 0 T i = fill).
Proof.
  unfold py_dense_generator. destruct (parse_shape sp) as [s|] eqn:Ep; cbn [bind].
  2:{ split; [split; [intros _; now left|reflexivity]|discriminate]. }
  destruct (tenfill_ok 0 (to_shape s) fill) as (T0 & E0 & Hs0 & W0 & Hd0 & Hden0).
  destruct (zshape_ok s) eqn:Ez; cbn [negb].
  - destruct (Nat.eqb (length s) 0) eqn:El.
    + apply Nat.eqb_eq in El. apply length_zero_iff_nil in El. split.
      * split; [intros _; right; exists s; split; [reflexivity|now left]|reflexivity].
      * discriminate.
    + unfold zfrom_function. rewrite E0. cbn [res_of]. split.
      * split; [discriminate|]. intros [H|(s' & H1 & H2)]; [discriminate|]. injection H1 as <-. exfalso.
        destruct H2 as [->|H2]; [discriminate|]. apply zshape_ok_spec in Ez. apply Exists_exists in H2 as (d & Hd & Hneg).
        rewrite Forall_forall in Ez. specialize (Ez d Hd). lia.
      * intros T HT. injection HT as <-. exists s. repeat split; auto.
  - split.
    + split; [intros _|reflexivity]. right. exists s. split; [reflexivity|right].
      apply Exists_exists. destruct (existsb (fun d => d <? 0) s) eqn:Ex.
      * apply existsb_exists in Ex as (d & Hd & Hneg). exists d. split; [exact Hd|]. now apply Z.ltb_lt.
      * exfalso. assert (zshape_ok s = true); [|congruence]. apply zshape_ok_spec. rewrite Forall_forall. intros d Hd.
        destruct (Z.ltb_spec d 0) as [Hlt|Hge]; [|exact Hge]. exfalso.
        assert (existsb (fun d => d <? 0) s = true); [|congruence]. apply existsb_exists. exists d. split; [exact Hd|].
        now apply Z.ltb_lt.
    + discriminate.
Qed.

(* a Python int is a one-mode shape; a flat list / tuple of ints is read verbatim *)
Theorem py_dense_generator_forms (fill : Z) :
  (forall k, py_dense_generator fill (SInt k) = py_dense_generator fill (STuple (ints [k]))) /\
  (forall l, py_dense_generator fill (SList (ints l)) = py_dense_generator fill (STuple (ints l))).
Proof.
  split.
  - intros k. unfold py_dense_generator. rewrite parse_shape_int, (proj1 (parse_shape_ints [k])). reflexivity.
  - intros l. unfold py_dense_generator. rewrite (proj1 (parse_shape_ints l)), (proj2 (parse_shape_ints l)). reflexivity.
Qed.

Example py_dense_generator_example :
  py_tenones (SInt 3) = Ok (mkDense [3%nat] [1; 1; 1]) /\
  py_tenzeros_req (SArr (mknd [2; 1] DInt [NFin 2; NFin 1])) = Ok (mkDense [2%nat; 1%nat] [0; 0]) /\
  py_tenones (STuple []) = Err /\ py_tenones (STuple (ints [2; -1])) = Err /\
  py_tenones (SArr (mknd [2] DFloat [NFin 2; NFin 1])) = Err /\
  py_tenones (STuple (ints [2; 0])) = Ok (mkDense [2%nat; 0%nat] []).
Proof. repeat split; vm_compute; reflexivity. Qed.
