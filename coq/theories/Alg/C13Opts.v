(* Alg/C13Opts.v — the option dictionary of pyttb.gcp.optimizers.LBFGSB (wave 5, builder w5-C13).

   Transliteration of what LBFGSB.__init__ / _non_empty_kwargs / solve do with `self._solver_kwargs`:
     __init__            self._solver_kwargs = {"m": m, "factr": factr, "pgtol": pgtol, "epsilon": epsilon, "iprint": iprint,
                                               "disp": disp, "maxfun": maxfun, "maxiter": maxiter, "callback": callback, "maxls": maxls}
                         (EVERY key is stored, unset options as None)
     solve               if "pgtol" not in self._solver_kwargs: self._solver_kwargs["pgtol"] = 1e-4 * np.prod(data.shape)
                         self._solver_kwargs["callback"] = monitor
                         fmin_l_bfgs_b(..., **self._non_empty_kwargs())
                         self._solver_kwargs["callback"] = monitor.callback
     _non_empty_kwargs   {key: value for key, value in self._solver_kwargs.items() if value is not None}

   What C13 needs of it ("a solver object can be used for several solves, each depending only on its arguments, not on earlier
   solves — same or different problem sizes"): the options handed to scipy in ANY solve of ANY sequence of solves on one object are
   a function of the constructor arguments alone — neither of the size of the data of this solve nor of the sizes seen earlier —
   and the dictionary is back to its constructor value after every solve.  The size-derived default of pgtol is dead code for a
   dictionary built by the constructor (the key is always present); the model keeps the branch, the theorem shows it is never
   taken.  The values are abstract (Val); the check instantiates them with exact rationals / a callback tag. *)
From Coq Require Import List String Bool ZArith.
Import ListNotations.
Local Open Scope string_scope.
Local Open Scope list_scope.

Section Opts.
Variable Val : Type.
Definition okwargs := list (string * option Val).          (* a Python dict: insertion-ordered (key, value) pairs, None = None *)

Definition has_key (k : string) (kw : okwargs) : bool := existsb (fun p => String.eqb (fst p) k) kw.
(* d[k] = v : an existing key keeps its position, a new key is appended *)
Definition set_key (k : string) (v : option Val) (kw : okwargs) : okwargs :=
  if has_key k kw then map (fun p => if String.eqb (fst p) k then (k, v) else p) kw else kw ++ [(k, v)].
Fixpoint get_key (k : string) (kw : okwargs) : option (option Val) :=
  match kw with [] => None | (k', v) :: r => if String.eqb k' k then Some v else get_key k r end.
(* _non_empty_kwargs *)
Fixpoint non_empty (kw : okwargs) : list (string * Val) :=
  match kw with [] => [] | (k, Some v) :: r => (k, v) :: non_empty r | (_, None) :: r => non_empty r end.

(* the constructor arguments in the order of the dictionary literal *)
Record ctor := mkCtor { c_m : option Val; c_factr : option Val; c_pgtol : option Val; c_epsilon : option Val; c_iprint : option Val;
                        c_disp : option Val; c_maxfun : option Val; c_maxiter : option Val; c_callback : option Val; c_maxls : option Val }.
Definition ctor_kwargs (c : ctor) : okwargs :=
  [("m", c_m c); ("factr", c_factr c); ("pgtol", c_pgtol c); ("epsilon", c_epsilon c); ("iprint", c_iprint c);
   ("disp", c_disp c); ("maxfun", c_maxfun c); ("maxiter", c_maxiter c); ("callback", c_callback c); ("maxls", c_maxls c)].

Variable pg_default : Z -> Val.          (* 1e-4 * np.prod(data.shape) *)
Variable monitor_of : option Val -> Val. (* LBFGSB.Monitor(maxiter, user callback) *)

(* the dictionary while scipy runs *)
Definition solve_prepare (kw : okwargs) (size : Z) : okwargs :=
  let kw := if has_key "pgtol" kw then kw else set_key "pgtol" (Some (pg_default size)) kw in
  let user := match get_key "callback" kw with Some u => u | None => None end in      (* kwargs.get("callback", None) *)
  set_key "callback" (Some (monitor_of user)) kw.
Definition handed (kw : okwargs) (size : Z) : list (string * Val) := non_empty (solve_prepare kw size).
(* ... and after the solve: the slot holds monitor.callback = the user's callback again *)
Definition solve_after (kw : okwargs) (size : Z) : okwargs :=
  let user := match get_key "callback" (if has_key "pgtol" kw then kw else set_key "pgtol" (Some (pg_default size)) kw) with
              | Some u => u | None => None end in
  set_key "callback" user (solve_prepare kw size).
(* a sequence of solves on one object: what scipy is handed in each *)
Fixpoint handed_seq (kw : okwargs) (sizes : list Z) : list (list (string * Val)) :=
  match sizes with [] => [] | s :: r => handed kw s :: handed_seq (solve_after kw s) r end.

(* the closed form: the constructor's options without the None ones, the callback slot holding the monitor *)
Definition handed_ctor (c : ctor) : list (string * Val) :=
  non_empty [("m", c_m c); ("factr", c_factr c); ("pgtol", c_pgtol c); ("epsilon", c_epsilon c); ("iprint", c_iprint c);
             ("disp", c_disp c); ("maxfun", c_maxfun c); ("maxiter", c_maxiter c); ("callback", Some (monitor_of (c_callback c)));
             ("maxls", c_maxls c)].

Theorem handed_closed_form : forall c size, handed (ctor_kwargs c) size = handed_ctor c.
Proof. intros [m f p e i d mf mi cb ml] size. reflexivity. Qed.

(* the options of a solve do not depend on the size of its data ... *)
Theorem handed_size_free : forall c s1 s2, handed (ctor_kwargs c) s1 = handed (ctor_kwargs c) s2.
Proof. intros c s1 s2. now rewrite !handed_closed_form. Qed.

(* ... the dictionary is restored ... *)
Theorem after_restored : forall c size, solve_after (ctor_kwargs c) size = ctor_kwargs c.
Proof. intros [m f p e i d mf mi cb ml] size. reflexivity. Qed.

(* ... hence in every sequence of solves (any sizes, same or different) each solve hands scipy what a fresh object would *)
Theorem handed_seq_fresh : forall c sizes, handed_seq (ctor_kwargs c) sizes = map (fun _ => handed_ctor c) sizes.
Proof.
  intros c sizes. induction sizes as [|s r IH]; [reflexivity|].
  cbn [handed_seq map]. rewrite after_restored, IH, handed_closed_form. reflexivity.
Qed.

(* pgtol reaches scipy exactly when the caller gave one: the size-derived default is never applied to a constructor-built
   dictionary (the key is always present) *)
Lemma in_non_empty : forall kw k v, In (k, v) (non_empty kw) <-> In (k, Some v) kw.
Proof.
  induction kw as [|[k' [v'|]] r IH]; intros k v; cbn [non_empty In].
  - tauto.
  - rewrite IH. split; (intros [H|H]; [left|right; exact H]); congruence.
  - rewrite IH. split; [intros H; right; exact H|intros [H|H]; [discriminate H|exact H]].
Qed.
Theorem pgtol_only_from_caller : forall c size v,
  In ("pgtol", v) (handed (ctor_kwargs c) size) <-> c_pgtol c = Some v.
Proof.
  intros [m f p e i d mf mi cb ml] size v. rewrite handed_closed_form. unfold handed_ctor. rewrite in_non_empty.
  cbn [c_m c_factr c_pgtol c_epsilon c_iprint c_disp c_maxfun c_maxiter c_callback c_maxls In].
  split.
  - intros H. repeat (destruct H as [H|H]; [try discriminate H|]); try contradiction. congruence.
  - intros ->. tauto.
Qed.

(* the three facts C13's reuse clause needs of the option dictionary, in one statement *)
Theorem lbfgsb_options : forall c sizes,
  handed_seq (ctor_kwargs c) sizes = map (fun _ => handed_ctor c) sizes /\
  (forall size, solve_after (ctor_kwargs c) size = ctor_kwargs c) /\
  (forall s1 s2, handed (ctor_kwargs c) s1 = handed (ctor_kwargs c) s2).
Proof. intros c sizes. split; [apply handed_seq_fresh|split; [intros; apply after_restored|intros; apply handed_size_free]]. Qed.
End Opts.

(* ---- the instance the check runs: values are exact rationals or the callback slot's content ---- *)
From Coq Require Import QArith Qcanon.
Inductive oval := VNum (q : Qc) | VCb (is_monitor : bool).
(* the keys as constants (generated cases do not import String) *)
Definition K_m := "m". Definition K_factr := "factr". Definition K_pgtol := "pgtol". Definition K_epsilon := "epsilon".
Definition K_iprint := "iprint". Definition K_disp := "disp". Definition K_maxfun := "maxfun". Definition K_maxiter := "maxiter".
Definition K_callback := "callback". Definition K_maxls := "maxls". Definition K_other := "?".
Definition oentry (k : string) (v : oval) : string * oval := (k, v).
Definition oentries := list (string * oval).
Definition no_entries : oentries := [].
Definition oval_eqb (a b : oval) : bool :=
  match a, b with VNum x, VNum y => Qc_eq_bool x y | VCb x, VCb y => Bool.eqb x y | _, _ => false end.
Definition entry_eqb (a b : string * oval) : bool := String.eqb (fst a) (fst b) && oval_eqb (snd a) (snd b).
(* the same entries, in any order *)
Definition opts_eqb (a b : list (string * oval)) : bool :=
  Nat.eqb (List.length a) (List.length b) && forallb (fun x => existsb (entry_eqb x) b) a && forallb (fun y => existsb (entry_eqb y) a) b.
(* the size-derived default as an exact rational: size / 10^4 (only ever compared, never reached for constructor-built options) *)
Definition q_pg_default (size : Z) : oval := VNum (Q2Qc (size # 10000)).
Definition q_monitor_of (_ : option oval) : oval := VCb true.
Definition onum (x : option Qc) : option oval := match x with Some q => Some (VNum q) | None => None end.
(* constructor call LBFGSB(m, factr, pgtol, maxfun, maxiter, maxls, callback given?) — epsilon / iprint / disp left at None *)
Definition q_ctor (m factr pgtol maxfun maxiter maxls : option Qc) (callback : bool) : ctor oval :=
  mkCtor oval (onum m) (onum factr) (onum pgtol) None None None (onum maxfun) (onum maxiter)
         (if callback then Some (VCb false) else None) (onum maxls).
(* the check: what scipy was handed in each solve of a sequence (sizes of the data) against the model *)
Definition zopts_seq_ok (c : ctor oval) (sizes : list Z) (seen : list (list (string * oval))) : bool :=
  Nat.eqb (List.length sizes) (List.length seen) &&
  forallb (fun p => opts_eqb (fst p) (snd p)) (combine (handed_seq oval q_pg_default q_monitor_of (ctor_kwargs oval c) sizes) seen).

(* non-vacuity: LBFGSB(maxiter=100, pgtol=3/2, callback=f) on data of 4 then 36 entries *)
Example opts_example :
  handed_seq oval q_pg_default q_monitor_of (ctor_kwargs oval (q_ctor None (Some (Q2Qc 10000000)) (Some (Q2Qc (3#2))) None (Some (Q2Qc 100)) None true)) [4%Z; 36%Z]
  = let h := [("factr", VNum (Q2Qc 10000000)); ("pgtol", VNum (Q2Qc (3#2))); ("maxiter", VNum (Q2Qc 100)); ("callback", VCb true)] in [h; h].
Proof. reflexivity. Qed.
(* and the dead branch is live on a dictionary WITHOUT the key (not one the constructor builds): the default would be size-dependent *)
Example opts_dead_branch :
  handed oval q_pg_default q_monitor_of [("maxiter", Some (VNum (Q2Qc 5)))] 4 <> handed oval q_pg_default q_monitor_of [("maxiter", Some (VNum (Q2Qc 5)))] 36.
Proof. vm_compute. intros H. discriminate H. Qed.
