(* Proofs/C07Impl.v — the code-level return statements of Model/C07Impl.v are the operation models of Model/C07Ops.v. *)
From Coq Require Import List Arith Lia Bool.
From PV Require Import Base.Index Base.Perm Np.Array Model.Sparse Model.Repr Model.C07Ops Model.C07Impl Proofs.C07Index Proofs.C07Proofs.
Import ListNotations.

Section Impl.
Context {V : Type} (v0 : V).

(* both return statements of sptensor.permute build the model's result, for every coordinate list and every order *)
Theorem permute_sp_impl_eq (S : sparse V) p : permute_sp_impl S p = permute_sp S p.
Proof.
  unfold permute_sp_impl, permute_sp. destruct (is_permb p (length (sshape S))); [|reflexivity].
  destruct (ssubs S) as [|j r] eqn:E; reflexivity.
Qed.

(* sptensor.squeeze on a coordinate list with as many values as subscripts, no repeated subscript, subscripts in range:
   the three-way split on "nothing stored" / vals.item() returns exactly the model's answer and never raises *)
Theorem squeeze_sp_impl_eq (S : sparse V) :
  length (ssubs S) = length (svals S) -> NoDup (ssubs S) -> Forall (fun j => inb (sshape S) j = true) (ssubs S) ->
  squeeze_sp_impl v0 S = Some (squeeze_sp v0 S).
Proof.
  intros HL Hnd Hin. unfold squeeze_sp_impl, squeeze_sp. set (s := sshape S) in *.
  destruct (forallb (Nat.ltb 1) s); [reflexivity|].
  destruct (sqz s s) as [|d s2] eqn:Hq.
  - (* every mode a singleton: at most one entry can be stored, at the all-zero subscript *)
    unfold den_sp, entries. destruct (ssubs S) as [|j [|j2 r]] eqn:Es; destruct (svals S) as [|v [|v2 vr]] eqn:Ev;
      cbn [length] in HL; try discriminate.
    + reflexivity.
    + cbn [combine last_match]. inversion Hin as [|? ? Hj _]; subst.
      rewrite (sqz_nil_zero s j Hq Hj). now rewrite idx_eqb_refl.
    + exfalso. inversion Hin as [|? ? Hj Hr]; subst. inversion Hr as [|? ? Hj2 _]; subst.
      inversion Hnd as [|? ? Hn _]; subst. apply Hn. left.
      rewrite (sqz_nil_zero s j Hq Hj), (sqz_nil_zero s j2 Hq Hj2). reflexivity.
  - destruct (svals S) as [|v vr] eqn:Ev.
    + cbn [length Nat.eqb]. destruct (ssubs S); [reflexivity|discriminate].
    + reflexivity.
Qed.

End Impl.
