(* Props/C07Gen4.v — C07 over the GENERATED whole methods sptensor.permute / ktensor.permute (Gen/GenSptensor4.v, Gen/GenKtensor4.v,
   regenerated from pyttb/sptensor.py / pyttb/ktensor.py on every run) behind the GENERATED parse_one_d (Gen/GenUtils3b.v):
   what the generated code returns for a permute request is what the request-level models of Model/C07Req.v return, hence the
   index laws of Props/C07.v / C07w4.v hold for it.  Bridges of the translator builder: Proofs/W4Sptensor.v, Proofs/W4KtensorLaws.v
   (see also Props/W4C07.v, Props/W4C08.v).  Proofs: Proofs/C07Gen4.v. *)
From Coq Require Import List ZArith Arith Bool.
From PV Require Import Base.Index Base.Perm Np.NpZ Np.NpZ2 Np.NpZ3 Np.NpZ3b Gen.GenUtils3b Gen.GenSptensor4 Gen.GenKtensor4
  Model.Sparse Model.Repr Model.C07Ops Model.C07Req Model.C07W5 Model.W4Ktensor Model.W4Sptensor Model.C07Gen4 Proofs.C07Gen4.
Import ListNotations.
Local Open Scope Z_scope.

(* the generated ktensor.permute is permute_k on the shared Kruskal record; it returns a tensor only for permutations of the modes
   (and then no entry of the order is negative) *)
Theorem C07_permute_kruskal_generated : forall (self k' : ktz) (order : vec), ktensor_permute self order = Ok k' ->
  is_perm (nats order) (length (kt_factors self)) /\ (forall x, In x order -> 0 <= x) /\
  permute_k (to_K self) (nats order) = Some (to_K k').
Proof. exact gen_kt_permute_c07. Qed.
Print Assumptions C07_permute_kruskal_generated.

(* request -> generated parse_one_d -> generated ktensor.permute  =  the request-level model (Model/C07W5.v permute_k_req5: integer
   orders as in Model/C07Req.v permute_k_req, boolean orders read as 1 / 0) *)
Theorem C07_permute_kruskal_request_generated : forall (self k' : ktz) (x : pyshp), ktensor_permute_req self x = Ok k' ->
  permute_k_req5 (to_K self) x = Some (to_K k').
Proof. exact kt_permute_req_c07. Qed.
Print Assumptions C07_permute_kruskal_request_generated.

Theorem C07_permute_kruskal_request_generated_int : forall (self k' : ktz) (x : pyshp), bool_order_of x = None ->
  ktensor_permute_req self x = Ok k' -> permute_k_req (to_K self) x = Some (to_K k').
Proof. exact kt_permute_req_c07_int. Qed.
Print Assumptions C07_permute_kruskal_request_generated_int.

(* request -> generated parse_one_d -> generated sptensor.permute  =  the request-level model (tensor with stored entries) *)
Theorem C07_permute_sparse_request_generated : forall (self t : sptz) (x : pyshp),
  (forall row, In row (spt_subs self) -> forall s, In s row -> 0 <= s) -> (forall d, In d (spt_shape self) -> 0 <= d) ->
  np_size2 (spt_subs self) <> 0 ->
  sptensor_permute_req self x = Ok t ->
  permute_sp_req (to_Sp self) x = Some (to_Sp t).
Proof. exact sp_permute_req_c07. Qed.
Print Assumptions C07_permute_sparse_request_generated.

(* N-C07-5 (repaired, /repo 9c8fdd5) over the generated text: boolean orders are refused by the generated sptensor.permute *)
Theorem C07_permute_sparse_bool_refused_generated : forall (self : sptz) (x : pyshp) (bz : vec), bool_order_of x = Some bz ->
  sptensor_permute_req self x = Err /\ forall (V : Type) (S : Sparse.sparse V), permute_sp_req S x = None.
Proof. exact sp_permute_req_bool_c07. Qed.
Print Assumptions C07_permute_sparse_bool_refused_generated.

Example C07_example_generated_requests :
  let col := SArr (mknd [3; 1] DInt [NFin 2; NFin 0; NFin 1]) in
  sptensor_permute_req (mkspt [[0; 1; 3]; [2; 0; 1]] [5; -7] [3; 2; 4]) col = Ok (mkspt [[3; 0; 1]; [1; 2; 0]] [5; -7] [4; 3; 2]) /\
  sptensor_permute_req (mkspt [[0; 1; 3]; [2; 0; 1]] [5; -7] [3; 2; 4]) (SList [EInt 1; EInt 1; EInt 1]) = Err /\
  sptensor_permute_req (mkspt [[0; 1; 3]; [2; 0; 1]] [5; -7] [3; 2; 4]) (SList [EInt (-1); EInt 0; EInt 1]) = Err /\
  sptensor_permute_req (mkspt [[0; 1; 3]] [5] [3; 2; 4]) (SArr (mknd [3] DFloat [NFin 2; NFin 0; NFin 1])) = Err /\
  ktensor_permute_req (mkkt [2; 3] [[[1; 2]; [3; 4]]; [[5; 6]; [7; 8]; [9; 10]]]) (STuple [EInt 1; EInt 0])
    = Ok (mkkt [2; 3] [[[5; 6]; [7; 8]; [9; 10]]; [[1; 2]; [3; 4]]]) /\
  ktensor_permute_req (mkkt [2; 3] [[[1; 2]; [3; 4]]; [[5; 6]; [7; 8]; [9; 10]]]) (SArr (mknd [2] DBool [NFin 1; NFin 0]))
    = Ok (mkkt [2; 3] [[[5; 6]; [7; 8]; [9; 10]]; [[1; 2]; [3; 4]]]) /\
  sptensor_permute_req (mkspt [[0; 1]; [1; 2]] [5; 6] [2; 3]) (SArr (mknd [2] DBool [NFin 1; NFin 0])) = Err.
Proof. repeat split; reflexivity. Qed.
