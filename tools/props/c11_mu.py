"""C11 — independent pure-Python (float, list-based; no numpy, no pyttb) evaluation of the multiplicative-update CP-APR algorithm as
documented (Chi & Kolda 2012; pyttb/cp_apr.py:245-350) on a DENSE list of counts.  Used ONLY to decide, from the request alone,
whether finding C11-F4 applies: the complementary-slackness repair `A[(Phi > 0) & (A < kappatol)] += kappa` fired with a large kappa
and the run ends less likely than its starting guess.  It is never used to judge pyttb's output."""
import math


def _all_subs(shape):
    """F order: subscript 0 varies fastest (the order of the harness's data lists)"""
    res = []
    for k in range(math.prod(shape)):
        s, r = [], k
        for d in shape:
            s.append(r % d)
            r //= d
        res.append(s)
    return res


def _normalize_mode(lam, A, n):
    R = len(lam)
    for r in range(R):
        t = sum(abs(row[r]) for row in A[n])
        if t > 0:
            for row in A[n]:
                row[r] = (1.0 / t) * row[r]
        lam[r] = lam[r] * t


def _loglik(shape, data, lam, A):
    f, mass = 0.0, 0.0
    for x, s in zip(data, _all_subs(shape)):
        m = 0.0
        for r in range(len(lam)):
            p = lam[r]
            for n, i in enumerate(s):
                p *= A[n][i][r]
            m += p
        mass += m
        if x != 0:
            if m <= 0:
                return float("-inf")
            f += x * math.log(m)
    return f - mass


def mu_run(shape, data, lam, A, maxiters, maxinner=10, kappa=0.01, kappatol=1e-10, eps=1e-10, stoptol=1e-4):
    """-> (lam, A, fired): the model after the run (weights, factors) and whether the kappa repair changed an entry"""
    N, R = len(shape), len(lam)
    lam = [float(x) for x in lam]
    A = [[[float(x) for x in row] for row in U] for U in A]
    subs = _all_subs(shape)
    for n in range(N):
        _normalize_mode(lam, A, n)
    Phi = [[[0.0] * R for _ in range(shape[n])] for n in range(N)]
    fired = False
    for it in range(maxiters):
        conv = True
        for n in range(N):
            if it > 0:
                for i in range(shape[n]):
                    for r in range(R):
                        if Phi[n][i][r] > 0 and A[n][i][r] < kappatol:
                            A[n][i][r] += kappa
                            fired = True
            for row in A[n]:               # redistribute
                for r in range(R):
                    row[r] *= lam[r]
            lam = [1.0] * R
            for _ in range(maxinner):
                P = [[0.0] * R for _ in range(shape[n])]
                for x, s in zip(data, subs):
                    pi = [math.prod(A[m][s[m]][r] for m in range(N) if m != n) for r in range(R)]
                    v = sum(A[n][s[n]][r] * pi[r] for r in range(R))
                    w = x / max(v, eps)
                    for r in range(R):
                        P[s[n]][r] += w * pi[r]
                Phi[n] = P
                kkt = max(abs(min(A[n][i][r], 1 - P[i][r])) for i in range(shape[n]) for r in range(R))
                if kkt < stoptol:
                    break
                conv = False
                for i in range(shape[n]):
                    for r in range(R):
                        A[n][i][r] *= P[i][r]
            _normalize_mode(lam, A, n)
        if conv:
            break
    return lam, A, fired


def less_likely_after_repair(shape, data, lam, A, runs, opts):
    """runs = [maxiters, ...]: successive calls, each starting from the model the previous one returned.  True iff in some call the
    kappa repair fired and that call's result is less likely than that call's starting guess (the check's own threshold, halved)"""
    kw = {"maxinner": opts.get("maxinneriters", 10), "kappa": opts.get("kappa", 0.01), "kappatol": opts.get("kappatol", 1e-10)}
    lam = [float(x) for x in lam]
    A = [[[float(x) for x in row] for row in U] for U in A]
    for mi in runs:
        ll0 = _loglik(shape, data, lam, A)
        lam, A, fired = mu_run(shape, data, lam, A, mi, **kw)
        ll1 = _loglik(shape, data, lam, A)
        if fired and math.isfinite(ll0) and (not math.isfinite(ll1) or ll1 < ll0 - 0.5e-6 * max(1.0, abs(ll0), abs(ll1))):
            return True
    return False
