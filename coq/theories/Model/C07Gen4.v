(* Model/C07Gen4.v — the permute REQUEST on sparse and Kruskal holders entirely over GENERATED code: the order as written is read
   by the generated parse_one_d (Gen/GenUtils3b.v, through Model/C07Req.v order_of), the operation is the generated whole
   method sptensor.permute / ktensor.permute (Gen/GenSptensor4.v, Gen/GenKtensor4.v; `self` is a record of Np/NpZ3.v).
   Definitions only; Proofs/C07Gen4.v ties them to permute_sp_req / permute_k_req of Model/C07Req.v. *)
From Coq Require Import List ZArith Bool.
From PV Require Import Np.NpZ Np.NpZ2 Np.NpZ3 Np.NpZ3b Gen.GenUtils3b Gen.GenSptensor4 Gen.GenKtensor4 Model.C07Req.
Import ListNotations.

Definition sptensor_permute_req (self : sptz) (x : pyshp) : res sptz :=
  match order_of x with Some pz => sptensor_permute self pz | None => Err end.
Definition ktensor_permute_req (self : ktz) (x : pyshp) : res ktz :=
  match order_of x with Some pz => ktensor_permute self pz | None => Err end.
