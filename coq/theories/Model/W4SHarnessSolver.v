(* Model/W4SHarnessSolver.v — REPLAY instantiation of the generated control-flow skeleton Gen/GenSolver.v: the Section
   parameters (numeric kernels) are look-ups in the oracle answers RECORDED from a real pyttb run; models are tokens (counters).
   Used by the differential stream tools/props/w4s.py (vm_compute) + one concrete run (non-vacuity). *)
From Coq Require Import String List Arith Bool ZArith.
From PV Require Import Model.W4SPrelude Gen.GenSolver Model.W4SHarnessBase.
Import ListNotations.
Local Open Scope nat_scope.

(* ------------------------------------------------------------------------------------------------ StochasticSolver.solve *)
(* world = number of update steps taken so far; a model token = the value of that counter when the model was produced
   (0 = starting guess); with epoch_iters = e >= 1 the model at the end of epoch n has token (n + 1) * e, and the k-th recorded
   function estimate (k = 0: starting guess) belongs to token k * e *)
Definition zsk_solve (ests : list Z) (max_iters epoch_iters max_fails : nat) (tol : Z) :=
  GenSolver.solve nat nat Z unit unit unit unit unit unit unit unit nat nat unit
    Z.leb 0%Z 0
    (fun _ => tt) (fun w _ _ => (w, (tt, tt, tt))) (fun m _ _ _ _ _ => nth (m / epoch_iters) ests 0%Z) (fun w => w)
    (fun w _ _ => (w, (tt, tt, tt))) (fun _ => tt) (fun w _ _ _ _ _ _ _ _ => (w, tt)) (fun _ => false)
    (fun w nf _ _ _ => (S w, (S w, S nf))) (fun _ fm => fm) (fun w => w)
    0 max_iters epoch_iters max_fails tol 0 0 tt tt tt tt None.

(* observation: candidates for the index of the returned model among the recorded estimates, _nfails, n_epoch, f_est_trace,
   step_trace as exponents (S nfails of the epoch's last update step; 0 = never written) *)
Definition zsk_solve_ok (ests : list Z) (max_iters epoch_iters max_fails : nat) (tol : Z)
           (ret_cands : list nat) (nfails_obs n_epoch_obs : nat) (trace_obs : list Z) (steps_obs : list nat) : bool :=
  match zsk_solve ests max_iters epoch_iters max_fails tol with
  | None => false
  | Some (model, (ftrace, strace, nep), nf, bestm, _) =>
      existsb (Nat.eqb (model / epoch_iters)) ret_cands && (model =? bestm) && (nf =? nfails_obs) && (nep =? n_epoch_obs) &&
      list_eqb Z.eqb ftrace trace_obs && list_eqb Nat.eqb strace steps_obs
  end.
Definition zsk_solve_raises (ests : list Z) (max_iters epoch_iters max_fails : nat) (tol : Z) : bool :=
  match zsk_solve ests max_iters epoch_iters max_fails tol with None => true | Some _ => false end.

(* non-vacuity: a concrete run of the generated function (the hypothesis `... = Some r` of the theorems is satisfiable) *)
Example zsk_solve_example :          (* estimates 10 -> 8 (accepted) -> 9 (failed, rolled back) -> 7 (accepted) *)
  zsk_solve [10; 8; 9; 7]%Z 3 2 1 (-1)%Z = Some (6, ([10; 8; 9; 7]%Z, [0; 1; 1; 2], 2), 1, 6, 6) /\
  zsk_solve [10; 8; 9; 7]%Z 3 0 1 (-1)%Z = None.          (* epoch_iters = 0: `step` is unbound (NameError) *)
Proof. split; vm_compute; reflexivity. Qed.
