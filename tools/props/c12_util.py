"""helpers of the C12 check: an evaluator of the generated Gallina text of Gen/GenHandles.v (independent of the
translator), point grids for the ten losses, and the brute-force oracle for the tensor-level operations."""
import math
import os
import re
from fractions import Fraction

HERE = os.path.dirname(os.path.abspath(__file__))
GEN = os.path.join(HERE, "..", "..", "coq", "theories", "Gen", "GenHandles.v")

# python handle name -> (Gallina loss, Gallina grad, python loss, python grad, extra parameter name | None)
HANDLES = {
    "gaussian": ("gaussian", "gaussian_grad", None),
    "bernoulli_odds": ("bernoulli_odds", "bernoulli_odds_grad", None),
    "bernoulli_logit": ("bernoulli_logit", "bernoulli_logit_grad", None),
    "poisson": ("poisson", "poisson_grad", None),
    "poisson_log": ("poisson_log", "poisson_log_grad", None),
    "rayleigh": ("rayleigh", "rayleigh_grad", None),
    "gamma": ("gamma_", "gamma_grad", None),
    "huber": ("huber", "huber_grad", "threshold"),
    "negative_binomial": ("negative_binomial", "negative_binomial_grad", "num_trials"),
    "beta": ("beta_", "beta_grad", "b"),
}


def grid(name, rng, n):
    """points (data, model[, extra]) inside the loss's domain; rationals with small denominators"""
    pts = []
    q = lambda lo, hi: Fraction(rng.randint(lo * 8, hi * 8), 8)
    for k in range(n):
        if name in ("gaussian",):
            p = [q(-4, 4), q(-4, 4)]
        elif name in ("bernoulli_odds",):
            p = [Fraction(rng.randint(0, 1)), q(0, 5) if k else Fraction(0)]
        elif name in ("bernoulli_logit",):
            p = [Fraction(rng.randint(0, 1)), q(-4, 4)]
        elif name in ("poisson",):
            p = [Fraction(rng.randint(0, 6)), q(0, 5) if k else Fraction(0)]
        elif name in ("poisson_log",):
            p = [Fraction(rng.randint(0, 6)), q(-3, 3)]
        elif name in ("rayleigh", "gamma"):
            p = [q(0, 5) + Fraction(1, 8), q(0, 5) if k else Fraction(0)]
        elif name == "huber":
            t = Fraction(rng.randint(1, 12), 4)
            x = q(-4, 4)
            side = k % 4      # inside, outside, on the upper kink, on the lower kink
            m = x + [t / 2, 2 * t, t, -t][side] * rng.choice([1, -1] if side < 2 else [1])
            p = [x, m, t]
        elif name == "negative_binomial":
            p = [Fraction(rng.randint(0, 6)) + (0 if k % 2 else Fraction(1, 2)), q(0, 5) if k else Fraction(0), Fraction(rng.randint(1, 5))]
        elif name == "beta":
            b = rng.choice([Fraction(1, 2), Fraction(3, 2), Fraction(2), Fraction(-1, 2), Fraction(3)])
            p = [q(0, 5) + Fraction(1, 8), q(0, 5) + (Fraction(1, 8) if b < 2 else 0), b]
        pts.append(p)
    return pts


def run_handles(name, pts):
    """pyttb's own values [loss, grad] at the points (arrays of length 1, like the library calls them)"""
    import numpy as np
    from pyttb.gcp import handles
    out = []
    fl, gl, extra = HANDLES[name]
    pf = getattr(handles, name)
    pg = getattr(handles, name + "_grad")
    for p in pts:
        p = [float(Fraction(v)) for v in p]
        d, m = np.array([p[0]]), np.array([p[1]])
        kw = {extra: p[2]} if extra else {}
        out.append([float(pf(d.copy(), m.copy(), **kw)[0]), float(pg(d.copy(), m.copy(), **kw)[0])])
    return out


# ------------------------------------------------------------------ Gallina text evaluator
_tok = re.compile(r"\s*(?:(\d+\.?\d*)|([A-Za-z_][A-Za-z_0-9']*)|(:=|[-+*/^()]))")


def _tokens(s):
    out, pos = [], 0
    s = s.strip()
    while pos < len(s):
        m = _tok.match(s, pos)
        if not m:
            raise ValueError("cannot tokenise Gallina at: " + s[pos:pos + 30])
        out.append(m.group(1) or m.group(2) or m.group(3))
        pos = m.end()
    return out


PRIMS = {
    "ln": math.log, "exp": math.exp, "Rabs": abs, "negb": lambda b: not b,
    "Rltb": lambda x, y: x < y, "bsel": lambda b, x: x if b else 0.0,
    "sgnR": lambda x: 1.0 if x > 0 else (-1.0 if x < 0 else 0.0),
    "rpow": lambda a, b: math.exp(b * math.log(a)), "sqrt": math.sqrt,
}
ARITY = {"ln": 1, "exp": 1, "Rabs": 1, "negb": 1, "Rltb": 2, "bsel": 2, "sgnR": 1, "rpow": 2, "sqrt": 1}


class _P:
    def __init__(self, toks, env, defs):
        self.t, self.i, self.env, self.defs = toks, 0, env, defs

    def peek(self):
        return self.t[self.i] if self.i < len(self.t) else None

    def next(self):
        self.i += 1
        return self.t[self.i - 1]

    def expr(self):
        if self.peek() == "let":
            self.next()
            name = self.next()
            assert self.next() == ":="
            v = self.arith()
            assert self.next() == "in", "let without in"
            old = self.env.get(name)
            self.env[name] = v
            r = self.expr()
            if old is None:
                del self.env[name]
            else:
                self.env[name] = old
            return r
        return self.arith()

    def arith(self):      # level 50: + -
        v = self.term()
        while self.peek() in ("+", "-"):
            op = self.next()
            w = self.term()
            v = v + w if op == "+" else v - w
        return v

    def term(self):       # level 40: * /
        v = self.unary()
        while self.peek() in ("*", "/"):
            op = self.next()
            w = self.unary()
            v = v * w if op == "*" else v / w
        return v

    def unary(self):      # level 35: - x
        if self.peek() == "-":
            self.next()
            return -self.unary()
        return self.power()

    def power(self):      # level 30, right associative; exponent is a nat literal in the generated text
        b = self.app()
        if self.peek() == "^":
            self.next()
            e = self.unary()
            return b ** int(e) if float(e) == int(e) else math.nan
        return b

    def app(self):
        tok = self.peek()
        if tok in ARITY or tok in self.defs:
            self.next()
            n = ARITY[tok] if tok in ARITY else len(self.defs[tok][0])
            args = [self.atom() for _ in range(n)]
            if tok in ARITY:
                return PRIMS[tok](*args)
            return call(self.defs, tok, args)
        return self.atom()

    def atom(self):
        tok = self.next()
        if tok == "(":
            v = self.expr()
            assert self.next() == ")", "unbalanced"
            return v
        if tok == "PI":
            return math.pi
        if tok in ("true", "false"):
            return tok == "true"
        if re.fullmatch(r"\d+\.?\d*", tok):
            return float(tok)
        if tok in self.env:
            return self.env[tok]
        if tok in self.defs and not self.defs[tok][0]:
            return call(self.defs, tok, [])
        raise ValueError("unknown identifier in generated Gallina: " + tok)


def load_defs(path=GEN):
    txt = open(path).read()
    txt = re.sub(r"\(\*.*?\*\)", "", txt, flags=re.S)
    defs = {}
    for m in re.finditer(r"Definition\s+([A-Za-z_0-9']+)\s*(\(([^)]*):\s*R\s*\))?\s*:\s*R\s*:=(.*?)\.\s*(?=Definition|\Z)", txt, re.S):
        name, params, body = m.group(1), (m.group(3) or "").split(), m.group(4)
        defs[name] = (params, _tokens(body))
    return defs


def call(defs, name, args):
    params, toks = defs[name]
    p = _P(toks, dict(zip(params, args)), defs)
    v = p.expr()
    if p.peek() is not None:
        raise ValueError(f"trailing tokens in {name}: {p.t[p.i:]}")
    return v


def _close(a, b, tol=1e-9):
    if a != a or b != b:
        return False
    return abs(a - b) <= tol * max(1.0, abs(b))


def compare_handles(name, pts, vals, against_derivative=False):
    """None when the generated Gallina text (evaluated here) agrees with pyttb's values at every point;
    with against_derivative: None when pyttb's gradient values agree with a central difference of pyttb's loss."""
    fl, gl, extra = HANDLES[name]
    if against_derivative:
        h = 1e-6
        bad = []
        for p, (fv, gv) in zip(pts, vals):
            pf = [Fraction(v) for v in p]
            lo, hi = [list(pf), list(pf)]
            lo[1] -= Fraction(1, 10 ** 6)
            hi[1] += Fraction(1, 10 ** 6)
            if pf[1] == 0:
                continue
            (f1, _), (f2, _) = run_handles(name, [lo, hi])
            num = (f2 - f1) / (2 * h)
            if name == "huber" and abs(abs(float(pf[0] - pf[1])) - float(pf[2])) < 1e-3:
                continue
            if not _close(gv, num, 1e-4):
                bad.append((p, gv, num))
        return None if not bad else f"{name}_grad is not the derivative of {name}: (point, gradient value, central difference) = {bad[:2]}"
    defs = load_defs()
    for p, (fv, gv) in zip(pts, vals):
        args = [float(Fraction(v)) for v in p]
        try:
            mf = call(defs, fl, args)
            mg = call(defs, gl, args)
        except Exception as ex:
            return f"generated text of {fl}/{gl} cannot be evaluated at {p}: {type(ex).__name__}: {ex}"
        if not _close(fv, mf) or not _close(gv, mg):
            return f"{name} at {p}: pyttb ({fv}, {gv}) vs generated Gallina ({mf}, {mg})"
    return None


# ------------------------------------------------------------------ numeric tie decided in Coq (Proofs/C12HandleNum.v)
_HORDER = ["gaussian", "bernoulli_odds", "bernoulli_logit", "poisson", "poisson_log", "rayleigh", "gamma", "huber", "negative_binomial", "beta"]


def coq_handles(name, pts, vals):
    """Gallina bool: hnum_check (interval evaluation of the GENERATED handle, sound over R: hnum_check_sound) accepts pyttb's
    float results [loss, grad] at every point with tolerance 1e-9 * max(1, |value|).  huber: the branch and the sign of
    data - model are hints computed here exactly; the checker verifies them before use."""
    from vcheck import gz
    hid = 2 * _HORDER.index(name)
    out = []
    for p, fg in zip(pts, vals):
        q = [Fraction(v) for v in p] + [Fraction(0)] * (3 - len(p))
        below = pos = False
        if name == "huber":
            below = abs(q[0] - q[1]) < q[2]
            pos = q[0] - q[1] > 0
        for k, v in enumerate(fg):
            if v != v or v in (float("inf"), float("-inf")):
                return "false"
            ob = Fraction(float(v))
            tol = Fraction(math.ceil(max(1, abs(ob))), 10 ** 9)
            zs = [q[0].numerator, q[0].denominator, q[1].numerator, q[1].denominator, q[2].numerator, q[2].denominator,
                  ob.numerator, ob.denominator, tol.numerator, tol.denominator]
            out.append(f"hnum_check {hid + k} {'true' if below else 'false'} {'true' if pos else 'false'} " + " ".join(gz(z) for z in zs))
    return "(" + " && ".join(out) + ")" if out else "true"

# ------------------------------------------------------------------ brute-force oracle for tensor-level operations
def _all_subs(shape):
    import itertools
    return [list(x)[::-1] for x in itertools.product(*[range(d) for d in shape[::-1]])]


PF = [lambda d, m: (m - d) * (m - d), lambda d, m: m * m * m - 3 * d * m, lambda d, m: d * m * m + m, lambda d, m: m]
PG = [lambda d, m: 2 * (m - d), lambda d, m: 3 * m * m - 3 * d, lambda d, m: 2 * d * m + 1, lambda d, m: 1]


def _prod_skip(fac, i, r, k):
    p = 1
    for l, A in enumerate(fac):
        if l != k:
            p *= A[i[l]][r]
    return p


# --------------------------------------------------------------------------------------- fg_setup.setup
_OBJ = ["gaussian", "bernoulli_odds", "bernoulli_logit", "poisson", "poisson_log", "rayleigh", "gamma", "huber", "negative_binomial", "beta"]
_PARAM_KW = {"huber": "threshold", "negative_binomial": "num_trials", "beta": "b"}


def run_setup(a):
    import functools
    import numpy as np
    import pyttb as ttb
    from pyttb.gcp import fg_setup, handles
    obj = handles.Objectives(a["obj"])
    d = a["data"]
    data = None
    if d is not None:
        vals = np.array([h / 2.0 for h in d["halves"]], dtype=float)
        if d["sparse"]:
            n = len(vals)
            data = ttb.sptensor(np.array([[k, 0] for k in range(n)], dtype=int), vals.reshape((n, 1)), (n, 2))
        else:
            data = ttb.tensor(vals.reshape((len(vals), 1)).copy())
    param = 0.75 if a["has_param"] else None
    try:
        fh, gh, lb = fg_setup.setup(obj, data, param)
    except ValueError as ex:
        return {"accept": False, "msg": str(ex)[:120]}
    name = _OBJ[a["obj"]]

    def ident(h, want):
        if name in _PARAM_KW:
            return bool(isinstance(h, functools.partial) and h.func is want and h.keywords == {_PARAM_KW[name]: param} and not h.args)
        return h is want
    return {"accept": True, "lb": (None if lb == -np.inf else (int(lb) if float(lb) == int(lb) else str(lb))),
            "fh_ok": ident(fh, getattr(handles, name)), "gh_ok": ident(gh, getattr(handles, name + "_grad"))}


def check_setup(a, o):
    from vcheck import gz, gzlist, gnat, gopt
    d = a["data"]
    data = "None" if d is None else f"(Some ({'true' if d['sparse'] else 'false'}, {gzlist(d['halves'])}))"
    obj = f"(obj_of {gnat(a['obj'])})"
    e = f"Bool.eqb (setup_accepts {obj} {'true' if a['has_param'] else 'false'} {data}) {'true' if o['accept'] else 'false'}"
    if o["accept"]:
        if not (o["lb"] is None or isinstance(o["lb"], int)):
            return "false"
        e += f" && opt_eqb Z.eqb (lower_bound_z {obj}) {gopt(o['lb'], gz)} && {'true' if o['fh_ok'] and o['gh_ok'] else 'false'}"
    return e


def oracle_setup(a, o):
    """independent table (from the property text / the docstrings of the losses), not the Coq one"""
    name = _OBJ[a["obj"]]
    lb = {"gaussian": None, "bernoulli_logit": None, "poisson_log": None, "huber": None}.get(name, 0)
    if o["accept"]:
        if not (o["fh_ok"] and o["gh_ok"]):
            return f"setup({name}) does not return the pair (handles.{name}, handles.{name}_grad)"
        if o["lb"] != lb:
            return f"setup({name}) attaches the lower bound {o['lb']}; the loss's domain needs {lb}"
    return None


# --------------------------------------------------------------------------------------- estimate with component weights
def _col_norms(fac, R):
    """2-norms of the factor columns as floats (harness side: the square roots are not computed in Coq)"""
    import math as _m
    return [[_m.sqrt(sum(row[r] * row[r] for row in A)) for r in range(R)] for A in fac]


def run_estimate_lam(a, fac, f, g):
    import numpy as np
    import pyttb as ttb
    import warnings
    from pyttb.gcp import fg, fg_est
    lam = np.array(a["lam"], dtype=float)

    def model():          # a fresh model per call (since /repo dc891f8 estimate normalises a COPY; see "kept" / "again" below)
        return ttb.ktensor([x.copy() for x in fac], lam.copy())
    shp = a["shape"]
    if a["mode"] == "full":
        allsubs = _all_subs(shp)
        subs = np.array(allsubs, dtype=int).reshape((len(allsubs), len(shp)))
        xs, ws, crng = np.array(a["data"], dtype=float), np.ones(len(allsubs)), None
    else:
        subs = np.array(a["subs"], dtype=int).reshape((len(a["subs"]), len(shp)))
        xs, ws = np.array(a["xs"], dtype=float), np.array(a["ws"], dtype=float)
        crng = None if a["crng"] is None else np.array(a["crng"], dtype=int)
    fr = lambda x: str(Fraction(float(x)))
    mats = lambda G: [[[fr(v) for v in row] for row in np.asarray(M).reshape((np.asarray(M).shape[0], -1))] for M in G]
    with warnings.catch_warnings():
        warnings.simplefilter("ignore")
        F, G = fg_est.estimate(model(), subs.copy(), xs.copy(), ws.copy(), f, g, a["lcheck"], None if crng is None else crng.copy())
        F1 = fg_est.estimate(model(), subs.copy(), xs.copy(), ws.copy(), f, None, a["lcheck"], None if crng is None else crng.copy())
        G1 = fg_est.estimate(model(), subs.copy(), xs.copy(), ws.copy(), None, g, a["lcheck"], None if crng is None else crng.copy())
        # second use of ONE model object (history class): the second answer must be the first one (1e-9: were the caller's model normalised
        # in place — it is not since /repo dc891f8, see `kept` — the second call would see rescaled factors and round differently).
        # `kept` (caller's weights and factors bit for bit what they were) is recorded only: aliasing is C05's clause (row C05-N12), not C12's
        M = model()
        cr = lambda: None if crng is None else crng.copy()
        Fa, Ga = fg_est.estimate(M, subs.copy(), xs.copy(), ws.copy(), f, g, a["lcheck"], cr())
        kept = bool(np.array_equal(M.weights, lam) and len(M.factor_matrices) == len(fac)
                    and all(np.array_equal(x, y) for x, y in zip(M.factor_matrices, fac)))
        Fb, Gb = fg_est.estimate(M, subs.copy(), xs.copy(), ws.copy(), f, g, a["lcheck"], cr())
        near = lambda x, y: bool(np.all(np.abs(np.asarray(x, dtype=float) - np.asarray(y, dtype=float))
                                        <= 1e-9 * np.maximum(1.0, np.abs(np.asarray(y, dtype=float)))))
        again = bool(near(Fa, F) and near(Fb, F) and len(Ga) == len(G) == len(Gb)
                     and all(np.shape(x) == np.shape(y) and near(x, y) for x, y in zip(Ga, G))
                     and all(np.shape(x) == np.shape(y) and near(x, y) for x, y in zip(Gb, G))
                     and (not kept or (fr(Fa) == fr(Fb) and mats(Ga) == mats(Gb))))     # an untouched model must answer bit for bit the same
    o = {"F": fr(F), "G": mats(G), "F1": fr(F1), "G1": mats(G1), "kept": kept, "again": again}
    if a["mode"] == "full":
        X = ttb.tensor(np.array(a["data"], dtype=float).reshape(tuple(shp), order="F"))
        o["F2"] = fr(fg.evaluate(model(), X, None, f, None))
    return o


def check_estimate_lam(a, o, As):
    import math as _m
    from vcheck import gz, gzlist, gnlist, gnmat, gnat, gq
    import tgen
    shp, R, lam = a["shape"], a["R"], a["lam"]
    used = a["lcheck"] and any(w != 1 for w in lam)
    norms = _col_norms(a["factors"], R)
    cs = []
    for k in range(len(shp)):
        row = []
        for r in range(R):
            if not used:
                row.append(Fraction(1))
            elif k == 0:
                P = _m.prod(norms[l][r] for l in range(1, len(shp)))
                row.append(Fraction(1.0 / P) if P > 0 else Fraction(0))
            else:
                row.append(Fraction(norms[k][r]))
        cs.append(row)
    gqm = lambda m: "[" + "; ".join("[" + "; ".join(gq(Fraction(x)) for x in r) + "]" for r in m) + "]"
    gcs = "[" + "; ".join("[" + "; ".join(gq(x) for x in r) + "]" for r in cs) + "]"
    gobs = lambda G: "[" + "; ".join(gqm(M) for M in G) + "]"
    fid, lc = gnat(a["fid"]), ("true" if a["lcheck"] else "false")
    if a["mode"] == "full":
        n = _m.prod(shp)
        sargs = f"{gnat(R)} (allsubs {gnlist(shp)}) {gzlist(a['data'])} {gzlist([1] * n)} (@nil nat)"
    else:
        sargs = f"{gnat(R)} {gnmat(a['subs'])} {gzlist(a['xs'])} {gzlist(a['ws'])} {gnlist(a['crng'] or [])}"
    mF = f"(zest_lam_F {fid} {lc} {gzlist(lam)} {As} {sargs})"
    mG = f"(zest_lam_G {fid} {lc} {gzlist(lam)} {As} {sargs} {gnlist(shp)})"
    if not o.get("again", True):
        return "false"
    e = (f"zq_close {gq(Fraction(o['F']))} {mF} && zq_close {gq(Fraction(o['F1']))} {mF} && "
         f"scaled_close {gcs} {mG} {gobs(o['G'])} && scaled_close {gcs} {mG} {gobs(o['G1'])}")
    if a["mode"] == "full":
        K = tgen.gktensor(lam, a["factors"])
        X = tgen.gdense(shp, a["data"])
        e += f" && zq_close {gq(Fraction(o['F2']))} (zeval_F {fid} {K} {X} None)"
        if a["lcheck"] or all(w == 1 for w in lam):
            # the estimator on every entry with unit weights = the exact evaluation of the SAME model (weights included)
            e += f" && zq_close {gq(Fraction(o['F']))} (zeval_F {fid} {K} {X} None)"
    return e


def brute_grad(a, weighted=True):
    """brute-force gradient matrices of the objective of fg.evaluate (pure Python): sum over all subscripts of
    w * g(x, m) * prod_{l != k} A_l[i_l, r], times the component weight when `weighted` (the exact partial derivative)"""
    shp, R, fac = a["shape"], a["R"], a["factors"]
    subs_all = _all_subs(shp)
    lam = a.get("lam", [1] * R)
    g = PG[a["fid"]]
    w = a.get("w") or [1] * len(subs_all)
    mv = [sum(lam[r] * _prod_skip(fac, i, r, -1) for r in range(R)) for i in subs_all]
    return [[[sum(w[n] * g(a["data"][n], mv[n]) * (lam[r] if weighted else 1) * _prod_skip(fac, i, r, k)
                  for n, i in enumerate(subs_all) if i[k] == j) for r in range(R)] for j in range(shp[k])] for k in range(len(shp))]


def oracle_tensor(op, a, o):
    shp, R, fac = a["shape"], a["R"], a["factors"]
    subs_all = _all_subs(shp)
    N = len(shp)
    if op == "mttkrps":
        want = [[[sum(a["data"][n] * _prod_skip(fac, i, r, k) for n, i in enumerate(subs_all) if i[k] == j)
                  for r in range(R)] for j in range(shp[k])] for k in range(N)]
        if o["G"] != want:
            return f"mttkrps returned {o['G']} but the per-mode definition gives {want}"
        if o["one"] != want:
            return "mttkrp(U, k) differs from the definition"
        return None
    lam = a.get("lam", [1] * R)
    f, g = PF[a["fid"]], PG[a["fid"]]
    if op == "estimate_lam":
        if o.get("again") is False:
            return ("fg_est.estimate called twice on the same model object with the same sample returns two different answers (beyond 1e-9)"
                    + ("" if o.get("kept") else "; the first call rewrote the caller's model"))
        # independent statement of what C12 says here: with lambda_check (or unit weights) the estimate on every entry with unit
        # sample weights is the exact objective of the weighted model; on a sample it is the weighted sample sum of the loss at the
        # weighted model's values
        use = a["lcheck"] or all(w == 1 for w in lam)
        eff = lam if use else [1] * R
        mv = lambda i: sum(eff[r] * _prod_skip(fac, i, r, -1) for r in range(R))
        if a["mode"] == "full":
            F = sum(f(a["data"][n], mv(i)) for n, i in enumerate(subs_all))
        else:
            crng = set(a["crng"] or [])
            F = sum(wq * (f(x, mv(i)) - (f(0, mv(i)) if q in crng else 0)) for q, (i, x, wq) in enumerate(zip(a["subs"], a["xs"], a["ws"])))
        got = Fraction(o["F"])
        if abs(got - F) > Fraction(1, 10 ** 9) * max(1, abs(F)):
            return (f"estimate(lambda_check={a['lcheck']}) on a model with weights {lam} returned F = {float(got)}; the "
                    f"{'exact objective of the same model on every entry' if a['mode'] == 'full' else 'weighted sample sum'} is {F}")
        return None

    def mval(i):
        return sum(lam[r] * _prod_skip(fac, i, r, -1) for r in range(R))
    if op == "evaluate_struct":
        w = a.get("w") or [1] * len(subs_all)
        F = sum(w[n] * f(a["data"][n], mval(i)) for n, i in enumerate(subs_all))
        if o["F"] != F:
            return f"objective {o['F']} is not the weighted sum of the loss over all entries ({F})"
        G = brute_grad(a, weighted=False)
        if o["G"] != G:
            return f"matrices {o['G']} are not the per-mode MTTKRPs of the element-wise derivative array ({G})"
        return None
    if op in ("evaluate", "estimate_full"):
        w = a.get("w") or [1] * len(subs_all)
        F = sum(w[n] * f(a["data"][n], mval(i)) for n, i in enumerate(subs_all))
        # exact partial derivative of F in A_k[j, r]: chain rule through m_i = sum_r lam_r prod_l A_l[i_l, r]
        G = [[[sum(w[n] * g(a["data"][n], mval(i)) * lam[r] * _prod_skip(fac, i, r, k)
                   for n, i in enumerate(subs_all) if i[k] == j) for r in range(R)] for j in range(shp[k])] for k in range(N)]
        if o["F"] != F:
            return f"objective {o['F']} is not the weighted sum of the loss over all entries ({F})"
        if o["G"] != G:
            return f"gradients {o['G']} are not the partial derivatives of the objective ({G})"
        if op == "estimate_full" and (o["F2"] != F or o["G2"] != G):
            return "exact evaluation differs from the definition"
        return None
    if op == "estimate":
        crng = set(a["crng"] or [])
        ms = [sum(_prod_skip(fac, i, r, -1) for r in range(R)) for i in a["subs"]]
        F = sum(wq * (f(x, m) - (f(0, m) if q in crng else 0)) for q, (x, wq, m) in enumerate(zip(a["xs"], a["ws"], ms)))
        Y = [wq * (g(x, m) - (g(0, m) if q in crng else 0)) for q, (x, wq, m) in enumerate(zip(a["xs"], a["ws"], ms))]
        G = [[[sum(Y[q] * _prod_skip(fac, i, r, k) for q, i in enumerate(a["subs"]) if i[k] == j)
               for r in range(R)] for j in range(shp[k])] for k in range(N)]
        if o["F"] != F or o["G"] != G:
            return f"sampled estimate ({o['F']}, {o['G']}) differs from the weighted sample sums ({F}, {G})"
        return None
    return None
