(* Model/C02TuckerFull.v — Tucker kernels of pyttb/ttensor.py that go through a product in EVERY mode:
   ttensor.full / reconstruct() (core.ttm(factors)), ttensor.innerprod with a dense tensor (both sides of the size switch),
   ttensor.norm()^2 (both sides of the size switch).  Built from the dense kernels of Model/C02Dense.v / Model/C02Modes.v
   (tensor.ttm list form = ttm_seq, tensor.innerprod).  Definitions only; proofs in Proofs/C02TuckerFullProofs.v. *)
From Coq Require Import List Arith Lia Bool.
From PV Require Import Base.Index Base.Perm Base.Sum Np.Array Model.Sparse Model.Repr Model.C02Spec Model.C02Dense Model.C02Modes
                       Model.C02Tucker.
Import ListNotations.

Section TF.
Context {V : Type} (v0 v1 : V) (vadd vmul : V -> V -> V).

(* one multiplicand (J, U) per mode, modes 0 .. N-1 *)
Definition all_modes (Js : list nat) (Us : list (@matrix V)) : list (nat * (nat * @matrix V)) :=
  combine (seq 0 (length Us)) (combine Js Us).

(* ttensor.full(): self.core.ttm(self.factor_matrices)  (plain: J = matrix.shape[0] = the tensor's extent) *)
Definition impl_full_t (T : ttensor V) : dense V :=
  ttm_seq v0 vadd vmul (tcore T) (all_modes (map (@nrows V) (tfactors T)) (tfactors T)) false.

(* ttensor.innerprod(tensor) (ttensor.py:323): prod(shape) < prod(core.shape): self.full().innerprod(other);
   otherwise Z = other.ttm(factors, transpose=True); Z.innerprod(self.core) *)
Definition impl_innerprod_t_dense (T : ttensor V) (X : dense V) : V :=
  let cs := dshape (tcore T) in
  if size (tshape T) <? size cs
  then impl_innerprod_dense v0 vadd vmul (impl_full_t T) X
  else impl_innerprod_dense v0 vadd vmul (ttm_seq v0 vadd vmul X (all_modes cs (tfactors T)) true) (tcore T).

(* ttensor.norm()^2 (ttensor.py:460): prod(shape) > prod(core.shape): V_n = U_n.T.dot(U_n); Y = core.ttm(V); Y.innerprod(core)
   (the square root is outside the model); otherwise full().norm()^2 *)
Definition impl_normsq_t (T : ttensor V) : V :=
  let cs := dshape (tcore T) in
  let Us := tfactors T in
  if size cs <? size (tshape T)
  then let Vs := map (fun Uc : @matrix V * nat => mm v0 vadd vmul (fst Uc) (fst Uc) (snd Uc) (nrows (fst Uc)) (snd Uc) true) (combine Us cs) in
       impl_innerprod_dense v0 vadd vmul (ttm_seq v0 vadd vmul (tcore T) (all_modes cs Vs) false) (tcore T)
  else impl_normsq_dense v0 vadd vmul (impl_full_t T).

(* ttensor.innerprod(ttensor) (ttensor.py:307): the operand with the smaller core comes first (otherwise other.innerprod(self));
   W_n = U_n.T.dot(U'_n); J = other.core.ttm(W); self.core.innerprod(J) *)
Definition impl_innerprod_tt_core (T T' : ttensor V) : V :=
  let cs := dshape (tcore T) in
  let Ws := map (fun UU : @matrix V * @matrix V * (nat * nat) =>
                   mm v0 vadd vmul (fst (fst UU)) (snd (fst UU)) (fst (snd UU)) (nrows (fst (fst UU))) (snd (snd UU)) true)
                (combine (combine (tfactors T) (tfactors T')) (combine cs (dshape (tcore T')))) in
  impl_innerprod_dense v0 vadd vmul (tcore T) (ttm_seq v0 vadd vmul (tcore T') (all_modes cs Ws) false).
Definition impl_innerprod_tt (T T' : ttensor V) : V :=
  if size (dshape (tcore T')) <? size (dshape (tcore T)) then impl_innerprod_tt_core T' T else impl_innerprod_tt_core T T'.
End TF.
