"""c05_skel — the sharing skeleton of the pyttb functions transliterated in coq/theories/Model/C05View.v.

The Coq transliteration is written by hand; this module ties it to the CURRENT source: for every transliterated
function the sequence of sharing-relevant steps (calls that copy / re-lay-out / reshape / transpose / index / construct,
with their keyword arguments, and every return expression) is extracted from the AST and compared with the sequence the
transliteration was written from (EXPECTED, recorded below).  An edit of /repo that changes one of these steps (a dropped
.copy(), copy=True -> copy=False, a new early return ...) makes the tie case fail until the model is revisited; edits
that only change values leave the skeleton alone.
"""
import ast
import inspect
import textwrap

SHARING_CALLS = {"copy", "deepcopy", "asfortranarray", "ascontiguousarray", "asarray", "array", "reshape", "transpose",
                 "squeeze", "to_memory_order", "ravel", "flatten", "astype", "view", "tensor", "ktensor", "tenmat",
                 "sptensor", "ttensor", "sumtensor", "sptenmat", "normalize", "insert", "hstack", "diag", "item",
                 "tt_subsubsref", "list"}
STATE_ATTRS = {"data", "subs", "vals", "weights", "factor_matrices", "rindices", "cindices", "core"}

# (module, class or None, function)
FUNCTIONS = [("pyttb.tensor", "tensor", "__init__"), ("pyttb.tensor", "tensor", "copy"), ("pyttb.tensor", "tensor", "permute"),
             ("pyttb.tensor", "tensor", "reshape"), ("pyttb.tensor", "tensor", "squeeze"), ("pyttb.tensor", "tensor", "to_tenmat"),
             ("pyttb.tensor", "tensor", "__getitem__"),
             ("pyttb.tenmat", "tenmat", "__init__"), ("pyttb.tenmat", "tenmat", "copy"), ("pyttb.tenmat", "tenmat", "__getitem__"),
             ("pyttb.sptensor", "sptensor", "__init__"), ("pyttb.sptensor", "sptensor", "copy"), ("pyttb.sptensor", "sptensor", "find"),
             ("pyttb.ktensor", "ktensor", "__init__"), ("pyttb.ktensor", "ktensor", "copy"), ("pyttb.ktensor", "ktensor", "extract"),
             ("pyttb.ktensor", "ktensor", "tolist"),
             ("pyttb.khatrirao", None, "khatrirao"), ("pyttb.pyttb_utils", None, "to_memory_order"),
             # wave 4 (Model/C05View2.v)
             ("pyttb.tenmat", "tenmat", "to_tensor"), ("pyttb.tenmat", "tenmat", "ctranspose"), ("pyttb.tenmat", "tenmat", "double"),
             ("pyttb.ttensor", "ttensor", "__init__"), ("pyttb.ttensor", "ttensor", "copy"),
             ("pyttb.sptenmat", "sptenmat", "__init__"), ("pyttb.sptenmat", "sptenmat", "copy")]


def _callname(f):
    if isinstance(f, ast.Attribute):
        return f.attr
    if isinstance(f, ast.Name):
        return f.id
    return None


def skeleton_of_source(src):
    tree = ast.parse(textwrap.dedent(src))
    fn = tree.body[0]
    body = fn.body
    if body and isinstance(body[0], ast.Expr) and isinstance(getattr(body[0], "value", None), ast.Constant) \
            and isinstance(body[0].value.value, str):
        body = body[1:]
    out = []

    class V(ast.NodeVisitor):
        def visit_Call(self, node):
            self.generic_visit(node)
            nm = _callname(node.func)
            if nm in SHARING_CALLS:
                kws = ",".join(f"{k.arg}={ast.unparse(k.value)}" for k in node.keywords if k.arg)
                recv = ast.unparse(node.func.value) if isinstance(node.func, ast.Attribute) else ""
                out.append(f"call {recv + '.' if recv else ''}{nm}({kws})")

        def visit_Subscript(self, node):
            self.generic_visit(node)
            if isinstance(node.value, ast.Attribute) and node.value.attr in STATE_ATTRS and isinstance(node.ctx, ast.Load):
                out.append(f"index {ast.unparse(node.value)}[{ast.unparse(node.slice)}]")

        def visit_Assign(self, node):
            self.generic_visit(node)
            for t in node.targets:
                if isinstance(t, ast.Attribute) and t.attr in STATE_ATTRS:
                    out.append(f"store {ast.unparse(t)} = {ast.unparse(node.value)}")

        def visit_AnnAssign(self, node):
            self.generic_visit(node)
            if isinstance(node.target, ast.Attribute) and node.target.attr in STATE_ATTRS and node.value is not None:
                out.append(f"store {ast.unparse(node.target)} = {ast.unparse(node.value)}")

        def visit_Return(self, node):
            self.generic_visit(node)
            out.append("return " + (ast.unparse(node.value) if node.value is not None else ""))

    v = V()
    for st in body:
        v.visit(st)
    return out


def current(key):
    import importlib
    mod, cls, fn = key
    m = importlib.import_module(mod)
    obj = getattr(getattr(m, cls), fn) if cls else getattr(m, fn)
    obj = inspect.unwrap(obj)
    return skeleton_of_source(inspect.getsource(obj))


def keyname(key):
    return ".".join(x for x in key if x)


EXPECTED = {}
#EXPECTED-BEGIN
EXPECTED = {'pyttb.khatrirao.khatrirao': ['call matrices[0].copy()',
                               'call np.reshape(newshape=(-1, 1, ncolFirst))',
                               "call np.reshape(newshape=(1, -1, ncolFirst),order='F')",
                               "call np.reshape(newshape=(-1, ncolFirst),order='F')",
                               "return np.reshape(P, newshape=(-1, ncolFirst), order='F')"],
 'pyttb.ktensor.ktensor.__init__': ['call np.array(order=self.order)',
                                    'store self.weights = np.array([], order=self.order)',
                                    'store self.factor_matrices = []',
                                    'return ',
                                    'call weights.copy()',
                                    'store self.weights = weights.copy(self.order)',
                                    'call to_memory_order()',
                                    'store self.weights = to_memory_order(weights, self.order)',
                                    'store self.weights = np.ones(num_components, order=self.order)',
                                    'call fm.copy(order=self.order)',
                                    'store self.factor_matrices = [fm.copy(order=self.order) for fm in factor_matrices]',
                                    'call to_memory_order(copy=True)',
                                    'call list()',
                                    'store self.factor_matrices = factor_matrices'],
 'pyttb.ktensor.ktensor.copy': ['call ttb.ktensor(copy=True)', 'return ttb.ktensor(self.factor_matrices, self.weights, copy=True)'],
 'pyttb.ktensor.ktensor.extract': ['call self.copy()',
                                   'return self.copy()',
                                   'call np.array()',
                                   'call np.asarray()',
                                   'index self.weights[components]',
                                   'index self.factor_matrices[i]',
                                   'call ttb.ktensor()',
                                   'return ttb.ktensor(new_factor_matrices, new_weights)'],
 'pyttb.ktensor.ktensor.tolist': ['call self.copy()',
                                  'call self.copy().normalize()',
                                  'return self.copy().normalize(mode).factor_matrices',
                                  'call fm.copy()',
                                  'return [fm.copy() for fm in self.factor_matrices]',
                                  'call np.diag()',
                                  'call self.factor_matrices.copy()',
                                  'call np.diag()',
                                  'return factor_matrices'],
 'pyttb.pyttb_utils.to_memory_order': ['call array.copy()',
                                       'return array',
                                       'call np.asfortranarray()',
                                       'return np.asfortranarray(array)',
                                       'call np.ascontiguousarray()',
                                       'return np.ascontiguousarray(array)'],
 'pyttb.sptensor.sptensor.__init__': ['call np.array(ndmin=2,dtype=int)',
                                      'store self.subs = np.array([], ndmin=2, dtype=int)',
                                      'call np.array(ndmin=2)',
                                      'store self.vals = np.array([], ndmin=2)',
                                      'return ',
                                      'call np.array(ndmin=2,dtype=int)',
                                      'call np.array(dtype=vals.dtype,ndmin=2)',
                                      'call subs.copy()',
                                      'store self.subs = subs.copy()',
                                      'call vals.copy()',
                                      'store self.vals = vals.copy()',
                                      'return ',
                                      'store self.subs = subs',
                                      'store self.vals = vals',
                                      'return '],
 'pyttb.sptensor.sptensor.copy': ['call ttb.sptensor(copy=True)', 'return ttb.sptensor(self.subs, self.vals, self.shape, copy=True)'],
 'pyttb.sptensor.sptensor.find': ['call self.subs.copy()', 'call self.vals.copy()', 'return (self.subs.copy(), self.vals.copy())'],
 'pyttb.tenmat.tenmat.__getitem__': ['index self.data[item]',
                                     'call result.copy()',
                                     'return result.copy() if isinstance(result, np.ndarray) else result'],
 'pyttb.tenmat.tenmat.__init__': ['call np.array()',
                                  'store self.rindices = np.array([])',
                                  'call np.array()',
                                  'store self.cindices = np.array([])',
                                  'call np.array(ndmin=2,order=self.order)',
                                  'store self.data = np.array([], ndmin=2, order=self.order)',
                                  'return ',
                                  'call data.copy()',
                                  'call np.reshape(order=self.order)',
                                  'call np.array()',
                                  'call np.array()',
                                  'call np.array()',
                                  'call cdims.copy()',
                                  'call rdims.copy()',
                                  'call np.hstack()',
                                  'call rdims.copy()',
                                  'store self.rindices = rdims.copy()',
                                  'call cdims.copy()',
                                  'store self.cindices = cdims.copy()',
                                  'call to_memory_order(copy=copy)',
                                  'store self.data = to_memory_order(data, self.order, copy=copy)',
                                  'return '],
 'pyttb.tenmat.tenmat.copy': ['call ttb.tenmat(copy=True)', 'return ttb.tenmat(self.data, self.rindices, self.cindices, self.tshape, copy=True)'],
 'pyttb.tensor.tensor.__getitem__': ['call np.array()',
                                     'call np.array()',
                                     'call tt_ind2sub(self.shape, idx).transpose()',
                                     'index self.data[tuple(tt_ind2sub(self.shape, idx).transpose())]',
                                     'call np.squeeze()',
                                     'call tt_subsubsref()',
                                     'return tt_subsubsref(a, idx)',
                                     'index self.data[region]',
                                     'call np.array(dtype=int)',
                                     'call np.array(dtype=int)',
                                     'call np.array(dtype=int)',
                                     'call newdata.item()',
                                     'call ttb.tensor(copy=True)',
                                     'return a',
                                     'call np.array()',
                                     'call subs.transpose()',
                                     'index self.data[tuple(subs.transpose())]',
                                     'call np.squeeze()',
                                     'call tt_subsubsref()',
                                     'return tt_subsubsref(a, subs)',
                                     'call np.array()',
                                     'call tt_ind2sub(self.shape, idx).transpose()',
                                     'index self.data[tuple(tt_ind2sub(self.shape, idx).transpose())]',
                                     'call np.squeeze()',
                                     'call tt_subsubsref()',
                                     'return tt_subsubsref(a, idx)'],
 'pyttb.tensor.tensor.__init__': ['call np.array(order=self.order)',
                                  'store self.data = np.array([], order=self.order)',
                                  'return ',
                                  'call np.array()',
                                  'call np.reshape(order=self.order)',
                                  'call data.copy()',
                                  'store self.data = data.copy(self.order)',
                                  'call to_memory_order()',
                                  'store self.data = to_memory_order(data, self.order)',
                                  'return '],
 'pyttb.tensor.tensor.copy': ['call ttb.tensor(copy=True)', 'return ttb.tensor(self.data, self.shape, copy=True)'],
 'pyttb.tensor.tensor.permute': ['call self.copy()',
                                 'return self.copy()',
                                 'call self.copy()',
                                 'return self.copy()',
                                 'call np.transpose()',
                                 'call ttb.tensor(copy=True)',
                                 'return ttb.tensor(np.transpose(self.data, order), copy=True)'],
 'pyttb.tensor.tensor.reshape': ['call self.data.reshape(order=self.order)',
                                 'call ttb.tensor(copy=True)',
                                 'return ttb.tensor(self.data.reshape(shape, order=self.order), shape, copy=True)'],
 'pyttb.tensor.tensor.squeeze': ['call np.array()',
                                 'call self.copy()',
                                 'return self.copy()',
                                 'call self.data.item()',
                                 'return single_item',
                                 'call np.squeeze()',
                                 'call ttb.tensor()',
                                 'return ttb.tensor(np.squeeze(self.data))'],
 'pyttb.tensor.tensor.to_tenmat': ['call np.array()',
                                   'call cdims.copy()',
                                   'call rdims.copy()',
                                   'call np.hstack()',
                                   'call np.array()',
                                   'call np.array()',
                                   'call np.transpose()',
                                   'call to_memory_order()',
                                   'call np.reshape(order=self.order)',
                                   'call ttb.tenmat(tshape=tshape,copy=copy)',
                                   'return ttb.tenmat(data, rdims, cdims, tshape=tshape, copy=copy)']}
#EXPECTED-W4-BEGIN (wave 4: recorded 2026-09-30 from /repo HEAD)
EXPECTED.update({'pyttb.sptenmat.sptenmat.__init__': ['call np.array(ndmin=2,dtype=int)',
                                      'store self.subs = np.array([], ndmin=2, dtype=int)',
                                      'call np.array(ndmin=2)',
                                      'store self.vals = np.array([], ndmin=2)',
                                      'call np.array(dtype=int)',
                                      'call np.array(dtype=int)',
                                      'return ',
                                      'call np.array(ndmin=2,dtype=int)',
                                      'call np.array(ndmin=2)',
                                      'call np.array()',
                                      'call cdims.copy()',
                                      'call rdims.copy()',
                                      'call np.hstack(dtype=int)',
                                      'call np.array()',
                                      'call np.array()',
                                      'call np.array()',
                                      'call np.array()',
                                      'call loc.flatten()',
                                      'call np.squeeze(axis=1)',
                                      'call rdims.copy()',
                                      'call rdims.copy().astype()',
                                      'call cdims.copy()',
                                      'call cdims.copy().astype()',
                                      'store self.subs = newsubs',
                                      'store self.vals = newvals',
                                      'store self.subs = newsubs',
                                      'store self.vals = newvals'],
 'pyttb.sptenmat.sptenmat.copy': ['call sptenmat(copy=True)',
                                  'return sptenmat(self.subs, self.vals, self.rdims, self.cdims, self.tshape, copy=True)'],
 'pyttb.tenmat.tenmat.ctranspose': ['call tenmat(copy=True)',
                                    'return tenmat(self.data.conj().T, self.cindices, self.rindices, self.tshape, copy=True)'],
 'pyttb.tenmat.tenmat.double': ['call to_memory_order(copy=True)',
                                'call to_memory_order(self.data, self.order, copy=True).astype()',
                                'return to_memory_order(self.data, self.order, copy=True).astype(np.float64)'],
 'pyttb.tenmat.tenmat.to_tensor': ['call np.hstack()',
                                   'call self.data.copy()',
                                   'call np.array()',
                                   'call np.reshape(order=self.order)',
                                   'call np.transpose()',
                                   'call to_memory_order()',
                                   'call ttb.tensor(copy=False)',
                                   'return ttb.tensor(data, shape, copy=False)'],
 'pyttb.ttensor.ttensor.__init__': ['call ttb.tensor()',
                                    'store self.core = ttb.tensor()',
                                    'store self.factor_matrices = []',
                                    'return ',
                                    'call core.copy()',
                                    'store self.core = core.copy()',
                                    'call to_memory_order(copy=True)',
                                    'store self.factor_matrices = [to_memory_order(fm, self.order, copy=True) for fm in factors]',
                                    'call to_memory_order(copy=True)',
                                    'store self.core = core',
                                    'store self.factor_matrices = factors',
                                    'call list()',
                                    'store self.factor_matrices = list(factors)',
                                    'return '],
 'pyttb.ttensor.ttensor.copy': ['call ttb.ttensor(copy=True)', 'return ttb.ttensor(self.core, self.factor_matrices, copy=True)']})
#EXPECTED-W4-END
#EXPECTED-END
