(* Proofs/C18Print.v — C18, clause "whatever the printing / verbosity settings", for hosvd, tucker_als and cp_apr (MU):
   the DRIVERS of pyttb/hosvd.py (hosvd), pyttb/tucker_als.py (main loop) and pyttb/cp_apr.py (tt_cp_apr_mu: outer loop, mode
   loop, inner loop, epilogue) transliterated statement by statement as executable state machines that return the result AND
   the list of printed lines.  The numerics (Gram eigen-decomposition, ttm, nvecs, Pi / Phi, normalisations, log-likelihood) are
   abstract oracles on an abstract state; the rank rule of hosvd is the concrete one of Model/C10Tucker.v.  Every `if verbosity >
   ...` / `if printitn > 0 ...` branch is a separate statement of the model and only ever appends to the log.

   Proved for all oracles, all inputs, all option values (printing settings are Python ints: modelled as Z, so negative values
   are covered): the returned result (model, iteration count, fit / kkt traces, every field of `output` that is not the echoed
   parameter itself) is the same for any two printing settings; with printing switched off nothing is printed.

   Reading assumptions (hand model, tied to the source by the print.* metamorphic correspondence pairs): the expressions that
   are evaluated only inside a print statement (hosvd: diffnormsqr / relnorm; cp_apr: norm, innerprod in the final block) do not
   mutate their arguments; cp_apr's wall-clock test `nTimes[iteration] > stoptime` is an oracle of the iteration index. *)
From Coq Require Import List Arith Bool ZArith Lia.
From PV Require Import Base.Index Base.Sum Np.Array Model.Sparse Model.Repr Model.C10Tucker.
Import ListNotations.


(* `(p > 0) and (divmod(k, p)[1] == 0)` for a Python int p and a loop index k >= 0 *)
Definition prints_at (p : Z) (k : nat) : bool := (0 <? p)%Z && (Z.of_nat k mod p =? 0)%Z.

Lemma prints_at_nonpos p k : (p <= 0)%Z -> prints_at p k = false.
Proof. intros H. unfold prints_at. destruct (0 <? p)%Z eqn:E; [apply Z.ltb_lt in E; lia|reflexivity]. Qed.

(* ============================================================================================== *)
(* 1. hosvd(input_tensor, tol, verbosity, dimorder, sequential, ranks)                              *)
(* ============================================================================================== *)
Section Hosvd.
Variables T M FS F : Type.                 (* tensors, factor matrices, the list `factor_matrices`, scalars *)
Variables (f0 : F) (fadd : F -> F -> F) (fltb : F -> F -> bool).
Variable normsq : T -> F.                  (* normxsqr = (input_tensor**2).collapse() *)
Variable thresh : F -> F.                  (* eigsumthresh = tol**2 * normxsqr / d *)
Variable eigs : nat -> T -> list F.        (* Yk = Y.to_tenmat([k]).double(); Z = Yk Yk^T; D, V = eigh(Z); pi = argsort(-D); D[pi] *)
Variable lead : nat -> T -> nat -> M.      (* V[:, pi[0 : r]] for that decomposition *)
Variable setf : FS -> nat -> M -> FS.      (* factor_matrices[k] = ... *)
Variable fs0 : FS.                         (* [np.empty(1)] * d *)
Variable shrink : T -> nat -> M -> T.      (* Y.ttm(factor_matrices[k].transpose(), k) *)
Variable core_all : T -> FS -> T.          (* Y.ttm(factor_matrices, transpose=True) *)
Variable relnorm : T -> T -> FS -> F.      (* sqrt(((X - ttensor(G, factors).full())**2).collapse() / normxsqr): read-only *)
Variable fleb : F -> F -> bool.
Variable tol : F.
Variable ranks : nat -> nat.               (* user ranks, 0 = choose automatically (ranks = np.zeros(d) when None) *)
Variable sequential : bool.

Inductive hv_event : Type :=
| HvStart                                            (* "Computing HOSVD..." *)
| HvNorm (nx thr : F)                                (* "||X||^2 = ..., tol = ..., eigenvalue sum threshold = ..." *)
| HvEigsum (k : nat) (es : list F) (cut : nat)       (* "Reverse cumulative sum of evals of Gram matrix:" + one line per sum *)
| HvCore (G : T)                                     (* "Shape of core: ..." *)
| HvTolOk (rel : F)                                  (* "||X-T||/||X|| = ... <= tol" *)
| HvTolBad (rel : F).                                (* "Tolerance not satisfied!! ..." + warnings.warn(...) *)

Section Run.
Variable verbosity : Z.
Variable thr : F.

(* for k in dimorder: ...   (None = IndexError of `np.where(eigsum > eigsumthresh)[0][-1]`) *)
Fixpoint hv_loop (modes : list nat) (Y : T) (fs : FS) : option (T * FS) * list hv_event :=
  match modes with
  | [] => (Some (Y, fs), [])
  | k :: ms =>
      let ev := eigs k Y in
      let auto := Nat.eqb (ranks k) 0 in                                    (* if ranks[k] == 0: *)
      match (if auto then auto_rank f0 fadd fltb ev thr else Some (ranks k)) with
      | None => (None, [])
      | Some r =>
          let log := if auto && (5 <? verbosity)%Z                          (*     if verbosity > 5: print(...) *)
                     then [HvEigsum k (eigsum f0 fadd ev) r] else [] in
          let U := lead k Y r in                                            (* factor_matrices[k] = V[:, pi[0:ranks[k]]] *)
          let fs' := setf fs k U in
          let Y' := if sequential then shrink Y k U else Y in               (* if sequential: Y = Y.ttm(...) *)
          let res := hv_loop ms Y' fs' in
          (fst res, log ++ snd res)
      end
  end.
End Run.

Definition hv_run (verbosity : Z) (dimorder : list nat) (X : T) : option (T * FS) * list hv_event :=
  let pre1 := if (0 <? verbosity)%Z then [HvStart] else [] in               (* if verbosity > 0: print("Computing HOSVD...") *)
  let nx := normsq X in
  let thr := thresh nx in
  let pre2 := if (2 <? verbosity)%Z then [HvNorm nx thr] else [] in         (* if verbosity > 2: print(...) *)
  match hv_loop verbosity thr dimorder X fs0 with
  | (None, l) => (None, pre1 ++ pre2 ++ l)
  | (Some (Y, fs), l) =>
      let G := if sequential then Y else core_all Y fs in                   (* G = Y  |  G = Y.ttm(factor_matrices, transpose=True) *)
      let post := if (0 <? verbosity)%Z                                     (* if verbosity > 0: diffnormsqr ...; print ... *)
                  then let rel := relnorm X G fs in
                       [HvCore G; if fleb rel tol then HvTolOk rel else HvTolBad rel]
                  else [] in
      (Some (G, fs), pre1 ++ pre2 ++ l ++ post)
  end.

Lemma hv_loop_indep v1 v2 thr modes : forall Y fs, fst (hv_loop v1 thr modes Y fs) = fst (hv_loop v2 thr modes Y fs).
Proof.
  induction modes as [|k ms IH]; intros Y fs; cbn [hv_loop]; [reflexivity|].
  destruct (if Nat.eqb (ranks k) 0 then auto_rank f0 fadd fltb (eigs k Y) thr else Some (ranks k)) as [r|]; [|reflexivity].
  cbn [fst]. apply IH.
Qed.

(* the returned ttensor (core, factor list) — or the IndexError — does not depend on the verbosity *)
Theorem hosvd_print_indep : forall (v1 v2 : Z) (dimorder : list nat) (X : T),
  fst (hv_run v1 dimorder X) = fst (hv_run v2 dimorder X).
Proof.
  intros v1 v2 dimorder X. unfold hv_run.
  pose proof (hv_loop_indep v1 v2 (thresh (normsq X)) dimorder X fs0) as H.
  destruct (hv_loop v1 (thresh (normsq X)) dimorder X fs0) as [[[Y1 f1]|] l1];
  destruct (hv_loop v2 (thresh (normsq X)) dimorder X fs0) as [[[Y2 f2]|] l2]; cbn [fst] in H |- *;
  try discriminate; [|reflexivity].
  inversion H; subst. reflexivity.
Qed.

Lemma hv_loop_silent v thr modes : (v <= 5)%Z -> forall Y fs, snd (hv_loop v thr modes Y fs) = [].
Proof.
  intros Hv. assert (E : (5 <? v)%Z = false) by (apply Z.ltb_ge; lia).
  induction modes as [|k ms IH]; intros Y fs; cbn [hv_loop]; [reflexivity|].
  destruct (if Nat.eqb (ranks k) 0 then auto_rank f0 fadd fltb (eigs k Y) thr else Some (ranks k)) as [r|]; [|reflexivity].
  cbn [snd]. rewrite E, andb_false_r. cbn [app]. apply IH.
Qed.

(* verbosity <= 0: nothing is printed and no warning is issued *)
Theorem hosvd_silent : forall (v : Z) (dimorder : list nat) (X : T), (v <= 0)%Z -> snd (hv_run v dimorder X) = [].
Proof.
  intros v dimorder X Hv. unfold hv_run.
  assert (E0 : (0 <? v)%Z = false) by (apply Z.ltb_ge; lia).
  assert (E2 : (2 <? v)%Z = false) by (apply Z.ltb_ge; lia).
  pose proof (hv_loop_silent v (thresh (normsq X)) dimorder ltac:(lia) X fs0) as H.
  rewrite E0, E2.
  destruct (hv_loop v (thresh (normsq X)) dimorder X fs0) as [[[Y f]|] l]; cbn [snd] in H |- *; subst l; reflexivity.
Qed.
End Hosvd.

(* ============================================================================================== *)
(* 2. tucker_als main loop and epilogue                                                             *)
(* ============================================================================================== *)
Section TuckerAls.
Variables Fs C F : Type.                   (* factor list U, core tensor, scalars *)
Variable sweep : Fs -> Fs * C.             (* for n in dimorder: Utilde = X.ttm(U, exclude_dims=n, transpose=True); U[n] = Utilde.nvecs(n, rank[n]);
                                              core = Utilde.ttm(U, n, transpose=True) *)
Variable resid : C -> F.                   (* normresidual = sqrt(abs(normX**2 - core.norm()**2)) *)
Variable fit_of : F -> F.                  (* fit = 1 - normresidual / normX *)
Variable fchange : F -> F -> F.            (* abs(fitold - fit) *)
Variable fltb : F -> F -> bool.
Variable fit0 : F.                         (* fit = 0 *)
Variable stoptol : F.

Inductive tk_event : Type :=
| TkHeader                                           (* "Tucker Alternating Least-Squares:" *)
| TkIter (k : nat) (fit fitchange : F).              (* " Iter k: fit = ... fitdelta = ..." *)

Record tk_result : Type := mkTk {
  tk_core : C; tk_U : Fs;      (* solution = ttensor(core, U) *)
  tk_iters : nat;              (* output["iters"] = iteration *)
  tk_normres : F;              (* output["normresidual"] *)
  tk_fit : F;                  (* output["fit"] *)
  tk_trace : list F            (* fit of every executed iteration *)
}.

Section Run.
Variable printitn : Z.

(* for iteration in range(maxiters): ...   rem = iterations still to come, k = next value of `iteration`,
   last = (core, iteration, normresidual) once bound (None before the first iteration: with maxiters = 0 the statement
   `ttensor(core, U)` raises UnboundLocalError = None) *)
Fixpoint tk_loop (rem k : nat) (U : Fs) (fit : F) (last : option (C * nat * F)) (tr : list F) : option tk_result * list tk_event :=
  match rem with
  | O => (match last with None => None | Some (core, it, nr) => Some (mkTk core U it nr fit tr) end, [])
  | S rem' =>
      let fitold := fit in                                                   (* fitold = fit *)
      let U' := fst (sweep U) in
      let core := snd (sweep U) in
      let nr := resid core in
      let fit' := fit_of nr in
      let fc := fchange fitold fit' in                                       (* fitchange = abs(fitold - fit) *)
      let ev := if prints_at printitn k then [TkIter k fit' fc] else [] in   (* if (printitn > 0) and (iteration % printitn == 0) *)
      if fltb fc stoptol                                                     (* if fitchange < stoptol: break *)
      then (Some (mkTk core U' k nr fit' (tr ++ [fit'])), ev)
      else let res := tk_loop rem' (S k) U' fit' (Some (core, k, nr)) (tr ++ [fit']) in (fst res, ev ++ snd res)
  end.
End Run.

Definition tk_run (printitn : Z) (maxiters : nat) (U0 : Fs) : option tk_result * list tk_event :=
  let hdr := if (0 <? printitn)%Z then [TkHeader] else [] in                 (* if printitn > 0: print(...) *)
  let res := tk_loop printitn maxiters 0 U0 fit0 None [] in
  (fst res, hdr ++ snd res).

Lemma tk_loop_indep p1 p2 rem : forall k U fit last tr,
  fst (tk_loop p1 rem k U fit last tr) = fst (tk_loop p2 rem k U fit last tr).
Proof.
  induction rem as [|rem IH]; intros k U fit last tr; cbn [tk_loop]; [reflexivity|].
  destruct (fltb _ stoptol); cbn [fst]; [reflexivity|apply IH].
Qed.

(* solution, iteration count, residual, fit and the whole fit trace do not depend on printitn *)
Theorem tucker_als_print_indep : forall (p1 p2 : Z) (maxiters : nat) (U0 : Fs),
  fst (tk_run p1 maxiters U0) = fst (tk_run p2 maxiters U0).
Proof. intros. unfold tk_run. cbn [fst]. apply tk_loop_indep. Qed.

Lemma tk_loop_silent p rem : (p <= 0)%Z -> forall k U fit last tr, snd (tk_loop p rem k U fit last tr) = [].
Proof.
  intros Hp. induction rem as [|rem IH]; intros k U fit last tr; cbn [tk_loop]; [reflexivity|].
  rewrite (prints_at_nonpos p k Hp). destruct (fltb _ stoptol); cbn [snd app]; [reflexivity|apply IH].
Qed.

Theorem tucker_als_silent : forall (p : Z) (maxiters : nat) (U0 : Fs), (p <= 0)%Z -> snd (tk_run p maxiters U0) = [].
Proof.
  intros p maxiters U0 Hp. unfold tk_run. cbn [snd].
  assert (E : (0 <? p)%Z = false) by (apply Z.ltb_ge; lia). rewrite E. cbn [app]. now apply tk_loop_silent.
Qed.

End TuckerAls.

(* ============================================================================================== *)
(* 3. cp_apr, multiplicative updates: tt_cp_apr_mu                                                  *)
(* ============================================================================================== *)
Section CpAprMu.
Variables St P F : Type.                   (* St = (M, Phi, kktModeViolations); P = Pi *)
Variable N : nat.                          (* input_tensor.ndims *)
Variable fixslack : nat -> nat -> St -> St * bool.
                                           (* if iteration > 0: V = (Phi[n] > 0) & (M[n] < kappatol); if any(V): M[n][V] += kappa;  bool = any(V) *)
Variable redist : nat -> St -> St.         (* M.redistribute(mode=n) *)
Variable calc_pi : nat -> St -> P.         (* Pi = calculate_pi(input_tensor, M, rank, n, N) *)
Variable calc_phi : nat -> P -> St -> St * F.
                                           (* Phi[n] = calculate_phi(...); kktModeViolations[n] = max|min(M[n], 1 - Phi[n])|;  F = that value *)
Variable mulupd : nat -> St -> St.         (* M.factor_matrices[n] *= Phi[n] *)
Variable renorm : nat -> St -> St.         (* M.normalize(normtype=1, mode=n) *)
Variable kktmax : St -> F.                 (* np.max(kktModeViolations) *)
Variable fltb : F -> F -> bool.
Variable stoptol : F.
Variable maxinner : nat.
Variable timeup : nat -> bool.             (* nTimes[iteration] > stoptime (wall clock: an oracle of the iteration index) *)
Variable finish : St -> St.                (* M.normalize(sort=True, normtype=1) *)
Variable loglik : St -> St * F.            (* obj = tt_loglikelihood(input_tensor, M): normalises M IN PLACE and returns the value *)
Variable lsfit : St -> F.                  (* 1 - sqrt(normX^2 + M.norm()^2 - 2 <X,M>) / normX: read-only *)

Inductive mu_event : Type :=
| MuHeader                                           (* "CP_APR:" *)
| MuInner (n i : nat) (kkt : F)                      (* "Mode = n, Inner Iter = i, KKT violation = ..." *)
| MuIter (k inner : nat) (kkt : F) (nviol : nat)     (* "Iter k: Inner Its = ... KKT violation = ..., nViolations = ..." *)
| MuExitKkt | MuExitTime
| MuFinal (obj fit kkt : F) (total : nat).           (* the "=====" block *)

Record mu_result : Type := mkMu {
  mu_model : St;               (* returned M *)
  mu_kkt : list F;             (* output["kktViolations"] *)
  mu_inner : list nat;         (* output["nInnerIters"] *)
  mu_nviol : list nat;         (* output["nViolations"] *)
  mu_obj : F                   (* output["obj"] *)
}.

Section Run.
Variables printitn printinneritn : Z.

(* for i in range(maxinneriters): ...   returns (state, isConverged, number of inner iterations counted, log) *)
Fixpoint mu_inner_loop (rem i n : nat) (pi : P) (s : St) (conv : bool) (cnt : nat) : St * bool * nat * list mu_event :=
  match rem with
  | O => (s, conv, cnt, [])
  | S rem' =>
      let cnt' := S cnt in                                                   (* nInnerIters[iteration] += 1 *)
      let s1 := fst (calc_phi n pi s) in
      let kkt := snd (calc_phi n pi s) in
      if fltb kkt stoptol then (s1, conv, cnt', [])                          (* if kktModeViolations[n] < stoptol: break *)
      else
        let s2 := mulupd n s1 in                                             (* isConverged = False; M[n] *= Phi[n] *)
        let ev := if prints_at printinneritn i then [MuInner n i kkt] else [] in
        let '(s3, c3, n3, l3) := mu_inner_loop rem' (S i) n pi s2 false cnt' in
        (s3, c3, n3, ev ++ l3)
  end.

(* for n in range(N): ...   (modes = remaining values of n) *)
Fixpoint mu_modes (iteration : nat) (modes : list nat) (s : St) (conv : bool) (cnt nviol : nat) : St * bool * nat * nat * list mu_event :=
  match modes with
  | [] => (s, conv, cnt, nviol, [])
  | n :: ms =>
      let s1 := fst (fixslack iteration n s) in
      let nviol' := if snd (fixslack iteration n s) then S nviol else nviol in   (* nViolations[iteration] += 1 *)
      let s2 := redist n s1 in
      let pi := calc_pi n s2 in
      let '(s3, c3, n3, l3) := mu_inner_loop maxinner 0 n pi s2 conv cnt in
      let s4 := renorm n s3 in
      let '(s5, c5, n5, v5, l5) := mu_modes iteration ms s4 c3 n3 nviol' in
      (s5, c5, n5, v5, l3 ++ l5)
  end.

(* for iteration in range(maxiters): ...   returns (state, traces, log); the traces are the prefixes [: iteration + 1] *)
Fixpoint mu_outer (rem k : nat) (s : St) (kk : list F) (ii vv : list nat) : St * list F * list nat * list nat * list mu_event :=
  match rem with
  | O => (s, kk, ii, vv, [])
  | S rem' =>
      let '(s1, conv, cnt, nviol, l1) := mu_modes k (seq 0 N) s true 0 0 in  (* isConverged = True; for n in range(N): ... *)
      let kkt := kktmax s1 in                                                (* kktViolations[iteration] = max(kktModeViolations) *)
      let ev := if prints_at printitn k then [MuIter k cnt kkt nviol] else [] in
      let kk' := kk ++ [kkt] in let ii' := ii ++ [cnt] in let vv' := vv ++ [nviol] in
      if conv then (s1, kk', ii', vv', l1 ++ ev ++ (if (0 <? printitn)%Z then [MuExitKkt] else []))
      else if timeup k then (s1, kk', ii', vv', l1 ++ ev ++ (if (0 <? printitn)%Z then [MuExitTime] else []))
      else let '(s2, k2, i2, v2, l2) := mu_outer rem' (S k) s1 kk' ii' vv' in (s2, k2, i2, v2, l1 ++ ev ++ l2)
  end.
End Run.

Definition mu_run (printitn printinneritn : Z) (maxiters : nat) (s0 : St) : mu_result * list mu_event :=
  let hdr := if (0 <? printitn)%Z then [MuHeader] else [] in
  let '(s1, kk, ii, vv, l1) := mu_outer printitn printinneritn maxiters 0 s0 [] [] [] in
  let s2 := finish s1 in
  let s3 := fst (loglik s2) in
  let obj := snd (loglik s2) in
  let post := if (0 <? printitn)%Z then [MuFinal obj (lsfit s3) (last kk obj) (fold_right Nat.add 0%nat ii)] else [] in
  (mkMu s3 kk ii vv obj, hdr ++ l1 ++ post).

Lemma mu_inner_indep q1 q2 rem : forall i n pi s conv cnt,
  fst (mu_inner_loop q1 rem i n pi s conv cnt) = fst (mu_inner_loop q2 rem i n pi s conv cnt).
Proof.
  induction rem as [|rem IH]; intros i n pi s conv cnt; cbn [mu_inner_loop]; [reflexivity|].
  destruct (fltb _ stoptol); [reflexivity|].
  specialize (IH (S i) n pi (mulupd n (fst (calc_phi n pi s))) false (S cnt)).
  destruct (mu_inner_loop q1 rem _ _ _ _ _ _) as [[[a1 b1] c1] d1].
  destruct (mu_inner_loop q2 rem _ _ _ _ _ _) as [[[a2 b2] c2] d2].
  cbn [fst] in IH |- *. exact IH.
Qed.

Lemma mu_modes_indep q1 q2 it modes : forall s conv cnt nviol,
  fst (mu_modes q1 it modes s conv cnt nviol) = fst (mu_modes q2 it modes s conv cnt nviol).
Proof.
  induction modes as [|n ms IH]; intros s conv cnt nviol; cbn [mu_modes]; [reflexivity|].
  pose proof (mu_inner_indep q1 q2 maxinner 0 n (calc_pi n (redist n (fst (fixslack it n s)))) (redist n (fst (fixslack it n s))) conv cnt) as H.
  destruct (mu_inner_loop q1 maxinner _ _ _ _ _ _) as [[[a1 b1] c1] d1].
  destruct (mu_inner_loop q2 maxinner _ _ _ _ _ _) as [[[a2 b2] c2] d2].
  cbn [fst] in H. inversion H; subst.
  specialize (IH (renorm n a2) b2 c2 (if snd (fixslack it n s) then S nviol else nviol)).
  destruct (mu_modes q1 it ms _ _ _ _) as [[[[e1 f1] g1] h1] l1].
  destruct (mu_modes q2 it ms _ _ _ _) as [[[[e2 f2] g2] h2] l2].
  cbn [fst] in IH |- *. exact IH.
Qed.

Lemma mu_outer_indep p1 q1 p2 q2 rem : forall k s kk ii vv,
  fst (mu_outer p1 q1 rem k s kk ii vv) = fst (mu_outer p2 q2 rem k s kk ii vv).
Proof.
  induction rem as [|rem IH]; intros k s kk ii vv; cbn [mu_outer]; [reflexivity|].
  pose proof (mu_modes_indep q1 q2 k (seq 0 N) s true 0 0) as H.
  destruct (mu_modes q1 k (seq 0 N) s true 0 0) as [[[[a1 b1] c1] d1] l1].
  destruct (mu_modes q2 k (seq 0 N) s true 0 0) as [[[[a2 b2] c2] d2] l2].
  cbn [fst] in H. inversion H; subst.
  destruct b2; [reflexivity|]. destruct (timeup k); [reflexivity|].
  specialize (IH (S k) a2 (kk ++ [kktmax a2]) (ii ++ [c2]) (vv ++ [d2])).
  destruct (mu_outer p1 q1 rem _ _ _ _ _) as [[[[e1 f1] g1] h1] m1].
  destruct (mu_outer p2 q2 rem _ _ _ _ _) as [[[[e2 f2] g2] h2] m2].
  cbn [fst] in IH |- *. exact IH.
Qed.

(* model, kkt / inner-iteration / violation traces and objective do not depend on printitn nor on printinneritn *)
Theorem cp_apr_mu_print_indep : forall (p1 q1 p2 q2 : Z) (maxiters : nat) (s0 : St),
  fst (mu_run p1 q1 maxiters s0) = fst (mu_run p2 q2 maxiters s0).
Proof.
  intros. unfold mu_run.
  pose proof (mu_outer_indep p1 q1 p2 q2 maxiters 0 s0 [] [] []) as H.
  destruct (mu_outer p1 q1 maxiters 0 s0 [] [] []) as [[[[a1 b1] c1] d1] l1].
  destruct (mu_outer p2 q2 maxiters 0 s0 [] [] []) as [[[[a2 b2] c2] d2] l2].
  cbn [fst] in H. inversion H; subst. reflexivity.
Qed.

Lemma mu_inner_silent q rem : (q <= 0)%Z -> forall i n pi s conv cnt, snd (mu_inner_loop q rem i n pi s conv cnt) = [].
Proof.
  intros Hq. induction rem as [|rem IH]; intros i n pi s conv cnt; cbn [mu_inner_loop]; [reflexivity|].
  destruct (fltb _ stoptol); [reflexivity|]. rewrite (prints_at_nonpos q i Hq).
  specialize (IH (S i) n pi (mulupd n (fst (calc_phi n pi s))) false (S cnt)).
  destruct (mu_inner_loop q rem _ _ _ _ _ _) as [[[a b] c] d]. cbn [snd] in IH |- *. subst d. reflexivity.
Qed.

Lemma mu_modes_silent q it modes : (q <= 0)%Z -> forall s conv cnt nviol, snd (mu_modes q it modes s conv cnt nviol) = [].
Proof.
  intros Hq. induction modes as [|n ms IH]; intros s conv cnt nviol; cbn [mu_modes]; [reflexivity|].
  pose proof (mu_inner_silent q maxinner Hq 0 n (calc_pi n (redist n (fst (fixslack it n s)))) (redist n (fst (fixslack it n s))) conv cnt) as H.
  destruct (mu_inner_loop q maxinner _ _ _ _ _ _) as [[[a b] c] d]. cbn [snd] in H. subst d.
  specialize (IH (renorm n a) b c (if snd (fixslack it n s) then S nviol else nviol)).
  destruct (mu_modes q it ms _ _ _ _) as [[[[e f] g] h] l]. cbn [snd] in IH |- *. subst l. reflexivity.
Qed.

Lemma mu_outer_silent p q rem : (p <= 0)%Z -> (q <= 0)%Z -> forall k s kk ii vv, snd (mu_outer p q rem k s kk ii vv) = [].
Proof.
  intros Hp Hq. assert (E : (0 <? p)%Z = false) by (apply Z.ltb_ge; lia).
  induction rem as [|rem IH]; intros k s kk ii vv; cbn [mu_outer]; [reflexivity|].
  pose proof (mu_modes_silent q k (seq 0 N) Hq s true 0 0) as H.
  destruct (mu_modes q k (seq 0 N) s true 0 0) as [[[[a b] c] d] l]. cbn [snd] in H. subst l.
  rewrite (prints_at_nonpos p k Hp), E.
  destruct b; [reflexivity|]. destruct (timeup k); [reflexivity|].
  specialize (IH (S k) a (kk ++ [kktmax a]) (ii ++ [c]) (vv ++ [d])).
  destruct (mu_outer p q rem _ _ _ _ _) as [[[[e f] g] h] m]. cbn [snd] in IH |- *. subst m. reflexivity.
Qed.

Theorem cp_apr_mu_silent : forall (p q : Z) (maxiters : nat) (s0 : St), (p <= 0)%Z -> (q <= 0)%Z -> snd (mu_run p q maxiters s0) = [].
Proof.
  intros p q maxiters s0 Hp Hq. unfold mu_run.
  assert (E : (0 <? p)%Z = false) by (apply Z.ltb_ge; lia). rewrite E.
  pose proof (mu_outer_silent p q maxiters Hp Hq 0 s0 [] [] []) as H.
  destruct (mu_outer p q maxiters 0 s0 [] [] []) as [[[[a b] c] d] l]. cbn [snd] in H |- *. subst l. reflexivity.
Qed.
End CpAprMu.

(* ============================================================================================== *)
(* concrete runs (non-vacuity): the printing runs print, the silent ones do not, the results agree  *)
(* ============================================================================================== *)
Arguments HvStart {T F}.  Arguments HvNorm {T F} nx thr.  Arguments HvEigsum {T F} k es cut.  Arguments HvCore {T F} G.
Arguments HvTolOk {T F} rel.  Arguments HvTolBad {T F} rel.
Arguments TkHeader {F}.  Arguments TkIter {F} k fit fitchange.
Arguments mkTk {Fs C F} _ _ _ _ _ _.
Arguments mkMu {St F} _ _ _ _ _.

Module C18PrintExamples.
Local Open Scope Z_scope.

(* hosvd: "tensor" = a Z, eigenvalues of mode k = [Y + k; 3; 1], threshold = normsq / 10, user rank 2 for mode 1, automatic
   for the others; shrinking subtracts the number of kept columns *)
Definition ex_hv := hv_run Z nat (list (nat * nat)) Z 0 Z.add Z.ltb (fun x => x * x) (fun nx => nx / 10)
  (fun k Y => [Y + Z.of_nat k; 3; 1]) (fun _ _ r => r) (fun fs k U => fs ++ [(k, U)]) [] (fun Y _ U => Y - Z.of_nat U)
  (fun Y fs => Y + Z.of_nat (length fs)) (fun X G _ => X - G) Z.leb 1 (fun k => if Nat.eqb k 1 then 2%nat else 0%nat) true.

Example ex_hv_silent : ex_hv 0 [2; 0; 1]%nat 6 = (Some (0, [(2, 2); (0, 2); (1, 2)]%nat), []).
Proof. vm_compute. reflexivity. Qed.
Example ex_hv_loud : ex_hv 6 [2; 0; 1]%nat 6
  = (Some (0, [(2, 2); (0, 2); (1, 2)]%nat),
     [HvStart; HvNorm 36 3; HvEigsum 2%nat [12; 4; 1] 2%nat; HvEigsum 0%nat [8; 4; 1] 2%nat; HvCore 0; HvTolBad 6]).
Proof. vm_compute. reflexivity. Qed.
(* the automatic rule finds no eigenvalue sum above the threshold: IndexError at every verbosity *)
Example ex_hv_fail : ex_hv 6 [2; 0; 1]%nat 40 = (None, [HvStart; HvNorm 1600 160]) /\ fst (ex_hv 0 [2; 0; 1]%nat 40) = None.
Proof. vm_compute. split; reflexivity. Qed.
Example ex_hv_mid : ex_hv 3 [2; 0; 1]%nat 6
  = (Some (0, [(2, 2); (0, 2); (1, 2)]%nat), [HvStart; HvNorm 36 3; HvCore 0; HvTolBad 6]).
Proof. vm_compute. reflexivity. Qed.

(* tucker_als: factors = a Z halved by every sweep, core = 3 * factors, residual = core, fit = 100 - residual *)
Definition ex_tk := tk_run Z Z Z (fun U => (U / 2 + 1, 3 * U)) (fun c => c) (fun nr => 100 - nr)
  (fun a b => Z.abs (a - b)) Z.ltb 0 20.

Example ex_tk_silent : ex_tk 0 10%nat 80 = (Some (mkTk 18 4 4%nat 18 82 [-140; -23; 37; 67; 82]), []).
Proof. vm_compute. reflexivity. Qed.
Example ex_tk_every2 : ex_tk 2 10%nat 80
  = (Some (mkTk 18 4 4%nat 18 82 [-140; -23; 37; 67; 82]), [TkHeader; TkIter 0%nat (-140) 140; TkIter 2%nat 37 60; TkIter 4%nat 82 15]).
Proof. vm_compute. reflexivity. Qed.
Example ex_tk_negative : ex_tk (-3) 10%nat 80 = (Some (mkTk 18 4 4%nat 18 82 [-140; -23; 37; 67; 82]), []).
Proof. vm_compute. reflexivity. Qed.
(* maxiters = 0: `core` is never bound: the run fails (UnboundLocalError) whatever the printing setting *)
Example ex_tk_zero : ex_tk 1 0%nat 80 = (None, [TkHeader]).
Proof. vm_compute. reflexivity. Qed.

(* cp_apr MU on two modes: state = a Z; the slackness repair fires on odd states from the second outer iteration on *)
Definition ex_mu := mu_run Z Z Z 2%nat
  (fun it n s => if (0 <? it)%nat && Z.odd s then (s + 1, true) else (s, false)) (fun n s => s + Z.of_nat n) (fun n s => s)
  (fun n pi s => (s, Z.abs (s - pi / 2))) (fun n s => s - 3) (fun n s => s) (fun s => s) Z.ltb 8 3%nat (fun _ => false)
  (fun s => s) (fun s => (s + 1000, - s)) (fun s => s).

Example ex_mu_silent : ex_mu 0 0 5%nat 40 = (mkMu 1013 [23; 16; 12; 13] [6; 5; 4; 2]%nat [0; 1; 1; 0]%nat (-13), []).
Proof. vm_compute. reflexivity. Qed.
Example ex_mu_loud : fst (ex_mu 1 2 5%nat 40) = mkMu 1013 [23; 16; 12; 13] [6; 5; 4; 2]%nat [0; 1; 1; 0]%nat (-13) /\ length (snd (ex_mu 1 2 5%nat 40)) = 15%nat.
Proof. vm_compute. split; reflexivity. Qed.
End C18PrintExamples.
