(* Proofs/C18GenPrintTucker.v — C18, printitn clause for tucker_als, tied to the GENERATED main loop (Gen/GenTuckerAls.v, regenerated from
   /repo/pyttb/tucker_als.py on every run).

   Proofs/C18GenPrint.v shows that the generated function does not read its parameter v_printitn.  Here the hand-written print driver
   of Proofs/C18Print.v (tk_run: the same loop WITH printitn as a Python int, the header line and the per-iteration status lines as
   events) is bridged to the generated code: with the driver's oracles instantiated by the generated kernels

       sweep U   = the generated mode loop tucker_als_main_loop2 over dimorder, then core = k_ttm_core Utilde U n
       resid     = k_resid normX,  fit_of nr = k_fit nr normX,  fchange = k_absdiff,  a < b  =  not (b <= a)

   the result component of tk_run under EVERY printitn (any integer) is what tucker_als_main returns under every value of its own
   (unused) parameter: solution, iteration count, normresidual, fit - or the UnboundLocalError of maxiters = 0.
   Side condition = what tucker_als's argument checks establish: dimorder is not empty and every mode is a valid index of U and rank. *)
From Coq Require Import String List Arith Bool ZArith Lia.
From PV Require Import Model.W4SPrelude Gen.GenTuckerAls Proofs.C18Print Proofs.C18GenPrintHosvd.
Import ListNotations.
Local Open Scope nat_scope.

Section TuckerPrintBridge.
Variables T_F T_Mat T_X T_TT : Type.
Variable c_leF : T_F -> T_F -> bool.
Variable c_zeroF : T_F.
Variable k_ttm_excl : T_X -> list T_Mat -> nat -> bool -> T_X.
Variable k_nvecs : T_X -> nat -> nat -> T_Mat.
Variable k_ttm_core : T_X -> list T_Mat -> nat -> bool -> T_X.
Variable k_resid : T_F -> T_X -> T_F.
Variable k_fit : T_F -> T_F -> T_F.
Variable k_absdiff : T_F -> T_F -> T_F.
Variable k_ttensor : T_X -> list T_Mat -> bool -> T_TT.

Notation gmain := (GenTuckerAls.tucker_als_main T_F T_Mat T_X T_TT c_leF c_zeroF k_ttm_excl k_nvecs k_ttm_core k_resid k_fit k_absdiff k_ttensor).
Notation gloop1 := (GenTuckerAls.tucker_als_main_loop1 T_F T_Mat T_X c_leF k_ttm_excl k_nvecs k_ttm_core k_resid k_fit k_absdiff).
Notation gloop2 := (GenTuckerAls.tucker_als_main_loop2 T_Mat T_X k_ttm_excl k_nvecs).

Variable X : T_X.
Variable normX : T_F.
Variable rank : list nat.
Variable dimorder : list nat.
Variable stoptol : T_F.

(* the generated mode loop never raises on valid modes, keeps the length of U and binds Utilde / n as soon as one mode is visited *)
Lemma gen_tucker_sweep_defined : forall xs U a b,
  (forall k, In k xs -> k < length U /\ k < length rank) ->
  exists U' a' b', gloop2 X rank xs (U, a, b) = Some (U', a', b') /\ length U' = length U /\
                   (xs = [] /\ a' = a /\ b' = b \/ exists Ut n, a' = Some Ut /\ b' = Some n).
Proof.
  induction xs as [|x xs IH]; intros U a b Hv.
  - exists U, a, b. cbn. repeat split; auto.
  - cbn [GenTuckerAls.tucker_als_main_loop2].
    destruct (Hv x (or_introl eq_refl)) as [HxU Hxr].
    destruct (nth_error rank x) as [t1|] eqn:Er; [|apply nth_error_None in Er; lia].
    destruct (c18_sk_set_some U x (k_nvecs (k_ttm_excl X U x true) x t1) HxU) as [U1 E1]. rewrite E1.
    pose proof (c18_sk_set_length _ _ _ _ E1) as L1.
    destruct (IH U1 (Some (k_ttm_excl X U x true)) (Some x)) as (U' & a' & b' & E & L & D).
    { intros k Hk. rewrite L1. apply Hv. now right. }
    exists U', a', b'. split; [exact E|]. split; [congruence|]. right.
    destruct D as [(_ & -> & ->)|D]; [eauto|exact D].
Qed.

(* oracles of the hand print driver made of the generated kernels *)
Definition g_sweep (U : list T_Mat) : list T_Mat * T_X :=
  match gloop2 X rank dimorder (U, None, None) with
  | Some (U', Some Ut, Some n) => (U', k_ttm_core Ut U' n true)
  | _ => (U, X)
  end.
Definition g_ltb (a b : T_F) : bool := negb (c_leF b a).

Notation hloop p := (tk_loop (list T_Mat) T_X T_F g_sweep (k_resid normX) (fun nr => k_fit nr normX) k_absdiff g_ltb stoptol p).
Notation hrun p := (tk_run (list T_Mat) T_X T_F g_sweep (k_resid normX) (fun nr => k_fit nr normX) k_absdiff g_ltb c_zeroF stoptol p).

Definition h_fin (r : tk_result (list T_Mat) T_X T_F) : T_TT * (nat * T_F * T_F) :=
  (k_ttensor (tk_core _ _ _ r) (tk_U _ _ _ r) false, (tk_iters _ _ _ r, tk_normres _ _ _ r, tk_fit _ _ _ r)).

Definition g_fin (st : list T_Mat * option T_X * T_F * option nat * option T_F) : option (T_TT * (nat * T_F * T_F)) :=
  let '(U, core, fit, it, nr) := st in
  match core, it, nr with
  | Some core, Some it, Some nr => Some (k_ttensor core U false, (it, nr, fit))
  | _, _, _ => None
  end.

Definition g_state (U : list T_Mat) (fit : T_F) (last : option (T_X * nat * T_F)) :=
  match last with
  | Some (core, it, nr) => (U, Some core, fit, Some it, Some nr)
  | None => (U, @None T_X, fit, @None nat, @None T_F)
  end.

Hypothesis dimorder_nonempty : dimorder <> [].

Lemma tucker_print_loop_bridge (p : Z) (d : nat) :
  (forall k, In k dimorder -> k < d /\ k < length rank) ->
  forall fuel i U fit last tr, length U = d ->
  option_map h_fin (fst (hloop p fuel i U fit last tr)) =
  match gloop1 dimorder X normX rank stoptol fuel i (g_state U fit last) with Some st => g_fin st | None => None end.
Proof.
  intros Hv. induction fuel as [|fuel IH]; intros i U fit last tr HU.
  - cbn. destruct last as [[[core it] nr]|]; reflexivity.
  - cbn [tk_loop].
    assert (E : exists U' Ut n, gloop2 X rank dimorder (U, None, None) = Some (U', Some Ut, Some n) /\ length U' = d).
    { destruct (gen_tucker_sweep_defined dimorder U None None) as (U' & a' & b' & E & L & D).
      - intros k Hk. rewrite HU. now apply Hv.
      - destruct D as [(En & _)|(Ut & n & -> & ->)]; [contradiction|]. exists U', Ut, n. split; [exact E|congruence]. }
    destruct E as (U' & Ut & n & E & L).
    assert (Eg : gloop1 dimorder X normX rank stoptol (S fuel) i (g_state U fit last) =
                 let core := k_ttm_core Ut U' n true in
                 let nr := k_resid normX core in
                 let fit' := k_fit nr normX in
                 if negb (c_leF stoptol (k_absdiff fit fit'))
                 then Some (U', Some core, fit', Some i, Some nr)
                 else gloop1 dimorder X normX rank stoptol fuel (S i) (g_state U' fit' (Some (core, i, nr)))).
    { destruct last as [[[c0 i0] n0]|]; cbn [g_state GenTuckerAls.tucker_als_main_loop1]; rewrite E; reflexivity. }
    assert (Esw : g_sweep U = (U', k_ttm_core Ut U' n true)) by (unfold g_sweep; rewrite E; reflexivity).
    rewrite Eg. cbn zeta. rewrite !Esw. cbn [fst snd]. unfold g_ltb at 1.
    destruct (negb (c_leF stoptol (k_absdiff fit (k_fit (k_resid normX (k_ttm_core Ut U' n true)) normX)))).
    + cbn [fst option_map g_fin]. reflexivity.
    + cbn [fst]. rewrite (IH (S i) U' _ (Some (k_ttm_core Ut U' n true, i, k_resid normX (k_ttm_core Ut U' n true))) _ L).
      reflexivity.
Qed.

(* BRIDGE: the result of the hand print driver under ANY printitn (Python int) = the result of the generated tucker_als main part
   under any value p' of its parameter v_printitn *)
Theorem tucker_print_bridge : forall (p : Z) (p' : nat) maxiters Uinit,
  (forall k, In k dimorder -> k < length Uinit /\ k < length rank) ->
  option_map h_fin (fst (hrun p maxiters Uinit)) =
  option_map (fun '(sol, _, out) => (sol, out)) (gmain X Uinit normX rank dimorder maxiters stoptol p').
Proof.
  intros p p' maxiters Uinit Hv. unfold tk_run, GenTuckerAls.tucker_als_main. cbn [fst].
  rewrite (tucker_print_loop_bridge p (length Uinit) Hv maxiters 0 Uinit c_zeroF None [] eq_refl). cbn [g_state].
  destruct (gloop1 dimorder X normX rank stoptol maxiters 0 (Uinit, None, c_zeroF, None, None)) as [[[[[U core] fit] it] nr]|];
    [|reflexivity].
  cbn [g_fin]. destruct core as [core|]; [|reflexivity]. destruct it as [it|]; [|reflexivity]. destruct nr as [nr|]; reflexivity.
Qed.

(* hence: two runs of the print driver with any two printing intervals both return the generated code's result *)
Theorem gen_tucker_print_pair : forall (p1 p2 : Z) (q1 q2 : nat) maxiters Uinit,
  (forall k, In k dimorder -> k < length Uinit /\ k < length rank) ->
  option_map h_fin (fst (hrun p1 maxiters Uinit)) =
    option_map (fun '(sol, _, out) => (sol, out)) (gmain X Uinit normX rank dimorder maxiters stoptol q1) /\
  option_map h_fin (fst (hrun p2 maxiters Uinit)) =
    option_map (fun '(sol, _, out) => (sol, out)) (gmain X Uinit normX rank dimorder maxiters stoptol q2) /\
  gmain X Uinit normX rank dimorder maxiters stoptol q1 = gmain X Uinit normX rank dimorder maxiters stoptol q2.
Proof. intros. repeat split; try now apply tucker_print_bridge. Qed.
End TuckerPrintBridge.
