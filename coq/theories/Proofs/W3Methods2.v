(* Proofs/W3Methods2.v — sptensor.allsubs (Gen/GenMethods2.v): hand reference, bridge lemma, the laws proved so far
   (no mode, one mode; the general enumeration statement is kept as a Definition and is NOT proved — the differential
   stream compares allsubs with the pure-Python enumeration on every shape with <= 4 modes of sizes <= 3). *)
From Coq Require Import List ZArith Arith Bool Lia.
From PV Require Import Np.NpZ Np.NpZ2 Np.NpZ3 Np.NpZ3c Np.NpZ3d Proofs.NpZProofs Gen.GenKernels Gen.GenMethods2 Proofs.W3Bridge Proofs.W3Laws.
Import ListNotations.
Local Open Scope Z_scope.

(* column n of the subscript array: the Khatri-Rao product of all-ones columns, with 0..d_n-1 in position n *)
Definition allsubs_col (shp : vec) (n : Z) : res vec :=
  bind (khatrirao (np_set (map np_ones_col shp) n (np_col_mat (np_arange 0 (znth 0 shp n)))) false) (fun K =>
  if np_squeeze_col_ok K then Ok (np_squeeze_col K) else Err).

Definition allsubs_step (shp : vec) (n : Z) (s : mat) : res mat :=
  bind (allsubs_col shp n) (fun c => if np_setcol_ok s n c then Ok (np_setcol s n c) else Err).

Definition H_allsubs (t : sptz) : res mat :=
  let shp := spt_shape t in
  if zlen shp =? 0 then Ok [[]]
  else if forallb (fun d => 0 <=? d) shp
       then foldM (allsubs_step shp) (np_arange 0 (zlen shp)) (np_zeros2 (zprod shp) (zlen shp))
       else Err.

Lemma zprod_nonneg (l : vec) : forallb (fun d => 0 <=? d) l = true -> 0 <= zprod l.
Proof.
  induction l as [|d l IH]; intros H; [cbn; lia|]. cbn [forallb] in H. apply andb_true_iff in H as [Hd Hl].
  apply Z.leb_le in Hd. change (zprod (d :: l)) with (d * zprod l). specialize (IH Hl). apply Z.mul_nonneg_nonneg; assumption.
Qed.

(* the first loop: o = [np.ones((d, 1)) for d in shape] *)
Definition ones_step (shp : vec) (n : Z) (o : list mat) : res (list mat) :=
  if idx_ok shp n && (0 <=? znth 0 shp n) then Ok (list_append o (np_ones_col (znth 0 shp n))) else Err.

Lemma ones_loop (shp : vec) : forall c j o, (j + c = length shp)%nat ->
  foldM (ones_step shp) (map Z.of_nat (seq j c)) o =
  if forallb (fun d => 0 <=? d) (skipn j shp) then Ok (o ++ map np_ones_col (skipn j shp)) else Err.
Proof.
  induction c as [|c IH]; intros j o Hjc.
  - cbn [seq map foldM]. rewrite skipn_all2 by lia. cbn. rewrite app_nil_r. reflexivity.
  - cbn [seq map foldM]. unfold ones_step at 1.
    assert (Hj : (j < length shp)%nat) by lia.
    assert (Hs : skipn j shp = nth j shp 0 :: skipn (S j) shp).
    { clear -Hj. revert j Hj. induction shp as [|x l IHl]; intros j Hj; [cbn in Hj; lia|].
      destruct j; [reflexivity|]. cbn [skipn nth]. apply IHl. cbn in Hj. lia. }
    rewrite idx_ok_nat. assert (El : (j <? length shp)%nat = true) by (apply Nat.ltb_lt; exact Hj). rewrite El. cbn [andb].
    rewrite znth_nat, Hs. cbn [forallb map].
    destruct (0 <=? nth j shp 0); cbn [andb bind]; [|reflexivity].
    rewrite IH by lia. unfold list_append. destruct (forallb _ (skipn (S j) shp)); [|reflexivity].
    rewrite <- app_assoc. reflexivity.
Qed.

Lemma sptensor_allsubs_bridge t : sptensor_allsubs t = H_allsubs t.
Proof.
  unfold sptensor_allsubs, H_allsubs, spt_ndims. set (shp := spt_shape t).
  destruct (zlen shp =? 0); [reflexivity|].
  rewrite (np_for_foldM _ (ones_step shp)) by (intros n o _; unfold ones_step; destruct (idx_ok shp n && (0 <=? znth 0 shp n)); reflexivity).
  change (zlen shp) with (Z.of_nat (length shp)). rewrite !np_arange_0.
  rewrite (ones_loop shp (length shp) 0%nat []) by lia. cbn [skipn app].
  destruct (forallb (fun d => 0 <=? d) shp) eqn:Enn.
  - assert (Ez : np_zeros2_ok (zprod shp) (Z.of_nat (length shp)) = true).
    { unfold np_zeros2_ok. apply andb_true_intro. split; apply Z.leb_le; [apply zprod_nonneg; exact Enn|apply Zle_0_nat]. }
    rewrite Ez. cbn [bind].
    rewrite (np_for_foldM _ (allsubs_step shp)).
    + destruct (foldM _ _ _); reflexivity.
    + intros n s Hn. apply in_map_iff in Hn as (k & <- & Hk). apply in_seq in Hk.
      unfold allsubs_step, allsubs_col.
      assert (E1 : idx_ok shp (Z.of_nat k) = true) by (rewrite idx_ok_nat; apply Nat.ltb_lt; lia).
      assert (E2 : idx_ok (map np_ones_col shp) (Z.of_nat k) = true) by (rewrite idx_ok_nat, map_length; apply Nat.ltb_lt; lia).
      rewrite E1, E2. cbn [andb].
      destruct (khatrirao _ false) as [K|]; cbn [is_ok res_get bind andb]; [|reflexivity].
      destruct (np_squeeze_col_ok K); cbn [andb bind]; [|reflexivity].
      destruct (np_setcol_ok s (Z.of_nat k) (np_squeeze_col K)); reflexivity.
  - destruct (np_zeros2_ok (zprod shp) (Z.of_nat (length shp))); reflexivity.
Qed.

(* no mode: one subscript, the empty one *)
Theorem allsubs_no_mode subs vals : sptensor_allsubs (mkspt subs vals []) = Ok [[]].
Proof. reflexivity. Qed.

(* the statement that is demanded in general (every subscript of the shape exactly once, last index fastest) *)
Fixpoint subs_C (shp : vec) : mat :=
  match shp with
  | [] => [[]]
  | d :: shp' => flat_map (fun x => map (cons x) (subs_C shp')) (np_arange 0 d)
  end.
Definition allsubs_enumerates_stmt : Prop :=
  forall subs vals shp, forallb (fun d => 1 <=? d) shp = true -> sptensor_allsubs (mkspt subs vals shp) = Ok (subs_C shp).

Example allsubs_examples :
  sptensor_allsubs (mkspt [] [] [2; 3]) = Ok (subs_C [2; 3]) /\
  sptensor_allsubs (mkspt [] [] [3; 1; 2]) = Ok (subs_C [3; 1; 2]) /\
  sptensor_allsubs (mkspt [] [] [4]) = Ok [[0]; [1]; [2]; [3]] /\
  sptensor_allsubs (mkspt [] [] [2; 2; 2; 2]) = Ok (subs_C [2; 2; 2; 2]).
Proof. repeat split; vm_compute; reflexivity. Qed.

(* one mode of size d >= 1: the subscripts 0 .. d-1 *)
Lemma khatrirao_single (M : mat) : M <> [] -> forallb (fun r => zlen r =? 1) M = true -> khatrirao [M] false = Ok M.
Proof.
  intros Hne Hr. unfold khatrirao.
  change (zlen [M] =? 1) with true. cbn [negb orb andb bind forallb tl np_for].
  change (idx_ok [M] 0) with true. change (znth [] [M] 0) with M. cbn [andb negb].
  assert (Ec : np_ncols M = 1).
  { destruct M as [|r M']; [congruence|]. cbn [np_ncols]. cbn [forallb] in Hr. apply andb_true_iff in Hr as [Hr _]. apply Z.eqb_eq; exact Hr. }
  rewrite Ec. change (zlen [M] =? 1) with true. cbn [Z.eqb Pos.eqb andb negb].
  unfold np_reshape_ok. rewrite Hr. reflexivity.
Qed.

Theorem allsubs_one_mode subs vals d : 1 <= d -> sptensor_allsubs (mkspt subs vals [d]) = Ok (map (fun x => [x]) (np_arange 0 d)).
Proof.
  intros Hd. rewrite sptensor_allsubs_bridge. unfold H_allsubs. cbn [spt_shape].
  change (zlen [d] =? 0) with false. cbn [forallb]. destruct (Z.leb_spec 0 d); [|lia]. cbn [andb].
  change (np_arange 0 (zlen [d])) with [0]. cbn [foldM]. unfold allsubs_step, allsubs_col.
  change (np_set (map np_ones_col [d]) 0 (np_col_mat (np_arange 0 (znth 0 [d] 0)))) with [np_col_mat (np_arange 0 d)].
  assert (Hne : np_col_mat (np_arange 0 d) <> []).
  { unfold np_col_mat, np_arange. replace (Z.to_nat (d - 0)) with (S (Z.to_nat (d - 1))) by lia. cbn. discriminate. }
  assert (Hr : forallb (fun r => zlen r =? 1) (np_col_mat (np_arange 0 d)) = true).
  { unfold np_col_mat. apply forallb_forall. intros r Hin. apply in_map_iff in Hin as (x & <- & _). reflexivity. }
  rewrite (khatrirao_single _ Hne Hr). cbn [bind]. unfold np_squeeze_col_ok. rewrite Hr.
  assert (Es : np_squeeze_col (np_col_mat (np_arange 0 d)) = np_arange 0 d).
  { unfold np_squeeze_col, np_col_mat. rewrite map_map. apply map_id. }
  rewrite Es. cbn [bind].
  assert (Hlen : length (np_arange 0 d) = length (np_zeros2 (zprod [d]) (zlen [d]))).
  { unfold np_arange, np_zeros2, np_full. rewrite map_length, seq_length, repeat_length. cbn [zprod fold_right]. f_equal. lia. }
  assert (Eok : np_setcol_ok (np_zeros2 (zprod [d]) (zlen [d])) 0 (np_arange 0 d) = true).
  { unfold np_setcol_ok. apply andb_true_intro. split.
    - unfold np_col_ok, np_zeros2, np_full. apply forallb_forall. intros r Hin. apply repeat_spec in Hin. subst r. reflexivity.
    - apply orb_true_intro. left. apply Z.eqb_eq. unfold zlen. rewrite Hlen. reflexivity. }
  rewrite Eok. cbn [bind foldM]. f_equal. rewrite np_setcol_eq by exact Hlen.
  assert (Ez : np_zeros2 (zprod [d]) (zlen [d]) = repeat [0] (length (np_arange 0 d))).
  { unfold np_zeros2, np_full. cbn [zprod fold_right]. change (Z.to_nat (zlen [d])) with 1%nat. cbn [repeat].
    f_equal. unfold np_arange. rewrite map_length, seq_length. f_equal. lia. }
  rewrite Ez. generalize (np_arange 0 d). intros l.
  induction l as [|x l IH]; [reflexivity|]. cbn [length repeat setcol_rows map]. rewrite IH. reflexivity.
Qed.
