#!/bin/sh
# usage: goal.sh <file.v> <line>  — show the proof state just before <line>
f="$1"; n="$2"; cd /verif/coq
head -n $((n-1)) "$f" > /tmp/_goal.v; echo "Show." >> /tmp/_goal.v
timeout 120 coqc -Q theories PV /tmp/_goal.v 2>&1 | grep -v condarc | tail -${3:-40}
