(* Props/C09b.v — C09, wave 4: theorems about the executable Qc replay model (Model/C09Replay.v) that the generated correspondence
   cases evaluate.  Only statements, `exact`, Print Assumptions. *)
From Coq Require Import List Arith Bool ZArith QArith Qcanon.
From PV Require Import Base.Index Np.Array Model.Sparse Model.Repr Model.Harness Model.C09Als Model.C09Exec Model.C09Replay
  Model.W4SPrelude Gen.GenCpAls Proofs.C09GenSweep Proofs.C09ReplayProofs.
Import ListNotations.
Local Open Scope nat_scope.

(* cp_als.py's column scaling of the sweeps after the first (weights = max(max|column|, 1), columns divided by the weights), as the
   replay evaluates it: R weights, every weight >= 1 (so the division is always defined), the row count is kept, and
   weights[r] * scaled[j, r] = A[j, r] for ALL j and r — for every matrix whose rows have R entries *)
Theorem C09_maxnorm_scale_contract : forall R (A : qmx), Forall (fun row => length row = R) A ->
  let wa := maxnorm_scale R A in
  length (fst wa) = R /\ nrows (snd wa) = nrows A /\ Forall (fun w => qleb q1 w = true) (fst wa) /\
  forall j r, Qcmult (nth r (fst wa) q0) (mget q0 (snd wa) j r) = mget q0 A j r.
Proof. exact maxnorm_scale_contract. Qed.

(* the scaling of the replayed update in EVERY sweep (none in sweep 0, the max rule later) meets the three scaling clauses of the
   code-level update contract (Proofs/C09Holders.v update_code_contract) under which C09_code_normal_eq / C09_code_monotone hold *)
Theorem C09_replay_scale_contract : forall R it (A : qmx), Forall (fun row => length row = R) A ->
  let wa := replay_scale R it A in
  length (fst wa) = R /\ nrows (snd wa) = nrows A /\
  forall j r, Qcmult (nth r (fst wa) q0) (mget q0 (snd wa) j r) = mget q0 A j r.
Proof. exact replay_scale_contract. Qed.

(* whenever the exact Gauss-Jordan solver of the replay succeeds, what it hands to the scaling has rows of R entries *)
Theorem C09_qsolve_rows : forall R (Y P A : qmx), qsolve_opt R Y P = Some A -> Forall (fun row => length row = R) A.
Proof. exact qsolve_rows. Qed.

(* ---- tie to the source: the loops GENERATED from /repo/pyttb/cp_als.py by tools/pyx2v_skel.py (Gen/GenCpAls.v) ---- *)
Section C09gen.
Variable V : Type.
Variables (v0 v1 : V) (vadd vmul : V -> V -> V).
Variable T_X : Type.
Variable R : nat.
Variable mk : T_X -> list (@matrix V) -> nat -> @matrix V.
Variable all_zero_mat : @matrix V -> bool.
Variable zeros_like : @matrix V -> @matrix V.
Variable lapack : @matrix V -> @matrix V -> @matrix V.
Variables norm2_cols normmax_cols : @matrix V -> list V.
Variable all_zero_wt : list V -> bool.
Variable scale_cols : @matrix V -> list V -> @matrix V.

(* the generated inner loop `for n in dimorder:` of cp_als (mttkrp, Hadamard product of the Gram slabs of the other modes, the
   (Y == 0).all() guard, solve, 2-norm in iteration 0 / max-norm later, the (weights == 0).all() guard, column division, U[n] = Unew,
   UtU[:, :, n] = U[n].T @ U[n]) run on a state whose Gram slabs belong to the current factors returns, without raising, the factor
   list and the weights of the hand model's sweep als_sweep (Model/C09Als.v) whose solve / scale oracles are the code's own
   compositions code_solve / code_scale — every value type, holder, factor list, mode list, iteration number *)
Theorem C09_gen_sweep_bridge : forall (X : T_X) (N : nat) (dimorder : list nat) (it : nat), dimorder <> [] ->
  forall (xs : list nat) (U : list (@matrix V)) (Um : @matrix V) (n0 : option nat) (w0 : option (list V)) (w : list V) (P : @matrix V),
  (forall x, In x xs -> x < length U) ->
  let st' := als_sweep v0 v1 vadd vmul (mk X) (code_solve V all_zero_mat zeros_like lapack)
               (code_scale V norm2_cols normmax_cols all_zero_wt scale_cols) R it xs (mkAls w U P) in
  exists Um' n',
    GenCpAls.cp_als_main_loop3 (@matrix V) (list (@matrix V)) (list V) T_X (g_set_gram V) mk (g_hadamard_others V v0 v1 vadd vmul R)
      all_zero_mat zeros_like lapack norm2_cols normmax_cols all_zero_wt scale_cols N dimorder X it xs (U, Um, U, n0, w0)
    = Some (st_U st', Um', st_U st', n', match xs with [] => w0 | _ :: _ => Some (st_w st') end).
Proof. exact (gen_sweep_bridge V v0 v1 vadd vmul T_X R mk all_zero_mat zeros_like lapack norm2_cols normmax_cols all_zero_wt scale_cols). Qed.

(* the generated prologue `for n in range(N): UtU[:, :, n] = U[n].T @ U[n]` establishes that state from any slab list of the right length *)
Theorem C09_gen_prologue_bridge : forall (U UtU0 : list (@matrix V)), length UtU0 = length U ->
  exists n', GenCpAls.cp_als_main_loop1 (@matrix V) (list (@matrix V)) (g_set_gram V) U (length U) 0 (UtU0, None) = Some (U, n').
Proof. exact (gen_prologue_bridge V). Qed.
End C09gen.

(* the executable sweep that the generated correspondence cases evaluate on pyttb's recorded factor lists (Model/C09Replay.v q_sweep,
   sweeps after the first) IS the generated loop with the exact kernels — so an edit of the loop body in cp_als.py changes the
   generated text and breaks this proof *)
Theorem C09_gen_sweep_replay : forall (s : shape) (X : idx -> Qc) (R N : nat) (dimorder : list nat) (it : nat) (norm2 : qmx -> list Qc),
  0 < R -> dimorder <> [] ->
  forall (xs : list nat) (U : list qmx) (Um : qmx) (n0 : option nat) (w0 : option (list Qc)),
  (forall x, In x xs -> x < length U) ->
  let st' := q_sweep s X R (S it) xs U in
  exists Um' n',
    GenCpAls.cp_als_main_loop3 qmx (list qmx) (list Qc) unit (g_set_gram Qc) (fun _ U n => q_mttkrp_mat s X U n R)
      (g_hadamard_others Qc q0 q1 Qcplus Qcmult R) all_zero (q_zeros_like R) (qsolve R) norm2 (maxnorm_weights R) (forallb qisz) div_cols
      N dimorder tt (S it) xs (U, Um, U, n0, w0)
    = Some (st_U st', Um', st_U st', n', match xs with [] => w0 | _ :: _ => Some (st_w st') end).
Proof. exact gen_sweep_replay. Qed.

Print Assumptions C09_maxnorm_scale_contract.
Print Assumptions C09_replay_scale_contract.
Print Assumptions C09_qsolve_rows.
Print Assumptions C09_gen_sweep_bridge.
Print Assumptions C09_gen_prologue_bridge.
Print Assumptions C09_gen_sweep_replay.

(* non-vacuity: one generated sweep over modes [1; 0] of a 2 x 2 problem over Z (kernels: a fixed mttkrp table, solve = identity on P,
   max-norm weights 1) returns the model's sweep *)
Local Open Scope Z_scope.
Example C09_gen_sweep_example :
  let mk := fun (_ : unit) (U : list (@matrix Z)) (n : nat) => map (map (Z.mul (Z.of_nat (S n)))) (nth n U []) in
  let lap := fun (Y P : @matrix Z) => map (map (Z.add (mget 0 Y 0 0))) P in
  let azm := fun (Y : @matrix Z) => Z.eqb (mget 0 Y 0 0) 0 in
  let zl := fun (P : @matrix Z) => map (map (fun _ => 0)) P in
  let n2 := fun (A : @matrix Z) => [2] in
  let nm := fun (A : @matrix Z) => [mget 0 A 0 0] in
  let azw := fun (w : list Z) => forallb (Z.eqb 0) w in
  let sc := fun (A : @matrix Z) (w : list Z) => map (map (fun x => x - nth 0 w 0)) A in
  let U := [[[1]; [2]]; [[3]; [1]; [-1]]] in
  let st' := als_sweep 0 1 Z.add Z.mul (mk tt) (code_solve Z azm zl lap) (code_scale Z n2 nm azw sc) 1 1 [1%nat; 0%nat] (mkAls [7] U []) in
  option_map (fun r => (fst (fst (fst (fst r))), snd r))
    (GenCpAls.cp_als_main_loop3 (@matrix Z) (list (@matrix Z)) (list Z) unit (g_set_gram Z) mk (g_hadamard_others Z 0 1 Z.add Z.mul 1)
       azm zl lap n2 nm azw sc 2 [1%nat; 0%nat] tt 1 [1%nat; 0%nat] (U, [], U, None, None))
  = Some (st_U st', Some (st_w st')) /\ st_w st' = [81].
Proof. vm_compute. repeat split; reflexivity. Qed.
