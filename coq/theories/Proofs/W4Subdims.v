(* Proofs/W4Subdims.v — bridge for sptensor.subdims of Gen/GenSptensor4.v: the generated loop pares a list of positions
   down mode by mode (boolean masks from np.isin); the hand reference H_subdims (Model/W4Sptensor.v) is one filter over
   the stored rows with the conjunction of the per-mode key tests.  Laws: soundness / completeness of the selection. *)
From Coq Require Import List ZArith Arith Bool Lia.
From PV Require Import Np.NpZ Np.NpZ2 Np.NpZ3 Np.NpZ3c Np.NpZ3d Np.NpZ3e Np.NpZ4 Np.NpZ4b Proofs.NpZProofs
  Model.W4Ktensor Model.W4Sptensor Proofs.W4Loops Gen.GenSptensor4.
Import ListNotations.
Local Open Scope Z_scope.

Lemma np_mask_map {A} (f : A -> bool) (l : list A) : np_mask l (map f l) = filter f l.
Proof. induction l as [|x l IH]; cbn [map np_mask filter]; [reflexivity|]. rewrite IH. destruct (f x); reflexivity. Qed.

Lemma filter_filter {A} (f g : A -> bool) (l : list A) : filter g (filter f l) = filter (fun x => f x && g x) l.
Proof. induction l as [|x l IH]; cbn [filter]; [reflexivity|]. destruct (f x); cbn [filter andb]; rewrite IH; reflexivity. Qed.

Lemma znth_nil_0 i : znth 0 (@nil Z) i = 0.
Proof. unfold znth. destruct (_ <? 0); [reflexivity|]. destruct (Z.to_nat _); reflexivity. Qed.

Lemma znth_map0' {A} (f : A -> Z) (d : A) (l : list A) k : f d = 0 -> znth 0 (map f l) k = f (znth d l k).
Proof.
  intros Hd. unfold znth, zlen. rewrite map_length.
  destruct ((if k <? 0 then k + Z.of_nat (length l) else k) <? 0); [now rewrite Hd|].
  rewrite <- Hd. apply map_nth.
Qed.

Lemma znth_np_col (subs : mat) (i l : Z) : znth 0 (np_col subs i) l = znth 0 (znth [] subs l) i.
Proof. unfold np_col. apply (znth_map0' (fun r => znth 0 r i) [] subs l). apply znth_nil_0. Qed.

Lemma isin_take_mask (c : vec) (b : vec) (loc : vec) :
  np_mask loc (np_isin (np_take 0 c loc) b) = filter (fun l => zmem (znth 0 c l) b) loc.
Proof. unfold np_isin, np_take. rewrite map_map. apply np_mask_map. Qed.

(* for i in is: loc = filter (P i) loc   (raises unless ok i); Inv is any property of loc kept by filtering *)
Lemma np_for_filters (ok : Z -> bool) (P : Z -> Z -> bool) (Inv : vec -> Prop) (body : Z -> vec -> res (bool * vec)) (is_ : vec) :
  (forall f loc, Inv loc -> Inv (filter f loc)) ->
  (forall i loc, In i is_ -> Inv loc -> body i loc = if ok i then Ok (false, filter (P i) loc) else Err) ->
  forall loc, Inv loc ->
    np_for is_ body loc = if forallb ok is_ then Ok (filter (fun l => forallb (fun i => P i l) is_) loc) else Err.
Proof.
  intros Hinv. induction is_ as [|i is_ IH]; intros Hb loc HI; cbn [np_for forallb].
  - f_equal. clear. induction loc as [|x loc IHl]; cbn [filter]; [reflexivity|]. f_equal. exact IHl.
  - rewrite Hb by (try (left; reflexivity); exact HI). destruct (ok i); cbn [bind fst snd andb]; [|reflexivity].
    rewrite IH.
    + destruct (forallb ok is_); [|reflexivity]. f_equal. apply filter_filter.
    + intros j l Hj Hl. apply Hb; [right; exact Hj|exact Hl].
    + apply Hinv. exact HI.
Qed.

Definition InvLoc (nnz : Z) (loc : vec) : Prop := forall x, In x loc -> 0 <= x < nnz.

Lemma inv_take_ok (subs : mat) (i : Z) (loc : vec) : InvLoc (zlen subs) loc -> np_take_ok (np_col subs i) loc = true.
Proof.
  intros H. unfold np_take_ok. apply forallb_forall. intros x Hx. apply w4_idx_ok_range.
  unfold np_col, zlen. rewrite map_length. apply H. exact Hx.
Qed.

Lemma zmem_single x k : zmem x [k] = (x =? k).
Proof. unfold zmem. cbn [existsb]. apply orb_false_r. Qed.

Theorem subdims_bridge (self : sptz) (region : list pyidx) : sptensor_subdims self region = H_subdims self region.
Proof.
  unfold sptensor_subdims, H_subdims, spt_ndims. cbv zeta.
  set (n := zlen (spt_shape self)). set (subs := spt_subs self). set (shape := spt_shape self).
  destruct (zlen region =? n) eqn:En; cbn [negb]; [|reflexivity].
  destruct (np_size2 subs =? 0); [reflexivity|].
  apply Z.eqb_eq in En.
  match goal with |- bind (np_for _ ?body _) _ = _ => set (B := body) end.
  rewrite (np_for_filters
             (fun i => H_key_ok shape i (znth IxNone region i) && np_col_ok subs i)
             (fun i l => H_key_sel shape i (znth IxNone region i) (znth 0 (znth [] subs l) i))
             (InvLoc (zlen subs)) B).
  - destruct (forallb _ (np_arange 0 n)); reflexivity.
  - intros f loc H x Hx. apply filter_In in Hx as [Hx _]. apply H. exact Hx.
  - intros i loc Hi HI. apply in_np_arange in Hi.
    assert (Hr : idx_ok region i = true) by (apply w4_idx_ok_range; lia).
    assert (Hs : idx_ok shape i = true) by (apply w4_idx_ok_range; change (zlen shape) with n; exact Hi).
    pose proof (inv_take_ok subs i loc HI) as Ht.
    unfold B. rewrite Hr, Ht. cbn [andb]. rewrite !andb_true_r.
    destruct (znth IxNone region i) as [k|s|l|l|];
      cbn [ix_is_int ix_is_arr ix_is_list ix_is_slice orb bind H_key_ok H_key_sel np_isin_ix ix_slice andb].
    + destruct (np_col_ok subs i); cbn [bind]; [|reflexivity]. rewrite isin_take_mask. do 2 f_equal.
      apply filter_ext. intros x. now rewrite znth_np_col, zmem_single.
    + rewrite Hs. cbn [andb]. destruct (slice_ok s); cbn [andb]; [|reflexivity].
      destruct (np_col_ok subs i); cbn [bind]; [|reflexivity]. rewrite isin_take_mask. do 2 f_equal.
      apply filter_ext. intros x. now rewrite znth_np_col.
    + destruct (np_col_ok subs i); cbn [bind]; [|reflexivity]. rewrite isin_take_mask. do 2 f_equal.
      apply filter_ext. intros x. now rewrite znth_np_col.
    + destruct (np_col_ok subs i); cbn [bind]; [|reflexivity]. rewrite isin_take_mask. do 2 f_equal.
      apply filter_ext. intros x. now rewrite znth_np_col.
    + reflexivity.
  - intros x Hx. apply in_np_arange in Hx. unfold zlen in *. lia.
Qed.

(* ---------------------------------------------------------------- laws *)
(* exactly the positions of the stored rows whose every subscript passes the key of its mode, in ascending order *)
Theorem gen_subdims_spec (self : sptz) (region : list pyidx) (loc : vec) :
  np_size2 (spt_subs self) <> 0 -> sptensor_subdims self region = Ok loc ->
  loc = filter (H_row_in self region) (np_arange 0 (zlen (spt_subs self))) /\
  (forall l, In l loc <-> 0 <= l < zlen (spt_subs self) /\ H_row_in self region l = true).
Proof.
  intros Hz E. rewrite subdims_bridge in E. unfold H_subdims in E. cbv zeta in E.
  destruct (negb _); [discriminate|]. replace (np_size2 (spt_subs self) =? 0) with false in E by (symmetry; apply Z.eqb_neq; exact Hz).
  destruct (forallb _ _); [|discriminate]. injection E as <-. split; [reflexivity|].
  intros l. rewrite filter_In, in_np_arange. tauto.
Qed.

Theorem gen_subdims_empty (self : sptz) (region : list pyidx) :
  zlen region = zlen (spt_shape self) -> np_size2 (spt_subs self) = 0 -> sptensor_subdims self region = Ok [].
Proof.
  intros Hl Hz. rewrite subdims_bridge. unfold H_subdims. cbv zeta. rewrite Hl, Z.eqb_refl, Hz. reflexivity.
Qed.

Theorem gen_subdims_rejects_count (self : sptz) (region : list pyidx) :
  zlen region <> zlen (spt_shape self) -> sptensor_subdims self region = Err.
Proof.
  intros Hl. rewrite subdims_bridge. unfold H_subdims. cbv zeta.
  replace (zlen region =? zlen (spt_shape self)) with false by (symmetry; apply Z.eqb_neq; exact Hl). reflexivity.
Qed.

(* a None key (or a zero-step slice) in any mode is rejected as soon as something is stored *)
Theorem gen_subdims_rejects_key (self : sptz) (region : list pyidx) (i : Z) :
  np_size2 (spt_subs self) <> 0 -> 0 <= i < zlen (spt_shape self) ->
  H_key_ok (spt_shape self) i (znth IxNone region i) = false -> sptensor_subdims self region = Err.
Proof.
  intros Hz Hi Hk. rewrite subdims_bridge. unfold H_subdims. cbv zeta.
  destruct (negb _); [reflexivity|]. replace (np_size2 (spt_subs self) =? 0) with false by (symmetry; apply Z.eqb_neq; exact Hz).
  destruct (forallb _ _) eqn:E; [|reflexivity]. rewrite forallb_forall in E.
  specialize (E i (proj2 (in_np_arange 0 _ i) Hi)). rewrite Hk in E. discriminate.
Qed.
