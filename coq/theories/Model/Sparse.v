(* Model/Sparse.v — coordinate-format sparse tensors: the representation of pyttb.sptensor
   (.shape, .subs, .vals — separate lists, stored order kept) and its denotation.
   Source anchors: pyttb/sptensor.py (full, to_tensor, double), pyttb/tensor.py (find, to_sptensor). *)
From Coq Require Import List Arith Lia Bool.
From PV Require Import Base.Index Np.Array.
Import ListNotations.

Fixpoint idx_eqb (i j : idx) : bool :=
  match i, j with
  | [], [] => true
  | x :: i', y :: j' => Nat.eqb x y && idx_eqb i' j'
  | _, _ => false
  end.

Lemma idx_eqb_spec i j : idx_eqb i j = true <-> i = j.
Proof.
  revert j; induction i as [|x i IH]; intros [|y j]; cbn; split; intros H; try discriminate; auto.
  - apply andb_true_iff in H as [H1 H2]. apply Nat.eqb_eq in H1. apply IH in H2. congruence.
  - inversion H; subst. rewrite Nat.eqb_refl. cbn. now apply IH.
Qed.

Lemma idx_eqb_refl i : idx_eqb i i = true.
Proof. now apply idx_eqb_spec. Qed.

Lemma idx_eqb_neq i j : i <> j -> idx_eqb i j = false.
Proof. intros H. destruct (idx_eqb i j) eqn:E; auto. apply idx_eqb_spec in E. contradiction. Qed.

Fixpoint upd {A} (l : list A) (k : nat) (v : A) : list A :=
  match l, k with
  | [], _ => []
  | _ :: l', O => v :: l'
  | x :: l', S k' => x :: upd l' k' v
  end.

Lemma upd_length {A} (l : list A) k v : length (upd l k v) = length l.
Proof. revert k; induction l as [|x l IH]; intros [|k]; cbn; auto. Qed.

Lemma nth_upd {A} (l : list A) k v j d : k < length l ->
  nth j (upd l k v) d = if Nat.eqb j k then v else nth j l d.
Proof.
  revert k j; induction l as [|x l IH]; intros [|k] [|j] H; cbn in *; try lia; auto.
  apply IH. lia.
Qed.

Section Sp.
Context {V : Type} (v0 : V) (isz : V -> bool).
Hypothesis isz_spec : forall v, isz v = true <-> v = v0.

Record sparse := mkSp { sshape : shape; ssubs : list idx; svals : list V }.

Definition entries (S : sparse) : list (idx * V) := combine (ssubs S) (svals S).

(* value of the LAST stored entry whose subscript is i (numpy scatter semantics), else d *)
Fixpoint last_match (i : idx) (es : list (idx * V)) (d : V) : V :=
  match es with
  | [] => d
  | (j, v) :: r => last_match i r (if idx_eqb i j then v else d)
  end.

Definition den_sp (S : sparse) (i : idx) : V := last_match i (entries S) v0.

Definition wf_sp (S : sparse) : Prop :=
  length (ssubs S) = length (svals S) /\ NoDup (ssubs S) /\
  Forall (fun i => inb (sshape S) i = true) (ssubs S) /\ Forall (fun v => isz v = false) (svals S).

Fixpoint nodupb (l : list idx) : bool :=
  match l with [] => true | i :: r => negb (existsb (idx_eqb i) r) && nodupb r end.

Definition wf_spb (S : sparse) : bool :=
  Nat.eqb (length (ssubs S)) (length (svals S)) && nodupb (ssubs S) &&
  forallb (inb (sshape S)) (ssubs S) && forallb (fun v => negb (isz v)) (svals S).

(* sptensor.full() / to_tensor(): zeros(shape) then B[sub2ind(subs)] = vals, sequential writes *)
Definition full (S : sparse) : dense V :=
  mkDense (sshape S)
    (fold_left (fun d (e : idx * V) => upd d (sub2ind (sshape S) (fst e)) (snd e)) (entries S)
               (repeat v0 (size (sshape S)))).

(* tensor.find() / to_sptensor(): nonzero positions of the F-order ravel, their subscripts and values *)
Definition to_sptensor (T : dense V) : sparse :=
  let s := dshape T in
  let ks := filter (fun k => negb (isz (nth k (ddata T) v0))) (seq 0 (size s)) in
  mkSp s (map (ind2sub s) ks) (map (fun k => den_dense v0 T (ind2sub s k)) ks).

Definition nnz (S : sparse) : nat := length (ssubs S).

(* ---------------------------------------------------------------- lemmas *)

Lemma last_match_notin i es d : (forall e, In e es -> fst e <> i) -> last_match i es d = d.
Proof.
  revert d; induction es as [|[j v] r IH]; intros d H; cbn; auto.
  rewrite idx_eqb_neq by (intro; subst; apply (H (j, v)); cbn; auto).
  apply IH. intros; apply H; cbn; auto.
Qed.

Lemma last_match_in i v es d : NoDup (map fst es) -> In (i, v) es -> last_match i es d = v.
Proof.
  revert d; induction es as [|[j w] r IH]; intros d Hn Hin; [contradiction|]. cbn.
  cbn in Hn. inversion Hn as [|? ? Hj Hn']; subst. destruct Hin as [E|Hin].
  - inversion E; subst. rewrite idx_eqb_refl. apply last_match_notin.
    intros e He Hfe. apply Hj. rewrite <- Hfe. now apply in_map.
  - now apply IH.
Qed.

Lemma map_fst_entries S : length (ssubs S) = length (svals S) -> map fst (entries S) = ssubs S.
Proof.
  unfold entries. generalize (svals S). induction (ssubs S) as [|i l IH]; intros [|v vs] H; cbn in *; try discriminate; auto.
  f_equal. apply IH. lia.
Qed.

Lemma den_sp_in S i v : wf_sp S -> In (i, v) (entries S) -> den_sp S i = v.
Proof.
  intros (HL & Hn & _) Hin. unfold den_sp. apply last_match_in; auto. now rewrite map_fst_entries.
Qed.

Lemma den_sp_notin S i : ~ In i (ssubs S) -> den_sp S i = v0.
Proof.
  intros H. unfold den_sp. apply last_match_notin. intros [j v] He Hj. cbn in Hj. subst.
  apply H. unfold entries in He. now apply in_combine_l in He.
Qed.

(* the fold that implements scatter: reading position k afterwards *)
Lemma nth_scatter s es d k :
  (forall e, In e es -> inb s (fst e) = true) -> length d = size s -> k < size s ->
  nth k (fold_left (fun d (e : idx * V) => upd d (sub2ind s (fst e)) (snd e)) es d) v0 =
  last_match (ind2sub s k) es (nth k d v0).
Proof.
  revert d; induction es as [|[j v] r IH]; intros d Hin HL Hk; cbn [fold_left last_match]; auto.
  rewrite IH.
  - f_equal. cbn [fst snd]. assert (Hj : inb s j = true) by (apply (Hin (j, v)); cbn; auto).
    rewrite nth_upd by (rewrite HL; now apply sub2ind_lt).
    destruct (Nat.eqb_spec k (sub2ind s j)) as [->|Hne].
    + rewrite ind2sub_sub2ind by auto. now rewrite idx_eqb_refl.
    + rewrite idx_eqb_neq; auto. intros E. apply Hne. rewrite <- E. now rewrite sub2ind_ind2sub.
  - intros; apply Hin; cbn; auto.
  - now rewrite upd_length.
  - auto.
Qed.

Lemma fold_upd_length s (es : list (idx * V)) d :
  length (fold_left (fun d (e : idx * V) => upd d (sub2ind s (fst e)) (snd e)) es d) = length d.
Proof. revert d; induction es as [|e r IH]; intros d; cbn; auto. now rewrite IH, upd_length. Qed.

Lemma wf_full S : wf_dense (full S).
Proof. unfold wf_dense, full. cbn. now rewrite fold_upd_length, repeat_length. Qed.

Lemma nth_repeat (v : V) n k : nth k (repeat v n) v = v.
Proof. revert k; induction n as [|n IH]; intros [|k]; cbn; auto. Qed.

(* full() denotes the same array, for every in-bounds sparse tensor (duplicates included) *)
Theorem den_full S i : Forall (fun j => inb (sshape S) j = true) (ssubs S) ->
  den_dense v0 (full S) i = den_sp S i.
Proof.
  intros Hb. unfold den_dense. cbn [dshape full ddata].
  destruct (inb (sshape S) i) eqn:Hi.
  - rewrite nth_scatter.
    + rewrite ind2sub_sub2ind by auto.
      now rewrite nth_repeat.
    + intros [j v] He. cbn. unfold entries in He. apply in_combine_l in He.
      rewrite Forall_forall in Hb. auto.
    + now rewrite repeat_length.
    + now apply sub2ind_lt.
  - symmetry. apply den_sp_notin. intros Hin. rewrite Forall_forall in Hb. specialize (Hb _ Hin). congruence.
Qed.

(* ---- to_sptensor ---- *)

Lemma den_dense_ind2sub T k : k < size (dshape T) -> den_dense v0 T (ind2sub (dshape T) k) = nth k (ddata T) v0.
Proof.
  intros H. unfold den_dense. rewrite inb_ind2sub by auto. now rewrite sub2ind_ind2sub.
Qed.

Lemma NoDup_map_inj {A B} (f : A -> B) l : NoDup l -> (forall a b, In a l -> In b l -> f a = f b -> a = b) -> NoDup (map f l).
Proof.
  induction 1 as [|a l Ha Hn IH]; intros Hinj; cbn; constructor.
  - rewrite in_map_iff. intros (b & E & Hb). apply Hinj in E; cbn; auto. subst. contradiction.
  - apply IH. intros; apply Hinj; cbn; auto.
Qed.

Theorem to_sptensor_wf T : wf_dense T -> wf_sp (to_sptensor T).
Proof.
  intros W. unfold wf_sp, to_sptensor. cbn [sshape ssubs svals].
  set (ks := filter _ _).
  assert (Hks : forall k, In k ks -> k < size (dshape T) /\ isz (nth k (ddata T) v0) = false).
  { intros k Hk. apply filter_In in Hk as [Hk Hz]. apply in_seq in Hk. split; [lia|]. now apply negb_true_iff in Hz. }
  repeat split.
  - now rewrite !map_length.
  - apply NoDup_map_inj; [apply NoDup_filter, seq_NoDup|].
    intros a b Ha Hb E. eapply ind2sub_inj; eauto; now apply Hks.
  - rewrite Forall_forall. intros i Hi. apply in_map_iff in Hi as (k & <- & Hk). apply inb_ind2sub. now apply Hks.
  - rewrite Forall_forall. intros v Hv. apply in_map_iff in Hv as (k & <- & Hk).
    rewrite den_dense_ind2sub by (now apply Hks). now apply Hks.
Qed.

Theorem den_to_sptensor T i : wf_dense T -> den_sp (to_sptensor T) i = den_dense v0 T i.
Proof.
  intros W. pose proof (to_sptensor_wf T W) as Wf.
  destruct (inb (dshape T) i) eqn:Hi.
  - destruct (isz (den_dense v0 T i)) eqn:Hz.
    + (* zero entry: not stored *)
      rewrite den_sp_notin; [symmetry; now apply isz_spec|].
      unfold to_sptensor. cbn [ssubs]. rewrite in_map_iff. intros (k & E & Hk).
      apply filter_In in Hk as [Hk Hnz]. apply in_seq in Hk.
      rewrite <- E, den_dense_ind2sub in Hz by lia. rewrite Hz in Hnz. discriminate.
    + apply den_sp_in; auto. unfold entries, to_sptensor. cbn [ssubs svals].
      set (ks := filter _ _). set (k := sub2ind (dshape T) i).
      assert (Hk : In k ks).
      { apply filter_In. split; [apply in_seq; pose proof (sub2ind_lt _ _ Hi); lia|].
        apply negb_true_iff. unfold den_dense in Hz. now rewrite Hi in Hz. }
      rewrite <- (ind2sub_sub2ind (dshape T) i Hi) at 1. fold k.
      replace (den_dense v0 T i) with (den_dense v0 T (ind2sub (dshape T) k)) by (unfold k; now rewrite ind2sub_sub2ind).
      clear -Hk. induction ks as [|a ks IH]; [contradiction|]. cbn. destruct Hk as [->|Hk]; auto.
  - rewrite den_dense_out by auto. apply den_sp_notin. intros Hin.
    destruct Wf as (_ & _ & Hb & _). rewrite Forall_forall in Hb. specialize (Hb _ Hin). cbn in Hb. congruence.
Qed.

Theorem nnz_to_sptensor T : wf_dense T ->
  nnz (to_sptensor T) = length (filter (fun v => negb (isz v)) (ddata T)).
Proof.
  intros W. unfold nnz, to_sptensor. cbn [ssubs]. rewrite map_length.
  unfold wf_dense in W. rewrite <- W. generalize (ddata T) as d. intros d.
  (* filter over positions = filter over values *)
  assert (G : forall (d : list V) s, length (filter (fun k => negb (isz (nth (k - s) d v0))) (seq s (length d)))
                        = length (filter (fun v => negb (isz v)) d)).
  { induction d0 as [|x d0 IH]; intros s; [reflexivity|]. cbn [length seq filter].
    rewrite Nat.sub_diag. change (nth 0 (x :: d0) v0) with x.
    assert (E : filter (fun k => negb (isz (nth (k - s) (x :: d0) v0))) (seq (S s) (length d0))
              = filter (fun k => negb (isz (nth (k - S s) d0 v0))) (seq (S s) (length d0))).
    { apply filter_ext_in. intros k Hk. apply in_seq in Hk. replace (k - s) with (S (k - S s)) by lia. reflexivity. }
    destruct (negb (isz x)); cbn [length]; rewrite E, IH; reflexivity. }
  specialize (G d 0). rewrite <- G. f_equal. apply filter_ext. intros k. now rewrite Nat.sub_0_r.
Qed.

(* dense -> sparse -> dense is the identity on data lists *)
Theorem full_to_sptensor T : wf_dense T -> full (to_sptensor T) = T.
Proof.
  intros W. apply (dense_ext v0); auto using wf_full.
  intros i Hi. rewrite den_full.
  - now apply den_to_sptensor.
  - now destruct (to_sptensor_wf T W) as (_ & _ & Hb & _).
Qed.

End Sp.

Arguments sparse V : clear implicits.
Arguments mkSp {V} sshape ssubs svals.
