(* Proofs/C07Holders.v — pyttb offers reshape / squeeze only on tensor and sptensor; a Kruskal or Tucker holder goes
   through full().  full() of a holder with denotation f and shape s is  tabulate s f  (C01); reshaping / squeezing that
   dense tensor re-indexes f by exactly the same index formulas, for the Kruskal, Tucker (dense core) and Tucker (sparse
   core) holders alike. *)
From Coq Require Import List Arith Lia Bool.
From PV Require Import Base.Index Base.Perm Base.Sum Np.Array Model.Sparse Model.Repr Model.C07Ops Model.C07Ops2
  Proofs.C07Index Proofs.C07Proofs.
Import ListNotations.

Section Generic.
Context {V : Type} (v0 : V).

Theorem reshape_tabulate (s s' : shape) (f : idx -> V) : size s' = size s ->
  exists R, reshape_d v0 (tabulate s f) s' = Some R /\ wf_dense R /\ dshape R = s' /\
    ddata R = ddata (tabulate s f) /\
    (forall i, inb s' i = true -> den_dense v0 R i = f (ind2sub s (sub2ind s' i))) /\
    (forall i, inb s i = true -> den_dense v0 R (ind2sub s' (sub2ind s i)) = f i) /\
    reshape_d v0 R s = Some (tabulate s f).
Proof.
  intros Hs. pose proof (wf_tabulate s f) as W.
  assert (Hs' : size s' = size (dshape (tabulate s f))) by (now rewrite dshape_tabulate).
  destruct (reshape_dense_correct v0 (tabulate s f) s' W Hs') as (R & E & WR & HsR & HdR & D1 & D2 & Hinv).
  rewrite dshape_tabulate in *.
  exists R. repeat (split; [assumption|]). split; [|split; auto].
  - intros i Hi. rewrite D1 by auto. apply den_tabulate. apply inb_ind2sub. rewrite <- Hs. now apply sub2ind_lt.
  - intros i Hi. destruct (D2 i Hi) as [_ ->]. now apply den_tabulate.
Qed.

Theorem squeeze_tabulate (s : shape) (f : idx -> V) : forallb (Nat.ltb 0) s = true ->
  match squeeze_d v0 (tabulate s f) with
  | SqT R => wf_dense R /\ dshape R = sqz s s /\
             (forall i, inb s i = true -> inb (dshape R) (sqz s i) = true /\ den_dense v0 R (sqz s i) = f i)
  | SqScalar v => sqz s s = [] /\ (forall i, inb s i = true -> v = f i)
  end.
Proof.
  intros Hpos. pose proof (wf_tabulate s f) as W.
  assert (Hpos' : forallb (Nat.ltb 0) (dshape (tabulate s f)) = true) by (now rewrite dshape_tabulate).
  pose proof (squeeze_dense_correct v0 (tabulate s f) W Hpos') as H.
  destruct (squeeze_d v0 (tabulate s f)) as [R|v]; rewrite dshape_tabulate in H.
  - destruct H as (WR & Hs & _ & D). repeat (split; [assumption|]).
    intros i Hi. destruct (D i Hi) as [H1 H2]. split; auto. rewrite H2. now apply den_tabulate.
  - destruct H as (Hs & D). split; auto. intros i Hi. rewrite (D i Hi). now apply den_tabulate.
Qed.
End Generic.

Section Holders.
Variable V : Type.
Variables (v0 v1 : V) (vadd vmul : V -> V -> V).

Notation dk := (den_k v0 v1 vadd vmul).
Notation dt := (den_t v0 v1 vadd vmul).
Notation dst := (den_st v0 v1 vadd vmul).

Notation full_k := (full_k v0 v1 vadd vmul).
Notation full_t := (full_t v0 v1 vadd vmul).
Notation full_st := (full_st v0 v1 vadd vmul).

(* reshape after full(): the entry at i of the result is the holder's entry at ind2sub s (sub2ind s' i), and the three
   holders of one array give the identical dense tensor *)
Theorem reshape_holders_agree (K : ktensor V) (T : ttensor V) (Ts : sttensor V) s' :
  tshape T = kshape K -> stshape Ts = kshape K -> size s' = size (kshape K) ->
  (forall i, inb (kshape K) i = true -> dt T i = dk K i /\ dst Ts i = dk K i) ->
  exists R, reshape_d v0 (full_k K) s' = Some R /\ reshape_d v0 (full_t T) s' = Some R /\
    reshape_d v0 (full_st Ts) s' = Some R /\ dshape R = s' /\
    (forall i, inb s' i = true -> den_dense v0 R i = dk K (ind2sub (kshape K) (sub2ind s' i))) /\
    (forall i, inb (kshape K) i = true -> den_dense v0 R (ind2sub s' (sub2ind (kshape K) i)) = dk K i) /\
    reshape_d v0 R (kshape K) = Some (full_k K).
Proof.
  intros HT HS Hs Hag.
  destruct (reshape_tabulate v0 (kshape K) s' (dk K) Hs) as (R & E & _ & HsR & _ & D1 & D2 & Hinv).
  assert (ET : full_t T = full_k K).
  { unfold full_t, full_k. rewrite HT. apply tabulate_ext. intros i Hi. now destruct (Hag i Hi). }
  assert (ES : full_st Ts = full_k K).
  { unfold full_st, full_k. rewrite HS. apply tabulate_ext. intros i Hi. now destruct (Hag i Hi). }
  exists R. rewrite ET, ES. unfold full_k. auto 10.
Qed.

(* squeeze after full() *)
Theorem squeeze_holders_agree (K : ktensor V) (T : ttensor V) (Ts : sttensor V) :
  tshape T = kshape K -> stshape Ts = kshape K -> forallb (Nat.ltb 0) (kshape K) = true ->
  (forall i, inb (kshape K) i = true -> dt T i = dk K i /\ dst Ts i = dk K i) ->
  squeeze_d v0 (full_t T) = squeeze_d v0 (full_k K) /\ squeeze_d v0 (full_st Ts) = squeeze_d v0 (full_k K) /\
  match squeeze_d v0 (full_k K) with
  | SqT R => wf_dense R /\ dshape R = sqz (kshape K) (kshape K) /\
             (forall i, inb (kshape K) i = true ->
                inb (dshape R) (sqz (kshape K) i) = true /\ den_dense v0 R (sqz (kshape K) i) = dk K i)
  | SqScalar v => sqz (kshape K) (kshape K) = [] /\ (forall i, inb (kshape K) i = true -> v = dk K i)
  end.
Proof.
  intros HT HS Hpos Hag.
  assert (ET : full_t T = full_k K).
  { unfold full_t, full_k. rewrite HT. apply tabulate_ext. intros i Hi. now destruct (Hag i Hi). }
  assert (ES : full_st Ts = full_k K).
  { unfold full_st, full_k. rewrite HS. apply tabulate_ext. intros i Hi. now destruct (Hag i Hi). }
  rewrite ET, ES. split; auto. split; auto. now apply squeeze_tabulate.
Qed.

End Holders.
