(* Model/W3Utils.v — hand-written references for the functions of Gen/GenUtils3.v (third translator batch).
   The laws are proved about these references (Proofs/W3Laws.v) and transported to the generated text by the bridge
   lemmas of Proofs/W3Bridge.v. *)
From Coq Require Import List ZArith Bool Lia.
From PV Require Import Np.NpZ Np.NpZ2 Np.NpZ3.
Import ListNotations.
Local Open Scope Z_scope.

(* ---- tt_renumberdim ---- *)

(* the source indices a key entry selects in a mode of size `shape`, and the size reported for the renumbered mode
   (an integer key selects one index and reports size 0: the caller drops the mode) *)
Definition H_selection (shape : Z) (nr : pyidx) : res (vec * Z) :=
  match nr with
  | IxInt k => Ok ([k], 0)
  | IxSlice s => if slice_ok s then Ok (py_slice 0 (np_arange 0 shape) s, zlen (py_slice 0 (np_arange 0 shape) s)) else Err
  | IxSeq l | IxArr l => Ok (l, zlen l)
  | IxNone => Err
  end.

(* for p, x in enumerate(sel, k): m[x] = p *)
Fixpoint fill_from (m : vec) (sel : vec) (k : Z) : res vec :=
  match sel with
  | [] => Ok m
  | x :: sel' => if idx_ok m x then fill_from (np_set m x k) sel' (k + 1) else Err
  end.

Definition H_renumberdim (idx : vec) (shape : Z) (nr : pyidx) : res (vec * Z) :=
  bind (H_selection shape nr) (fun sn =>
  if 0 <=? shape then
    bind (fill_from (np_zeros shape) (firstn (Z.to_nat (snd sn)) (fst sn)) 0) (fun m =>
    if np_take_ok m idx then Ok (np_take 0 m idx, snd sn) else Err)
  else Err).

(* ---- tt_renumber: one mode ---- *)

(* size of the renumbered mode when there is no stored subscript *)
Definition H_empty_size (d : res Z) (r : pyidx) : res Z :=
  match r with
  | IxInt k => Ok k
  | IxSlice s => bind d (fun d => if slice_ok s then Ok (zlen (py_slice 0 (np_arange 0 d) s)) else Err)
  | IxSeq l | IxArr l => Ok (zlen l)
  | IxNone => Err
  end.

(* `g` is the admissibility test of a key entry: the code compares every entry with slice(None, None, None) first, which
   raises for ndarray entries with more than one element (ix_eq_ok); the repaired code (fixes/W3-N01) admits every entry *)
Definition H_renumber_step (g : pyidx -> bool) (rdim : vec -> Z -> pyidx -> res (vec * Z)) (subs : mat) (shape : vec) (nrs : list pyidx)
    (i : Z) (st : vec * mat) : res (vec * mat) :=
  if idx_ok nrs i && g (znth IxNone nrs i) then
    let r := znth IxNone nrs i in
    if ix_is_fullslice r then Ok st
    else if np_size2 subs =? 0 then
      bind (H_empty_size (if idx_ok shape i then Ok (znth 0 shape i) else Err) r) (fun n =>
      if idx_ok (fst st) i then Ok (np_set (fst st) i n, snd st) else Err)
    else if np_col_ok subs i && idx_ok shape i then
      bind (rdim (np_col subs i) (znth 0 shape i) r) (fun cn =>
      if np_setcol_ok (snd st) i (fst cn) && idx_ok (fst st) i
      then Ok (np_set (fst st) i (snd cn), np_setcol (snd st) i (fst cn)) else Err)
    else Err
  else Err.

Fixpoint H_renumber_loop (step : Z -> vec * mat -> res (vec * mat)) (modes : vec) (st : vec * mat) : res (vec * mat) :=
  match modes with
  | [] => Ok st
  | i :: modes' => bind (step i st) (H_renumber_loop step modes')
  end.

Definition H_renumber (g : pyidx -> bool) (subs : mat) (shape : vec) (nrs : list pyidx) : res (mat * vec) :=
  bind (H_renumber_loop (H_renumber_step g H_renumberdim subs shape nrs) (np_arange 0 (zlen shape)) (shape, subs))
       (fun st => Ok (snd st, fst st)).

(* ---- tt_irenumber: one key entry ---- *)

Definition H_irenumber_step (shape : vec) (i : Z) (r : pyidx) (ns : mat) : res mat :=
  match r with
  | IxSlice s =>
      if opt_truthy (sl_stop s) || idx_ok shape i then
        let rng := np_arange (opt_or (sl_start s) 0) (opt_or (sl_stop s) (znth 0 shape i) + 1) in
        if np_col_ok ns i && np_take_ok rng (np_col ns i) && np_setcol_ok ns i (np_take 0 rng (np_col ns i))
        then Ok (np_setcol ns i (np_take 0 rng (np_col ns i))) else Err
      else Err
  | IxInt k => if np_insert_col_ok ns i then Ok (np_insert_col ns i k) else Err
  | _ =>
      let a := ix_asarray r in
      if np_col_ok ns i && ix_take_ok a (np_col ns i) && np_setcol_ok ns i (ix_take a (np_col ns i))
      then Ok (np_setcol ns i (ix_take a (np_col ns i))) else Err
  end.

Fixpoint H_irenumber_loop (shape : vec) (l : list (Z * pyidx)) (ns : mat) : res mat :=
  match l with
  | [] => Ok ns
  | (i, r) :: l' => bind (H_irenumber_step shape i r ns) (H_irenumber_loop shape l')
  end.

Definition H_irenumber (t : sptz) (shape : vec) (nrs : list pyidx) : res mat :=
  if spt_nnz t =? 0 then Ok [] else H_irenumber_loop shape (np_enumerate 0 nrs) (spt_subs t).

(* ---- get_mttkrp_factors ---- *)

Definition absorb_mode (n : Z) : Z := if n =? 0 then 1 else 0.

(* the modes other than the skipped one *)
Definition others (n ndims : Z) : vec := filter (fun i => negb (i =? n)) (np_arange 0 ndims).
(* all factors other than the skipped one have one common column count *)
Definition cols_agree (l : list mat) (n ndims : Z) : bool :=
  negb (zlen (np_unique (map (fun i => np_ncols (znth [] l i)) (others n ndims))) >? 1).

Definition accept_factors (l : list mat) (n ndims : Z) : res (list mat) :=
  if (zlen l =? ndims) && ((0 <=? n) && (n <? ndims)) then
    if forallb (fun i => idx_ok l i) (others n ndims) then (if cols_agree l n ndims then Ok l else Err) else Err
  else Err.

Definition H_mttkrp_factors (U : kt_or_seq) (n ndims : Z) : res (list mat) :=
  match U with
  | UKt k =>
      if kt_redistribute_ok k (absorb_mode n)
      then accept_factors (kt_factors (kt_redistribute k (absorb_mode n))) n ndims
      else Err
  | USeq l => accept_factors l n ndims
  end.

(* ---- shape / subscript / value checks ---- *)

Definition check_result (ok nargout : bool) : res bool := if negb ok && negb nargout then Err else Ok ok.

Definition size_ok (a : ndarr) : bool :=
  ((nd_ndim a =? 1) && ndb_all (nd_isfinite a) && nd_is_integer a && ndb_all (nd_gt_s a 0)) || (nd_size a =? 0).
Definition subs_ok (a : ndarr) : bool :=
  (nd_size a =? 0) || ((nd_ndim a =? 2) && ndb_all (nd_isfinite a) && nd_is_integer a && ndb_all (nd_ge_s a 0)).
Definition vals_ok (a : ndarr) : bool :=
  (nd_size a =? 0) || ((nd_ndim a =? 2) && (znth 0 (nd_shape a) 1 =? 1)).

Definition H_isrow (v : ndarr) : bool :=
  match nd_shape v with [r; c] => (r =? 1) && (c >=? 1) | _ => false end.
Definition H_isvector (a : ndarr) : bool :=
  match nd_shape a with [_] => true | [r; c] => (r =? 1) || (c =? 1) | _ => false end.

(* ---- get_index_variant ---- *)
(* the classification is stated over the generated enum in Proofs/W3Bridge.v (the enum type is generated) *)
