(* Proofs/C14Sums.v — ring-generic exchange-of-sums lemmas over the F-order enumeration of all subscripts:
   sum over all subscripts of a product of per-mode terms = product of per-mode sums.
   Used by C14 (Kruskal Gram matrix) and C11 (mass identity of a Kruskal tensor). *)
From Coq Require Import List Arith Lia Bool Ring.
From PV Require Import Base.Index Base.Sum Np.Array Model.Sparse Model.Repr Model.C14Nvecs.
Import ListNotations.

Section Sums.
Variable V : Type.
Variables (v0 v1 : V) (vadd vmul vsub : V -> V -> V) (vopp : V -> V).
Hypothesis Vring : ring_theory v0 v1 vadd vmul vsub vopp (@eq V).
Add Ring Vr14 : Vring.
Notation "x + y" := (vadd x y).
Notation "x * y" := (vmul x y).
Notation SO := (sum_over v0 vadd).
Notation SN := (sum_n v0 vadd).
Notation kp := (kprod v0 v1 vmul).
Notation mg := (mget v0).

Lemma sum_allsubs_cons d s (f : idx -> V) :
  SO (allsubs (d :: s)) f = SO (allsubs s) (fun i => SN d (fun x => f (x :: i))).
Proof.
  unfold allsubs. rewrite !sum_over_map. rewrite size_cons.
  fold (SN (d * size s) (fun k => f (ind2sub (d :: s) k))).
  rewrite (sum_n_mul V v0 v1 vadd vmul vsub vopp Vring).
  apply sum_n_ext. intros j _. apply sum_n_ext. intros x Hx. f_equal.
  cbn [ind2sub]. replace (x + d * j)%nat with (x + j * d)%nat by lia.
  rewrite Nat.mod_add, Nat.div_add by lia. rewrite Nat.mod_small, Nat.div_small by lia. reflexivity.
Qed.

Lemma sum_n_scale_r n f c : SN n (fun x => f x * c) = SN n f * c.
Proof. apply (sum_over_scale_r V v0 v1 vadd vmul vsub vopp Vring). Qed.
Lemma sum_n_scale_l n f c : SN n (fun x => c * f x) = c * SN n f.
Proof. apply (sum_over_scale_l V v0 v1 vadd vmul vsub vopp Vring). Qed.

(* per-mode terms *)
Fixpoint pim (fs : list (nat -> V)) (i : idx) : V :=
  match fs, i with f :: fs', x :: i' => f x * pim fs' i' | _, _ => v1 end.
Fixpoint pis (fs : list (nat -> V)) (s : shape) : V :=
  match fs, s with f :: fs', d :: s' => SN d f * pis fs' s' | _, _ => v1 end.

Lemma sum_pim fs : forall s, length fs = length s -> SO (allsubs s) (pim fs) = pis fs s.
Proof.
  induction fs as [|f fs IH]; intros [|d s] H; cbn in H; try discriminate.
  - cbn. ring.
  - rewrite sum_allsubs_cons. cbn [pim pis].
    rewrite (sum_over_ext _ _ _ _ _ (fun i => SN d f * pim fs i)) by (intros i _; apply sum_n_scale_r).
    rewrite (sum_over_scale_l V v0 v1 vadd vmul vsub vopp Vring). rewrite IH by lia. reflexivity.
Qed.

Lemma kprod_pim As r : forall i, kp As i r = pim (map (fun A x => mg A x r) As) i.
Proof. induction As as [|A As IH]; intros [|x i]; cbn; auto. now rewrite IH. Qed.

Lemma pim_mul {A} (f g : A -> nat -> V) (l : list A) : forall i,
  pim (map f l) i * pim (map g l) i = pim (map (fun a x => f a x * g a x) l) i.
Proof. induction l as [|a l IH]; intros [|x i]; cbn; try ring. rewrite <- IH. ring. Qed.

Lemma pis_prodv {A} (g : A -> nat -> V) (rows : A -> nat) (l : list A) :
  pis (map g l) (map rows l) = prodv v1 vmul (map (fun a => SN (rows a) (g a)) l).
Proof. induction l as [|a l IH]; cbn; auto. now rewrite IH. Qed.

Lemma sum_over_nth {A} (d : A) (l : list A) (g : A -> V) : SO l g = SN (length l) (fun x => g (nth x l d)).
Proof.
  unfold sum_n. rewrite <- (sum_over_map V v0 vadd (fun x => nth x l d) (seq 0 (length l)) g).
  f_equal. symmetry. clear g. induction l as [|a l IH]; [reflexivity|].
  cbn [length seq map nth]. f_equal. rewrite <- seq_shift, map_map. exact IH.
Qed.

Lemma fold_left_mul {A} (g : A -> V) (l : list A) : forall c,
  fold_left (fun acc a => acc * g a) l c = c * prodv v1 vmul (map g l).
Proof. induction l as [|a l IH]; intros c; cbn; [ring|]. rewrite IH. ring. Qed.

Lemma sum_n_mul_sum n m (p q : nat -> V) :
  SN n p * SN m q = SN n (fun r => SN m (fun s => p r * q s)).
Proof.
  rewrite <- sum_n_scale_r. apply sum_n_ext. intros r _. now rewrite sum_n_scale_l.
Qed.

(* ---- insertion of the mode-n subscript *)
Lemma inb_insert n : forall s i a, n < length s -> a < nth n s 0 ->
  inb (remove_nth n s) i = true -> inb s (insert_at n a i) = true.
Proof.
  induction n as [|n IH]; intros [|d s] i a Hn Ha H; cbn in Hn; try lia.
  - change (insert_at 0 a i) with (a :: i). change (remove_nth 0 (d :: s)) with s in H. cbn [nth] in Ha.
    cbn [inb]. apply Nat.ltb_lt in Ha. rewrite Ha, H. reflexivity.
  - change (remove_nth (S n) (d :: s)) with (d :: remove_nth n s) in H.
    destruct i as [|x i]; [discriminate|]. cbn [inb] in H. apply andb_true_iff in H as [Hx Hi].
    change (insert_at (S n) a (x :: i)) with (x :: insert_at n a i). cbn [inb]. rewrite Hx. cbn.
    apply IH; auto. lia.
Qed.

Lemma kprod_insert n : forall As i a r, n < length As -> n <= length i ->
  kp As (insert_at n a i) r = mg (nth n As []) a r * kp (remove_nth n As) i r.
Proof.
  induction n as [|n IH]; intros [|A As] i a r Hn Hi; cbn in Hn; try lia.
  - reflexivity.
  - destruct i as [|x i]; cbn in Hi; [lia|].
    change (insert_at (S n) a (x :: i)) with (x :: insert_at n a i).
    change (remove_nth (S n) (A :: As)) with (A :: remove_nth n As).
    cbn [kprod nth]. rewrite IH by lia. ring.
Qed.

Lemma remove_nth_map {A B} (f : A -> B) n l : remove_nth n (map f l) = map f (remove_nth n l).
Proof. unfold remove_nth. now rewrite map_app, firstn_map, skipn_map. Qed.

Lemma remove_nth_length {A} n (l : list A) : n < length l -> length (remove_nth n l) = length l - 1.
Proof. intros H. unfold remove_nth. rewrite app_length, firstn_length, skipn_length. lia. Qed.

(* ---- C11: total mass of a Kruskal tensor *)
Definition colsum (A : list (list V)) (r : nat) : V := SN (length A) (fun x => mg A x r).

Theorem mass_identity (K : ktensor V) :
  SO (allsubs (kshape K)) (den_k v0 v1 vadd vmul K) =
  SN (krank K) (fun r => nth r (kweights K) v0 * prodv v1 vmul (map (fun A => colsum A r) (kfactors K))).
Proof.
  rewrite (sum_over_ext _ _ _ _ _ (fun i => SN (krank K) (fun r => nth r (kweights K) v0 * kp (kfactors K) i r))).
  2:{ intros i Hi. apply in_allsubs in Hi. unfold den_k. now rewrite Hi. }
  unfold sum_n at 1. rewrite (sum_over_swap V v0 v1 vadd vmul vsub vopp Vring).
  apply sum_over_ext. intros r _.
  rewrite (sum_over_scale_l V v0 v1 vadd vmul vsub vopp Vring). f_equal.
  rewrite (sum_over_ext _ _ _ _ _ (pim (map (fun A x => mg A x r) (kfactors K)))) by (intros; apply kprod_pim).
  unfold kshape. rewrite sum_pim by (now rewrite !map_length).
  unfold nrows. apply (pis_prodv (fun A x => mg A x r) (fun A => length A)).
Qed.

(* ---- C14: Kruskal Gram matrix *)
Theorem gram_kruskal (K : ktensor V) (n a b : nat) :
  n < length (kfactors K) -> a < nrows (nth n (kfactors K) []) -> b < nrows (nth n (kfactors K) []) ->
  mg (gram_k_impl v0 vadd vmul K n) a b = gram_spec v0 vadd vmul (kshape K) (den_k v0 v1 vadd vmul K) n a b.
Proof.
  intros Hn Ha Hb. set (An := nth n (kfactors K) []). set (R := krank K). set (w := fun r => nth r (kweights K) v0).
  set (rest := remove_nth n (kfactors K)).
  assert (HnS : n < length (kshape K)) by (unfold kshape; now rewrite map_length).
  assert (Hsz : nth n (kshape K) 0 = nrows An).
  { unfold kshape. change 0 with (nrows (V:=V) []). now rewrite map_nth. }
  (* right-hand side *)
  unfold gram_spec.
  rewrite (sum_over_ext _ _ _ _ _ (fun i =>
     SN R (fun r => SN R (fun s => (w r * mg An a r * (w s * mg An b s)) * (kp rest i r * kp rest i s))))).
  2:{ intros i Hi. apply in_allsubs in Hi.
      assert (Hlen : n <= length i).
      { apply inb_length in Hi. rewrite remove_nth_length in Hi by auto. lia. }
      unfold den_k. rewrite !inb_insert by (auto; rewrite Hsz; auto).
      fold R. rewrite sum_n_mul_sum. apply sum_n_ext. intros r _. apply sum_n_ext. intros s _.
      rewrite !kprod_insert by auto. fold An rest. unfold w. ring. }
  unfold sum_n at 1 2.
  rewrite (sum_over_swap V v0 v1 vadd vmul vsub vopp Vring).
  (* left-hand side *)
  unfold gram_k_impl. fold An R. unfold mget.
  assert (Hrow : forall (f : list V -> list V -> V) x y, x < length An -> y < length An ->
            nth y (nth x (map (fun ra => map (fun rb => f ra rb) An) An) []) v0 = f (nth x An []) (nth y An [])).
  { intros f x y Hx Hy.
    rewrite (nth_indep _ [] ((fun ra => map (fun rb => f ra rb) An) [])) by (now rewrite map_length).
    rewrite (map_nth (fun ra => map (fun rb => f ra rb) An)).
    rewrite (nth_indep _ v0 ((fun rb => f (nth x An []) rb) [])) by (now rewrite map_length).
    now rewrite (map_nth (fun rb => f (nth x An []) rb)). }
  rewrite Hrow by auto.
  (* both sides: sum over s of ... ; reorder the left one *)
  rewrite (sum_n_ext _ _ _ _ _ (fun s => SN R (fun r => nth r (nth a An []) v0 * kgram_M v0 vadd vmul K n r s * nth s (nth b An []) v0)))
    by (intros s _; now rewrite sum_n_scale_r).
  unfold sum_n. rewrite (sum_over_swap V v0 v1 vadd vmul vsub vopp Vring).
  apply sum_over_ext. intros r _.
  rewrite (sum_over_swap V v0 v1 vadd vmul vsub vopp Vring).
  apply sum_over_ext. intros s _.
  rewrite (sum_over_scale_l V v0 v1 vadd vmul vsub vopp Vring).
  (* the sum over the remaining subscripts *)
  rewrite (sum_over_ext _ _ _ _ _ (pim (map (fun A x => mg A x r * mg A x s) rest))).
  2:{ intros i _. rewrite !kprod_pim. apply (pim_mul (fun A x => mg A x r) (fun A x => mg A x s)). }
  unfold kshape. rewrite remove_nth_map. fold rest.
  rewrite sum_pim by (now rewrite !map_length).
  unfold nrows. rewrite (pis_prodv (fun A x => mg A x r * mg A x s) (fun A => length A)).
  unfold kgram_M. fold rest. rewrite fold_left_mul.
  assert (Hcg : map (fun A => col_gram v0 vadd vmul A r s) rest = map (fun A => SN (length A) (fun x => mg A x r * mg A x s)) rest).
  { apply map_ext. intros A. unfold col_gram. now rewrite (sum_over_nth []). }
  rewrite Hcg. unfold mget, w. fold An.
  match goal with |- context [prodv v1 vmul ?l] => set (P := prodv v1 vmul l) end.
  match goal with |- _ = _ * prodv v1 vmul ?l => change (prodv v1 vmul l) with P end.
  ring.
Qed.

(* ---- C14: dense Gram matrix  Xn Xn^T *)
Theorem gram_dense (X : dense V) (n a b : nat) :
  a < nth n (dshape X) 0 -> b < nth n (dshape X) 0 ->
  mg (gram_dense_impl v0 vadd vmul X n) a b = gram_spec v0 vadd vmul (dshape X) (den_dense v0 X) n a b.
Proof.
  intros Ha Hb. unfold gram_dense_impl, gram_spec, unfold_n, mtab, mget.
  set (rest := remove_nth n (dshape X)). set (d := nth n (dshape X) 0).
  set (rowf := fun a0 => map (fun c => den_dense v0 X (insert_at n a0 (ind2sub rest c))) (seq 0 (size rest))).
  assert (Hnth : forall x, x < d -> nth x (map rowf (seq 0 d)) [] = rowf x).
  { intros x Hx. rewrite (nth_indep _ [] (rowf 0)) by (now rewrite map_length, seq_length).
    rewrite (map_nth rowf). now rewrite seq_nth. }
  set (Xn := map rowf (seq 0 d)).
  assert (Hrow : forall x y, x < d -> y < d ->
     nth y (nth x (map (fun ra => map (fun rb => row_dot v0 vadd vmul (size rest) ra rb) Xn) Xn) []) v0 =
     row_dot v0 vadd vmul (size rest) (rowf x) (rowf y)).
  { intros x y Hx Hy.
    assert (HL : length Xn = d) by (unfold Xn; now rewrite map_length, seq_length).
    rewrite (nth_indep _ [] ((fun ra => map (fun rb => row_dot v0 vadd vmul (size rest) ra rb) Xn) [])) by (rewrite map_length; lia).
    rewrite (map_nth (fun ra => map (fun rb => row_dot v0 vadd vmul (size rest) ra rb) Xn)).
    rewrite (nth_indep _ v0 ((fun rb => row_dot v0 vadd vmul (size rest) (nth x Xn []) rb) [])) by (rewrite map_length; lia).
    rewrite (map_nth (fun rb => row_dot v0 vadd vmul (size rest) (nth x Xn []) rb)).
    unfold Xn. now rewrite !Hnth. }
  rewrite Hrow by auto. unfold row_dot, allsubs. rewrite sum_over_map.
  apply sum_n_ext. intros c Hc. unfold rowf.
  assert (Hc' : forall a0, nth c (map (fun c0 => den_dense v0 X (insert_at n a0 (ind2sub rest c0))) (seq 0 (size rest))) v0 =
                           den_dense v0 X (insert_at n a0 (ind2sub rest c))).
  { intros a0.
    rewrite (nth_indep _ v0 ((fun c0 => den_dense v0 X (insert_at n a0 (ind2sub rest c0))) 0)) by (now rewrite map_length, seq_length).
    rewrite (map_nth (fun c0 => den_dense v0 X (insert_at n a0 (ind2sub rest c0)))). now rewrite seq_nth. }
  now rewrite !Hc'.
Qed.

End Sums.
