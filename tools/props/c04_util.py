"""c04_util — pure-Python reference semantics (the brute-force oracle), JSON <-> pyttb / Gallina conversions
and the history generator for property C04.  No numpy kernel is used by the reference semantics.

JSON forms
  key : ["lin", z] | ["linlist", [z..]] | ["linslice", a, b, c] | ["subs", [[z..]..]] | ["region", [elem..]]
  elem: ["i", z] | ["s", a, b, c] | ["l", [z..]]
  rhs : ["scalar", v] | ["values", [v..]]          (values: one per position, F order for regions)
  op  : ["get", key] | ["set", key, rhs]
"""
import itertools
import math

from vcheck import gz, gzlist, gnlist, gnmat, gopt
import tgen


# ------------------------------------------------------------------------------------------------
# reference semantics: state = (shape tuple, dict subscript-tuple -> nonzero value)
# ------------------------------------------------------------------------------------------------
class Inadmissible(Exception):
    pass


def _norm(d, z):
    k = z + d if z < 0 else z
    if not 0 <= k < d:
        raise Inadmissible(f"index {z} out of range for extent {d}")
    return k


def _ind2sub(shape, k):
    out = []
    for d in shape:
        out.append(k % d)
        k //= d
    return tuple(out)


def _elem_indices(d, e):
    """(kept?, indices) of one region element on a mode of extent d"""
    if e[0] == "i":
        return False, [_norm(d, e[1])]
    if e[0] == "s":
        if e[3] == 0:
            raise Inadmissible("slice step 0")
        l = list(range(d)[slice(e[1], e[2], e[3])])
        if not l:
            raise Inadmissible("empty slice")
        return True, l
    l = [z + d if z < 0 else z for z in e[1]]      # a negative entry counts from the end, as for numpy arrays (sptensor: since 6e4bb42)
    if not l or any(not 0 <= z < d for z in l):
        raise Inadmissible("index list out of range")
    return True, l


def _cartF(lists):
    """first mode fastest"""
    return [tuple(reversed(t)) for t in itertools.product(*reversed(lists))]


def _elem_need(e):
    if e[0] == "i":
        return 0 if e[1] < 0 else e[1] + 1
    if e[0] == "s":
        return 0 if e[2] is None else max(0, e[2])
    return max(e[1]) + 1 if e[1] else 0


def _elem_new_ok(e):
    if e[0] == "i":
        return e[1] >= 0
    if e[0] == "s":
        return e[2] is not None and e[2] > 0
    return True


def _grow(shape, need):
    out = []
    for k in range(max(len(shape), len(need))):
        if k < len(shape) and k < len(need):
            out.append(max(shape[k], need[k]))
        elif k < len(shape):
            out.append(shape[k])
        else:
            out.append(need[k])
    return tuple(out)


def resolve_get(shape, key):
    """-> (result shape, positions in result order)"""
    n = math.prod(shape)
    if key[0] == "lin":
        return (), [_ind2sub(shape, _norm(n, key[1]))]
    if key[0] == "linlist":
        if not key[1]:
            raise Inadmissible("empty")
        return (len(key[1]),), [_ind2sub(shape, _norm(n, z)) for z in key[1]]
    if key[0] == "linslice":
        if key[3] == 0:
            raise Inadmissible("step 0")
        ks = list(range(n)[slice(key[1], key[2], key[3])])
        if not ks:
            raise Inadmissible("empty")
        return (len(ks),), [_ind2sub(shape, k) for k in ks]
    if key[0] == "subs":
        rows = key[1]
        if not rows:
            raise Inadmissible("empty")
        for r in rows:
            if len(r) != len(shape) or any(not 0 <= x < d for x, d in zip(r, shape)):
                raise Inadmissible("subscript out of range")
        return (len(rows),), [tuple(r) for r in rows]
    es = key[1]
    if len(es) != len(shape) or not shape:
        raise Inadmissible("region length")
    ls = [_elem_indices(d, e) for d, e in zip(shape, es)]
    return tuple(len(l) for kept, l in ls if kept), _cartF([l for _, l in ls])


def resolve_set(shape, key, rhs):
    """-> (new shape, [(position, value)] in assignment order)"""
    if key[0] in ("lin", "linlist", "linslice"):
        _, ps = resolve_get(shape, key)
        s2 = tuple(shape)
    elif key[0] == "subs":
        rows = key[1]
        if not rows:
            raise Inadmissible("empty")
        m = len(rows[0])
        if m < 1 or m < len(shape) or any(len(r) != m for r in rows) or any(x < 0 for r in rows for x in r):
            raise Inadmissible("bad subscript array")
        s2 = _grow(shape, [max(r[c] for r in rows) + 1 for c in range(m)])
        ps = [tuple(r) for r in rows]
    else:
        es = key[1]
        if len(es) < 1 or len(es) < len(shape) or not all(_elem_new_ok(e) for e in es[len(shape):]):
            raise Inadmissible("bad region")
        s2 = _grow(shape, [_elem_need(e) for e in es])
        ps = _cartF([_elem_indices(d, e)[1] for d, e in zip(s2, es)])
    if rhs[0] == "scalar":
        vs = [rhs[1]] * len(ps)
    else:
        vs = list(rhs[1])
        if len(vs) != len(ps):
            raise Inadmissible("value count")
    return s2, list(zip(ps, vs))


def spec_step(state, op):
    """state -> (state', output)  output = None | (shape, values)"""
    shape, f = state
    if op[0] == "get":
        os_, ps = resolve_get(shape, op[1])
        return state, (os_, [f.get(p, 0) for p in ps])
    s2, asg = resolve_set(shape, op[1], op[2])
    g = {tuple(p) + (0,) * (len(s2) - len(shape)): v for p, v in f.items()}
    for p, v in asg:            # sequential: the last assignment to a position wins
        if v == 0:
            g.pop(p, None)
        else:
            g[p] = v
    return (s2, g), None


def start_state(start):
    shape = tuple(start["shape"])
    f = {}
    if shape:
        for s, v in zip(tgen.all_subs(shape), start["data"]):
            if v != 0:
                f[tuple(s)] = v
    return shape, f


def sparse_supports(op):
    """sptensor has no linear assignment (documented in its __setitem__)"""
    return not (op[0] == "set" and op[1][0] in ("lin", "linlist", "linslice"))


# ------------------------------------------------------------------------------------------------
# input classes of the open findings (state-dependent ones replay the reference semantics)
# ------------------------------------------------------------------------------------------------
def _walk(args):
    st = start_state(args["start"])
    for op in args["ops"]:
        yield st, op
        try:
            st, _ = spec_step(st, op)
        except Inadmissible:
            pass


def _dedupe_sorted(asg):
    d = {}
    for p, v in asg:
        d[p] = v
    return [d[p] for p in sorted(d)]


def _is_set(op, kinds):
    return op[0] == "set" and op[1][0] in kinds


def _asg(st, op):
    try:
        return resolve_set(st[0], op[1], op[2])[1]
    except Inadmissible:
        return None


def optrig_a13(st, op):
    """sparse subscript assignment whose batch (after duplicate removal, sorted) mixes zero and nonzero values"""
    if not (_is_set(op, ("subs",)) and op[2][0] == "values"):
        return False
    asg = _asg(st, op)
    if asg is None:
        return False
    vs = _dedupe_sorted(asg)
    return any(v == 0 for v in vs) and any(v != 0 for v in vs)


def optrig_n01(st, op):
    """sparse subscript assignment of zero to a position that currently holds a nonzero"""
    if not _is_set(op, ("subs",)):
        return False
    asg = _asg(st, op)
    if asg is None:
        return False
    n = len(st[0])
    return any(v == 0 and p[:n] in st[1] and all(x == 0 for x in p[n:]) for p, v in asg)


def optrig_n02(st, op):
    """sparse subscript assignment with a duplicated subscript carrying different values"""
    if not (_is_set(op, ("subs",)) and op[2][0] == "values"):
        return False
    seen = {}
    for r, v in zip(op[1][1], op[2][1]):
        if tuple(r) in seen and seen[tuple(r)] != v:
            return True
        seen.setdefault(tuple(r), v)
    return False


def optrig_a14(st, op):
    """sparse subscript assignment that adds modes while the tensor holds nonzeros"""
    return bool(_is_set(op, ("subs",)) and op[1][1] and len(op[1][1][0]) > len(st[0]) and st[1])


def optrig_a15(st, op):
    """dense region assignment with an open-stop slice on a mode of extent 1"""
    if not _is_set(op, ("region",)):
        return False
    return any(e[0] == "s" and e[2] is None and k < len(st[0]) and st[0][k] == 1 for k, e in enumerate(op[1][1]))


def key_is_a16(key):
    """region key whose numpy meaning differs from the outer product: two index lists, or an index list and an
    integer separated by a slice"""
    if key[0] != "region":
        return False
    es = key[1]
    nl = sum(1 for e in es if e[0] == "l")
    if nl >= 2:
        return True
    if nl == 1:
        adv = [k for k, e in enumerate(es) if e[0] in ("l", "i")]
        return any(es[k][0] == "s" for k in range(adv[0], adv[-1] + 1))
    return False


def optrig_a16(st, op):
    return key_is_a16(op[1])


def optrig_a17(st, op):
    """dense linear assignment at exactly the index prod(shape)"""
    if not _is_set(op, ("lin", "linlist")):
        return False
    n = math.prod(st[0])
    ks = [op[1][1]] if op[1][0] == "lin" else op[1][1]
    return any(k == n for k in ks)


def optrig_n03(st, op):
    """dense assignment of a one-element value vector to a single subscript row / linear index"""
    if not (_is_set(op, ("subs", "lin", "linlist", "linslice")) and op[2][0] == "values"):
        return False
    asg = _asg(st, op)
    return asg is not None and len(asg) == 1


def optrig_n04(st, op):
    """sparse region assignment of a tensor through a slice with a negative bound or a step"""
    if not (_is_set(op, ("region",)) and op[2][0] == "values"):
        return False
    return any(e[0] == "s" and ((e[1] is not None and e[1] < 0) or (e[2] is not None and e[2] < 0) or e[3] not in (None, 1))
               for e in op[1][1])


def optrig_n05(st, op):
    """sparse region assignment of a tensor that adds modes while the tensor holds nonzeros"""
    return bool(_is_set(op, ("region",)) and op[2][0] == "values" and len(op[1][1]) > len(st[0]) and st[1])


def optrig_n06(st, op):
    """sparse region assignment of a tensor with a negative integer subscript"""
    return bool(_is_set(op, ("region",)) and op[2][0] == "values" and any(e[0] == "i" and e[1] < 0 for e in op[1][1]))


def optrig_n07(st, op):
    """sparse region assignment of a tensor where an index list precedes an open-stop slice or another index list"""
    if not (_is_set(op, ("region",)) and op[2][0] == "values"):
        return False
    es = op[1][1]
    for p, e in enumerate(es):
        if e[0] == "l" and any(q[0] == "l" or (q[0] == "s" and q[2] is None) for q in es[p + 1:]):
            return True
    return False


def elem_repeats(e):
    """an index list that names an index more than once"""
    return e[0] == "l" and len(set(e[1])) < len(e[1])


def key_repeats(key):
    return key[0] == "region" and any(elem_repeats(e) for e in key[1])


def optrig_n10(st, op):
    """(repaired) sparse region assignment of a nonzero scalar through a key list that repeats an index, EMPTY receiver"""
    return bool(_is_set(op, ("region",)) and op[2][0] == "scalar" and op[2][1] != 0 and key_repeats(op[1]) and not st[1])


def optrig_n11(st, op):
    """(repaired) sparse region READ through a key list that repeats an index"""
    return op[0] == "get" and key_repeats(op[1])


def optrig_n12(st, op):
    """(repaired) sparse region assignment of a nonzero scalar through a key list that repeats an index, receiver with stored entries"""
    return bool(_is_set(op, ("region",)) and op[2][0] == "scalar" and op[2][1] != 0 and key_repeats(op[1]) and st[1])


def optrig_n13(st, op):
    """(repaired) sparse region assignment of a tensor through a key list that repeats an index"""
    return bool(_is_set(op, ("region",)) and op[2][0] == "values" and key_repeats(op[1]))


def optrig_n15(st, op):
    """(repaired) sparse region assignment of a sptensor through a key list that repeats an index where the value that must win (the
    last one addressed to a position, numpy's rule on the dense side) is not the last STORED value of the operand: it is a
    zero (not stored in the operand) after a nonzero, or the operand's stored order is not its position order"""
    if not (_is_set(op, ("region",)) and op[2][0] == "values" and key_repeats(op[1])):
        return False
    v = op[3] if len(op) > 3 else None
    v = v.get("sparse") if isinstance(v, dict) else v
    if v in ("ctor_rev", "ctor_view", "prev", "read"):
        return True
    asg = _asg(st, op)
    if asg is None:
        return False
    seen = {}
    for p_, x in asg:
        seen.setdefault(p_, []).append(x)
    return any(xs[-1] == 0 and any(x != 0 for x in xs) for xs in seen.values())


def _neg_list(key):
    return key[0] == "region" and any(e[0] == "l" and any(z < 0 for z in e[1]) for e in key[1])


def optrig_n16(st, op):
    """(repaired, 6e4bb42: sptensor._wrap_region_entry) a region key (read or write) with a NEGATIVE entry inside an index list, or
    with an integer below -extent of an existing mode: input class of the regression stream, never attributed"""
    if op[1][0] != "region":
        return False
    shape = st[0]
    return _neg_list(op[1]) or any(e[0] == "i" and k < len(shape) and e[1] < -shape[k] for k, e in enumerate(op[1][1]))


def optrig_n17(st, op):
    """wave 6, C04-N17 (residue of the repair 6e4bb42): a region WRITE of a sptensor through an index list that holds a NEGATIVE entry
    AND an entry at or beyond the extent of the same mode (the write grows that mode; also: a mode that does not exist yet): tensor
    counts the negative entry from the end AFTER growth (numpy sees the grown array), sptensor._wrap_region_entry from the end before"""
    if not _is_set(op, ("region",)):
        return False
    shape = st[0]
    return any(e[0] == "l" and e[1] and min(e[1]) < 0 and max(e[1]) >= (shape[k] if k < len(shape) else 0)
               for k, e in enumerate(op[1][1]))


def norm_list_ops(start, ops):
    """the operations as the Coq model reads them: negative entries of index lists normalised against the extent the mode has when
    the key is resolved (after growth for a write); the model's KList holds non-negative indices"""
    st = start_state(start)
    out = []
    for op in ops:
        op2 = op
        if _neg_list(op[1]):
            try:
                shape2 = resolve_set(st[0], op[1], ["scalar", 1])[0] if op[0] == "set" else st[0]
                es = [["l", [z + shape2[k] if z < 0 else z for z in e[1]]] if e[0] == "l" and k < len(shape2) else e
                      for k, e in enumerate(op[1][1])]
                op2 = [op[0], ["region", es]] + list(op[2:])
            except Inadmissible:
                pass
        out.append(op2)
        try:
            st, _ = spec_step(st, op)
        except Inadmissible:
            pass
    return out


# input classes by finding id.  OPTRIG = the OPEN findings only (used for attribution and kept out of the unattributed streams);
# FIXED_CLASSES = input classes of repaired defects: generated on purpose (regression streams) and never attributed.
ALLCLASS = {"C04-N07": ("sparse", optrig_n07), "C04-N05": ("sparse", optrig_n05), "C04-N06": ("sparse", optrig_n06),
            "C04-N03": ("dense", optrig_n03), "C04-N04": ("sparse", optrig_n04), "A-13": ("sparse", optrig_a13),
            "C04-N01": ("sparse", optrig_n01), "C04-N02": ("sparse", optrig_n02), "A-14": ("sparse", optrig_a14),
            "A-15": ("dense", optrig_a15), "A-16": ("dense", optrig_a16), "A-17": ("dense", optrig_a17),
            "C04-N10": ("sparse", optrig_n10), "C04-N11": ("sparse", optrig_n11), "C04-N12": ("sparse", optrig_n12),
            "C04-N13": ("sparse", optrig_n13), "C04-N15": ("sparse", optrig_n15), "C04-N16": ("sparse", optrig_n16),
            "C04-N17": ("sparse", optrig_n17)}
OPEN_IDS = ("A-16", "C04-N04", "C04-N17")        # wave 4: C04-N11 / N14 / N15 repaired in /repo (1fdba16, 8f8b86e, 274a39e), wave 6: C04-N16 (6e4bb42): ordinary inputs
OPTRIG = {fid: ALLCLASS[fid] for fid in OPEN_IDS}
FIXED_CLASSES = {fid: v for fid, v in ALLCLASS.items() if fid not in OPEN_IDS}


def class_hits(st, op, classes):
    """ids (open or repaired) whose input class the operation belongs to"""
    return [fid for fid, (cls, f) in ALLCLASS.items() if cls in classes and f(st, op)]


def op_triggers(st, op, classes):
    return [fid for fid, (cls, f) in OPTRIG.items() if cls in classes and f(st, op)]


def make_trigger(fid):
    cls, f = OPTRIG[fid]

    def trig(case):
        args = case.args
        return cls in args["classes"] and any(f(st, op) for st, op in _walk(args))
    return trig


# ------------------------------------------------------------------------------------------------
# JSON -> pyttb
# ------------------------------------------------------------------------------------------------
def py_key(np, key, as_array=False):
    if key[0] == "lin":
        return int(key[1])
    if key[0] == "linlist":
        return np.array(key[1], dtype=int) if as_array else [int(z) for z in key[1]]
    if key[0] == "linslice":
        return slice(key[1], key[2], key[3])
    if key[0] == "subs":
        return np.array(key[1], dtype=int).reshape((len(key[1]), len(key[1][0]) if key[1] else 0))
    out = []
    for e in key[1]:
        if e[0] == "i":
            out.append(int(e[1]))
        elif e[0] == "s":
            out.append(slice(e[1], e[2], e[3]))
        else:
            out.append([int(z) for z in e[1]])
    return tuple(out)


def kept_shape_of(shape, key):
    """shape of the exactly shaped right-hand side of a region assignment (after growth)"""
    s2, _ = resolve_set(shape, key, ["scalar", 1])
    return tuple(len(_elem_indices(d, e)[1]) for d, e in zip(s2, key[1]) if e[0] != "i")


# ------------------------------------------------------------------------------------------------
# JSON -> Gallina
# ------------------------------------------------------------------------------------------------
def g_elem(e):
    if e[0] == "i":
        return f"(KInt {gz(e[1])})"
    if e[0] == "s":
        return f"(KSlice {gopt(e[1], gz)} {gopt(e[2], gz)} {gopt(e[3], gz)})"
    return f"(KList {gzlist(e[1])})"


def g_key(key):
    if key[0] == "lin":
        return f"(KLin {gz(key[1])})"
    if key[0] == "linlist":
        return f"(KLinList {gzlist(key[1])})"
    if key[0] == "linslice":
        return f"(KLinSlice {gopt(key[1], gz)} {gopt(key[2], gz)} {gopt(key[3], gz)})"
    if key[0] == "subs":
        rows = key[1]
        return "(KSubs " + ("(@nil (list Z))" if not rows else "[" + "; ".join(gzlist(r) for r in rows) + "]") + ")"
    return "(KRegion " + ("(@nil kelem)" if not key[1] else "[" + "; ".join(g_elem(e) for e in key[1]) + "]") + ")"


def g_op(op):
    if op[0] == "get":
        return f"(OGet {g_key(op[1])})"
    r = op[2]
    gr = f"(RScalar {gz(r[1])})" if r[0] == "scalar" else f"(RValues {gzlist(r[1])})"
    return f"(OSet {g_key(op[1])} {gr})"


def g_ops(ops):
    return "(@nil zop)" if not ops else "[" + "; ".join(g_op(o) for o in ops) + "]"


def g_xout(x):
    if x is None:
        return "None"
    if x[0] == "none":
        return "(Some XNone)"
    if x[0] == "vals":
        return f"(Some (XVals {gzlist(x[1])}))"
    if x[0] == "dense":
        return f"(Some (XDense {tgen.gdense(x[1], x[2])}))"
    return f"(Some (XSparse {tgen.gsparse(x[1], x[2], x[3])}))"
