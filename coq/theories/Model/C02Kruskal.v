(* Model/C02Kruskal.v — executable transliterations of ktensor.innerprod(ktensor), ktensor.norm()^2 and ktensor.mttkrp
   (pyttb/ktensor.py): the Gram / Hadamard formulas.  Definitions only; proofs in Proofs/C02KruskalProofs.v. *)
From Coq Require Import List Arith Lia Bool.
From PV Require Import Base.Index Base.Perm Base.Sum Np.Array Model.Sparse Model.Repr Model.C02Spec.
Import ListNotations.

Section K.
Context {V : Type} (v0 v1 : V) (vadd vmul : V -> V -> V).
Local Notation "x + y" := (vadd x y).
Local Notation "x * y" := (vmul x y).

(* (A.T @ B)[r, q] for A, B with I rows *)
Definition gram (A B : @matrix V) (r q : nat) : V :=
  sum_n v0 vadd (length A) (fun k => mget v0 A k r * mget v0 B k q).

(* for i in range(ndims): M = M * (A_i.T @ B_i)     (element-wise, left to right) *)
Fixpoint hadamard_loop (M : nat -> nat -> V) (As Bs : list (@matrix V)) : nat -> nat -> V :=
  match As, Bs with
  | A :: As', B :: Bs' => hadamard_loop (fun r q => M r q * gram A B r q) As' Bs'
  | _, _ => M
  end.

(* ktensor.innerprod(ktensor): M = outer(w, w'); M *= A_i.T @ B_i for every mode; sum(M) *)
Definition impl_innerprod_kk (K L : ktensor V) : V :=
  let M := hadamard_loop (fun r q => nth r (kweights K) v0 * nth q (kweights L) v0) (kfactors K) (kfactors L) in
  sum_n v0 vadd (krank K) (fun r => sum_n v0 vadd (krank L) (fun q => M r q)).

(* ktensor.norm()^2: coefMatrix = w w^T; coefMatrix *= f.T @ f for every factor; sum (the square root / abs is outside) *)
Definition impl_normsq_k (K : ktensor V) : V := impl_innerprod_kk K K.

(* ktensor.mttkrp(U, n), factor list: W = tile(w, R); W *= A_i.T @ U_i for i <> n; A_n @ W *)
Definition impl_mttkrp_k (K : ktensor V) (Us : list (@matrix V)) (n : nat) : nat -> nat -> V :=
  let W := hadamard_loop (fun r c => nth r (kweights K) v0) (remove_at n (kfactors K)) (remove_at n Us) in
  fun x c => sum_n v0 vadd (krank K) (fun r => mget v0 (nth n (kfactors K) []) x r * W r c).
End K.
