(* Proofs/W4KtensorLaws.v — laws of the GENERATED ktensor methods (Gen/GenKtensor4.v), obtained through the bridges of
   Proofs/W4Ktensor.v: the generated permute / extract / arrange compute the hand models k_permute / k_extract /
   k_arrange_perm / k_gather of Model/C08Kruskal.v (on the shared record [ktensor Z]), hence C08's denotation theorems
   (Proofs/C08Proofs.v, C08Vec.v) hold for the code that is regenerated from /repo/pyttb/ktensor.py on every run. *)
From Coq Require Import List ZArith Arith Bool Lia Permutation Ring.
From PV Require Import Base.Index Base.Perm Base.Sum Np.NpZ Np.NpZ2 Np.NpZ3 Np.NpZ3c Np.NpZ3d Np.NpZ3e Np.NpZ4 Proofs.NpZProofs
  Model.Repr Model.C08Kruskal Proofs.C08Proofs Proofs.C08Vec Model.W4Ktensor Proofs.W4Loops Proofs.W4Ktensor Gen.GenKtensor4.
Import ListNotations.
Local Open Scope Z_scope.

Notation denZ := (den_k 0 1 Z.add Z.mul).

Lemma znth_nonneg {A} (d : A) l x : 0 <= x -> znth d l x = nth (Z.to_nat x) l d.
Proof. intros H. rewrite <- (Z2Nat.id x) at 1 by lia. apply znth_nat. Qed.

Lemma np_take_pick {A} (d : A) l (p : vec) : (forall x, In x p -> 0 <= x) -> np_take d l p = pick d (nats p) l.
Proof. intros H. unfold np_take, pick, nats. rewrite map_map. apply map_ext_in. intros x Hx. apply znth_nonneg. auto. Qed.

Lemma np_cols_pick f (p : vec) : (forall x, In x p -> 0 <= x) -> np_cols f p = map (pick 0 (nats p)) f.
Proof. intros H. unfold np_cols. apply map_ext. intros r. now apply np_take_pick. Qed.

Lemma sorted_range_is_perm (l : vec) n : np_sort l = np_arange 0 (Z.of_nat n) -> is_perm (nats l) n.
Proof.
  intros E. unfold is_perm, nats.
  assert (P : Permutation l (np_arange 0 (Z.of_nat n))) by (rewrite <- E; apply Permutation_sym, np_sort_perm).
  apply (Permutation_map Z.to_nat) in P. rewrite w4_np_arange_0, map_map in P.
  rewrite (map_ext _ (fun k => k)) in P by (intros; apply Nat2Z.id). now rewrite map_id in P.
Qed.

Lemma H_gather_model (k : ktz) (p : vec) : (forall x, In x p -> 0 <= x) -> to_K (H_gather k p) = k_gather 0 (nats p) (to_K k).
Proof.
  intros H. unfold H_gather, k_gather, to_K. cbn [kt_weights kt_factors kweights kfactors]. f_equal.
  - now apply np_take_pick.
  - apply map_ext. intros f. now apply np_cols_pick.
Qed.

(* ---------------------------------------------------------------- permute *)
Theorem gen_permute_model (self : ktz) (order : vec) :
  match ktensor_permute self order with
  | Ok k' => is_perm (nats order) (length (kt_factors self)) /\ to_K k' = k_permute (nats order) (to_K self)
  | Err => np_sort order <> np_arange 0 (zlen (kt_factors self)) \/ kt_make_ok (np_take [] (kt_factors self) order) (kt_weights self) = false
  end.
Proof.
  rewrite permute_bridge. unfold H_permute.
  destruct (zlist_eqb _ _) eqn:E.
  - apply zlist_eqb_eq in E. destruct (kt_make_ok _ _) eqn:Em; [|right; reflexivity].
    split; [apply sorted_range_is_perm; symmetry; exact E|].
    unfold to_K, k_permute. cbn [kt_weights kt_factors kweights kfactors]. f_equal.
    apply np_take_pick. intros x Hx. apply (sorted_is_range_in order (zlen (kt_factors self))); [symmetry; exact E|exact Hx].
  - left. intros C. rewrite C in E. assert (T : zlist_eqb (np_arange 0 (zlen (kt_factors self))) (np_arange 0 (zlen (kt_factors self))) = true)
      by (apply zlist_eqb_eq; reflexivity). congruence.
Qed.

(* the generated permute re-indexes the denoted array: entry i of the result is entry (i o order^-1) of self *)
Theorem gen_permute_den (self k' : ktz) (order : vec) : ktensor_permute self order = Ok k' ->
  kt_weights k' = kt_weights self /\
  forall i, length i = length (kt_factors self) -> denZ (to_K k') i = denZ (to_K self) (pick 0%nat (invperm (nats order)) i).
Proof.
  intros E. pose proof (gen_permute_model self order) as M. rewrite E in M. destruct M as [Hp Hk].
  destruct (den_permute Z 0 1 Z.add Z.mul Z.sub Z.opp Zth (to_K self) (nats order) Hp) as (Hw & _ & Hd).
  split; [change (kweights (to_K k') = kweights (to_K self)); rewrite Hk; exact Hw | rewrite Hk; exact Hd].
Qed.

Theorem gen_permute_rejects (self : ktz) (order : vec) :
  np_sort order <> np_arange 0 (zlen (kt_factors self)) -> ktensor_permute self order = Err.
Proof.
  intros H. rewrite permute_bridge. unfold H_permute. destruct (zlist_eqb _ _) eqn:E; [|reflexivity].
  apply zlist_eqb_eq in E. congruence.
Qed.

(* ---------------------------------------------------------------- extract *)
Theorem gen_extract_none (self : ktz) : ktensor_extract self IxNone = Ok self.
Proof. reflexivity. Qed.

Theorem gen_extract_model (self k' : ktz) (idx : pyidx) (c : vec) : H_components idx = Some c -> ktensor_extract self idx = Ok k' ->
  (0 < zlen c <= zlen (kt_weights self)) /\ (forall x, In x c -> 0 <= x < zlen (kt_weights self)) /\
  to_K k' = k_extract 0 (nats c) (to_K self).
Proof.
  intros Hc E. rewrite extract_bridge in E. unfold H_extract in E. rewrite Hc in E.
  assert (E' : (if (zlen c =? 0) || (zlen c >? zlen (kt_weights self)) then Err
                else if negb (forallb (fun x => (0 <=? x) && (x <? zlen (kt_weights self))) c) then Err
                else if negb (H_gather_ok self c) then Err
                else if kt_make_ok (kt_factors (H_gather self c)) (kt_weights (H_gather self c)) then Ok (H_gather self c) else Err) = Ok k')
    by (destruct idx; try discriminate; exact E).
  clear E. destruct ((zlen c =? 0) || (zlen c >? zlen (kt_weights self))) eqn:E0; [discriminate|].
  destruct (forallb _ c) eqn:E1; [|discriminate]. cbn [negb] in E'.
  destruct (H_gather_ok self c); [|discriminate]. cbn [negb] in E'. destruct (kt_make_ok _ _); [|discriminate].
  injection E' as <-. apply orb_false_iff in E0 as [A B]. apply Z.eqb_neq in A.
  assert (B' : ~ zlen c > zlen (kt_weights self)) by (intros G; assert (G' : (zlen c >? zlen (kt_weights self)) = true) by (apply Z.gtb_lt; lia); congruence).
  assert (In_c : forall x, In x c -> 0 <= x < zlen (kt_weights self)).
  { intros x Hx. rewrite forallb_forall in E1. specialize (E1 x Hx). apply andb_true_iff in E1 as [P Q].
    apply Z.leb_le in P. apply Z.ltb_lt in Q. lia. }
  split; [unfold zlen in *; lia|]. split; [exact In_c|].
  apply H_gather_model. intros x Hx. apply In_c in Hx. lia.
Qed.

(* the generated extract denotes the sum of the selected components *)
Theorem gen_extract_den (self k' : ktz) (idx : pyidx) (c : vec) : H_components idx = Some c -> ktensor_extract self idx = Ok k' ->
  forall i, denZ (to_K k') i =
            if inb (kshape (to_K self)) i then sum_over 0 Z.add (nats c) (comp Z 0 1 Z.mul (to_K self) i) else 0.
Proof.
  intros Hc E i. destruct (gen_extract_model self k' idx c Hc E) as (_ & _ & Hk). rewrite Hk.
  apply (den_gather Z 0 1 Z.add Z.mul).
Qed.

Theorem gen_extract_rejects (self : ktz) (idx : pyidx) (c : vec) : H_components idx = Some c ->
  (exists x, In x c /\ ~ (0 <= x < zlen (kt_weights self))) -> ktensor_extract self idx = Err.
Proof.
  intros Hc (x & Hx & Hr). rewrite extract_bridge. unfold H_extract. rewrite Hc.
  assert (F : forallb (fun x => (0 <=? x) && (x <? zlen (kt_weights self))) c = false).
  { destruct (forallb _ c) eqn:E; [|reflexivity]. rewrite forallb_forall in E. specialize (E x Hx).
    apply andb_true_iff in E as [P Q]. apply Z.leb_le in P. apply Z.ltb_lt in Q. lia. }
  rewrite F. cbn [negb]. destruct idx; try discriminate; destruct (_ || _); reflexivity.
Qed.

(* ---------------------------------------------------------------- arrange *)
(* permutation branch: independent of the normalize oracle; the components are gathered by the permutation *)
Theorem gen_arrange_perm_model (nz : ktz -> res ktz) (self k' : ktz) (perm : pyidx) (p : vec) :
  perm = IxSeq p \/ perm = IxArr p -> ktensor_arrange nz self None perm = Ok k' ->
  is_perm (nats p) (length (kt_weights self)) /\ to_K k' = k_arrange_perm 0 (nats p) (to_K self).
Proof.
  intros Hp E. rewrite arrange_bridge in E. unfold H_arrange in E.
  assert (E' : (if zlen p =? zlen (kt_weights self) then
                  if zlist_eqb (np_sort p) (np_arange 0 (zlen (kt_weights self))) then
                    if H_gather_ok self p then Ok (H_gather self p) else Err else Err else Err) = Ok k')
    by (destruct Hp as [-> | ->]; exact E).
  clear E. destruct (zlen p =? _); [|discriminate]. destruct (zlist_eqb _ _) eqn:Es; [|discriminate].
  destruct (H_gather_ok self p); [|discriminate]. injection E' as <-. apply zlist_eqb_eq in Es.
  split; [apply sorted_range_is_perm; exact Es|].
  apply H_gather_model. intros x Hx. apply (sorted_is_range_in p _ Es x) in Hx. lia.
Qed.

Theorem gen_arrange_perm_den (nz : ktz -> res ktz) (self k' : ktz) (perm : pyidx) (p : vec) :
  perm = IxSeq p \/ perm = IxArr p -> ktensor_arrange nz self None perm = Ok k' ->
  forall i, denZ (to_K k') i = denZ (to_K self) i.
Proof.
  intros Hp E i. destruct (gen_arrange_perm_model nz self k' perm p Hp E) as [Hperm Hk]. rewrite Hk.
  apply (den_gather_perm Z 0 1 Z.add Z.mul Z.sub Z.opp Zth). exact Hperm.
Qed.

(* sort branch: after the normalize oracle, the weights come out in descending order and the result is a gather of the
   normalized tensor by a permutation (so it denotes the same array as what normalize returned) *)
Lemma argsort_is_perm (w : vec) : is_perm (nats (rev (np_argsort w))) (length w).
Proof.
  unfold is_perm, nats. rewrite map_rev. apply Permutation_trans with (map Z.to_nat (np_argsort w)); [apply Permutation_sym, Permutation_rev|].
  pose proof (Permutation_map Z.to_nat (np_argsort_perm w)) as P. rewrite map_map in P.
  rewrite (map_ext _ (fun k => k)) in P by (intros; apply Nat2Z.id). now rewrite map_id in P.
Qed.

Theorem gen_arrange_sort (nz : ktz -> res ktz) (self k' : ktz) (perm : pyidx) :
  ix_is_list perm = false -> ix_is_arr perm = false -> ktensor_arrange nz self None perm = Ok k' ->
  exists k1, nz self = Ok k1 /\ kt_weights k' = rev (np_sort (kt_weights k1)) /\
             forall i, denZ (to_K k') i = denZ (to_K k1) i.
Proof.
  intros H1 H2 E. rewrite arrange_bridge in E. unfold H_arrange in E. rewrite H1, H2 in E.
  cbn [is_some andb orb] in E. rewrite andb_false_r in E.
  destruct (nz self) as [k1|]; [|discriminate]. cbn [bind] in E. exists k1. split; [reflexivity|].
  destruct (H_gather_ok k1 _); [|discriminate]. injection E as <-. split.
  - unfold H_gather. cbn [kt_weights]. unfold np_take. rewrite map_rev. f_equal. apply take_argsort.
  - intros i. rewrite H_gather_model.
    + apply (den_gather_perm Z 0 1 Z.add Z.mul Z.sub Z.opp Zth). apply argsort_is_perm.
    + intros x Hx. apply in_rev in Hx. apply (Permutation_in x (np_argsort_perm _)) in Hx.
      apply in_map_iff in Hx as (n & <- & _). lia.
Qed.

Theorem gen_arrange_rejects_both (nz : ktz -> res ktz) (self : ktz) (n : Z) (perm : pyidx) :
  perm <> IxNone -> ktensor_arrange nz self (Some n) perm = Err.
Proof. intros H. rewrite arrange_bridge. unfold H_arrange. destruct perm; try reflexivity. congruence. Qed.
