(* Model/C08Loop2.v — wave 4: the column loops of ktensor.normalize and ktensor.fixsigns() as written in the source (state =
   weights and factor list, mutated column after column), next to the vectorised models of Model/C08Kruskal.v.

     normalize(mode=n) / the first phase of normalize():
       for r in range(R):
           tmp = np.linalg.norm(A_n[:, r], ord=normtype)
           if tmp > 0:  A_n[:, r] = 1.0 / tmp * A_n[:, r]
           weights[r] = weights[r] * tmp
       (normalize(): the same for mode_idx in range(ndims), one mode after the other)

     fixsigns():
       for r in range(R):
           sgn[n] = sign(A_n[argmax |A_n[:, r]|, r])                       (negcol: that sign is -1)
           negidx = nonzero(sgn == -1); nflip = 2 * floor(len(negidx) / 2)
           for i in range(nflip): A_negidx[i][:, r] = -A_negidx[i][:, r]

   Definitions only; "loop = vectorised model" is proved in Proofs/C08Loop2.v. *)
From Coq Require Import List Arith Lia Bool.
From PV Require Import Base.Index Base.Perm Base.Sum Np.Array Model.Sparse Model.Repr Model.C08Kruskal.
Import ListNotations.

Section L82.
Context {V : Type} (v0 v1 : V) (vmul : V -> V -> V) (vopp vinv : V -> V).
Notation mat := (list (list V)).

(* A[:, r] = g(A[:, r]) entrywise *)
Definition map_col (g : V -> V) (r : nat) (A : mat) : mat := map (upd_nth r g) A.

(* ---- normalize ---- *)
Section Norm.
Variables (nrm : list V -> V) (pos : V -> bool).
(* one pass of the body for component r of mode n on the state (weights, factors) *)
Definition py_norm_step (n : nat) (st : list V * list mat) (r : nat) : list V * list mat :=
  let tmp := nrm (col v0 (nth n (snd st) []) r) in
  (upd_nth r (fun w => vmul w tmp) (fst st),
   if pos tmp then upd_nth n (map_col (fun x => vmul (vmul v1 (vinv tmp)) x) r) (snd st) else snd st).
Definition py_normalize_mode (n : nat) (K : ktensor V) : ktensor V :=
  let st := fold_left (py_norm_step n) (seq 0 (krank K)) (kweights K, kfactors K) in mkK (fst st) (snd st).
(* for mode_idx in range(ndims): the inner loop *)
Definition py_normalize_cols (K : ktensor V) : ktensor V :=
  fold_left (fun K n => py_normalize_mode n K) (seq 0 (length (kfactors K))) K.
End Norm.

(* ---- fixsigns() ---- *)
Section Fix.
Variable negcol : list V -> bool.
Definition py_fs_step (As : list mat) (r : nat) : list mat :=
  let negidx := where_true (map (fun A => negcol (col v0 A r)) As) in
  fold_left (fun As' n => upd_nth n (map_col vopp r) As') (firstn (2 * (length negidx / 2)) negidx) As.
Definition py_fixsigns (K : ktensor V) : ktensor V :=
  mkK (kweights K) (fold_left py_fs_step (seq 0 (krank K)) (kfactors K)).
End Fix.
End L82.
