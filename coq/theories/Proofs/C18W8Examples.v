(* Proofs/C18W8Examples.v — non-vacuity of Props/C18W8.v: the harness instantiations of w7-skel (Model/W4SHarnessPdnr.v / Pqnr.v; the
   line-search kernels ignore the display flag, so the contracts hold by reflexivity) with printinneritn as a parameter and an objective
   kernel that is not constant (7 + M).  The generated drivers RETURN, the printing run's fnVals differs from the silent run's, and
   everything else agrees - the instance of the theorem, and both runs computed. *)
From Coq Require Import String List Arith Bool ZArith.
From PV Require Import Model.W4SPrelude Gen.GenCpAprPdnr Gen.GenCpAprPqnr Model.W4SHarnessPdnr Model.W4SHarnessPqnr
  Proofs.C18W8Util Proofs.C18W8Pdnr Proofs.C18W8PdnrMain Proofs.C18W8Pqnr Proofs.C18W8PqnrMain.
Import ListNotations.
Local Open Scope nat_scope.

Definition c18w8_pdnr (stoptime : Z) (tab : list ((nat * nat * nat) * (Z * nat))) (empt : list (nat * nat)) (shape : list nat) (tols : list Z) (sparse : bool)
    (N maxiters maxinner : nat) (stoptol : Z) (precomp inexact : bool) (printitn printinner : nat) :=
  GenCpAprPdnr.cp_apr_pdnr
    nat
    Z
    nat
    bool
    unit
    nat
    (nat * nat)%type
    (nat * nat * nat)%type
    Z.leb
    0%Z
    (-1)%Z
    Z.sub
    (fun m _ => m)
    (fun x : bool => x)
    (fun w : nat => (w, 0%Z))
    (fun _ n => nth n shape 0)
    (fun _ n jj => (n, jj))
    (fun _ => (0, 0, 0))
    (fun m _ => m)
    (fun x : bool => negb x)
    (fun _ _ _ _ _ _ => tt)
    (fun _ n => n)
    (fun ix => pdnr_mem ix empt)
    (fun m _ _ => m)
    (fun _ ix => (fst ix, snd ix, 0))
    (fun _ _ _ _ _ _ _ => tt)
    (fun m _ jj => (m, jj, 0))
    (fun _ _ _ _ m => (m, m))
    (fun _ ph => ph)
    (fun m _ => fst (pdnr_look tab m))
    (fun _ _ _ _ m _ _ => (m, 0%Z))
    (fun _ _ m _ _ _ _ _ => (let '(p, jj, i) := m in (p, jj, S i), 0%Z, 0%Z, snd (pdnr_look tab m)))
    (fun _ _ => 0%Z)
    (fun _ => false)
    (fun m => m)
    (fun _ => false)
    (fun m => m)
    (fun _ => false)
    (fun m => m)
    (fun m _ _ _ => m)
    (fun xm jj => (xm, jj, 0))
    (fun r => negb (pdnr_mem (fst (fst r), snd (fst r)) empt))
    (fun m _ _ => S m)
    (fun _ _ => 0)
    (fun l => fold_right Z.max 0%Z l)
    (fun _ _ it => nth it tols 0%Z)
    (fun it p => (it mod p =? 0))
    (fun _ m => (7 + Z.of_nat m)%Z)
    (fun m _ _ => m)
    (fun _ _ => 0%Z)
    0 sparse 1 0 stoptol stoptime maxiters maxinner 0%Z printitn printinner 0%Z 0%Z precomp inexact N.

Definition c18w8_pqnr (stoptime : Z) (tab : list ((nat * nat * nat) * pq_entry)) (empt : list (nat * nat)) (shape : list nat) (sparse : bool)
    (N maxiters maxinner : nat) (stoptol : Z) (lbfgsMem : nat) (precomp : bool) (printitn printinner : nat) :=
  GenCpAprPqnr.cp_apr_pqnr
    nat
    Z
    nat
    bool
    unit
    nat
    (nat * nat)%type
    (nat * nat * nat)%type
    unit
    Z.leb
    0%Z
    (-1)%Z
    Z.sub
    (fun m _ => m)
    (fun x : bool => x)
    (fun w : nat => (w, 0%Z))
    (fun _ n => nth n shape 0)
    (fun _ n jj => (n, jj))
    (fun m _ => m)
    (fun _ _ _ _ _ _ => tt)
    (fun _ n => n)
    (fun ix => pdnr_mem ix empt)
    (fun m _ _ => m)
    (fun _ ix => (fst ix, snd ix, 0))
    (fun _ _ _ _ _ _ _ => tt)
    (fun m _ jj => (m, jj, 0))
    (fun _ _ => tt)
    (fun m => m)
    (fun _ _ _ _ m => (m, m))
    (fun _ m _ _ _ _ _ => (m, pq_ne1 (pqnr_look tab m)))
    (fun m _ => pq_kkt (pqnr_look tab m))
    (fun a _ => a)
    (fun a _ => pq_dot (pqnr_look tab a))
    (fun z => (z =? 0)%Z)
    (fun z => z)
    (fun m _ _ => m)
    (fun m _ _ _ _ _ _ _ _ => m)
    (fun _ _ m _ _ _ _ _ => (let '(p, jj, i) := m in (p, jj, S i), pq_ne2 (pqnr_look tab m)))
    (fun rho mem => (0 <? nth (Nat.pred mem) rho 0)%Z)
    (fun m _ _ _ => m)
    (fun xm jj => (xm, jj, 0))
    (fun r => negb (pdnr_mem (fst (fst r), snd (fst r)) empt))
    (fun m _ _ => S m)
    (fun _ _ => 0)
    (fun l => fold_right Z.max 0%Z l)
    (fun it p => (it mod p =? 0))
    (fun _ m => (7 + Z.of_nat m)%Z)
    (fun m _ _ => m)
    (fun _ _ => 0%Z)
    0 sparse 1 0 stoptol stoptime maxiters maxinner 0%Z printitn printinner 0%Z lbfgsMem precomp N.

Example C18W8PdnrExample :
  let run p q := c18w8_pdnr 1%Z [((0, 0, 0), (5%Z, 2)); ((0, 0, 1), (0%Z, 0))] [(1, 1)] [2; 2] [0; 0]%Z false 2 5 3 1%Z true true p q in
  run 0 0 = Some (4, ([5; 0]%Z, 0%Z, [2; 0], [0; 0]%Z, [1; 0], [0; 0], [0; 0]%Z, 0%Z), 0) /\
  run 1 1 = Some (4, ([5; 0]%Z, 0%Z, [2; 0], [9; 11]%Z, [1; 0], [0; 0], [0; 0]%Z, 0%Z), 0) /\
  run 2 0 = Some (4, ([5; 0]%Z, 0%Z, [2; 0], [9; 0]%Z, [1; 0], [0; 0], [0; 0]%Z, 0%Z), 0) /\
  option_map c18w8_drop_fnvals (run 0 0) = option_map c18w8_drop_fnvals (run 1 1).
Proof.
  cbv zeta. split; [vm_compute; reflexivity|]. split; [vm_compute; reflexivity|]. split; [vm_compute; reflexivity|].
  unfold c18w8_pdnr. apply gen_cp_apr_pdnr_print_indep. intros; reflexivity.
Qed.

Example C18W8PqnrExample :
  let run p q := c18w8_pqnr 1%Z [((0, 0, 0), (5%Z, 3, 2, 1%Z)); ((0, 0, 1), (0%Z, 0, 0, 1%Z))] [(1, 1)] [2; 2] false 2 5 3 1%Z 3 true p q in
  run 0 0 = Some (4, ([5; 0]%Z, 0%Z, [5; 0], [0; 0]%Z, [1; 0], [0; 0], [0; 0]%Z, 0%Z), 0) /\
  run 1 1 = Some (4, ([5; 0]%Z, 0%Z, [5; 0], [9; 11]%Z, [1; 0], [0; 0], [0; 0]%Z, 0%Z), 0) /\
  run 2 0 = Some (4, ([5; 0]%Z, 0%Z, [5; 0], [9; 0]%Z, [1; 0], [0; 0], [0; 0]%Z, 0%Z), 0) /\
  option_map c18w8_drop_fnvals (run 0 0) = option_map c18w8_drop_fnvals (run 1 1).
Proof.
  cbv zeta. split; [vm_compute; reflexivity|]. split; [vm_compute; reflexivity|]. split; [vm_compute; reflexivity|].
  unfold c18w8_pqnr. apply gen_cp_apr_pqnr_print_indep; intros; reflexivity.
Qed.
