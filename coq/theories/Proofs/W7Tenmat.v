(* Wave 7: bridge  Gen.GenTenmat7.tenmat_init = Model.W7Tenmat.H_tenmat_init  (all inputs) and laws of the generated constructor. *)
From Coq Require Import List ZArith Bool Lia.
From PV Require Import Np.NpZ Np.NpZ2 Np.NpZ3 Np.NpZ3b Np.NpZ7 Gen.GenUtils Gen.GenUtils2 Gen.GenUtils3b Gen.GenTenmat7 Model.W7Tenmat.
Import ListNotations.
Local Open Scope Z_scope.

Lemma w7_zlen_nil {A} (l : list A) : (zlen l =? 0) = true -> l = [].
Proof. unfold zlen. destruct l; auto. intro H. apply Z.eqb_eq in H. simpl length in H. lia. Qed.

Lemma w7_zlen_1 {A} (l : list A) : (zlen l =? 1) = true -> exists x, l = [x].
Proof.
  unfold zlen. destruct l as [|x [|y l]]; intro H; apply Z.eqb_eq in H; simpl length in H; try lia. eauto.
Qed.
Lemma w7_zlen_2 {A} (l : list A) : (zlen l =? 2) = true -> exists x y, l = [x; y].
Proof.
  unfold zlen. destruct l as [|x [|y [|z l]]]; intro H; apply Z.eqb_eq in H; simpl length in H; try lia. eauto.
Qed.

Lemma w7_empty_case rdims cdims tshape :
  (let cdims_empty := match cdims with None => true | Some v => ((zlen v) =? 0) end in
   let rdims_empty := match rdims with None => true | Some v => ((zlen v) =? 0) end in
   if match tshape with None => true | Some t => (shp_eq_unit_ok t) end then
     let tshape_empty := match tshape with None => true | Some t => (shp_eq_unit t) end in
     if ((rdims_empty && cdims_empty) && tshape_empty) then
       Ok (mk_tmz [] [] [] nd7_empty2)
     else Err
   else Err) = H_empty_case rdims cdims tshape.
Proof. reflexivity. Qed.

Lemma w7_dims_tail (n : Z) (r c : vec) (X : res tmz) :
  bind (if (zlen r =? 0) then Ok c
        else bind (if (zlen c =? 0) then Ok r else Ok (r ++ c)) (fun d => Ok d))
       (fun dims =>
          if ((negb ((zlen dims) =? n)) || (zlen (np_arange 0 n) =? zlen (np_sort dims))) then
            if ((negb ((zlen dims) =? n)) || (negb (vec_eqb (np_arange 0 n) (np_sort dims)))) then Err else X
          else Err)
  = if H_dims_perm n r c then X else Err.
Proof.
  assert (E : (if (zlen r =? 0) then Ok c
        else bind (if (zlen c =? 0) then Ok r else Ok (r ++ c)) (fun d => Ok d)) = Ok (r ++ c)).
  { destruct (zlen r =? 0) eqn:Er.
    - apply w7_zlen_nil in Er. subst. reflexivity.
    - destruct (zlen c =? 0) eqn:Ec; simpl; auto. apply w7_zlen_nil in Ec. subst. rewrite app_nil_r. reflexivity. }
  rewrite E. cbn [bind]. unfold H_dims_perm.
  destruct (zlen (r ++ c) =? n) eqn:En; simpl; auto.
  destruct (vec_eqb (np_arange 0 n) (np_sort (r ++ c))) eqn:Ev; simpl.
  - apply vec_eqb_eq in Ev. rewrite <- Ev. rewrite Z.eqb_refl. reflexivity.
  - destruct (zlen (np_arange 0 n) =? zlen (np_sort (r ++ c))); reflexivity.
Qed.

Theorem tenmat_init_bridge mo data isnum rdims cdims tshape copy :
  tenmat_init mo data isnum rdims cdims tshape copy = H_tenmat_init data isnum rdims cdims tshape.
Proof.
  unfold tenmat_init, H_tenmat_init.
  destruct data as [d|]; [|apply w7_empty_case].
  rewrite andb_true_l.
  destruct (nd7_size d =? 0) eqn:Es; [apply w7_empty_case|].
  rewrite andb_true_l. destruct isnum; cbn [negb]; cbv iota; [|reflexivity].
  unfold H_as_matrix.
  destruct (zlen (nd7_shape d) =? 1) eqn:E1.
  - destruct (w7_zlen_1 _ E1) as [x Ex]. rewrite Ex.
    destruct tshape as [t|]; [|reflexivity].
    assert (G : (idx_ok [x] 0 && nd7_reshapeF_ok d [1; znth 0 [x] 0]) = true).
    { unfold nd7_reshapeF_ok, nd7_size. rewrite Ex. apply andb_true_iff. split; [reflexivity|].
      apply Z.eqb_eq. change (znth 0 [x] 0) with x. unfold zprod. cbn [fold_right]. lia. }
    rewrite G. cbn [bind]. unfold nd7_reshapeF. cbn [nd7_shape nd7_data].
    change (znth 0 [x] 0) with x.
    change ((zlen [1; x]) =? 2) with true. cbn [negb]. cbv iota.
    destruct (parse_shape t) as [ts|]; cbn [bind]; [|reflexivity].
    destruct (negb (zprod [1; x] =? zprod ts)); [reflexivity|].
    destruct (gather_wrap_dims (zlen ts) rdims cdims None) as [[r c]|]; cbn [bind]; [|reflexivity].
    destruct (np_take_ok ts r && np_take_ok ts c); cbn [negb]; cbv iota; [|reflexivity].
    destruct (negb (zprod (np_take 0 ts r) * zprod (np_take 0 ts c) =? zprod [1; x])); [reflexivity|].
    rewrite <- (w7_dims_tail (zlen ts) r c). 
    destruct (negb copy && negb (mo {| nd7_shape := [1; x]; nd7_data := nd7_data d |})); reflexivity.
  - cbn [bind].
    destruct (zlen (nd7_shape d) =? 2) eqn:E2.
    + destruct (w7_zlen_2 _ E2) as [x [y Exy]]. destruct d as [sh dd]. cbn [nd7_shape] in *. subst sh. cbn [negb bind nd7_shape]. cbv iota.
      assert (Et : bind (match tshape with None => Ok (shp_of_ints [x; y]) | Some t => Ok t end)
                    = bind (Ok (match tshape with None => shp_of_ints [x; y] | Some t => t end)) :> ((pyshp -> res tmz) -> res tmz)).
      { destruct tshape; reflexivity. }
      rewrite Et. cbn [bind].
      destruct (parse_shape _) as [ts|]; cbn [bind]; [|reflexivity].
      destruct (negb (zprod [x; y] =? zprod ts)); [reflexivity|].
      destruct (gather_wrap_dims (zlen ts) rdims cdims None) as [[r c]|]; cbn [bind]; [|reflexivity].
      destruct (np_take_ok ts r && np_take_ok ts c); cbn [negb]; cbv iota; [|reflexivity].
      destruct (negb (zprod (np_take 0 ts r) * zprod (np_take 0 ts c) =? zprod [x; y])); [reflexivity|].
      rewrite <- (w7_dims_tail (zlen ts) r c).
      destruct (negb copy && negb (mo _)); reflexivity.
    + cbn [negb]. cbv iota.
      destruct (nd7_shape d) as [|x [|y [|z l]]]; try reflexivity; unfold zlen in E1, E2; simpl length in E1, E2;
        try (apply Z.eqb_neq in E1; lia); try (apply Z.eqb_neq in E2; lia).
Qed.

(* ------------------------------------------------------------------ laws of the GENERATED constructor *)
Theorem gen_tenmat_init_layout_indep mo mo' data isnum rdims cdims tshape copy copy' :
  tenmat_init mo data isnum rdims cdims tshape copy = tenmat_init mo' data isnum rdims cdims tshape copy'.
Proof. rewrite !tenmat_init_bridge. reflexivity. Qed.

Lemma H_as_matrix_ok d tshape m :
  H_as_matrix d tshape = Ok m ->
  nd7_data m = nd7_data d /\ zlen (nd7_shape m) = 2 /\ zprod (nd7_shape m) = zprod (nd7_shape d).
Proof.
  unfold H_as_matrix. destruct (nd7_shape d) as [|x [|y [|z l]]] eqn:E; try discriminate.
  - destruct tshape; try discriminate. intro H. injection H as <-. cbn [nd7_data nd7_shape].
    repeat split. unfold zprod. cbn [fold_right]. lia.
  - intro H. injection H as <-. rewrite E. repeat split.
Qed.

Theorem gen_tenmat_init_accept mo d isnum rdims cdims tshape copy M :
  nd7_size d <> 0 ->
  tenmat_init mo (Some d) isnum rdims cdims tshape copy = Ok M ->
  isnum = true /\
  nd7_data (tm7_data M) = nd7_data d /\
  zlen (nd7_shape (tm7_data M)) = 2 /\
  nd7_size (tm7_data M) = nd7_size d /\
  zprod (tm7_tshape M) = nd7_size d /\
  zprod (np_take 0 (tm7_tshape M) (tm7_rindices M)) * zprod (np_take 0 (tm7_tshape M) (tm7_cindices M)) = nd7_size d /\
  np_sort (tm7_rindices M ++ tm7_cindices M) = np_arange 0 (zlen (tm7_tshape M)).
Proof.
  intros Hs. rewrite tenmat_init_bridge. unfold H_tenmat_init.
  apply Z.eqb_neq in Hs. rewrite Hs.
  destruct isnum; cbn [negb]; [|discriminate].
  destruct (H_as_matrix d tshape) as [m|] eqn:Em; cbn [bind]; [|discriminate].
  destruct (H_as_matrix_ok _ _ _ Em) as [A1 [A2 A3]].
  destruct (parse_shape _) as [ts|]; cbn [bind]; [|discriminate].
  destruct (zprod (nd7_shape m) =? zprod ts) eqn:Ep; cbn [negb]; [|discriminate].
  destruct (gather_wrap_dims (zlen ts) rdims cdims None) as [[r c]|]; cbn [bind]; [|discriminate].
  destruct (np_take_ok ts r && np_take_ok ts c); cbn [negb]; [|discriminate].
  destruct (zprod (np_take 0 ts r) * zprod (np_take 0 ts c) =? zprod (nd7_shape m)) eqn:Eq; cbn [negb]; [|discriminate].
  destruct (H_dims_perm (zlen ts) r c) eqn:Ed; [|discriminate].
  intro H. injection H as <-. cbn [tm7_data tm7_tshape tm7_rindices tm7_cindices].
  apply Z.eqb_eq in Ep. apply Z.eqb_eq in Eq. unfold nd7_size.
  unfold H_dims_perm in Ed. apply andb_true_iff in Ed. destruct Ed as [_ Ed]. apply vec_eqb_eq in Ed.
  repeat split; auto; try lia.
Qed.

Theorem gen_tenmat_init_empty mo isnum rdims cdims tshape copy M :
  tenmat_init mo None isnum rdims cdims tshape copy = Ok M ->
  M = H_tm_empty /\ H_ovec_empty rdims = true /\ H_ovec_empty cdims = true /\ H_oshp_empty tshape = true.
Proof.
  rewrite tenmat_init_bridge. unfold H_tenmat_init, H_empty_case.
  destruct (H_oshp_cmp_ok tshape); [|discriminate].
  destruct (H_ovec_empty rdims); destruct (H_ovec_empty cdims); destruct (H_oshp_empty tshape); cbn [andb]; try discriminate.
  intro H. injection H as <-. auto.
Qed.

Theorem gen_tenmat_init_nonnumeric_rejected mo d rdims cdims tshape copy :
  nd7_size d <> 0 -> tenmat_init mo (Some d) false rdims cdims tshape copy = Err.
Proof.
  intro Hs. rewrite tenmat_init_bridge. unfold H_tenmat_init. apply Z.eqb_neq in Hs. rewrite Hs. reflexivity.
Qed.

Theorem gen_tenmat_init_vector_needs_tshape mo n dd isnum rdims cdims copy :
  n <> 0 -> tenmat_init mo (Some (mk_ndz [n] dd)) isnum rdims cdims None copy = Err.
Proof.
  intro Hn. rewrite tenmat_init_bridge. unfold H_tenmat_init, nd7_size. cbn [nd7_shape].
  assert (E : (zprod [n] =? 0) = false) by (apply Z.eqb_neq; unfold zprod; cbn [fold_right]; lia).
  rewrite E. destruct isnum; reflexivity.
Qed.

(* non-vacuity: a 2 x 3 matrix read as a tensor of shape (3, 2) with rdims = [1] (cdims computed), and a 1-d input *)
Example tenmat_init_example :
  tenmat_init (fun _ => true) (Some (mk_ndz [2; 3] [1; 2; 3; 4; 5; 6])) true (Some [1]) None (Some (STuple [EInt 3; EInt 2])) true
  = Ok (mk_tmz [3; 2] [1] [0] (mk_ndz [2; 3] [1; 2; 3; 4; 5; 6])).
Proof. vm_compute. reflexivity. Qed.
Example tenmat_init_example_1d :
  tenmat_init (fun _ => false) (Some (mk_ndz [4] [7; 8; 9; 10])) true None (Some [0; 1]) (Some (STuple [EInt 2; EInt 2])) false
  = Ok (mk_tmz [2; 2] [] [0; 1] (mk_ndz [1; 4] [7; 8; 9; 10])).
Proof. vm_compute. reflexivity. Qed.
Example tenmat_init_example_reject :
  tenmat_init (fun _ => true) (Some (mk_ndz [2; 3] [1; 2; 3; 4; 5; 6])) true (Some [0]) (Some [0]) (Some (STuple [EInt 2; EInt 3])) true = Err.
Proof. vm_compute. reflexivity. Qed.
