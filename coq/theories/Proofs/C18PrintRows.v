(* Proofs/C18PrintRows.v — C18, clause "whatever the printing / verbosity settings", for cp_apr PDNR / PQNR and gcp_opt + LBFGSB.

   1. tt_cp_apr_pdnr (pyttb/cp_apr.py:394-752) and tt_cp_apr_pqnr (755-1155) share one driver shape; it is transliterated
      statement by statement as ONE executable state machine `rs_run` with two flags (is_pdnr: the outer status print sits inside
      `if inexact:` and the stop rule has the inexact clause; prestep: PQNR's gradient step at i == 0) that returns the result
      AND the list of printed lines / warnings:  header, sparse-index precomputation messages, outer loop, mode loop
      (redistribute, row loop, normalize), row loop (empty row -> zero + continue; row subproblem set-up; inner loop), inner loop
      (optional first line search, KKT violation, first-violation rule, the inner status print, convergence break, quasi-Newton /
      Newton step which may die in PQNR's `assert False`, line search), `countInnerIters[n] += i` with Python's for-variable
      semantics (i keeps its last value; unbound when no inner loop has run yet: UnboundLocalError), outer status print, stop tests,
      time limit, epilogue (`iteration` unbound for maxiters = 0: UnboundLocalError).  Numerics are oracles on abstract state types; the
      same conventions as Model/C11Rows.v (the C11 state machine of the same two functions, which models the numerics and leaves
      printing out): position = (outer iteration, mode, row, inner iteration).
      Facts of the source kept as they are:
        * `(printinneritn > 0) and (divmod(i, printinneritn) == 0)` compares a tuple with 0: never true - the inner status line
          is never printed (inner_prints);
        * printinneritn > 0 switches on `warnings.warn` in the line search, the L-BFGS update and the search direction
          (dispLineWarn): the flag guards warnings only (cp_apr.py:1016, 1495, 1657);
        * the outer status print evaluates  fnVals[iteration] = -tt_loglikelihood(input_tensor, M), which NORMALISES M IN PLACE
          (all weight pushed into factor 0) and fills output["fnVals"] only on printed iterations;
        * "Exiting because time limit exceeded" is printed whatever printitn is.
      So the running model of a printing run and of a silent run differ as stored arrays after a printed iteration.  Proved: the
      returned model, KKT / inner-iteration / zero-count / function-evaluation traces and objective are identical for any two
      settings of (printitn, printinneritn) (negative values included) under the CONTRACT that on a state whose factor columns are
      all normalised (allnorm: what M.normalize(normtype=1) establishes and every mode step re-establishes) the in-place
      normalisation is invisible to the two statements that can follow it: M.redistribute(mode=0) and the final
      M.normalize(sort=True, normtype=1)  (true in exact arithmetic for the nonnegative models of CP-APR; up to rounding in floats:
      that part is what the print.cp_apr_pdnr / print.cp_apr_pqnr correspondence pairs measure).  output["fnVals"] is NOT
      print-independent (by design of the source) and is returned separately.
   2. gcp_opt (pyttb/gcp_opt.py:24-131) with an LBFGSB optimizer: printitn is read by one statement only, the welcome message;
      LBFGSB.solve never sees it. *)
From Coq Require Import List Arith Bool ZArith Lia.
From PV Require Import Proofs.C18Print.
Import ListNotations.

(* ---------------------------------------------------------------------------------------------- *)
(* a writer-with-failure combinator: (None = the run raised, Some = value) x printed lines          *)
(* ---------------------------------------------------------------------------------------------- *)
Section Writer.
Context {Ev : Type}.
Definition wr (A : Type) : Type := (option A * list Ev)%type.
Definition ret {A} (a : A) : wr A := (Some a, []).
Definition fail {A} : wr A := (None, []).
Definition say (l : list Ev) : wr unit := (Some tt, l).
Definition bind {A B} (x : wr A) (f : A -> wr B) : wr B :=
  match fst x with
  | Some a => (fst (f a), snd x ++ snd (f a))
  | None => (None, snd x)
  end.

Lemma bind_fst {A B} (x : wr A) (f : A -> wr B) :
  fst (bind x f) = match fst x with Some a => fst (f a) | None => None end.
Proof. unfold bind. destruct (fst x); reflexivity. Qed.

Lemma bind_say_fst {B} l (f : unit -> wr B) : fst (bind (say l) f) = fst (f tt).
Proof. reflexivity. Qed.

Lemma bind_Forall {A B} (P : Ev -> Prop) (x : wr A) (f : A -> wr B) :
  Forall P (snd x) -> (forall a, Forall P (snd (f a))) -> Forall P (snd (bind x f)).
Proof. intros Hx Hf. unfold bind. destruct (fst x); cbn [snd]; [apply Forall_app; auto|exact Hx]. Qed.

Lemma bind_some {A B} (x : wr A) (f : A -> wr B) b :
  fst (bind x f) = Some b -> exists a, fst x = Some a /\ fst (f a) = Some b.
Proof. rewrite bind_fst. destruct (fst x) as [a|]; [intros H; exists a; auto|discriminate]. Qed.
End Writer.

(* ============================================================================================== *)
(* 1. tt_cp_apr_pdnr / tt_cp_apr_pqnr                                                               *)
(* ============================================================================================== *)
Section Rows.
Variables St Rw F W : Type.                (* the model M; the state of one row subproblem; scalars; warning texts *)
Variable N : nat.                          (* input_tensor.ndims *)
Hypothesis Npos : 1 <= N.
Variables (is_pdnr prestep inexact sparse_precomp : bool).
Variable maxinner : nat.
Variable redist : nat -> St -> St.                       (* M.redistribute(mode=n) *)
Variable nrows : nat -> St -> nat.                       (* M.factor_matrices[n].shape[0] *)
Variable row_empty : nat -> nat -> bool.                 (* sparse_indices.size == 0  /  not np.any(x_row): a function of the data *)
Variable zero_row : nat -> nat -> St -> St.              (* M.factor_matrices[n][jj, :] = 0 *)
Variable row_init : nat -> nat -> nat -> St -> Rw.       (* mu = mu0 / L-BFGS storage, x_row, Pi, m_row  (iteration, n, jj) *)
Variable row_pre : Rw -> Rw.                             (* PQNR, i == 0: first line search along -grad, gradient again *)
Variable pre_warn : Rw -> list W.                        (* ... the warnings its display_warning flag would show *)
Variable row_kkt : Rw -> F.                              (* np.max(np.abs(np.minimum(m_row, gradM))) *)
Variable row_obj : Rw -> F.                              (* -f_new *)
Variable row_step : nat -> Rw -> option Rw.              (* (L-BFGS update,) search direction, line search, (mu update); None = assert False *)
Variable step_warn : nat -> Rw -> list W.                (* the warnings of that step under dispLineWarn *)
Variable row_evals : Rw -> nat.                          (* what the row added to fnEvals[iteration] *)
Variable write_row : nat -> nat -> Rw -> St -> St.       (* M.factor_matrices[n][jj, :] = m_row *)
Variable renorm : nat -> St -> St.                       (* M.normalize(mode=n, normtype=1) *)
Variable count_zeros : St -> nat.
Variables (f0 : F) (fneg : F -> F) (fltb : F -> F -> bool) (fmaxl : list F -> F).
Variable stoptol : F.
Variable rowtol_le : F -> bool.                          (* np.maximum(stoptol, kkt) / 100.0 <= stoptol *)
Variable timeup : nat -> bool.                           (* times[iteration] > stoptime *)
Variable loglik : St -> St * F.                          (* tt_loglikelihood(input_tensor, M): normalises M in place, returns the value *)
Variable finish : St -> St.                              (* M.normalize(sort=True, normtype=1) *)
Variable lsfit : St -> F.                                (* read-only *)

Definition touch (s : St) : St := fst (loglik s).

(* the contract (see the header) *)
Variables allnorm : St -> Prop.
Variable offnorm : nat -> St -> Prop.                    (* all modes but n normalised *)
Hypothesis redist_off : forall n s, allnorm s -> offnorm n (redist n s).
Hypothesis zero_off : forall n jj s, offnorm n s -> offnorm n (zero_row n jj s).
Hypothesis write_off : forall n jj rw s, offnorm n s -> offnorm n (write_row n jj rw s).
Hypothesis renorm_all : forall n s, offnorm n s -> allnorm (renorm n s).
Hypothesis touch_redist : forall s, allnorm s -> redist 0 (touch s) = redist 0 s.
Hypothesis touch_finish : forall s, allnorm s -> finish (touch s) = finish s.

Inductive rs_event : Type :=
| RsHeader                                               (* "CP_PDNR (...)" / "CP_PQNR (...)" *)
| RsPrecomp | RsPrecompDone                              (* "\tPrecomuting sparse index sets..." / "done" *)
| RsInner (n jj i : nat) (kkt : F) (obj : option F)      (* "\tMode = n, Row = jj, InnerIt = i, RowKKT = ...[, RowObj = ...]" *)
| RsWarn (w : W)                                         (* warnings.warn(...) under dispLineWarn *)
| RsIter (k inner : nat) (kkt fval : F) (nz : nat)       (* "k. Ttl Inner Its: ..., KKT viol = ..., obj = ..., nz: ..." *)
| RsTime                                                 (* "Exiting because time limit exceeded" *)
| RsFinal (obj fit kkt : F) (total : nat).               (* the "=====" block *)

Notation wrs := (@wr rs_event).

Record rs_traces : Type := mkTr { t_kkt : list F; t_inner : list nat; t_nz : list nat; t_evals : list nat }.
Record rs_result : Type := mkRs {
  rs_model : St; rs_kkt : list F; rs_obj : F; rs_inner : list nat; rs_nzeros : list nat; rs_fnevals : list nat }.
Record rout : Type := mkRout { ro_rw : Rw; ro_kmode : F; ro_touched : bool; ro_lasti : option nat }.
Record rowsout : Type := mkRows { rw_st : St; rw_kmode : F; rw_notconv : bool; rw_cnt : nat; rw_evals : nat; rw_lasti : option nat }.
Record modesout : Type := mkModes { mo_st : St; mo_conv : bool; mo_kms : list F; mo_inner : nat; mo_evals : nat; mo_lasti : option nat }.

(* (printinneritn > 0) and (divmod(i, printinneritn) == 0): a tuple is never equal to 0 *)
Definition inner_prints (q : Z) (i : nat) : bool := (0 <? q)%Z && false.
(* dispLineWarn = printinneritn > 0 *)
Definition warn (q : Z) (ws : list W) : list rs_event := if (0 <? q)%Z then map RsWarn ws else [].

Section Run.
Variables printitn printinneritn : Z.

(* for i in range(innerIterMaximum): ... *)
Fixpoint rw_loop (rem i n jj : nat) (rw : Rw) (kmode : F) (touched : bool) (lasti : option nat) : wrs rout :=
  match rem with
  | O => ret (mkRout rw kmode touched lasti)
  | S rem' =>
      let pre := prestep && Nat.eqb i 0 in
      let rw1 := if pre then row_pre rw else rw in
      let kkt := row_kkt rw1 in
      let kmode' := if Nat.eqb i 0 && fltb kmode kkt then kkt else kmode in   (* if i == 0 and kkt > kktModeViolations[n] *)
      bind (say (if pre then warn printinneritn (pre_warn rw) else [])) (fun _ =>
      bind (say (if inner_prints printinneritn i
                 then [RsInner n jj i kkt (if Nat.eqb i 0 then None else Some (row_obj rw1))] else [])) (fun _ =>
      if fltb kkt stoptol then ret (mkRout rw1 kmode' touched (Some i))       (* break *)
      else bind (say (warn printinneritn (step_warn i rw1))) (fun _ =>         (* isRowNOTconverged[jj] = 1 *)
           match row_step i rw1 with
           | None => fail
           | Some rw2 => rw_loop rem' (S i) n jj rw2 kmode' true (Some i)
           end)))
  end.

Definition innermax_of (iteration : nat) : nat :=
  if is_pdnr && inexact && Nat.eqb iteration 1 then 2 else maxinner.

(* for jj in range(num_rows): ... *)
Fixpoint rows_loop (iteration n : nat) (jjs : list nat) (s : St) (kmode : F) (notconv : bool) (cnt evals : nat)
                   (lasti : option nat) : wrs rowsout :=
  match jjs with
  | [] => ret (mkRows s kmode notconv cnt evals lasti)
  | jj :: rest =>
      if row_empty n jj then rows_loop iteration n rest (zero_row n jj s) kmode notconv cnt evals lasti      (* continue *)
      else bind (rw_loop (innermax_of iteration) 0 n jj (row_init iteration n jj s) kmode false lasti) (fun r =>
           match ro_lasti r with
           | None => fail                                                       (* countInnerIters[n] += i: i is unbound *)
           | Some il => rows_loop iteration n rest (write_row n jj (ro_rw r) s) (ro_kmode r) (notconv || ro_touched r)
                                  (cnt + il) (evals + row_evals (ro_rw r)) (ro_lasti r)
           end)
  end.

(* for n in range(N): ... *)
Fixpoint modes_loop (iteration : nat) (ns : list nat) (s : St) (conv : bool) (kms : list F) (inner evals : nat)
                    (lasti : option nat) : wrs modesout :=
  match ns with
  | [] => ret (mkModes s conv kms inner evals lasti)
  | n :: rest =>
      let s1 := redist n s in
      bind (rows_loop iteration n (seq 0 (nrows n s1)) s1 f0 false 0 evals lasti) (fun r =>
        modes_loop iteration rest (renorm n (rw_st r)) (conv && negb (rw_notconv r)) (kms ++ [rw_kmode r])
                   (inner + rw_cnt r) (rw_evals r) (rw_lasti r))
  end.

Definition push (tr : rs_traces) (kkt : F) (inner nz evals : nat) : rs_traces :=
  mkTr (t_kkt tr ++ [kkt]) (t_inner tr ++ [inner]) (t_nz tr ++ [nz]) (t_evals tr ++ [evals]).

(* for iteration in range(maxiters): ...   (the state, the traces [: iteration + 1], output["fnVals"]) *)
Fixpoint outer (rem k : nat) (s : St) (lasti : option nat) (tr : rs_traces) (vv : list F) : wrs (St * rs_traces * list F) :=
  match rem with
  | O => ret (s, tr, vv)
  | S rem' =>
      bind (modes_loop k (seq 0 N) s true [] 0 0 lasti) (fun r =>
        let s1 := mo_st r in
        let nz := count_zeros s1 in
        let kkt := fmaxl (mo_kms r) in
        let printing := prints_at printitn k && (if is_pdnr then inexact else true) in
        let s2 := if printing then touch s1 else s1 in                          (* fnVals[iteration] = -tt_loglikelihood(X, M) *)
        let fv := if printing then fneg (snd (loglik s1)) else f0 in
        let tr' := push tr kkt (mo_inner r) nz (mo_evals r) in
        let vv' := vv ++ [fv] in
        let stop := if is_pdnr then mo_conv r && (negb inexact || rowtol_le kkt) else mo_conv r in
        bind (say (if printing then [RsIter k (mo_inner r) kkt fv nz] else [])) (fun _ =>
        if stop then ret (s2, tr', vv')
        else if timeup k then bind (say [RsTime]) (fun _ => ret (s2, tr', vv'))
        else outer rem' (S k) s2 (mo_lasti r) tr' vv'))
  end.

Definition rs_run (maxiters : nat) (s0 : St) : wrs (rs_result * list F) :=
  bind (say (if (0 <? printitn)%Z then [RsHeader] else [])) (fun _ =>
  bind (say (if sparse_precomp && (0 <? printitn)%Z then [RsPrecomp; RsPrecompDone] else [])) (fun _ =>
  bind (outer maxiters 0 s0 None (mkTr [] [] [] []) []) (fun r =>
    let '(s1, tr, vv) := r in
    match maxiters with
    | O => fail                                                                 (* `iteration` is unbound: UnboundLocalError *)
    | S _ =>
        let s2 := finish s1 in
        let s3 := touch s2 in
        let obj := snd (loglik s2) in
        bind (say (if (0 <? printitn)%Z
                   then [RsFinal obj (lsfit s3) (last (t_kkt tr) obj) (fold_right Nat.add 0 (t_inner tr))] else [])) (fun _ =>
        ret (mkRs s3 (t_kkt tr) obj (t_inner tr) (t_nz tr) (t_evals tr), vv))
    end))).
End Run.

(* ---------------- the loops below the outer one: printing settings reach the log only ---------------- *)
Lemma rw_loop_indep q1 q2 rem : forall i n jj rw kmode touched lasti,
  fst (rw_loop q1 rem i n jj rw kmode touched lasti) = fst (rw_loop q2 rem i n jj rw kmode touched lasti).
Proof.
  induction rem as [|rem IH]; intros i n jj rw kmode touched lasti; cbn [rw_loop]; [reflexivity|].
  rewrite !bind_say_fst. destruct (fltb _ stoptol); [reflexivity|]. rewrite !bind_say_fst.
  destruct (row_step i _); [apply IH|reflexivity].
Qed.

Lemma rows_loop_indep q1 q2 iteration n jjs : forall s kmode notconv cnt evals lasti,
  fst (rows_loop q1 iteration n jjs s kmode notconv cnt evals lasti) = fst (rows_loop q2 iteration n jjs s kmode notconv cnt evals lasti).
Proof.
  induction jjs as [|jj rest IH]; intros s kmode notconv cnt evals lasti; cbn [rows_loop]; [reflexivity|].
  destruct (row_empty n jj); [apply IH|]. rewrite !bind_fst.
  rewrite (rw_loop_indep q1 q2). destruct (fst (rw_loop q2 _ _ _ _ _ _ _ _)) as [r|]; [|reflexivity].
  destruct (ro_lasti r); [apply IH|reflexivity].
Qed.

Lemma modes_loop_indep q1 q2 iteration ns : forall s conv kms inner evals lasti,
  fst (modes_loop q1 iteration ns s conv kms inner evals lasti) = fst (modes_loop q2 iteration ns s conv kms inner evals lasti).
Proof.
  induction ns as [|n rest IH]; intros s conv kms inner evals lasti; cbn [modes_loop]; [reflexivity|].
  rewrite !bind_fst. rewrite (rows_loop_indep q1 q2).
  destruct (fst (rows_loop q2 _ _ _ _ _ _ _ _ _)) as [r|]; [apply IH|reflexivity].
Qed.

(* ---------------- the normalisation invariant ---------------- *)
Lemma rows_loop_off q iteration n jjs : forall s kmode notconv cnt evals lasti r,
  offnorm n s -> fst (rows_loop q iteration n jjs s kmode notconv cnt evals lasti) = Some r -> offnorm n (rw_st r).
Proof.
  induction jjs as [|jj rest IH]; intros s kmode notconv cnt evals lasti r Hs; cbn [rows_loop].
  - cbn. intros E. injection E as <-. exact Hs.
  - destruct (row_empty n jj); [apply IH; now apply zero_off|].
    intros E. apply bind_some in E as (ro & _ & E). destruct (ro_lasti ro); [|discriminate].
    revert E. apply IH. now apply write_off.
Qed.

Lemma modes_loop_all q iteration ns : forall s conv kms inner evals lasti r,
  allnorm s -> fst (modes_loop q iteration ns s conv kms inner evals lasti) = Some r -> allnorm (mo_st r).
Proof.
  induction ns as [|n rest IH]; intros s conv kms inner evals lasti r Hs; cbn [modes_loop].
  - cbn. intros E. injection E as <-. exact Hs.
  - intros E. apply bind_some in E as (ro & E1 & E). revert E. apply IH.
    apply renorm_all. eapply rows_loop_off; [|exact E1]. now apply redist_off.
Qed.

(* a stored model that is u or u after the in-place normalisation of a printed iteration *)
Definition sim (u s : St) : Prop := s = u \/ s = touch u.

Lemma modes_loop_sim q iteration u s conv kms inner evals lasti : allnorm u -> sim u s ->
  fst (modes_loop q iteration (seq 0 N) s conv kms inner evals lasti) = fst (modes_loop q iteration (seq 0 N) u conv kms inner evals lasti).
Proof.
  intros Hu [->| ->]; [reflexivity|].
  destruct N as [|N']; [lia|]. cbn [seq modes_loop]. now rewrite touch_redist.
Qed.

Definition outer_rel (x y : option (St * rs_traces * list F)) : Prop :=
  match x, y with
  | Some (s1, tr1, _), Some (s2, tr2, _) => tr1 = tr2 /\ exists u, allnorm u /\ sim u s1 /\ sim u s2
  | None, None => True
  | _, _ => False
  end.

Lemma outer_sim p1 q1 p2 q2 rem : forall k u s1 s2 lasti tr vv1 vv2, allnorm u -> sim u s1 -> sim u s2 ->
  outer_rel (fst (outer p1 q1 rem k s1 lasti tr vv1)) (fst (outer p2 q2 rem k s2 lasti tr vv2)).
Proof.
  induction rem as [|rem IH]; intros k u s1 s2 lasti tr vv1 vv2 Hu H1 H2; cbn [outer].
  - cbn. split; [reflexivity|]. exists u. auto.
  - rewrite !bind_fst.
    rewrite (modes_loop_sim q1 k u s1) by assumption. rewrite (modes_loop_sim q2 k u s2) by assumption.
    rewrite (modes_loop_indep q1 q2).
    destruct (fst (modes_loop q2 k (seq 0 N) u true [] 0 0 lasti)) as [r|] eqn:E; [|exact I].
    pose proof (modes_loop_all q2 k (seq 0 N) u true [] 0 0 lasti r Hu E) as Hr.
    rewrite !bind_say_fst.
    set (stop := if is_pdnr then mo_conv r && (negb inexact || rowtol_le (fmaxl (mo_kms r))) else mo_conv r).
    assert (S1 : forall b : bool, sim (mo_st r) (if b then touch (mo_st r) else mo_st r)).
    { intros [|]; [right|left]; reflexivity. }
    destruct stop.
    + cbn. split; [reflexivity|]. exists (mo_st r). auto.
    + destruct (timeup k).
      * cbn. split; [reflexivity|]. exists (mo_st r). auto.
      * apply (IH (S k) (mo_st r)); auto.
Qed.

(* model, KKT / inner-iteration / zero-count / function-evaluation traces and objective do not depend on printitn / printinneritn *)
Theorem cp_apr_rows_print_indep : forall (p1 q1 p2 q2 : Z) (maxiters : nat) (s0 : St), allnorm s0 ->
  option_map fst (fst (rs_run p1 q1 maxiters s0)) = option_map fst (fst (rs_run p2 q2 maxiters s0)).
Proof.
  intros p1 q1 p2 q2 maxiters s0 H0. unfold rs_run. rewrite !bind_say_fst, !bind_fst.
  pose proof (outer_sim p1 q1 p2 q2 maxiters 0 s0 s0 s0 None (mkTr [] [] [] []) [] [] H0 (or_introl eq_refl) (or_introl eq_refl)) as H.
  destruct (fst (outer p1 q1 maxiters 0 s0 None _ [])) as [[[s1 tr1] vv1]|];
    destruct (fst (outer p2 q2 maxiters 0 s0 None _ [])) as [[[s2 tr2] vv2]|]; cbn in H; try contradiction; [|reflexivity].
  destruct H as (-> & u & Hu & A & B).
  destruct maxiters; [reflexivity|]. rewrite !bind_say_fst. cbn [ret fst option_map].
  assert (Ef : finish s1 = finish s2).
  { destruct A as [->| ->], B as [->| ->]; rewrite ?touch_finish by exact Hu; reflexivity. }
  now rewrite Ef.
Qed.

(* printing switched off: nothing but the unconditional time-limit message is printed, no warning is raised, and fnVals stays
   at its initial zeros *)
Lemma rw_loop_silent q rem : (q <= 0)%Z -> forall i n jj rw kmode touched lasti,
  snd (rw_loop q rem i n jj rw kmode touched lasti) = [].
Proof.
  intros Hq. assert (E : (0 <? q)%Z = false) by (apply Z.ltb_ge; lia).
  induction rem as [|rem IH]; intros i n jj rw kmode touched lasti; cbn [rw_loop]; [reflexivity|].
  unfold warn, inner_prints. rewrite E. cbn [andb]. replace (if prestep && Nat.eqb i 0 then [] else []) with (@nil rs_event) by (destruct (_ && _); reflexivity).
  unfold bind at 1. cbn [say fst snd app]. unfold bind at 1. cbn [say fst snd app].
  destruct (fltb _ stoptol); [reflexivity|]. unfold bind at 1. cbn [say fst snd app].
  destruct (row_step i _); [apply IH|reflexivity].
Qed.

Definition only_time (e : rs_event) : Prop := e = RsTime.

Lemma rows_loop_silent q iteration n jjs : (q <= 0)%Z -> forall s kmode notconv cnt evals lasti,
  snd (rows_loop q iteration n jjs s kmode notconv cnt evals lasti) = [].
Proof.
  intros Hq. induction jjs as [|jj rest IH]; intros s kmode notconv cnt evals lasti; cbn [rows_loop]; [reflexivity|].
  destruct (row_empty n jj); [apply IH|]. unfold bind. rewrite (rw_loop_silent q _ Hq).
  destruct (fst (rw_loop q _ _ _ _ _ _ _ _)) as [r|]; [|reflexivity]. cbn [fst snd app].
  destruct (ro_lasti r); [apply IH|reflexivity].
Qed.

Lemma modes_loop_silent q iteration ns : (q <= 0)%Z -> forall s conv kms inner evals lasti,
  snd (modes_loop q iteration ns s conv kms inner evals lasti) = [].
Proof.
  intros Hq. induction ns as [|n rest IH]; intros s conv kms inner evals lasti; cbn [modes_loop]; [reflexivity|].
  unfold bind. rewrite (rows_loop_silent q _ _ _ Hq).
  destruct (fst (rows_loop q _ _ _ _ _ _ _ _ _)) as [r|]; [|reflexivity]. cbn [fst snd app]. apply IH.
Qed.

Lemma outer_silent p q rem : (p <= 0)%Z -> (q <= 0)%Z -> forall k s lasti tr vv,
  Forall only_time (snd (outer p q rem k s lasti tr vv)) /\
  (forall r, fst (outer p q rem k s lasti tr vv) = Some r -> exists m, snd r = vv ++ repeat f0 m).
Proof.
  intros Hp Hq. induction rem as [|rem IH]; intros k s lasti tr vv; cbn [outer].
  - split; [constructor|]. intros r E. injection E as <-. exists 0. cbn. now rewrite app_nil_r.
  - rewrite (prints_at_nonpos p k Hp). cbn [andb]. split.
    + apply bind_Forall; [rewrite (modes_loop_silent q _ _ Hq); constructor|]. intros r.
      apply bind_Forall; [constructor|]. intros _.
      destruct (if is_pdnr then _ else _); [constructor|]. destruct (timeup k).
      * apply bind_Forall; [repeat constructor|]. intros _. constructor.
      * apply IH.
    + intros r E. apply bind_some in E as (mo & _ & E). rewrite bind_say_fst in E.
      destruct (if is_pdnr then _ else _).
      * injection E as <-. exists 1. reflexivity.
      * destruct (timeup k).
        -- rewrite bind_say_fst in E. injection E as <-. exists 1. reflexivity.
        -- destruct (proj2 (IH (S k) (mo_st mo) (mo_lasti mo) _ (vv ++ [f0])) r E) as (m & Hm).
           exists (S m). rewrite Hm, <- app_assoc. reflexivity.
Qed.

Theorem cp_apr_rows_silent : forall (p q : Z) (maxiters : nat) (s0 : St), (p <= 0)%Z -> (q <= 0)%Z ->
  Forall only_time (snd (rs_run p q maxiters s0)) /\
  (forall r, fst (rs_run p q maxiters s0) = Some r -> exists m, snd r = repeat f0 m).
Proof.
  intros p q maxiters s0 Hp Hq. assert (E : (0 <? p)%Z = false) by (apply Z.ltb_ge; lia).
  unfold rs_run. rewrite E, andb_false_r. split.
  - apply bind_Forall; [constructor|]. intros _. apply bind_Forall; [constructor|]. intros _.
    apply bind_Forall; [apply (outer_silent p q maxiters Hp Hq)|]. intros [[s1 tr] vv].
    destruct maxiters; [constructor|]. apply bind_Forall; constructor.
  - intros r Er. rewrite !bind_say_fst in Er. apply bind_some in Er as ([[s1 tr] vv] & E1 & Er).
    destruct maxiters; [discriminate|]. rewrite bind_say_fst in Er. injection Er as <-.
    destruct (proj2 (outer_silent p q (S maxiters) Hp Hq 0 s0 None (mkTr [] [] [] []) []) _ E1) as (m & Hm).
    exists m. exact Hm.
Qed.
End Rows.

(* ============================================================================================== *)
(* 2. gcp_opt(data, rank, objective, optimizer = LBFGSB(...), init, mask, sampler, printitn)          *)
(* ============================================================================================== *)
Section Gcp.
Variables Data Model Info Handles Msg : Type.
Variable validate : Data -> option (Data * Handles * nat * nat).   (* objective / type checks, setup(objective, data), data *= mask,
                                                                      tensor_size, nmissing; None = ValueError *)
Variable initial_guess : Data -> option Model.                     (* _get_initial_guess: None = ValueError *)
Variable optimizer_ok : Data -> bool.                              (* supported optimizer; LBFGSB rejects sparse data *)
Variable welcome : Data -> nat -> nat -> Msg.                      (* the message text: optimizer / objective name, shape, size, rank, missing *)
Variable solve : Model -> Data -> Handles -> Model * Info.         (* LBFGSB.solve(M0, data, function_handle, gradient_handle, lower_bound, mask) *)

Definition gcp_run (printitn : Z) (data : Data) : option (Model * Model * Info) * list Msg :=
  match validate data with
  | None => (None, [])
  | Some (d, h, size, nmissing) =>
      match initial_guess d with
      | None => (None, [])
      | Some M0 =>
          if negb (optimizer_ok d) then (None, [])
          else let log := if (0 <? printitn)%Z then [welcome d size nmissing] else [] in     (* logging.info(welcome_msg) *)
               let '(M, info) := solve M0 d h in
               (Some (M, M0, info), log)
      end
  end.

Theorem gcp_print_indep : forall (p1 p2 : Z) (data : Data), fst (gcp_run p1 data) = fst (gcp_run p2 data).
Proof.
  intros. unfold gcp_run. destruct (validate data) as [[[[d h] size] nm]|]; [|reflexivity].
  destruct (initial_guess d); [|reflexivity]. destruct (negb (optimizer_ok d)); [reflexivity|].
  destruct (solve _ _ _). reflexivity.
Qed.

Theorem gcp_silent : forall (p : Z) (data : Data), (p <= 0)%Z -> snd (gcp_run p data) = [].
Proof.
  intros p data Hp. unfold gcp_run. destruct (validate data) as [[[[d h] size] nm]|]; [|reflexivity].
  destruct (initial_guess d); [|reflexivity]. destruct (negb (optimizer_ok d)); [reflexivity|].
  destruct (solve _ _ _). cbn [snd]. destruct (0 <? p)%Z eqn:E; [apply Z.ltb_lt in E; lia|reflexivity].
Qed.
End Gcp.

(* ============================================================================================== *)
(* concrete runs (non-vacuity)                                                                      *)
(* ============================================================================================== *)
Arguments RsHeader {F W}.  Arguments RsPrecomp {F W}.  Arguments RsPrecompDone {F W}.  Arguments RsInner {F W} n jj i kkt obj.
Arguments RsWarn {F W} w.  Arguments RsIter {F W} k inner kkt fval nz.  Arguments RsTime {F W}.  Arguments RsFinal {F W} obj fit kkt total.
Arguments mkRs {St F} _ _ _ _ _ _.

Module C18PrintRowsExamples.
Local Open Scope Z_scope.

(* one mode, one row.  State (weight, factor mass), denoting weight * mass; redistribute pushes the weight into the factor,
   normalize pulls the mass out into the weight, the log-likelihood call leaves the model stored as (1, weight * mass).
   Row subproblem: the mass moves half way (rounded up) to the target 40 per inner step; KKT violation = distance to the target *)
Definition ex_redist (n : nat) (s : Z * Z) : Z * Z := (1, fst s * snd s).
Definition ex_renorm (n : nat) (s : Z * Z) : Z * Z := (fst s * snd s, 1).
Definition ex_loglik (s : Z * Z) : (Z * Z) * Z := ((1, fst s * snd s), fst s * snd s - 100).
Definition ex_rs (is_pdnr prestep inexact : bool) (target : Z) := rs_run (Z * Z) Z Z nat 1%nat is_pdnr prestep inexact true 3%nat
  ex_redist (fun _ _ => 1%nat) (fun _ _ => false) (fun _ _ s => s) (fun _ _ _ s => snd s)
  (fun m => m) (fun _ => [7%nat]) (fun m => Z.abs (target - m)) (fun m => - m)
  (fun i m => if m =? 13 then None else Some (m + (target - m + 1) / 2)) (fun i m => if Nat.eqb i 1 then [i] else [])
  (fun _ => 2%nat) (fun _ _ m s => (fst s, m)) ex_renorm (fun s => if snd s =? 0 then 1%nat else 0%nat)
  0 Z.opp Z.ltb (fun l => fold_right Z.max 0 l) 1 (fun k => k <=? 100) (fun k => Nat.eqb k 7) ex_loglik (ex_renorm 0%nat) (fun s => fst s).

Definition ex_allnorm (s : Z * Z) : Prop := snd s = 1.

(* the theorem applies to the instance: contract checked *)
Lemma ex_contract is_pdnr prestep inexact target p1 q1 p2 q2 maxiters w :
  option_map fst (fst (ex_rs is_pdnr prestep inexact target p1 q1 maxiters (w, 1)))
  = option_map fst (fst (ex_rs is_pdnr prestep inexact target p2 q2 maxiters (w, 1))).
Proof.
  unfold ex_rs.
  apply (cp_apr_rows_print_indep (Z * Z) Z Z nat 1%nat (le_n 1) is_pdnr prestep inexact true 3%nat ex_redist) with
    (allnorm := ex_allnorm) (offnorm := fun _ _ => True); auto.
  - intros n s _. reflexivity.
  - intros [a b] H. unfold ex_allnorm in H. cbn in *. subst b. unfold ex_redist, touch, ex_loglik. cbn [fst snd]. now rewrite ?Z.mul_1_l, ?Z.mul_1_r.
  - intros [a b] H. unfold ex_allnorm in H. cbn in *. subst b. unfold ex_renorm, touch, ex_loglik. cbn [fst snd]. now rewrite ?Z.mul_1_l, ?Z.mul_1_r.
  - reflexivity.
Qed.

(* PQNR flavour (pre-step at i == 0 - here it only warns -, status print not tied to `inexact`): 3 outer iterations from 8 to the target 40.
   The printing run stores (1, w) where the silent one stores (w, 1) after every printed iteration, and fills fnVals *)
Example ex_pqnr_silent :
  ex_rs false true false 40 0 0 10%nat (8, 1) = (Some (mkRs (1, 40) [32; 4; 0] (-60) [2; 2; 0]%nat [0; 0; 0]%nat [2; 2; 2]%nat, [0; 0; 0]), []).
Proof. vm_compute. reflexivity. Qed.
Example ex_pqnr_loud :
  ex_rs false true false 40 1 1 10%nat (8, 1)
  = (Some (mkRs (1, 40) [32; 4; 0] (-60) [2; 2; 0]%nat [0; 0; 0]%nat [2; 2; 2]%nat, [64; 60; 60]),
     [RsHeader; RsPrecomp; RsPrecompDone;
      RsWarn 7%nat; RsWarn 1%nat; RsIter 0%nat 2%nat 32 64 0%nat;
      RsWarn 7%nat; RsWarn 1%nat; RsIter 1%nat 2%nat 4 60 0%nat;
      RsWarn 7%nat; RsIter 2%nat 0%nat 0 60 0%nat; RsFinal (-60) 1 0 4%nat]).
Proof. vm_compute. reflexivity. Qed.
(* PDNR flavour: without `inexact` the outer status line is never printed (it sits inside `if inexact:`) *)
Example ex_pdnr_exact_loud :
  snd (ex_rs true false false 40 1 0 10%nat (8, 1)) = [RsHeader; RsPrecomp; RsPrecompDone; RsFinal (-60) 1 0 4%nat].
Proof. vm_compute. reflexivity. Qed.
Example ex_pdnr_inexact :
  option_map fst (fst (ex_rs true false true 40 2 5 10%nat (8, 1))) = option_map fst (fst (ex_rs true false true 40 0 0 10%nat (8, 1))) /\
  option_map snd (fst (ex_rs true false true 40 2 5 10%nat (8, 1))) <> option_map snd (fst (ex_rs true false true 40 0 0 10%nat (8, 1))).
Proof. split; [apply ex_contract|vm_compute; discriminate]. Qed.
(* PQNR's `assert False` (here: the step oracle refuses at mass 13) kills the run under every printing setting *)
Example ex_assert : fst (ex_rs false false false 18 0 0 5%nat (8, 1)) = None /\ fst (ex_rs false false false 18 3 1 5%nat (8, 1)) = None.
Proof. vm_compute. split; reflexivity. Qed.
(* maxiters = 0: `iteration` is unbound in the epilogue *)
Example ex_zero_iters : ex_rs false true false 40 1 1 0%nat (8, 1) = (None, [RsHeader; RsPrecomp; RsPrecompDone]).
Proof. vm_compute. reflexivity. Qed.

(* gcp_opt: data = a Z, model = a Z; sparse data (negative numbers here) are rejected for LBFGSB *)
Definition ex_gcp := gcp_run Z Z nat Z (Z * nat * nat)
  (fun d => if d =? 0 then None else Some (d, 2 * d, 24%nat, 0%nat)) (fun d => Some (d + 1)) (fun d => 0 <? d)
  (fun d size nm => (d, size, nm)) (fun M0 d h => (M0 + d + h, 5%nat)).
Example ex_gcp_runs : ex_gcp 0 3 = (Some (13, 4, 5%nat), []) /\ ex_gcp 1 3 = (Some (13, 4, 5%nat), [(3, 24%nat, 0%nat)]) /\
                      ex_gcp 1 (-3) = (None, []) /\ ex_gcp 1 0 = (None, []).
Proof. vm_compute. repeat split; reflexivity. Qed.
End C18PrintRowsExamples.
