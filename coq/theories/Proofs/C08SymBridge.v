(* Proofs/C08SymBridge.v — wave 4 (w3c item 3): the two transliterations of the body of ktensor.symmetrize coincide.
     k_symmetrize_core (Model/C08More.v: list operations — sign lists, scale_cols, zipmul, fold of matrix additions; the model the
                        C08 correspondence stream runs against pyttb, single steps and histories)
     k15_core          (Model/C15K.v: entry formulas; the model the value theorems C15_ksym_* are proved on)
   are EQUAL as Kruskal tensors (weights and every stored entry) on every well-formed input with at least one factor whose
   factors all have the same number of rows — every commutative ring, every sign test.  So the C15 theorems speak about the
   model C08 ties to the source, and the C08 correspondence ties the model C15 proves things about. *)
From Coq Require Import List Arith Lia Bool Permutation Ring.
From PV Require Import Base.Index Base.Perm Base.Sum Np.Array Model.Sparse Model.Repr Model.C08Kruskal Model.C08More
  Model.C15Sym Model.C15K Proofs.C08Proofs Proofs.C15K.
Import ListNotations.

Section SB.
Variable V : Type.
Variables (v0 v1 : V) (vadd vmul vsub : V -> V -> V) (vopp vinv : V -> V).
Hypothesis Vring : ring_theory v0 v1 vadd vmul vsub vopp (@eq V).
Add Ring Vr8s : Vring.
Variable neg : V -> bool.
Notation "x + y" := (vadd x y).
Notation "x * y" := (vmul x y).
Notation mg := (mget v0).
Notation mat := (list (list V)).
Notation zipm := (zipmul vmul).
Notation scols := (scale_cols vmul).
Notation rect m R := (fun A : mat => length A = m /\ Forall (fun row : list V => length row = R) A).

(* ---- small facts ---- *)
Lemma sgnb_ksgn b : sgnb v1 vopp b = ksgn v1 vopp b.
Proof. reflexivity. Qed.

Lemma vofnat_of_nat n : vofnat v0 v1 vadd n = of_nat v0 v1 vadd n.
Proof. induction n as [|n IH]; cbn; [reflexivity|]. now rewrite IH. Qed.

Lemma nth_col (A : mat) j x : nth x (col v0 A j) v0 = mg A x j.
Proof.
  unfold col, mget. rewrite (nth_map_default (fun row : list V => nth j row v0) A x [] v0); [reflexivity|].
  destruct j; reflexivity.
Qed.

Lemma sumv_zipm_seq : forall (a b : list V), length a = length b ->
  sumv v0 vadd (zipm a b) = sum_n v0 vadd (length a) (fun x => nth x a v0 * nth x b v0).
Proof.
  intros a b Hab. unfold sum_n, sum_over. f_equal.
  apply (nth_ext _ _ v0 v0).
  - rewrite (length_zipmul V vmul), map_length, seq_length. lia.
  - intros x Hx. rewrite (length_zipmul V vmul) in Hx.
    rewrite (nth_zipmul V v0 v1 vadd vmul vsub vopp Vring).
    rewrite (C08Proofs.nth_map_seq (fun x => nth x a v0 * nth x b v0) v0 (length a) x) by lia. reflexivity.
Qed.

Lemma dot_coldot (A0 Ai : mat) j : nrows Ai = nrows A0 ->
  dot v0 vadd vmul (col v0 A0 j) (col v0 Ai j) = coldot v0 vadd vmul A0 Ai j.
Proof.
  intros Hn. unfold dot, coldot. rewrite sumv_zipm_seq by (unfold col; rewrite !map_length; exact (eq_sym Hn)).
  unfold col at 1. rewrite map_length. fold (nrows A0). unfold sum_n. apply sum_over_ext. intros x _. now rewrite !nth_col.
Qed.

Lemma nth_sym_flips (A0 Ai : mat) R j : j < R -> nrows Ai = nrows A0 ->
  nth j (sym_flips v0 vadd vmul neg A0 Ai R) false = kflip v0 vadd vmul neg A0 Ai j.
Proof.
  intros Hj Hn. unfold sym_flips, kflip.
  rewrite (C08Proofs.nth_map_seq (fun j => neg (dot v0 vadd vmul (col v0 A0 j) (col v0 Ai j))) false R j Hj). now rewrite dot_coldot.
Qed.

(* ---- the aligned weights ---- *)
Lemma nth_fold_zipm (fl : list (list bool)) R j : j < R -> (forall f, In f fl -> length f = R) ->
  forall w, length w = R ->
  nth j (fold_left (fun w f => zipm w (map (sgnb v1 vopp) f)) fl w) v0 =
  fold_left (fun x f => x * sgnb v1 vopp (nth j f false)) fl (nth j w v0).
Proof.
  intros Hj. induction fl as [|f fl IH]; intros Hfl w Hw; cbn [fold_left]; [reflexivity|].
  rewrite IH.
  - f_equal. rewrite (nth_zipmul V v0 v1 vadd vmul vsub vopp Vring). f_equal.
    assert (Hf : length f = R) by (apply Hfl; now left).
    rewrite (nth_indep (map (sgnb v1 vopp) f) v0 (sgnb v1 vopp false)) by (rewrite map_length; lia). apply map_nth.
  - intros g Hg. apply Hfl. now right.
  - rewrite (length_zipmul V vmul), map_length, (Hfl f) by now left. lia.
Qed.

Lemma length_fold_zipm (fl : list (list bool)) R : (forall f, In f fl -> length f = R) ->
  forall w, length w = R -> length (fold_left (fun w f => zipm w (map (sgnb v1 vopp) f)) fl w) = R.
Proof.
  induction fl as [|f fl IH]; intros Hfl w Hw; cbn [fold_left]; [exact Hw|].
  apply IH; [intros g Hg; apply Hfl; now right|].
  rewrite (length_zipmul V vmul), map_length, (Hfl f) by now left. lia.
Qed.

Lemma fold_map {A B C} (g : A -> B) (h : C -> B -> C) : forall (l : list A) c,
  fold_left h (map g l) c = fold_left (fun c a => h c (g a)) l c.
Proof. induction l as [|a l IH]; intros c; cbn; [reflexivity|apply IH]. Qed.

Lemma fold_ext_in {A C} (h h' : C -> A -> C) : forall (l : list A) c, (forall c a, In a l -> h c a = h' c a) ->
  fold_left h l c = fold_left h' l c.
Proof.
  induction l as [|a l IH]; intros c H; cbn; [reflexivity|]. rewrite H by now left. apply IH. intros; apply H; now right.
Qed.

(* ---- matrices as tables of their entries ---- *)
Lemma mat_as_table (A : mat) m R : rect m R A -> A = map (fun x => map (fun j => mg A x j) (seq 0 R)) (seq 0 m).
Proof.
  intros [Hm HR]. apply (nth_ext _ _ [] []).
  - now rewrite map_length, seq_length.
  - intros x Hx. rewrite Hm in Hx.
    rewrite (C08Proofs.nth_map_seq (fun x => map (fun j => mg A x j) (seq 0 R)) [] m x Hx).
    assert (Hrow : length (nth x A []) = R).
    { rewrite Forall_forall in HR. apply HR. apply nth_In. lia. }
    unfold mget. rewrite <- Hrow. symmetry. apply map_nth_seq.
Qed.

Lemma zipw_rect_row (a b : list V) R : length a = R -> length b = R ->
  length (zipw vadd a b) = R /\ forall j, nth j (zipw vadd a b) v0 = nth j a v0 + nth j b v0.
Proof.
  revert b R. induction a as [|x a IH]; intros [|y b] R Ha Hb; cbn in *; subst; try discriminate.
  - split; [reflexivity|]. intros [|j]; ring.
  - injection Hb as Hb. destruct (IH b (length a) eq_refl Hb) as [H1 H2]. split; [now rewrite H1|].
    intros [|j]; [reflexivity|apply H2].
Qed.

Lemma madd_rect (A B : mat) m R : rect m R A -> rect m R B ->
  rect m R (madd vadd A B) /\ forall x j, mg (madd vadd A B) x j = mg A x j + mg B x j.
Proof.
  unfold madd. revert B m. induction A as [|a A IH]; intros [|b B] m [HmA HA] [HmB HB]; cbn [length zipw] in *; subst; try discriminate.
  - split; [split; [reflexivity|constructor]|]. intros x j. unfold mget. destruct x, j; cbn; ring.
  - injection HmB as HmB. pose proof (Forall_inv HA) as Ha. pose proof (Forall_inv_tail HA) as HA'.
    pose proof (Forall_inv HB) as Hb. pose proof (Forall_inv_tail HB) as HB'. cbn beta in Ha, Hb.
    destruct (IH B (length A) (conj eq_refl HA') (conj HmB HB')) as [[H1 H2] H3].
    destruct (zipw_rect_row a b R Ha Hb) as [Hl Hn].
    split; [split; [cbn; now rewrite H1|constructor; assumption]|].
    intros [|x] j; [unfold mget; cbn [nth]; apply Hn|]. exact (H3 x j).
Qed.

Lemma fold_madd_rect (Bs : list mat) m R : Forall (rect m R) Bs -> forall A, rect m R A ->
  rect m R (fold_left (madd vadd) Bs A) /\
  forall x j, mg (fold_left (madd vadd) Bs A) x j = fold_left (fun acc B => acc + mg B x j) Bs (mg A x j).
Proof.
  induction Bs as [|B Bs IH]; intros HBs A HA; cbn [fold_left]; [split; [exact HA|reflexivity]|].
  inversion HBs as [|? ? HB HBs']; subst. destruct (madd_rect A B m R HA HB) as [H1 H2].
  destruct (IH HBs' _ H1) as [H3 H4]. split; [exact H3|]. intros x j. now rewrite H4, H2.
Qed.

Lemma rect_scols cs (A : mat) m R : length cs = R -> rect m R A -> rect m R (scols cs A).
Proof.
  intros Hc [Hm HR]. split; [unfold scale_cols; now rewrite map_length|].
  unfold scale_cols. rewrite Forall_forall in *. intros row Hrow. apply in_map_iff in Hrow as (r0 & <- & Hin).
  rewrite (length_zipmul V vmul), (HR r0 Hin). lia.
Qed.

(* ---- THE BRIDGE ---- *)
Theorem k_symmetrize_core_is_k15_core (K1 : ktensor V) : wf_k K1 ->
  (forall A, In A (kfactors K1) -> nrows A = nrows (nth 0 (kfactors K1) [])) ->
  k_symmetrize_core v0 v1 vadd vmul vopp vinv neg K1 = k15_core v0 v1 vadd vmul vopp vinv neg K1.
Proof.
  intros Hwf Hrows. unfold k_symmetrize_core, k15_core. destruct (kfactors K1) as [|A0 As] eqn:EF; [reflexivity|].
  cbn [nth] in Hrows. set (R := krank K1). set (m := nrows A0). set (ws := kweights K1).
  assert (HRws : length ws = R) by reflexivity.
  assert (Hrect : forall A, In A (A0 :: As) -> rect m R A).
  { intros A HA. split; [exact (Hrows A HA)|]. unfold wf_k in Hwf. rewrite EF, Forall_forall in Hwf. exact (Hwf A HA). }
  assert (HrA0 : rect m R A0) by (apply Hrect; now left).
  assert (HrAs : forall A, In A As -> rect m R A) by (intros A HA; apply Hrect; now right).
  set (fl := map (fun Ai => sym_flips v0 vadd vmul neg A0 Ai R) As).
  assert (Hfl : forall f, In f fl -> length f = R).
  { intros f Hf. apply in_map_iff in Hf as (Ai & <- & _). unfold sym_flips. now rewrite map_length, seq_length. }
  set (w := fold_left (fun w f => zipm w (map (sgnb v1 vopp) f)) fl ws).
  assert (Hwl : length w = R) by (apply (length_fold_zipm fl R Hfl ws HRws)).
  (* aligned weight j *)
  assert (Hw : forall j, j < R -> nth j w v0 = w_aligned v0 v1 vadd vmul vopp neg A0 As (nth j ws v0) j).
  { intros j Hj. unfold w. rewrite (nth_fold_zipm fl R j Hj Hfl ws HRws). unfold fl, w_aligned. rewrite fold_map.
    apply fold_ext_in. intros c Ai HAi. f_equal. rewrite nth_sym_flips; [reflexivity|exact Hj|]. apply Hrows. now right. }
  cbn [length]. set (N := S (length As)).
  set (s := if Nat.odd N then map (fun x => if neg x then vm1 v1 vopp else v1) w else ones v1 w).
  assert (Hsl : length s = R) by (unfold s, ones; destruct (Nat.odd N); now rewrite map_length).
  assert (Hs : forall j, j < R -> nth j s v0 = ksgn v1 vopp (kfix neg N (nth j w v0))).
  { intros j Hj. unfold s, kfix. destruct (Nat.odd N); cbn [andb].
    - rewrite (nth_map_in V v0 (fun x => if neg x then vm1 v1 vopp else v1) w j v0) by lia. reflexivity.
    - apply (nth_ones V v0 v1). lia. }
  f_equal.
  - (* weights *)
    apply (nth_ext _ _ v0 v0).
    + rewrite (length_zipmul V vmul), map_length, seq_length. lia.
    + intros j Hj. rewrite (length_zipmul V vmul) in Hj. assert (Hj' : j < R) by lia.
      rewrite (nth_zipmul V v0 v1 vadd vmul vsub vopp Vring), Hs, Hw by exact Hj'.
      rewrite (C08Proofs.nth_map_seq (k15_weight v0 v1 vadd vmul vopp neg A0 As ws) v0 R j Hj'). unfold k15_weight. cbv zeta.
      change (S (@length (list (list V)) As)) with N. ring.
  - (* factors *)
    f_equal.
    set (As' := map (fun p => scols (map (sgnb v1 vopp) (fst p)) (snd p)) (combine fl As)).
    assert (HAs' : As' = map (fun Ai => scols (map (sgnb v1 vopp) (sym_flips v0 vadd vmul neg A0 Ai R)) Ai) As).
    { unfold As', fl. clear. induction As as [|A As IH]; cbn; [reflexivity|]. f_equal. exact IH. }
    assert (HrAs' : Forall (rect m R) As').
    { rewrite HAs'. apply Forall_forall. intros B HB. apply in_map_iff in HB as (Ai & <- & HAi).
      apply rect_scols; [unfold sym_flips; now rewrite !map_length, seq_length|]. now apply HrAs. }
    destruct (fold_madd_rect As' m R HrAs' A0 HrA0) as [HrS HS].
    set (S0 := fold_left (madd vadd) As' A0) in *.
    set (Vm := map (map (fun x => x * vinv (vofnat v0 v1 vadd N))) S0).
    assert (HrVm : rect m R Vm).
    { destruct HrS as [H1 H2]. split; [unfold Vm; now rewrite map_length|]. unfold Vm. rewrite Forall_forall in *.
      intros row Hrow. apply in_map_iff in Hrow as (r0 & <- & Hin). rewrite map_length. now apply H2. }
    assert (HVm : forall x j, mg Vm x j = mg S0 x j * vinv (vofnat v0 v1 vadd N)).
    { intros x j. unfold Vm, mget.
      rewrite (nth_map_default (map (fun y => y * vinv (vofnat v0 v1 vadd N))) S0 x [] []) by reflexivity.
      destruct (Nat.ltb_spec j (length (nth x S0 []))) as [Hlt|Hge].
      - now rewrite (nth_map_in V v0 (fun y => y * vinv (vofnat v0 v1 vadd N)) (nth x S0 []) j v0 Hlt).
      - rewrite !nth_overflow by (try rewrite map_length; lia). ring. }
    rewrite (mat_as_table (scols s Vm) m R (rect_scols s Vm m R Hsl HrVm)).
    unfold k15_factor. fold m. rewrite HRws. apply map_ext_in. intros x Hx. apply map_ext_in. intros j Hj. apply in_seq in Hj.
    rewrite (mget_scale_cols V v0 v1 vadd vmul vsub vopp Vring), HVm, HS, Hs, Hw by lia.
    unfold v_entry. change (S (@length (list (list V)) As)) with N. rewrite vofnat_of_nat.
    assert (E : fold_left (fun acc B => acc + mg B x j) As' (mg A0 x j) =
                fold_left (fun acc Ai => acc + ksgn v1 vopp (kflip v0 vadd vmul neg A0 Ai j) * mg Ai x j) As (mg A0 x j)).
    { rewrite HAs', fold_map. apply fold_ext_in. intros c Ai HAi. f_equal.
      rewrite (mget_scale_cols V v0 v1 vadd vmul vsub vopp Vring).
      rewrite (nth_map_in V v0 (sgnb v1 vopp) (sym_flips v0 vadd vmul neg A0 Ai R) j false)
        by (unfold sym_flips; rewrite map_length, seq_length; lia).
      rewrite nth_sym_flips by (try lia; apply Hrows; now right). rewrite sgnb_ksgn. ring. }
    rewrite E. ring.
Qed.

(* ---- consequences for C08's model: the value theorems of C15 (Proofs/C15K.v) transported along the bridge ---- *)
Notation den := (den_k v0 v1 vadd vmul).
Notation symcore := (k_symmetrize_core v0 v1 vadd vmul vopp vinv neg).

(* the result is symmetric in all modes *)
Theorem k_symmetrize_core_symmetric (K1 : ktensor V) : wf_k K1 ->
  (forall A, In A (kfactors K1) -> nrows A = nrows (nth 0 (kfactors K1) [])) ->
  forall i i', Permutation i i' -> den (symcore K1) i = den (symcore K1) i'.
Proof.
  intros Hwf Hrows i i' P. rewrite (k_symmetrize_core_is_k15_core K1 Hwf Hrows).
  exact (k15_core_symmetric V v0 v1 vadd vmul vsub vopp vinv neg Vring K1 i i' P).
Qed.

(* factors that agree up to column signs: the denoted array is kept *)
Hypothesis neg_sq : forall (h : nat -> V) n, neg (sum_n v0 vadd n (fun x => h x * h x)) = false.
Hypothesis neg_opp_sq : forall (h : nat -> V) n, neg (vopp (sum_n v0 vadd n (fun x => h x * h x))) = false ->
  forall x, x < n -> h x = v0.
Hypothesis char0 : forall n, n <> 0 -> of_nat v0 v1 vadd n <> v0.
Hypothesis vinv_l : forall x, x <> v0 -> vinv x * x = v1.

Theorem k_symmetrize_core_keeps (B : mat) (m R : nat) (K1 : ktensor V) : wf_k K1 -> kfactors K1 <> [] -> krank K1 = R ->
  (forall A, In A (kfactors K1) -> signed_copy v0 v1 vmul vopp B m R A) ->
  forall i, den (symcore K1) i = den K1 i.
Proof.
  intros Hwf Hne HR HA i. rewrite k_symmetrize_core_is_k15_core; [|exact Hwf|].
  - exact (k15_core_keeps V v0 v1 vadd vmul vsub vopp vinv neg Vring neg_sq neg_opp_sq char0 vinv_l B m R K1 Hne HR HA i).
  - intros A HIn. destruct (HA A HIn) as [Hm _]. rewrite Hm. symmetry.
    destruct (kfactors K1) as [|A0 As] eqn:E; [contradiction|]. cbn [nth]. destruct (HA A0 (or_introl eq_refl)) as [H0 _]. exact H0.
Qed.
End SB.

(* ---- the hypotheses are satisfiable: exact rationals with the exact sign test (the instance the correspondence stream evaluates;
        q_neg of Model/C08Inst.v and q_neg15 of Model/C15Inst.v are the same function) ---- *)
From Coq Require Import QArith Qcanon.
From PV Require Import Model.Harness Model.C08Inst Model.C15Inst.
Theorem qk_symmetrize_core_keeps (B : list (list Qc)) (m R : nat) (K1 : ktensor Qc) : wf_k K1 -> kfactors K1 <> [] -> krank K1 = R ->
  (forall A, In A (kfactors K1) -> signed_copy q0 q1 Qcmult Qcopp B m R A) ->
  forall i, qden_k (k_symmetrize_core q0 q1 Qcplus Qcmult Qcopp Qcinv q_neg K1) i = qden_k K1 i.
Proof.
  exact (k_symmetrize_core_keeps Qc q0 q1 Qcplus Qcmult Qcminus Qcopp Qcinv Qcrt q_neg q15_neg_sq q15_neg_opp_sq q15_char0 q15_vinv_l
           B m R K1).
Qed.
