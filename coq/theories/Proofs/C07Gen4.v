(* Proofs/C07Gen4.v — the GENERATED whole methods sptensor.permute / ktensor.permute (behind the generated parse_one_d) return
   what the request-level models of Model/C07Req.v return; uses the translator builder's bridges (Proofs/W4Sptensor.v,
   Proofs/W4KtensorLaws.v). *)
From Coq Require Import List ZArith Arith Lia Bool Permutation.
From PV Require Import Base.Index Base.Perm Np.NpZ Np.NpZ2 Np.NpZ3 Np.NpZ3b Np.NpZ3c Np.NpZ3d Np.NpZ3e Np.NpZ4 Np.NpZ4b
  Proofs.NpZProofs Gen.GenUtils Gen.GenUtils3b Gen.GenSptensor4 Gen.GenSptensor4d Gen.GenKtensor4 Model.Sparse Model.Repr Model.C07Ops Model.C07Req
  Model.C08Kruskal Model.W4Ktensor Model.W4Sptensor Proofs.W4Loops Proofs.W4Ktensor Proofs.W4KtensorLaws Proofs.W4Sptensor
  Model.C07W5 Model.C07Gen4 Proofs.C07Req Proofs.C07W5 Np.NpZ4e Model.W4Reshape Proofs.W4Reshape Proofs.W4ReshapeModel.
Import ListNotations.
Local Open Scope Z_scope.

Lemma nats_of_nonneg (l : vec) : (forall x, In x l -> 0 <= x) -> nats_of l = Some (nats l).
Proof.
  intros H. unfold nats_of, nats. replace (forallb _ l) with true; [reflexivity|].
  symmetry. apply forallb_forall. intros x Hx. apply Z.leb_le. now apply H.
Qed.

Lemma sorted_or_not (l : vec) n : {np_sort l = np_arange 0 n} + {np_sort l <> np_arange 0 n}.
Proof. apply (list_eq_dec Z.eq_dec). Qed.

(* Kruskal: the generated method is permute_k on the shared record, and is accepted exactly on permutations *)
Theorem gen_kt_permute_c07 (self k' : ktz) (order : vec) : ktensor_permute self order = Ok k' ->
  is_perm (nats order) (length (kt_factors self)) /\ (forall x, In x order -> 0 <= x) /\
  permute_k (to_K self) (nats order) = Some (to_K k').
Proof.
  intros E. pose proof (gen_permute_model self order) as M. rewrite E in M. destruct M as [Hp Hk].
  split; [exact Hp|]. split.
  - destruct (sorted_or_not order (zlen (kt_factors self))) as [Es|Es].
    + intros x Hx. apply (sorted_is_range_in order _ Es x Hx).
    + rewrite (gen_permute_rejects self order Es) in E. discriminate.
  - unfold permute_k. cbn [to_K kfactors]. change (length (kt_factors self)) with (length (kt_factors self)).
    rewrite (proj2 (is_permb_spec _ _) Hp). f_equal. rewrite Hk. reflexivity.
Qed.

Theorem kt_permute_req_c07 (self k' : ktz) (x : pyshp) : ktensor_permute_req self x = Ok k' ->
  permute_k_req5 (to_K self) x = Some (to_K k').
Proof.
  unfold ktensor_permute_req, permute_k_req5. destruct (order_of_k x) as [pz|]; [|discriminate]. intros E.
  destruct (gen_kt_permute_c07 self k' pz E) as (_ & Hnn & Hk). unfold with_order_z. now rewrite (nats_of_nonneg pz Hnn).
Qed.

(* on an order that is not boolean this is the fourth-wave request model *)
Corollary kt_permute_req_c07_int (self k' : ktz) (x : pyshp) : bool_order_of x = None -> ktensor_permute_req self x = Ok k' ->
  permute_k_req (to_K self) x = Some (to_K k').
Proof.
  intros Hb E. apply kt_permute_req_c07 in E. unfold permute_k_req5, order_of_k in E. rewrite Hb in E.
  unfold permute_k_req, with_order. destruct (order_of x); [exact E|discriminate].
Qed.

(* sparse, with stored entries (subscripts and sizes non-negative, which the constructor guarantees) *)
Theorem sp_permute_req_c07 (self t : sptz) (x : pyshp) :
  (forall row, In row (spt_subs self) -> forall s, In s row -> 0 <= s) -> (forall d, In d (spt_shape self) -> 0 <= d) ->
  np_size2 (spt_subs self) <> 0 ->
  sptensor_permute_req self x = Ok t ->
  permute_sp_req (to_Sp self) x = Some (to_Sp t).
Proof.
  intros Hs Hd Hz. unfold sptensor_permute_req, permute_sp_req, with_order.
  destruct (bool_order_of x) as [bz|]; [rewrite gen_sp_permute_bool_rejected; discriminate|].
  destruct (order_of x) as [pz|]; [|discriminate].
  intros E. destruct (gen_sp_permute_model self t pz Hs Hd Hz E) as [_ Hm].
  assert (Hnn : forall y, In y pz -> 0 <= y).
  { destruct (sorted_or_not pz (zlen (spt_shape self))) as [Es|Es].
    - intros y Hy. apply (sorted_is_range_in pz _ Es y Hy).
    - rewrite (gen_sp_permute_rejects self pz Es) in E. discriminate. }
  unfold with_order_z. now rewrite (nats_of_nonneg pz Hnn).
Qed.

(* N-C07-5 (repaired) over the generated text: a boolean order — whatever its truth values, mixed ones included, which sort to
   0, 1 — is refused by the generated sptensor.permute, as the request-level model says *)
Theorem sp_permute_req_bool_c07 (self : sptz) (x : pyshp) (bz : vec) : bool_order_of x = Some bz ->
  sptensor_permute_req self x = Err /\ forall (V : Type) (S : Sparse.sparse V), permute_sp_req S x = None.
Proof.
  intros H. split.
  - unfold sptensor_permute_req. rewrite H. apply gen_sp_permute_bool_rejected.
  - intros V S. unfold permute_sp_req, with_order. now rewrite (bool_order_not_int x bz H).
Qed.

(* ---------------- sparse reshape: request -> generated parse_shape -> generated sptensor.reshape = the request-level specification
   reshape_sp_req of Model/C07Req.v, on every coordinate list with stored entries and every request with explicit modes:
   refusals (mode numbers outside 0..N-1, negative sizes, a target without modes, a changed element count) included *)
Lemma zs_to_nat (l : vec) : existsb (fun z => z <? 0) l = false -> zs (map Z.to_nat l) = l.
Proof.
  induction l as [|z l IH]; [reflexivity|]. cbn [existsb map]. intros H. apply orb_false_iff in H as [Hz Hl].
  apply Z.ltb_ge in Hz. unfold zs in *. cbn [map]. rewrite Z2Nat.id by exact Hz. f_equal. now apply IH.
Qed.

Theorem sp_reshape_req_c07 (S : sparse Z) (x : pyshp) (oldz : vec) :
  ssubs S <> [] -> Forall (fun j => inb (sshape S) j = true) (ssubs S) -> length (svals S) = length (ssubs S) -> oldz <> [] ->
  sptensor_reshape_req (of_Sp S) x (Some oldz) =
    match reshape_sp_req S x oldz with Some R => Ok (of_Sp R) | None => Err end.
Proof.
  intros Hne Hin Hlen Hold. unfold sptensor_reshape_req, reshape_sp_req, with_shape, shape_of.
  assert (HN : zlen (spt_shape (of_Sp S)) = Z.of_nat (length (sshape S))).
  { unfold of_Sp. cbn [spt_shape]. unfold zlen, zs. now rewrite map_length. }
  rewrite nats_of_cases.
  destruct (existsb (fun z => z <? 0) oldz) eqn:Eneg.
  { apply existsb_exists in Eneg as (k & Hk & Hk0). apply Z.ltb_lt in Hk0.
    destruct (parse_shape x) as [nz|]; cbn [bind]; [|reflexivity].
    apply (gen_sp_reshape_rejects_modes (of_Sp S) nz oldz k Hk). now left. }
  rewrite (in_range_cases _ _ Eneg).
  destruct (existsb (fun z => Z.of_nat (length (sshape S)) <=? z) oldz) eqn:Ebig; cbn [negb].
  { apply existsb_exists in Ebig as (k & Hk & Hk0). apply Z.leb_le in Hk0.
    destruct (parse_shape x) as [nz|]; cbn [bind]; [|reflexivity].
    apply (gen_sp_reshape_rejects_modes (of_Sp S) nz oldz k Hk). right. now rewrite HN. }
  destruct (parse_shape x) as [nz|]; cbn [bind]; [|reflexivity].
  destruct nz as [|z0 nz].
  { destruct (sptensor_reshape (of_Sp S) [] (Some oldz)) as [t|] eqn:E; [|reflexivity].
    destruct (gen_sp_reshape_result _ _ _ _ E) as (_ & _ & _ & _ & _ & _ & Hnn & _). congruence. }
  rewrite nats_of_cases. destruct (existsb (fun d => d <? 0) (z0 :: nz)) eqn:En.
  { apply existsb_exists in En as (d & Hd & Hd0). apply Z.ltb_lt in Hd0.
    apply (gen_sp_reshape_rejects_negative (of_Sp S) (z0 :: nz) (Some oldz) d Hd Hd0). }
  rewrite <- (zs_to_nat (z0 :: nz) En) at 1. rewrite <- (zs_to_nat oldz Eneg) at 1.
  apply gen_sp_reshape_model; auto.
  - apply Forall_forall. intros k Hk.
    pose proof (in_range_cases (length (sshape S)) oldz Eneg) as F. rewrite Ebig in F. cbn [negb] in F.
    rewrite forallb_forall in F. now apply Nat.ltb_lt, F.
  - destruct oldz; [congruence|discriminate].
  - discriminate.
Qed.
