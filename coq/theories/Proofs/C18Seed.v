(* Proofs/C18Seed.v — C18, clause "for random starts, whenever the global random seed is the same".
   numpy's global stream after np.random.seed(k) is modelled as the sequence st : nat -> V of the uniform draws it will deliver
   (the generator itself is not modelled); np.random.uniform(0, 1, (r, c)) consumes the next r*c draws in C order.
   Transliterated: the random start of cp_als / cp_apr / gcp_opt
       for n in range(N): factor_matrices.append(np.random.uniform(0, 1, (shape[n], rank)))
   and of tucker_als
       for n in dimorder[1::]: Uinit[n] = np.random.uniform(0, 1, (shape[n], rank[n]))
   Proved: the start is a function of (stream, shape, rank(s), mode order) only - not of the data values, their holder or any
   printing option -, it reads exactly the draws [pos, pos + sum_n shape[n]*rank[n]) and leaves the stream at that position, so two
   runs whose streams agree on that window (same seed) start identically; tucker_als leaves the first mode of the sweep undrawn. *)
From Coq Require Import List Arith Lia.
Import ListNotations.

Section Seed.
Variable V : Type.
Notation matrix := (list (list V)).

Definition draw_mat (st : nat -> V) (pos rows cols : nat) : matrix :=
  map (fun i => map (fun j => st (pos + i * cols + j)) (seq 0 cols)) (seq 0 rows).

Lemma draw_mat_ext st1 st2 pos rows cols :
  (forall k, pos <= k < pos + rows * cols -> st1 k = st2 k) -> draw_mat st1 pos rows cols = draw_mat st2 pos rows cols.
Proof.
  intros H. unfold draw_mat. apply map_ext_in. intros i Hi. apply in_seq in Hi.
  apply map_ext_in. intros j Hj. apply in_seq in Hj. apply H. nia.
Qed.

(* cp_als / cp_apr / gcp_opt with init = "random" *)
Fixpoint draw_factors (st : nat -> V) (pos : nat) (dims : list nat) (R : nat) : list matrix * nat :=
  match dims with
  | [] => ([], pos)
  | d :: ds => let r := draw_factors st (pos + d * R) ds R in (draw_mat st pos d R :: fst r, snd r)
  end.

Definition total (dims : list nat) (R : nat) : nat := fold_right (fun d acc => d * R + acc) 0 dims.

Lemma draw_factors_pos st dims R : forall pos, snd (draw_factors st pos dims R) = pos + total dims R.
Proof. induction dims as [|d ds IH]; intros pos; cbn [draw_factors snd total fold_right]; [lia|]. rewrite IH. unfold total. lia. Qed.

Theorem random_start_same_seed : forall (st1 st2 : nat -> V) (dims : list nat) (R pos : nat),
  (forall k, pos <= k < pos + total dims R -> st1 k = st2 k) ->
  draw_factors st1 pos dims R = draw_factors st2 pos dims R.
Proof.
  intros st1 st2 dims R. induction dims as [|d ds IH]; intros pos H; cbn [draw_factors]; [reflexivity|].
  cbn [total fold_right] in H. fold (total ds R) in H.
  rewrite (IH (pos + d * R)) by (intros k Hk; apply H; lia).
  rewrite (draw_mat_ext st1 st2 pos d R) by (intros k Hk; apply H; lia). reflexivity.
Qed.

Lemma draw_factors_shapes st dims R : forall pos,
  map (@length _) (fst (draw_factors st pos dims R)) = dims /\
  Forall (fun A => Forall (fun row => length row = R) A) (fst (draw_factors st pos dims R)).
Proof.
  induction dims as [|d ds IH]; intros pos; cbn [draw_factors fst map]; [split; [reflexivity|constructor]|].
  destruct (IH (pos + d * R)) as [I1 I2]. split.
  - f_equal; [|exact I1]. unfold draw_mat. now rewrite map_length, seq_length.
  - constructor; [|exact I2]. unfold draw_mat. apply Forall_forall. intros row Hr. apply in_map_iff in Hr.
    destruct Hr as (i & <- & _). now rewrite map_length, seq_length.
Qed.

(* tucker_als with init = "random": slots = [None] * N, filled for n in dimorder[1::] *)
Definition set_slot (l : list (option matrix)) (n : nat) (A : matrix) : list (option matrix) :=
  firstn n l ++ Some A :: skipn (S n) l.

Fixpoint draw_slots (st : nat -> V) (pos : nat) (order : list nat) (shape ranks : list nat) (slots : list (option matrix))
  : list (option matrix) * nat :=
  match order with
  | [] => (slots, pos)
  | n :: ms => let r := nth n shape 0 in let c := nth n ranks 0 in
               draw_slots st (pos + r * c) ms shape ranks (set_slot slots n (draw_mat st pos r c))
  end.
Definition tucker_start (st : nat -> V) (pos : nat) (dimorder shape ranks : list nat) : list (option matrix) * nat :=
  draw_slots st pos (tl dimorder) shape ranks (repeat None (length shape)).

Definition total_t (order shape ranks : list nat) : nat := fold_right (fun n acc => nth n shape 0 * nth n ranks 0 + acc) 0 order.

Theorem tucker_start_same_seed : forall (st1 st2 : nat -> V) (dimorder shape ranks : list nat) (pos : nat),
  (forall k, pos <= k < pos + total_t (tl dimorder) shape ranks -> st1 k = st2 k) ->
  tucker_start st1 pos dimorder shape ranks = tucker_start st2 pos dimorder shape ranks.
Proof.
  intros st1 st2 dimorder shape ranks. unfold tucker_start. generalize (repeat (@None matrix) (length shape)) as slots.
  induction (tl dimorder) as [|n ms IH]; intros slots pos H; cbn [draw_slots]; [reflexivity|].
  cbn [total_t fold_right] in H. fold (total_t ms shape ranks) in H.
  rewrite (draw_mat_ext st1 st2 pos (nth n shape 0) (nth n ranks 0)) by (intros k Hk; apply H; lia).
  apply IH. intros k Hk. apply H. lia.
Qed.

(* a decomposition started at random is the deterministic algorithm `alg` applied to the drawn start: same stream window =>
   same start => same model, whatever alg (data, holder, options) is *)
Corollary seeded_run_same_seed : forall (Res : Type) (alg : list matrix -> Res) (st1 st2 : nat -> V) (dims : list nat) (R pos : nat),
  (forall k, pos <= k < pos + total dims R -> st1 k = st2 k) ->
  alg (fst (draw_factors st1 pos dims R)) = alg (fst (draw_factors st2 pos dims R)).
Proof. intros Res alg st1 st2 dims R pos H. now rewrite (random_start_same_seed st1 st2 dims R pos H). Qed.
End Seed.

(* non-vacuity: stream 0,1,2,...; shape (2,3), rank 2 from position 5; tucker order [2;0;1]: mode 2 stays undrawn *)
Example ex_draw : draw_factors nat (fun k => k) 5 [2; 3] 2 = ([ [[5; 6]; [7; 8]]; [[9; 10]; [11; 12]; [13; 14]] ], 15).
Proof. reflexivity. Qed.
Example ex_tucker_draw : tucker_start nat (fun k => k) 0 [2; 0; 1] [2; 3; 2] [1; 2; 1]
  = ([Some [[0]; [1]]; Some [[2; 3]; [4; 5]; [6; 7]]; None], 8).
Proof. reflexivity. Qed.
