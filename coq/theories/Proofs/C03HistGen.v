(* Proofs/C03HistGen.v — the transliteration of the single-element assignment over the generated helpers IS sp_assign. *)
From Coq Require Import List Arith Lia Bool ZArith.
From PV Require Import Base.Index Np.NpZ Np.Array Gen.GenUtils Model.Sparse Model.Harness Model.C03Ops Model.C03Gen Model.C03Hist
                       Model.C03HistGen Proofs.C03Lemmas Proofs.C03GenProofs Proofs.C03Hist.
Import ListNotations.

Lemma map_fst_combine5 {A B} (a : list A) : forall (b : list B), length a = length b -> map fst (combine a b) = a.
Proof. induction a as [|x a IH]; intros [|y b] H; cbn in *; try discriminate; auto. f_equal. apply IH. lia. Qed.
Lemma map_snd_combine5 {A B} (a : list A) : forall (b : list B), length a = length b -> map snd (combine a b) = b.
Proof. induction a as [|x a IH]; intros [|y b] H; cbn in *; try discriminate; auto. f_equal. apply IH. lia. Qed.
Lemma upd_length {A} (l : list A) k v : length (upd l k v) = length l.
Proof. revert k; induction l as [|x l IH]; intros [|k]; cbn; auto. Qed.

Section RC.
Context {V : Type}.

Lemma replace_none (sub : idx) (v : V) (subs : list idx) : forall vals, ~ In sub subs ->
  map (fun e : idx * V => if idx_eqb (fst e) sub then (fst e, v) else e) (combine subs vals) = combine subs vals.
Proof.
  induction subs as [|j r IH]; intros [|w vals] H; cbn; auto.
  rewrite idx_eqb_neq by (intros E; apply H; cbn; auto). f_equal. apply IH. intros Hin. apply H. cbn; auto.
Qed.

Lemma replace_combine (sub : idx) (v : V) (subs : list idx) : forall vals, NoDup subs -> length subs = length vals -> In sub subs ->
  map (fun e : idx * V => if idx_eqb (fst e) sub then (fst e, v) else e) (combine subs vals) = combine subs (upd vals (pos sub subs) v).
Proof.
  induction subs as [|j r IH]; intros [|w vals] Hn HL Hin; cbn in *; try discriminate; try contradiction.
  inversion Hn as [|? ? Hj Hr]; subst. destruct (idx_eqb j sub) eqn:E.
  - apply idx_eqb_spec in E. subst j. rewrite idx_eqb_refl. cbn. f_equal. now apply replace_none.
  - assert (Ne : j <> sub) by (intros ->; rewrite idx_eqb_refl in E; discriminate).
    rewrite (idx_eqb_neq sub j) by auto. cbn. f_equal. apply IH; auto. destruct Hin as [Hin|Hin]; [contradiction|auto].
Qed.
End RC.

Section SetGen.
Context {V : Type} (isz : V -> bool).
Variable N : nat.
Hypothesis HN : (0 < N)%nat.

(* for every structurally well-formed operand of order N >= 1, every full-width subscript (inside or outside the shape) and every
   NONZERO value, pyttb's code over the generated helpers returns exactly the lists of sp_assign *)
Theorem impl_set_elem_gen_eq (A : sparse V) (sub : idx) (v : V) : wf_struct A -> width N (ssubs A) -> length sub = N ->
  isz v = false -> impl_set_elem_gen A sub v = Ok (sp_assign isz A sub v).
Proof.
  intros (HL & Hn & _) Hw Hs Hv. unfold impl_set_elem_gen, sp_assign, es_assign, of_entries. rewrite Hv.
  assert (W1 : width N [sub]) by (intros i [<-|[]]; exact Hs).
  assert (N1 : NoDup [sub]) by (constructor; [intros []|constructor]).
  rewrite (map_fst_entries A HL). unfold entries.
  destruct (ssubs A) as [|j r] eqn:ES.
  - destruct (svals A); [|discriminate]. reflexivity.
  - rewrite <- ES in *. rewrite (intersect_rows_idx N HN (ssubs A) [sub] Hn N1 Hw W1). cbn [bind].
    rewrite (gen_diff_spec N HN [sub] (ssubs A) N1 Hn W1 Hw). cbn [bind filter]. unfold rows_diff. cbn [filter].
    destruct (mem sub (ssubs A)) eqn:M; cbn [negb map app].
    + apply mem_spec in M. rewrite app_nil_r. rewrite (replace_combine sub v (ssubs A) (svals A) Hn HL M).
      rewrite map_fst_combine5, map_snd_combine5 by (rewrite upd_length; exact HL).
      unfold np_scatter_const. cbn [fold_left]. rewrite Nat2Z.id. rewrite app_nil_r. reflexivity.
    + rewrite !map_app. rewrite map_fst_combine5, map_snd_combine5 by exact HL. reflexivity.
Qed.
End SetGen.
