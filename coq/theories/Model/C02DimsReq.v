(* Model/C02DimsReq.v — tensor.collapse / tensor.scale as called: the mode list is resolved by the GENERATED tt_dimscheck
   (Gen/GenUtils.v) with no multiplicand count, exactly as tensor.py does:
     collapse:  if dims is None: dims = arange(ndims);  dims, _ = tt_dimscheck(self.ndims, dims=dims)
     scale:     dims, _ = tt_dimscheck(self.ndims, None, dims, None)
   Definitions only; proofs in Proofs/C02DimsReqProofs.v.  (Empty tensors and the shape check of the scaling factor are not modelled.) *)
From Coq Require Import List ZArith Arith Bool Lia.
From PV Require Import Base.Index Base.Perm Base.Sum Np.NpZ Np.Array Model.Sparse Model.Repr Model.C02Spec Model.C02Dense
                       Model.C02Modes Model.C02Tenmat Gen.GenUtils.
Import ListNotations.

Section Req.
Context {V : Type} (v0 v1 : V) (vadd vmul : V -> V -> V).

Definition impl_collapse_req (red : list V -> V) (X : dense V) (dims : option vec) : res (dense V) :=
  let N := Z.of_nat (length (dshape X)) in
  let d := match dims with Some d => d | None => np_arange 0 N end in
  match tt_dimscheck N None (Some d) None with
  | Ok (sd, _) => Ok (impl_collapse_dense v0 red X (nats sd))
  | Err => Err
  end.

Definition impl_scale_req (X : dense V) (dims : vec) (F : dense V) : res (dense V) :=
  match tt_dimscheck (Z.of_nat (length (dshape X))) None (Some dims) None with
  | Ok (sd, _) => Ok (impl_scale_dense v0 vmul X (nats sd) F)
  | Err => Err
  end.
End Req.
