(* Model/C19Guards.v — guard models for C19 ("ill-formed requests are rejected, not answered").

   For each covered public operation:
     pre_<op>   : the precondition, written from the property text and the docstrings
                  (dimension consistency, lengths, mode ranges, permutations, element counts ...);
     guard_<op> : an executable transliteration of the checks the CODE performs, in the order it
                  performs them, including the checks numpy performs implicitly (index range,
                  transpose axes, reshape element count, matmul agreement, broadcasting) and the
                  early returns that skip later checks.  Arguments are abstract descriptors
                  (shapes, lengths, mode lists); values are irrelevant for rejection.
   The mode-selection helper is the GENERATED tt_dimscheck (Gen/GenUtils.v).
   Definitions only; proofs are in Proofs/C19Proofs.v. *)
From Coq Require Import List ZArith Bool.
From PV Require Import Np.NpZ Np.NpZ2 Np.NpZ3 Gen.GenUtils Gen.GenUtils2 Gen.GenUtils3.
Import ListNotations.
Local Open Scope Z_scope.

(* ---------------------------------------------------------------------------------------- *)
(* result plumbing                                                                            *)
(* ---------------------------------------------------------------------------------------- *)
Definition chk (b : bool) : res unit := if b then Ok tt else Err.
Definition andthen (r1 r2 : res unit) : res unit := match r1 with Ok _ => r2 | Err => Err end.
Notation "a ;; b" := (andthen a b) (at level 61, right associativity).
Definition is_ok {A} (r : res A) : bool := match r with Ok _ => true | Err => false end.
Definition decide (b : bool) : res unit := if b then Ok tt else Err.   (* what a correct guard does with pre *)
Fixpoint chk_all {A} (f : A -> res unit) (l : list A) : res unit :=
  match l with [] => Ok tt | x :: r => f x ;; chk_all f r end.

(* a mutating operation = guard, then (only on Ok) the update: Err paths return the receiver as it was *)
Definition run_mut {S} (g : res unit) (upd : S -> S) (s : S) : S * bool :=
  match g with Ok _ => (upd s, true) | Err => (s, false) end.

(* comparison with pyttb's observation used by the generated cases:
   the faithful guard and the precondition must both agree with Rejected/Answered *)
Definition c19_agree (g : res unit) (p : bool) (rejected : bool) : bool :=
  Bool.eqb (negb (is_ok g)) rejected && Bool.eqb (negb p) rejected.
Definition c19_faithful (g : res unit) (rejected : bool) : bool := Bool.eqb (negb (is_ok g)) rejected.

(* ---------------------------------------------------------------------------------------- *)
(* vocabulary of the preconditions                                                            *)
(* ---------------------------------------------------------------------------------------- *)
Definition in_range (N x : Z) : bool := (0 <=? x) && (x <? N).
Fixpoint nodupb (l : vec) : bool := match l with [] => true | x :: r => negb (zmem x r) && nodupb r end.
Definition modes_ok (N : Z) (d : vec) : bool := forallb (in_range N) d && nodupb d.
Definition is_permb (N : Z) (o : vec) : bool := (zlen o =? N) && modes_ok N o.
Definition sz (s : vec) (k : Z) : Z := znth 0 s k.                   (* size of mode k *)
Definition pickz (s d : vec) : vec := map (sz s) d.                  (* sizes of the modes d *)
Definition shape_eqb (a b : vec) : bool :=
  (zlen a =? zlen b) && forallb (fun p => fst p =? snd p) (combine a b).
Definition ndim (s : vec) : Z := zlen s.
Definition others (N : Z) (d : vec) : vec := filter (fun x => negb (zmem x d)) (np_arange 0 N).
Definition all_pos (s : vec) : bool := forallb (fun x => 0 <? x) s.
Definition shp2 := (Z * Z)%type.                                      (* matrix shape (rows, cols) *)
Definition rows (m : shp2) := fst m.
Definition cols (m : shp2) := snd m.
Definition shp2_d (l : list shp2) (k : Z) : shp2 := znth (0, 0) l k.

(* mode selection as the docstrings describe it: dims XOR exclude_dims XOR neither *)
Definition sel_modes (N : Z) (dims excl : option vec) : vec :=
  match dims, excl with
  | Some d, _ => d
  | None, Some e => others N e
  | None, None => np_arange 0 N
  end.
Definition pre_sel (N : Z) (dims excl : option vec) : bool :=
  match dims, excl with
  | Some _, Some _ => false
  | Some d, None => modes_ok N d
  | None, Some e => forallb (in_range N) e
  | None, None => true
  end.
(* M multiplicands for the selected modes P: either one per selected mode (listed in the caller's order)
   or one per mode of the tensor (indexed by mode) *)
Definition pre_count (N M : Z) (P : Z) : bool := (M =? P) || (M =? N).
(* the multiplicand that belongs to the k-th listed mode m *)
Definition mult_of (M P : Z) (k m : Z) : Z := if P =? M then k else m.
Definition enum (l : vec) : list (Z * Z) := combine (np_arange 0 (zlen l)) l.
Definition pre_mults (s : vec) (M : Z) (sel : vec) (ok_for : Z -> Z -> bool) : bool :=
  forallb (fun km => ok_for (mult_of M (zlen sel) (fst km) (snd km)) (snd km)) (enum sel).

(* ---------------------------------------------------------------------------------------- *)
(* what numpy / Python check implicitly                                                       *)
(* ---------------------------------------------------------------------------------------- *)
Definition np_idx_ok (n k : Z) : bool := (- n <=? k) && (k <? n).      (* a[k], len n: wraps negatives *)
Definition np_norm (n k : Z) : Z := if k <? 0 then k + n else k.
Definition np_transpose_ok (N : Z) (axes : vec) : bool :=
  (zlen axes =? N) && forallb (np_idx_ok N) axes && nodupb (map (np_norm N) axes).
Definition np_reshape_ok (count : Z) (newshape : vec) : bool := zprod newshape =? count.
Definition np_matmul_ok (a b : shp2) : bool := cols a =? rows b.
(* trailing-aligned broadcasting of two shapes *)
Fixpoint bcast_rev (a b : vec) : bool :=
  match a, b with
  | x :: a', y :: b' => ((x =? y) || (x =? 1) || (y =? 1)) && bcast_rev a' b'
  | _, _ => true
  end.
Definition np_broadcast_ok (a b : vec) : bool := bcast_rev (rev a) (rev b).
Definition np_setdiff (N : Z) (d : vec) : vec := np_setdiff1d (np_arange 0 N) d.
Definition szw (s : vec) (k : Z) : Z := znth 0 s (np_norm (zlen s) k).  (* python s[k] with wrap *)

(* ======================================================================================== *)
(* tensor                                                                                     *)
(* ======================================================================================== *)

(* tensor(data, shape): element count of data must equal prod shape *)
Definition pre_tensor_ctor (dshape : vec) (shape : option vec) : bool :=
  let s := match shape with None => dshape | Some s => s end in           (* default: the array's own shape *)
  if zlen s =? 0 then zprod dshape =? 0 else zprod s =? zprod dshape.
Definition guard_tensor_ctor (dshape : vec) (shape : option vec) : res unit :=
  let s := match shape with None => dshape | Some s => s end in
  if zlen s =? 0 then chk (zprod dshape =? 0)                 (* "data.size > 0" on a natural number *)
  else chk (zprod s =? zprod dshape) ;; chk (np_reshape_ok (zprod dshape) s).

(* T.permute(order) *)
Definition pre_tensor_permute (s order : vec) : bool := is_permb (ndim s) order.
(* C19-N01 repaired: "sort(order) == arange(ndims)" before np.transpose; the "(order == 1).all()" shortcut is left for
   1-way tensors only (A-28, known: order [1] on a 1-way tensor is answered) *)
Definition guard_tensor_permute (s order : vec) : res unit :=
  chk (ndim s =? zlen order) ;;
  if zlen order =? 0 then Ok tt
  else if (ndim s =? 1) && forallb (fun x => x =? 1) order then Ok tt
  else chk (shape_eqb (np_sort order) (np_arange 0 (ndim s))) ;; chk (np_transpose_ok (ndim s) order).

(* T.reshape(shape) *)
Definition pre_tensor_reshape (s new : vec) : bool := zprod s =? zprod new.
Definition guard_tensor_reshape (s new : vec) : res unit :=
  chk (zprod s =? zprod new) ;; chk (np_reshape_ok (zprod s) new).

(* T.innerprod(U), both dense *)
Definition pre_tensor_innerprod (s u : vec) : bool := shape_eqb s u.
Definition guard_tensor_innerprod (s u : vec) : res unit := chk (shape_eqb s u).

(* T.contract(i1, i2) *)
Definition pre_tensor_contract (s : vec) (i1 i2 : Z) : bool :=
  in_range (ndim s) i1 && in_range (ndim s) i2 && negb (i1 =? i2) && (sz s i1 =? sz s i2).
Definition guard_tensor_contract (s : vec) (i1 i2 : Z) : res unit :=
  let N := ndim s in
  chk (in_range N i1 && in_range N i2) ;;                  (* "0 <= i1 < ndims and 0 <= i2 < ndims" (C19-N03 repaired) *)
  chk (sz s i1 =? sz s i2) ;;
  chk (negb (i1 =? i2)) ;;
  if N =? 2 then Ok tt                                       (* np.trace, no further look at i1, i2 *)
  else guard_tensor_permute s (np_setdiff N [i1; i2] ++ [i1; i2]).

(* T.ttv(vectors, dims | exclude_dims): vlens = lengths of the vectors *)
Definition pre_tensor_ttv (s vlens : vec) (dims excl : option vec) : bool :=
  let N := ndim s in let M := zlen vlens in let sel := sel_modes N dims excl in
  pre_sel N dims excl && pre_count N M (zlen sel) &&
  pre_mults s M sel (fun v m => znth (-1) vlens v =? sz s m).
Definition guard_ttv_sizes (s vlens sd vidx : vec) : res unit :=
  chk_all (fun vd => chk (np_idx_ok (zlen vlens) (fst vd)) ;;          (* vector[vidx[i]] *)
                     chk (np_idx_ok (ndim s) (snd vd)) ;;              (* self.shape[dims[i]] *)
                     chk (znth (-1) vlens (np_norm (zlen vlens) (fst vd)) =? szw s (snd vd)))
          (combine vidx sd).
Definition guard_tensor_ttv (s vlens : vec) (dims excl : option vec) : res unit :=
  let N := ndim s in
  match tt_dimscheck N (Some (zlen vlens)) dims excl with
  | Err => Err
  | Ok (sd, None) => Err
  | Ok (sd, Some vidx) =>
      guard_ttv_sizes s vlens sd vidx ;;
      (if 1 <? N then chk (np_transpose_ok N (np_setdiff N sd ++ sd))
       else chk ((zlen sd <=? 1) || (sz s 0 =? 1)))                       (* the reshape/dot loop on a 1-way tensor *)
  end.

(* T.ttm(list of matrices, dims | exclude_dims, transpose) *)
Definition mat_in (transpose : bool) (m : shp2) : Z := if transpose then rows m else cols m.
Definition mat_out (transpose : bool) (m : shp2) : Z := if transpose then cols m else rows m.
Definition pre_tensor_ttm (s : vec) (ms : list shp2) (dims excl : option vec) (tr : bool) : bool :=
  let N := ndim s in let M := zlen ms in let sel := sel_modes N dims excl in
  pre_sel N dims excl && pre_count N M (zlen sel) && (0 <? zlen sel) &&
  pre_mults s M sel (fun v m => mat_in tr (shp2_d ms v) =? sz s m).
(* one ttm with a single matrix in mode n (already known non-negative): returns the new shape *)
Definition ttm1 (s : vec) (m : shp2) (n : Z) (tr : bool) : res vec :=
  if negb (n <? ndim s) then Err                                         (* isin(dims, arange(ndims)) *)
  else if negb (mat_in tr m =? sz s n) then Err                           (* matmul agreement *)
  else Ok (upd s (Z.to_nat n) (mat_out tr m)).
Fixpoint ttm_chain (s : vec) (ms : list shp2) (tr : bool) (steps : list (Z * Z)) : res unit :=
  match steps with
  | [] => Ok tt
  | (v, d) :: r =>
      if negb (np_idx_ok (zlen ms) v) then Err
      else match ttm1 s (shp2_d ms (np_norm (zlen ms) v)) d tr with
           | Err => Err
           | Ok s' => ttm_chain s' ms tr r
           end
  end.
Definition guard_tensor_ttm (s : vec) (ms : list shp2) (dims excl : option vec) (tr : bool) : res unit :=
  match tt_dimscheck (ndim s) (Some (zlen ms)) dims excl with
  | Err => Err
  | Ok (sd, None) => Err
  | Ok (sd, Some vidx) => chk (0 <? zlen sd) ;; ttm_chain s ms tr (combine vidx sd)   (* vidx[0]: IndexError when empty *)
  end.

(* element-wise binary operation of two dense tensors: tenfun_binary compares the shapes (C19-N02 repaired);
   numpy's broadcasting test comes after it *)
Definition pre_tensor_binop (s u : vec) : bool := shape_eqb s u.
Definition guard_tensor_binop (s u : vec) : res unit := chk (shape_eqb s u) ;; chk (np_broadcast_ok s u).

Definition c19_pre_agrees (p : bool) (rejected : bool) : bool := Bool.eqb (negb p) rejected.

(* ======================================================================================== *)
(* shared shapes of request: "two operands of the same shape", "a permutation of the modes"   *)
(* ======================================================================================== *)
Definition pre_same_shape (s u : vec) : bool := shape_eqb s u.
Definition guard_same_shape (s u : vec) : res unit := chk (shape_eqb s u).       (* "self.shape != other.shape" *)

Definition pre_perm (s order : vec) : bool := is_permb (ndim s) order.
(* "sorted(order) == range(ndims)" as sptensor/ktensor/ttensor.permute and the dimorder checks do it *)
Definition guard_sorted_perm (s order : vec) : res unit := chk (shape_eqb (np_sort order) (np_arange 0 (ndim s))).

Definition pre_mode (s : vec) (n : Z) : bool := in_range (ndim s) n.
Definition pre_modes (s d : vec) : bool := modes_ok (ndim s) d.
Definition pre_reshape (s new : vec) : bool := zprod s =? zprod new.
Definition pre_ttv := pre_tensor_ttv.
Definition pre_ttm := pre_tensor_ttm.

(* sptensor.innerprod: the shapes are compared first (C19-N04 repaired), then an empty receiver answers 0 *)
Definition guard_sptensor_innerprod (s : vec) (empty : bool) (u : vec) : res unit :=
  chk (shape_eqb s u) ;; if empty then Ok tt else chk (shape_eqb s u).
Definition pre_sptensor_innerprod (s : vec) (empty : bool) (u : vec) : bool := shape_eqb s u.

(* mttkrp(U, n): one matrix per mode, U[i] has shape[i] rows (i <> n), all the same column count *)
Definition pre_mttkrp (s : vec) (us : list shp2) (n : Z) : bool :=
  let N := ndim s in
  let R := cols (shp2_d us (if n =? 0 then 1 else 0)) in
  (2 <=? N) && (zlen us =? N) && in_range N n &&
  forallb (fun iu => (fst iu =? n) || ((rows (snd iu) =? sz s (fst iu)) && (cols (snd iu) =? R)))
          (combine (np_arange 0 N) us).

(* to_tenmat(rdims, cdims) / tenmat(data, rdims, cdims, tshape) / sptenmat(subs, vals, rdims, cdims, tshape) *)
Definition pre_to_tenmat (s rd cd : vec) : bool := is_permb (ndim s) (rd ++ cd).
Definition pre_tenmat_ctor (dshape : shp2) (rd cd ts : vec) : bool :=
  is_permb (ndim ts) (rd ++ cd) && (rows dshape =? zprod (pickz ts rd)) && (cols dshape =? zprod (pickz ts cd)).
Definition pre_sptenmat_ctor (maxrow maxcol : Z) (rd cd ts : vec) : bool :=
  is_permb (ndim ts) (rd ++ cd) && (maxrow <? zprod (pickz ts rd)) && (maxcol <? zprod (pickz ts cd)).
(* the code: "prod(tshape[rdims]) > max(subs[:, 0])" (A-44 repaired) *)
Definition guard_sptenmat_ctor (maxrow maxcol : Z) (rd cd ts : vec) : res unit :=
  chk ((zlen (rd ++ cd) =? ndim ts) && shape_eqb (np_sort (rd ++ cd)) (np_arange 0 (ndim ts))) ;;
  chk (maxrow <? zprod (pickz ts rd)) ;; chk (maxcol <? zprod (pickz ts cd)).
Definition pre_tenmat_mul (a b : shp2) : bool := cols a =? rows b.
Definition guard_tenmat_mul (a b : shp2) : res unit := chk (cols a =? rows b).

(* T.scale(factor, dims): factor has the shape of the listed modes *)
(* dims is a SET of modes (tt_dimscheck sorts it; C02's spec of scale takes the sorted modes as well): the factor's k-th mode
   belongs to the k-th smallest listed mode *)
Definition pre_scale (s fshape d : vec) : bool := modes_ok (ndim s) d && shape_eqb fshape (pickz s (np_sort d)).
(* T.collapse(dims) *)
Definition pre_collapse (s d : vec) : bool := modes_ok (ndim s) d.
(* T.ttt(U, selfdims, otherdims) *)
Definition pre_ttt (s u sd od : vec) : bool :=
  modes_ok (ndim s) sd && modes_ok (ndim u) od && shape_eqb (pickz s sd) (pickz u od).
(* linear index T[k] / T[k] = v: Python's convention, -prod(shape) <= k < prod(shape) (pyttb_utils.tt_ind2sub: "Handle negative
   indexing": a negative index counts from the end) *)
Definition pre_linear_index (s : vec) (k : Z) : bool := (- zprod s <=? k) && (k <? zprod s).
(* S.extract(subs) / sptensor(subs, vals, shape): every subscript row has one entry per mode, inside the shape *)
Definition sub_ok (s row : vec) : bool := (zlen row =? ndim s) && forallb (fun p => in_range (snd p) (fst p)) (combine row s).
Definition pre_subs (s : vec) (subs : list vec) : bool := forallb (sub_ok s) subs.
Definition pre_sptensor_ctor (s : vec) (subs : list vec) (nvals : Z) : bool := pre_subs s subs && (nvals =? zlen subs).

(* ktensor(factor_matrices, weights) *)
Definition all_cols (ms : list shp2) (R : Z) : bool := forallb (fun m => cols m =? R) ms.
Definition pre_ktensor_ctor (ms : list shp2) (wlen : option Z) : bool :=
  let R := cols (shp2_d ms 0) in all_cols ms R && match wlen with None => true | Some w => w =? R end.
Definition guard_ktensor_ctor (ms : list shp2) (wlen : option Z) : res unit :=
  let R := cols (shp2_d ms 0) in
  chk (all_cols ms R) ;; match wlen with None => Ok tt | Some w => chk (w =? R) end.
(* K.arrange(permutation=p): R components *)
Definition pre_ktensor_arrange (R : Z) (p : vec) : bool := is_permb R p.
Definition guard_ktensor_arrange (R : Z) (p : vec) : res unit :=
  chk (zlen p =? R) ;; chk (shape_eqb (np_sort p) (np_arange 0 R)).   (* "sorted(p) == range(R)" (A-45 repaired) *)
(* K.extract(idx) *)
Definition pre_ktensor_extract (R : Z) (idx : vec) : bool := (1 <=? zlen idx) && (zlen idx <=? R) && forallb (in_range R) idx.
Definition guard_ktensor_extract (R : Z) (idx : vec) : res unit :=
  chk (negb ((zlen idx =? 0) || (R <? zlen idx))) ;; chk (forallb (in_range R) idx).
(* ttensor(core, factors) *)
Definition pre_ttensor_ctor (core : vec) (ms : list shp2) : bool :=
  (zlen ms =? ndim core) && forallb (fun p => cols (fst p) =? snd p) (combine ms core).
Definition guard_ttensor_ctor (core : vec) (ms : list shp2) : res unit :=
  chk (ndim core =? zlen ms) ;; chk_all (fun p => chk (cols (fst p) =? snd p)) (combine ms core).
(* sumtensor(parts): all parts have the shape of the first *)
Definition pre_all_same_shape (shapes : list vec) : bool :=
  match shapes with [] => true | s :: r => forallb (shape_eqb s) r end.
Definition guard_all_same_shape (shapes : list vec) : res unit :=
  match shapes with [] => Ok tt | s :: r => chk (forallb (shape_eqb s) r) end.
(* khatrirao(matrices) *)
Definition pre_khatrirao (ms : list shp2) : bool := all_cols ms (cols (shp2_d ms 0)).
Definition guard_khatrirao (ms : list shp2) : res unit := chk (all_cols ms (cols (shp2_d ms 0))).

(* algorithm entry points: rank, initial guess, mode order *)
Inductive initk := InitRandom | InitNvecs | InitBogus | InitK (shape : vec) (R : Z) | InitList (ms : list shp2).
Definition factors_fit (s : vec) (ms : list shp2) (ranks : vec) (which : vec) : bool :=
  forallb (fun n => (rows (shp2_d ms n) =? sz s n) && (cols (shp2_d ms n) =? sz ranks n)) which.
Definition pre_cp_init (s : vec) (rank : Z) (init : initk) (allow_nvecs : bool) : bool :=
  match init with
  | InitRandom => true
  | InitNvecs => allow_nvecs
  | InitBogus => false
  | InitK ks R => shape_eqb ks s && (R =? rank)
  | InitList _ => false
  end.
Definition pre_cp_als (s : vec) (rank : Z) (init : initk) (dimorder : option vec) : bool :=
  (0 <? rank) && pre_cp_init s rank init true && match dimorder with None => true | Some o => is_permb (ndim s) o end.
Definition pre_cp_apr (s : vec) (rank : Z) (init : initk) (alg_ok : bool) : bool :=
  (0 <? rank) && pre_cp_init s rank init false && alg_ok.
Definition pre_hosvd (s : vec) (ranks : option vec) (dimorder : option vec) : bool :=
  match ranks with None => true | Some r => zlen r =? ndim s end &&
  match dimorder with None => true | Some o => is_permb (ndim s) o end.
Definition pre_tucker_als (s : vec) (ranks : vec) (init : initk) (dimorder : option vec) (maxiters : Z) : bool :=
  let N := ndim s in
  let rk := if zlen ranks =? 1 then np_full N (sz ranks 0) else ranks in
  (zlen rk =? N) && (0 <=? maxiters) &&
  match dimorder with None => true | Some o => is_permb N o end &&
  match init with
  | InitRandom | InitNvecs => true
  | InitList ms => (zlen ms =? N) &&          (* the first mode in dimorder is recomputed: its guess is unused *)
      factors_fit s ms rk (filter (fun n => negb (n =? match dimorder with Some (f :: _) => f | _ => 0 end)) (np_arange 0 N))
  | _ => false
  end.
Definition pre_gcp_opt (s : vec) (rank : Z) (init : initk) (opt_ok : bool) : bool :=
  (0 <? rank) && opt_ok &&
  match init with
  | InitRandom => true
  | InitK ks R => shape_eqb ks s && (R =? rank)
  | InitList ms => (zlen ms =? ndim s) && (cols (shp2_d ms 0) =? rank) &&       (* the guess has `rank` components ... *)
                   factors_fit s ms (np_full (ndim s) rank) (np_arange 0 (ndim s))  (* ... and factor n is shape[n] x rank *)
  | _ => false
  end.
(* import_data: header says n modes, the shape line has k entries; data type word known *)
Definition pre_import (type_ok : bool) (n k : Z) : bool := type_ok && (n =? k).
Definition guard_import (type_ok : bool) (n k : Z) : res unit := chk type_ok ;; chk (k =? n).

(* ======================================================================================== *)
(* wave 2: guard models of the repaired and of further operations                             *)
(* ======================================================================================== *)
(* K.redistribute(mode): "mode not in range(self.ndims)" (C19-N07 repaired); K.normalize(mode = n): "mode in range(self.ndims)".
   Python's membership test on the enumerated range 0, 1, ..., ndims-1 (transliterated as membership in the list of modes, not as the
   two comparisons of the precondition).  The generated ktensor_redistribute (Gen/GenMethods3.v) is tied to this guard in
   Proofs/C19W4.v. *)
Definition guard_mode (s : vec) (n : Z) : res unit := chk (zmem n (np_arange 0 (ndim s))).

(* get_mttkrp_factors(U, n, ndims): list length, "0 <= n < ndims" (C19-N08 / C19-N10 repaired), then
   "len({U[i].shape[1] for i != n}) > 1" (C19-N09 repaired): the matrices other than U[n] have one column count — once the
   first two checks passed that is "every one has the column count of U[1] (U[0] when n <> 0)" *)
Definition mttkrp_R (us : list shp2) (n : Z) : Z := cols (shp2_d us (if n =? 0 then 1 else 0)).
Definition mttkrp_cols_ok (N : Z) (us : list shp2) (n : Z) : bool :=
  forallb (fun iu => (fst iu =? n) || (cols (snd iu) =? mttkrp_R us n)) (combine (np_arange 0 N) us).
Definition mttkrp_rows_ok (s : vec) (us : list shp2) (n : Z) : bool :=
  forallb (fun iu => (fst iu =? n) || (rows (snd iu) =? sz s (fst iu))) (combine (np_arange 0 (ndim s)) us).
Definition guard_mttkrp_factors (N : Z) (us : list shp2) (n : Z) : res unit :=
  chk (zlen us =? N) ;; chk (in_range N n) ;; chk (mttkrp_cols_ok N us n).
(* tensor.mttkrp: order >= 2, the helper, the per-matrix row loop, then the column agreement that khatrirao and the
   reshape to (szl, szn, R) / the matrix products enforce on every matrix except U[n] (which is never looked at) *)
Definition guard_tensor_mttkrp (s : vec) (us : list shp2) (n : Z) : res unit :=
  let N := ndim s in
  chk (2 <=? N) ;; guard_mttkrp_factors N us n ;;
  chk_all (fun iu => chk ((fst iu =? n) || (rows (snd iu) =? sz s (fst iu)))) (combine (np_arange 0 N) us) ;;
  chk (mttkrp_cols_ok N us n).

(* tensor.collapse(dims): an empty data array is answered before the modes are looked at; otherwise the generated helper decides *)
Definition guard_tensor_collapse (s d : vec) : res unit :=
  if zprod s =? 0 then Ok tt
  else match tt_dimscheck (ndim s) None (Some d) None with Err => Err | Ok _ => Ok tt end.

(* sptensor(subs, vals, shape) with subs a rectangular array: "vals.size == 0" when subs.size == 0 (C19-N16 repaired);
   otherwise the value count (C19-N05 repaired), "np.all(subs >= 0)" (C19-N14 repaired), the column count and the upper
   bounds "max(subs)+1 <= shape" *)
Definition guard_sptensor_ctor (s : vec) (subs : list vec) (nvals : Z) : res unit :=
  let ncols := zlen (hd [] subs) in
  if (zlen subs =? 0) || (ncols =? 0) then chk (nvals =? 0)
  else chk (nvals =? zlen subs) ;; chk (forallb (forallb (fun x => 0 <=? x)) subs) ;; chk (ncols =? ndim s) ;;
       chk (forallb (fun row => forallb (fun p => fst p <? snd p) (combine row s)) subs).

(* algorithm option checks in the order the code performs them *)
Definition guard_dimorder (s : vec) (dimorder : option vec) : res unit :=
  match dimorder with None => Ok tt | Some o => guard_sorted_perm s o end.
Definition guard_cp_als (s : vec) (rank : Z) (init : initk) (dimorder : option vec) : res unit :=
  guard_dimorder s dimorder ;; chk (0 <? rank) ;;
  match init with
  | InitK ks R => chk (zlen ks =? ndim s) ;; chk (R =? rank) ;;
                  chk_all (fun n => chk (sz ks n =? sz s n))           (* factor n has shape (shape[n], rank) *)
                          (match dimorder with None => np_arange 0 (ndim s) | Some o => o end)
  | InitRandom | InitNvecs => Ok tt
  | InitBogus | InitList _ => Err
  end.
Definition guard_hosvd (s : vec) (ranks : option vec) (dimorder : option vec) : res unit :=
  match ranks with None => Ok tt | Some r => chk (zlen r =? ndim s) end ;; guard_dimorder s dimorder.

(* the ttv family shares one check structure: tt_dimscheck, the per-vector size loop, then class-specific arithmetic
   (`tail`, a function of the sorted modes) *)
Definition guard_ttv_with (tail : vec -> res unit) (s vlens : vec) (dims excl : option vec) : res unit :=
  match tt_dimscheck (ndim s) (Some (zlen vlens)) dims excl with
  | Err => Err
  | Ok (sd, None) => Err
  | Ok (sd, Some vidx) => guard_ttv_sizes s vlens sd vidx ;; tail sd
  end.
(* sptensor.ttv, ktensor.ttv, ttensor.ttv (and sumtensor.ttv through its parts): nothing after the size loop can fail *)
Definition guard_ttv_checks (s vlens : vec) (dims excl : option vec) : res unit := guard_ttv_with (fun _ => Ok tt) s vlens dims excl.

(* sptensor.collapse(dims): the generated helper decides (C19-N06 repaired with A-42) *)
Definition guard_sptensor_collapse (s d : vec) : res unit :=
  match tt_dimscheck (ndim s) None (Some d) None with Err => Err | Ok _ => Ok tt end.

(* ttensor.mttkrp: the helper, the products factor_matrices[i].T @ U[i] (rows must agree), then core.mttkrp on the
   projected matrices: order >= 2 and the column agreement (C19-N10 repaired) *)
Definition guard_ttensor_mttkrp (s : vec) (us : list shp2) (n : Z) : res unit :=
  let N := ndim s in
  guard_mttkrp_factors N us n ;;
  chk_all (fun iu => chk ((fst iu =? n) || (rows (snd iu) =? sz s (fst iu)))) (combine (np_arange 0 N) us) ;;
  chk (2 <=? N) ;;
  chk (mttkrp_cols_ok N us n).

(* cp_apr: rank, then the initial guess (a Kruskal tensor of the right size, or "random"), then the algorithm name *)
Definition guard_cp_apr (s : vec) (rank : Z) (init : initk) (alg_ok : bool) : res unit :=
  chk (0 <? rank) ;;
  match init with
  | InitK ks R => chk (zlen ks =? ndim s) ;; chk (R =? rank) ;;
                  chk_all (fun n => chk (sz ks n =? sz s n)) (np_arange 0 (ndim s))
  | InitRandom => Ok tt
  | InitNvecs | InitBogus | InitList _ => Err
  end ;; chk alg_ok.

(* tucker_als: maxiters, rank vector (a scalar is repeated; C19-N12 repaired), dimorder, initial factor list (checked for
   every mode of dimorder except the first, which is recomputed) *)
Definition tucker_ranks (N : Z) (ranks : vec) : vec := if zlen ranks =? 1 then np_full N (sz ranks 0) else ranks.
Definition guard_tucker_als (s : vec) (ranks : vec) (init : initk) (dimorder : option vec) (maxiters : Z) : res unit :=
  let N := ndim s in let rk := tucker_ranks N ranks in
  chk (0 <=? maxiters) ;; chk (zlen rk =? N) ;; guard_dimorder s dimorder ;;
  match init with
  | InitList ms => chk (zlen ms =? N) ;;
      chk_all (fun n => chk ((rows (shp2_d ms n) =? sz s n) && (cols (shp2_d ms n) =? sz rk n)))
              (tl (match dimorder with None => np_arange 0 N | Some o => o end))
  | InitRandom | InitNvecs => Ok tt
  | InitBogus | InitK _ _ => Err
  end.

(* ======================================================================================== *)
(* wave 3                                                                                     *)
(* ======================================================================================== *)
(* element-wise + / - of two matricised tensors (tenmat.__add__/__sub__/__rsub__): "self.shape == other.shape" where
   tenmat.shape is data.shape, or () when the data holds no element; then numpy adds the two data arrays (broadcast test).
   Operands: (tshape, rdims, cdims); the matrix is prod(tshape[rdims]) x prod(tshape[cdims]). *)
Definition mshape (ts rd cd : vec) : vec := [zprod (pickz ts rd); zprod (pickz ts cd)].
Definition tm_shape (m : vec) : vec := if zprod m =? 0 then [] else m.
Definition pre_tenmat_binop (ts rd cd us urd ucd : vec) : bool := shape_eqb (mshape ts rd cd) (mshape us urd ucd).
Definition guard_tenmat_binop (ts rd cd us urd ucd : vec) : res unit :=
  let m1 := mshape ts rd cd in let m2 := mshape us urd ucd in
  chk (shape_eqb (tm_shape m1) (tm_shape m2)) ;; chk (np_broadcast_ok m1 m2).

(* cp_als(optdims = d): "all(isin(d, arange(N))) and unique(d).size == d.size"; later the list of modes that are optimised
   (dimorder filtered by d) is indexed with [-1]: an empty list of modes raises IndexError.  (C19-N15 repaired.) *)
Definition pre_cp_optdims (s d : vec) : bool := modes_ok (ndim s) d && (0 <? zlen d).
Definition guard_cp_optdims (s d : vec) : res unit :=
  let N := ndim s in
  chk (np_all (np_isin d (np_arange 0 N)) && (zlen (np_unique d) =? zlen d)) ;;
  chk (0 <? zlen (filter (fun x => zmem x d) (np_arange 0 N))).

(* "sorted concatenation of rdims and cdims must be range(ndims)" *)
Definition chk_partition (N : Z) (r c : vec) : res unit :=
  chk ((zlen (r ++ c) =? N) && shape_eqb (np_sort (r ++ c)) (np_arange 0 N)).

(* sptensor.to_sptenmat(rdims, cdims): the GENERATED gather_wrap_dims, then the partition test; nothing later can fail *)
Definition guard_to_sptenmat (s rd cd : vec) : res unit :=
  match gather_wrap_dims (ndim s) (Some rd) (Some cd) None with
  | Err => Err
  | Ok (r, c) => chk_partition (ndim s) r c
  end.

(* tenmat(data, rdims, cdims, tshape) with a non-empty matrix `data` of shape d: element counts, the generated
   gather_wrap_dims, tshape[rdims] / tshape[cdims] (numpy indexing: wraps negatives, IndexError beyond), the product test,
   the partition test *)
Definition guard_tenmat_ctor (d : shp2) (rd cd ts : vec) : res unit :=
  chk (rows d * cols d =? zprod ts) ;;
  match gather_wrap_dims (ndim ts) (Some rd) (Some cd) None with
  | Err => Err
  | Ok (r, c) =>
      chk (forallb (np_idx_ok (ndim ts)) r && forallb (np_idx_ok (ndim ts)) c) ;;
      chk (zprod (map (szw ts) r) * zprod (map (szw ts) c) =? rows d * cols d) ;;
      chk_partition (ndim ts) r c
  end.

(* tensor.to_tenmat(rdims, cdims): "sum(isin(rdims, alldims)) == len(rdims)" for both lists, gather_wrap_dims, the partition
   test, then the tenmat constructor on the (prod rows) x (prod cols) data *)
Definition guard_to_tenmat (s rd cd : vec) : res unit :=
  let N := ndim s in
  chk (forallb (in_range N) rd) ;; chk (forallb (in_range N) cd) ;;
  match gather_wrap_dims N (Some rd) (Some cd) None with
  | Err => Err
  | Ok (r, c) => chk_partition N r c ;; guard_tenmat_ctor (zprod (pickz s r), zprod (pickz s c)) r c s
  end.

(* tensor.nvecs(n, r): to_tenmat(rdims = [n]) — the column modes are the generated helper's complement *)
Definition guard_nvecs (s : vec) (n : Z) : res unit :=
  let N := ndim s in
  chk (forallb (in_range N) [n]) ;;
  match gather_wrap_dims N (Some [n]) None None with
  | Err => Err
  | Ok (r, c) => chk_partition N r c ;; guard_tenmat_ctor (zprod (pickz s r), zprod (pickz s c)) r c s
  end.

(* tensor.scale(factor, dims): the generated tt_dimscheck sorts the modes; the factor's shape is compared with the sizes of the
   SORTED modes (and the sorted modes are the ones that are scaled) *)
Definition guard_scale (s f d : vec) : res unit :=
  match tt_dimscheck (ndim s) None (Some d) None with
  | Err => Err
  | Ok (sd, _) => chk (shape_eqb f (pickz s sd))
  end.

(* tensor.ttt(other, selfdims, otherdims): shape[selfdims] / other.shape[otherdims] (numpy indexing), tuple comparison,
   self.to_tenmat(cdims = selfdims), other.to_tenmat(rdims = otherdims), matrix product *)
Definition guard_to_tenmat_opt (s : vec) (rd cd : option vec) : res unit :=
  let N := ndim s in
  chk (match rd with Some r => forallb (in_range N) r | None => true end) ;;
  chk (match cd with Some c => forallb (in_range N) c | None => true end) ;;
  match gather_wrap_dims N rd cd None with
  | Err => Err
  | Ok (r, c) => chk_partition N r c ;; guard_tenmat_ctor (zprod (pickz s r), zprod (pickz s c)) r c s
  end.
Definition guard_ttt (s u sd od : vec) : res unit :=
  chk (forallb (np_idx_ok (ndim s)) sd) ;; chk (forallb (np_idx_ok (ndim u)) od) ;;
  chk (shape_eqb (map (szw s) sd) (map (szw u) od)) ;;
  guard_to_tenmat_opt s None (Some sd) ;; guard_to_tenmat_opt u (Some od) None ;;
  chk (zprod (pickz s sd) =? zprod (pickz u od)).

(* T[k] / T[k] = v with one linear index: "idx >= prod(shape)": a tensor X cannot be resized (assignment only; implied by the
   second check), then the GENERATED tt_ind2sub (negative indices are shifted by prod(shape); np.unravel_index refuses what is
   then outside [0, prod(shape))) *)
Definition guard_linear_index (s : vec) (k : Z) : res unit :=
  chk (negb (zprod s <=? k)) ;; match tt_ind2sub s [k] OrdF with Err => Err | Ok _ => Ok tt end.

(* ktensor.mttkrp(U, n): the helper; R = U[1 or 0].shape[1] (IndexError on a 1-way tensor); the weight matrix W (rank x R) is
   multiplied element-wise by factor_matrices[i].T @ U[i] for every i <> n: rows of U[i] must equal shape[i]; the column
   counts need only broadcast here, but the helper has compared them already (C19-N09 repaired) *)
Fixpoint kw_chain (s : vec) (n : Z) (wc : Z) (l : list (Z * shp2)) : res unit :=
  match l with
  | [] => Ok tt
  | (i, u) :: r =>
      if i =? n then kw_chain s n wc r
      else if negb (rows u =? sz s i) then Err
      else if negb ((wc =? cols u) || (wc =? 1) || (cols u =? 1)) then Err
      else kw_chain s n (if wc =? 1 then cols u else wc) r
  end.
Definition guard_ktensor_mttkrp (s : vec) (us : list shp2) (n : Z) : res unit :=
  let N := ndim s in
  guard_mttkrp_factors N us n ;;
  chk (np_idx_ok (zlen us) (if n =? 0 then 1 else 0)) ;;
  kw_chain s n (mttkrp_R us n) (combine (np_arange 0 N) us).

(* sumtensor.mttkrp on parts [tensor, ktensor]: the parts are asked in turn *)
Definition guard_sumtensor_mttkrp (s : vec) (us : list shp2) (n : Z) : res unit :=
  guard_tensor_mttkrp s us n ;; guard_ktensor_mttkrp s us n.

(* ttensor.ttm(matrices, dims | exclude_dims, transpose): the generated tt_dimscheck, then the size loop
   "matrix[vidx[i]].shape[size_idx] != self.shape[dim]" — the checks of ttv on the in-dimensions of the matrices; the products
   with the factor matrices cannot fail afterwards.  An empty selection of modes is answered (the tensor itself). *)
Definition pre_ttensor_ttm (s : vec) (ms : list shp2) (dims excl : option vec) (tr : bool) : bool :=
  pre_ttv s (map (mat_in tr) ms) dims excl.
Definition guard_ttensor_ttm (s : vec) (ms : list shp2) (dims excl : option vec) (tr : bool) : res unit :=
  guard_ttv_checks s (map (mat_in tr) ms) dims excl.

(* sptensor.ttm(list of matrices, ...): tt_dimscheck, matrices[vidx[0]] (IndexError when no mode is selected), then one
   single-matrix ttm per selected mode, each comparing "self.shape[dim] != matrix.shape[1]" on the running result (which may
   have become dense: tensor.ttm performs the same comparison): the chain of tensor.ttm *)
Definition guard_sptensor_ttm := guard_tensor_ttm.

(* sptensor.mttkrp(U, n): the helper (column counts compared: C19-N09 repaired); the row loop "U[i].shape[0] != self.shape[i]" for
   i <> n (C19-N20 repaired: before, the row counts were looked at only inside the loop over the columns); R = U[1 or 0].shape[1];
   for r < R: column r of every U[i], i <> n, then ttv with exclude_dims = n on vectors of lengths rows(U[i]) (an empty vector in
   position n). *)
Definition guard_sptensor_mttkrp (s : vec) (us : list shp2) (n : Z) : res unit :=
  let N := ndim s in let R := mttkrp_R us n in
  let ius := combine (np_arange 0 N) us in
  guard_mttkrp_factors N us n ;;
  chk_all (fun iu => chk ((fst iu =? n) || (rows (snd iu) =? sz s (fst iu)))) ius ;;
  chk (np_idx_ok (zlen us) (if n =? 0 then 1 else 0)) ;;
  if R <=? 0 then Ok tt
  else chk (forallb (fun iu => (fst iu =? n) || (R <=? cols (snd iu))) ius) ;;
       guard_ttv_checks s (map (fun iu => if fst iu =? n then 0 else rows (snd iu)) ius) None (Some [n]).

(* sptensor.extract(subs) with subs a rectangular p x k array (p >= 1): "searchsubs.shape[1] != self.ndims" (C19-N17
   repaired), then "(subs < 0) | (subs >= shape)" row by row.  Nothing after the range test rejects. *)
Definition guard_sptensor_extract (s : vec) (subs : list vec) : res unit :=
  let k := zlen (hd [] subs) in
  chk (k =? ndim s) ;; chk (forallb (fun row => forallb (fun p => in_range (snd p) (fst p)) (combine row s)) subs).


(* sptensor.from_aggregator(subs, vals, shape) with subs a rectangular p x k integer array, vals an nvals x 1 array and shape a
   tuple of ints, in the order of the code: the GENERATED tt_subscheck(subs, False) and tt_valscheck(vals, False)
   (Gen/GenUtils3.v, regenerated from pyttb_utils.py on every run), the value count only "if subs.size > 1", the GENERATED
   tt_sizecheck(shape, False), "subs.size > 0 and subs.shape[1] > len(shape)", per mode j "subs.size > 0 and
   max(subs[:, j]) >= shape[j]" (IndexError when subs has fewer than j+1 columns), then — unless subs.size == 0 — accumarray
   (values and subscripts must have the same length).  A subscript array without elements skips everything but the size
   check (C19-N18). *)
Definition nd_ints (shp l : vec) : ndarr := mknd shp DInt (map NFin l).
Definition okres {A} (r : res A) : res unit := match r with Ok _ => Ok tt | Err => Err end.
Definition guard_from_aggregator (s : vec) (subs : list vec) (nvals : Z) : res unit :=
  let p := zlen subs in let k := zlen (hd [] subs) in let N := ndim s in
  okres (tt_subscheck (nd_ints [p; k] (concat subs)) false) ;;
  okres (tt_valscheck (nd_ints [nvals; 1] (np_full nvals 0)) false) ;;
  (if (1 <? p * k) && negb (nvals =? p) then Err else Ok tt) ;;
  okres (tt_sizecheck (nd_ints [N] s) false) ;;
  (if (0 <? p * k) && (N <? k) then Err else Ok tt) ;;
  chk_all (fun j => if 0 <? p * k then chk (j <? k) ;; chk (forallb (fun row => znth 0 row j <? sz s j) subs) else Ok tt)
          (np_arange 0 N) ;;
  if p * k =? 0 then Ok tt else chk (nvals =? p).
(* the same checks with the three helpers written out by hand (Proofs/C19W4.v: equal to the guard over the generated helpers) *)
Definition guard_from_aggregator_hand (s : vec) (subs : list vec) (nvals : Z) : res unit :=
  let p := zlen subs in let k := zlen (hd [] subs) in let N := ndim s in
  if p * k =? 0 then chk (all_pos s)
  else chk (forallb (forallb (fun x => 0 <=? x)) subs) ;;
       (if 1 <? p * k then chk (nvals =? p) else Ok tt) ;;
       chk (all_pos s) ;; chk (k <=? N) ;;
       chk_all (fun j => chk (j <? k) ;; chk (forallb (fun row => znth 0 row j <? sz s j) subs)) (np_arange 0 N) ;;
       chk (nvals =? p).


(* gcp_opt(data, rank, objective, optimizer, init): the initial guess first — a LIST of matrices is turned into a Kruskal
   tensor (the constructor compares the column counts) and then treated like one (C19-N19 repaired); a Kruskal tensor is
   compared with the shape of the data and the rank; "random" draws (shape[n], rank) matrices (numpy refuses a negative size;
   with rank 0 the scaling by data.norm() / M0.norm() divides by zero, and a Kruskal guess without components cannot be
   normalised); any other value is refused.  Then the optimizer's type. *)
Definition guard_gcp_opt (s : vec) (rank : Z) (init : initk) (opt_ok : bool) : res unit :=
  match init with
  | InitList ms => guard_ktensor_ctor ms None ;;
                   chk (shape_eqb (map rows ms) s && (cols (shp2_d ms 0) =? rank)) ;; chk (0 <? rank)
  | InitK ks R => chk (shape_eqb ks s && (R =? rank)) ;; chk (0 <? rank)
  | InitRandom => chk (0 <? rank)
  | InitNvecs | InitBogus => Err
  end ;;
  chk opt_ok.

(* ======================================================================================== *)
(* wave 4                                                                                     *)
(* ======================================================================================== *)
(* sptensor.innerprod(other) with other a Kruskal or Tucker tensor (C19-N21 repaired, 76fa98e): "isinstance(other, (ktensor, ttensor))
   and self.shape != other.shape" sits in front of the "all entries are zero" early return like the tests for sparse and dense
   operands; a receiver without entries then answers 0; a receiver with entries hands the call to other.innerprod(self), which
   compares "self.shape != other.shape" once more with the operands swapped *)
Definition guard_sptensor_innerprod_kt (s : vec) (empty : bool) (u : vec) : res unit :=
  guard_same_shape s u ;; if empty then Ok tt else guard_same_shape u s.

(* sptensor.contract(i1, i2) (C19-N22 repaired, db95721: "0 <= i_0 < ndims and 0 <= i_1 < ndims" first, as the dense method has it
   since d384651): range, equal sizes, different modes; nothing later rejects *)
Definition guard_sptensor_contract (s : vec) (i1 i2 : Z) : res unit :=
  let N := ndim s in
  chk (in_range N i1 && in_range N i2) ;; chk (sz s i1 =? sz s i2) ;; chk (negb (i1 =? i2)).

(* sptensor.nvecs(n, r) (C19-N23 repaired, 453f75b): "not 0 <= n < self.ndims" first *)
Definition guard_sptensor_nvecs (s : vec) (n : Z) : res unit := guard_mode s n.

(* sptensor.scale(factor, dims), factor a dense or sparse tensor: the generated tt_dimscheck, then (C19-N24 repaired, d89c921) a
   receiver that stores no entry compares "np.array_equal(factor.shape, np.array(self.shape)[dims])" before it returns its copy;
   a receiver with entries makes the same comparison in the branch of the factor's class *)
Definition guard_sptensor_scale (s : vec) (empty : bool) (f d : vec) : res unit :=
  match tt_dimscheck (ndim s) None (Some d) None with
  | Err => Err
  | Ok (sd, _) => if empty then chk (shape_eqb f (pickz s sd)) ;; Ok tt else chk (shape_eqb f (pickz s sd))
  end.
Definition pre_sptensor_scale (s : vec) (empty : bool) (f d : vec) : bool := pre_scale s f d.

(* K.update(modes, data) (in place): modes strictly ascending, each one -1 (the weights) or a mode of the tensor, and data long enough
   for the blocks that are asked for (R entries for the weights, shape[k] * R for factor k; surplus data only raises a warning,
   which upstream tests pin).  Guard = the code (C19-N25 repaired, b9311d6): the sortedness test "np.all(modes[:-1] < modes[1:])",
   then a validation loop over the modes that adds up `needed` and stops at the first invalid mode, then "len(data) < needed" — all
   before the first in-place assignment; the update loop that follows repeats the tests per block and can no longer fail
   (Proofs/C19W5K.v: proved over the method as generated from ktensor.py) *)
Definition upd_need (s : vec) (R : Z) (k : Z) : Z := if k =? -1 then R else sz s k * R.
Definition zsum (l : vec) : Z := fold_right Z.add 0 l.
Fixpoint strict_asc (l : vec) : bool :=
  match l with
  | x :: r => match r with y :: _ => (x <? y) && strict_asc r | [] => true end
  | [] => true
  end.
Definition upd_mode_ok (N k : Z) : bool := (k =? -1) || in_range N k.
Definition pre_ktensor_update (s : vec) (R : Z) (modes : vec) (dlen : Z) : bool :=
  strict_asc modes && forallb (upd_mode_ok (ndim s)) modes && (zsum (map (upd_need s R) modes) <=? dlen).
Fixpoint upd_validate (s : vec) (R : Z) (modes : vec) (needed : Z) : res Z :=
  match modes with
  | [] => Ok needed
  | k :: r => if k =? -1 then upd_validate s R r (needed + R)
              else if (0 <=? k) && (k <? ndim s) then upd_validate s R r (needed + sz s k * R)
              else Err
  end.
Definition guard_ktensor_update (s : vec) (R : Z) (modes : vec) (dlen : Z) : res unit :=
  chk (forallb (fun p => fst p <? snd p) (combine modes (tl modes))) ;;
  match upd_validate s R modes 0 with
  | Err => Err
  | Ok needed => chk (negb (dlen <? needed))
  end.

(* X.mask(W) (tensor, sptensor, ktensor): "Mask cannot be bigger than the data tensor" — W has the order of X and no mode of W is
   longer than the mode of X.  The code: "len(W.shape) != len(self.shape) or np.any(np.array(W.shape) > np.array(self.shape))"
   (all three classes; tensor.mask since C19-N26 was repaired, 553ad5e) *)
Definition pre_mask (s w : vec) : bool := (zlen w =? zlen s) && forallb (fun p => fst p <=? snd p) (combine w s).
Definition guard_mask (s w : vec) : res unit :=
  if negb (zlen w =? zlen s) || existsb (fun p => fst p >? snd p) (combine w s) then Err else Ok tt.

(* ======================================================================================== *)
(* wave 5                                                                                     *)
(* ======================================================================================== *)
(* sptensor.scale(factor, dims) with a numpy VECTOR of length flen as factor: one mode, and the vector has that mode's length.
   The code: the generated tt_dimscheck; "if self.nnz == 0:" compares factor.shape with tuple(shape[dims]) (C19-N27 repaired,
   98f7017: for a 1-d vector that is "one mode is listed and the vector has its length") and returns the copy; otherwise
   "if factor.shape[0] != shapeArray[dims]" — the truth value of a comparison vector, which numpy refuses unless it has exactly one
   entry (an empty mode list cannot come out of tt_dimscheck's callers here: the stream lists at least one mode) *)
Definition pre_sptensor_scale_arr (s : vec) (empty : bool) (flen : Z) (d : vec) : bool :=
  modes_ok (ndim s) d && match d with [m] => flen =? sz s m | _ => false end.
Definition guard_sptensor_scale_arr (s : vec) (empty : bool) (flen : Z) (d : vec) : res unit :=
  match tt_dimscheck (ndim s) None (Some d) None with
  | Err => Err
  | Ok (sd, _) => if empty then match sd with [m] => chk (flen =? sz s m) | _ => Err end
                  else match sd with [m] => chk (flen =? sz s m) | _ => Err end
  end.

(* tensor.ttsv(vector, skip_dim) with the default algorithm (version 2; source comment "Sizes of all modes must be the same"):
   "skip_dim < 0", then (C19-N28 repaired, 0478ea5) "any(n != sz for n in self.shape) or skip_dim >= d" with sz = shape[0],
   skip_dim = dnew - 1.  dnew = skip_dim + 1 modes are kept, drem = ndims - dnew are multiplied: for i = drem .. 1 the data is
   reshaped to (sz ** (dnew + i - 1), sz) (numpy: the element count must be sz ** ndims at the first step, after which it stays a
   power of sz) and multiplied by the vector (numpy: length sz); with nothing to multiply the result is reshaped to dnew modes of
   size sz when dnew >= 2 (numpy: element count sz ** dnew) *)
Definition ttsv_dnew (skip : option Z) : Z := match skip with None => 0 | Some k => k + 1 end.
Definition cubical (s : vec) : bool := forallb (fun x => x =? sz s 0) s.
Definition pre_ttsv (s : vec) (vlen : Z) (skip : option Z) : bool :=
  match skip with Some k => in_range (ndim s) k | None => true end && cubical s
  && ((ndim s - ttsv_dnew skip =? 0) || (vlen =? sz s 0)).
Definition guard_ttsv (s : vec) (vlen : Z) (skip : option Z) : res unit :=
  chk (match skip with Some k => 0 <=? k | None => true end) ;;
  let d := ndim s in let n0 := sz s 0 in let dnew := ttsv_dnew skip in
  (if negb (cubical s) || (d <=? dnew - 1) then Err else Ok tt) ;;
  if 0 <? d - dnew then chk (zprod s =? n0 ^ d) ;; chk (n0 =? vlen)
  else if 2 <=? dnew then chk (zprod s =? n0 ^ dnew) else Ok tt.

(* ttensor.reconstruct(samples, modes), one sample array per listed mode: "len(samples) > 0 and len(samples) != len(modes)" is the
   only test written in /repo HEAD; then "full_samples[mode] = sample" on a Python list of ndims entries (IndexError outside
   [-ndims, ndims); a negative mode wraps around, a repeated mode overwrites: C19-N29, open on HEAD); the samples of the stream
   (row 0) are valid everywhere.  guard_reconstruct = the method of /repo HEAD; guard_reconstruct_fixed = the method with
   fixes/C19-N29.diff (9d2314a, pending): "any(not 0 <= mode < self.ndims ...) or len(set(mode_list)) != len(mode_list)" between the
   count test and the assignments.  The correspondence runs the guard of the tree the finding's status stands for (c19_ops: FIXED) *)
Definition pre_reconstruct (s modes : vec) (nsamp : Z) : bool := modes_ok (ndim s) modes && (nsamp =? zlen modes).
Definition guard_reconstruct (s modes : vec) (nsamp : Z) : res unit :=
  chk (nsamp =? zlen modes) ;;
  chk (forallb (fun m => (- ndim s <=? m) && (m <? ndim s)) modes).
Definition guard_reconstruct_fixed (s modes : vec) (nsamp : Z) : res unit :=
  chk (nsamp =? zlen modes) ;;
  (if existsb (fun m => negb (in_range (ndim s) m)) modes || negb (nodupb modes) then Err else Ok tt) ;;
  chk (forallb (fun m => (- ndim s <=? m) && (m <? ndim s)) modes).

(* ktensor.score(other, threshold): "self.shape == other.shape", "0.0 <= threshold <= 1.0" (thr_ok: the descriptor says whether the
   threshold handed over lies in [0, 1]; None stands for 0.99 ** ndims), "RA < RB" — in this order, before anything is computed *)
Definition pre_score (s u : vec) (ra rb : Z) (thr_ok : bool) : bool := shape_eqb s u && (rb <=? ra) && thr_ok.
Definition guard_score (s u : vec) (ra rb : Z) (thr_ok : bool) : res unit :=
  chk (shape_eqb s u) ;; chk thr_ok ;; chk (negb (ra <? rb)).

(* sptensor.subdims(region) with k keys (each a valid list): "len(region) != self.ndims" *)
Definition pre_subdims (s : vec) (k : Z) : bool := k =? ndim s.
Definition guard_subdims (s : vec) (k : Z) : res unit := if negb (k =? ndim s) then Err else Ok tt.

(* ktensor.from_vector(data, shape, contains_weights) with n = len(data): "len(data) / (sum(shape) [+ 1])" (ZeroDivisionError), then
   "round(num_components) != num_components"; the blocks that are cut out afterwards fit by construction *)
Definition pre_from_vector (n : Z) (shape : vec) (cw : bool) : bool :=
  let d := zsum shape + (if cw then 1 else 0) in negb (d =? 0) && (n mod d =? 0).
Definition guard_from_vector (n : Z) (shape : vec) (cw : bool) : res unit :=
  let d := zsum shape + (if cw then 1 else 0) in
  (if d =? 0 then Err else Ok tt) ;; (if negb (n mod d =? 0) then Err else Ok tt).
