(* Proofs/C11Replay.v —
   (1) mu_bookkeeping: the KKT bookkeeping of the MU loop, a COROLLARY of mu_nonneg (Proofs/C11Proofs.v) — kept as a separate
       statement because the property text lists it separately; it adds nothing beyond mu_nonneg.
   (2) rows_replay_nonneg: the Qc instance of the PDNR/PQNR state machine with TABLE oracles (Model/C11Replay.v, the instance the
       correspondence check runs side by side with pyttb) satisfies the sign contracts of rows_nonneg / rows_inner_bound: for EVERY
       pair of tables (whatever was recorded), every data tensor, every non-negative guess, the replayed result has non-negative
       weights and factors, one non-negative KKT entry and one inner count per outer iteration, at most maxiters, and bounded counts. *)
From Coq Require Import List Arith Lia Bool ZArith QArith Qabs Qcanon.
From PV Require Import Base.Index Base.Sum Np.Array Model.Sparse Model.Repr Model.Harness Model.C14Nvecs Model.C11Apr Model.C11Rows
                       Model.C11Check Model.C11Replay Proofs.C11Proofs Proofs.C11RowsProofs.
Import ListNotations.

Section Bookkeeping.
Variable V : Type.
Variables (v0 v1 : V) (vadd vmul vsub : V -> V -> V).
Variable vle : V -> V -> Prop.
Hypothesis le_refl : vle v0 v0.
Hypothesis le_0_1 : vle v0 v1.
Hypothesis add_nonneg : forall a b, vle v0 a -> vle v0 b -> vle v0 (vadd a b).
Hypothesis mul_nonneg : forall a b, vle v0 a -> vle v0 b -> vle v0 (vmul a b).
Variables (vdivmax vscale : V -> V -> V) (vabs : V -> V) (vmin vmax : V -> V -> V) (vgt0 : V -> bool) (vltb : V -> V -> bool).
Hypothesis divmax_nonneg : forall x v, vle v0 x -> vle v0 v -> vle v0 (vdivmax x v).
Hypothesis scale_nonneg : forall t a, vle v0 t -> vle v0 a -> vle v0 (vscale t a).
Hypothesis abs_nonneg : forall x, vle v0 (vabs x).
Hypothesis max_nonneg : forall a b, vle v0 a -> vle v0 b -> vle v0 (vmax a b).
Variables (kappa kappatol stoptol : V).
Hypothesis kappa_nonneg : vle v0 kappa.
Variable maxinner : nat.

Lemma mu_bookkeeping : forall (X : dense V) (K : ktensor V) (maxiters : nat),
  (forall i, vle v0 (den_dense v0 X i)) ->
  Forall (vle v0) (kweights K) -> Forall (Forall (Forall (vle v0))) (kfactors K) ->
  let kkts := snd (cp_apr_mu v0 v1 vadd vmul vsub vdivmax vscale vabs vmin vmax vgt0 vltb kappa kappatol stoptol maxinner X K maxiters) in
  Forall (vle v0) kkts /\ (length kkts <= maxiters)%nat /\ (1 <= maxiters -> 1 <= length kkts)%nat.
Proof.
  intros X K maxiters HX Hw HA.
  destruct (mu_nonneg V v0 v1 vadd vmul vsub (vle v0) le_refl le_0_1 add_nonneg mul_nonneg vdivmax vscale vabs vmin vmax vgt0 vltb
           divmax_nonneg scale_nonneg abs_nonneg max_nonneg kappa kappatol stoptol kappa_nonneg maxinner X K maxiters HX Hw HA)
    as (_ & _ & _ & H1 & H2 & H3 & _).
  exact (conj H1 (conj H2 H3)).
Qed.
End Bookkeeping.

(* ---- sign contracts of the Qc instance *)
Local Open Scope Qc_scope.
Definition qnn (x : Qc) : Prop := q0 <= x.

Lemma qnn0 : qnn q0. Proof. apply Qcle_refl. Qed.
Lemma qnn1 : qnn q1. Proof. unfold qnn, Qcle. simpl. discriminate. Qed.
Lemma qnn_add a b : qnn a -> qnn b -> qnn (a + b).
Proof.
  unfold qnn. intros Ha Hb. replace q0 with (q0 + q0) by (apply Qc_is_canon; reflexivity).
  apply Qcplus_le_compat; assumption.
Qed.
Lemma qnn_mul a b : qnn a -> qnn b -> qnn (a * b).
Proof.
  unfold qnn. intros Ha Hb. replace q0 with (q0 * b) by (unfold q0; ring).
  apply Qcmult_le_compat_r; assumption.
Qed.
Lemma qnn_inv t : qnn t -> qnn (/ t).
Proof.
  unfold qnn, Qcle, Qcinv. simpl. intros H. rewrite Qred_correct. apply Qinv_le_0_compat. exact H.
Qed.
Lemma qnn_scale t a : qnn t -> qnn a -> qnn (qscale1 t a).
Proof.
  intros Ht Ha. unfold qscale1. destruct (qlt q0 t); [|exact Ha].
  unfold Qcdiv. apply qnn_mul; [exact Ha|apply qnn_inv; exact Ht].
Qed.
Lemma qnn_abs x : qnn (qabs x).
Proof. unfold qnn, qabs, Qcle. simpl. rewrite Qred_correct. apply Qabs_nonneg. Qed.
Lemma qnn_max a b : qnn a -> qnn b -> qnn (qmax a b).
Proof. intros Ha Hb. unfold qmax. destruct (qleb a b); assumption. Qed.
Lemma qnn_gt0 x : qlt q0 x = true -> qnn x.
Proof.
  unfold qlt, qleb, qnn, Qcle. intros H. apply negb_true_iff in H.
  destruct (Qlt_le_dec (this q0) (this x)) as [Hl | Hl]; [apply Qlt_le_weak; exact Hl|].
  apply Qle_bool_iff in Hl. rewrite Hl in H. discriminate.
Qed.

Theorem rows_replay_nonneg (stoptol tiny : Qc) (maxinner : nat) (inexact prestep : bool)
    (gtab : list (key * list Qc)) (stab : list (key * stepent)) (X : dense Qc) (K : ktensor Qc) (maxiters : nat) :
  qnn tiny -> Forall qnn (kweights K) -> Forall (Forall (Forall qnn)) (kfactors K) ->
  match rows_replay stoptol tiny maxinner inexact prestep gtab stab X K maxiters with
  | (st, kkts, inners) =>
      Forall qnn (sw st) /\ Forall (Forall (Forall qnn)) (sA st) /\
      Forall qnn kkts /\ (length kkts <= maxiters)%nat /\ (1 <= maxiters -> 1 <= length kkts)%nat /\ length inners = length kkts /\
      (length kkts < maxiters -> sconv st = true)%nat /\
      Forall (fun c => c <= list_sum (kshape K) * Nat.pred (Nat.max maxinner 2))%nat inners
  end.
Proof.
  intros Ht Hw HA. unfold rows_replay.
  pose proof (rows_nonneg Qc q0 q1 Qcplus Qcmult qnn qnn0 qnn1 qnn_add qnn_mul qscale1 qabs qmin qmax (qlt q0) qlt qleb qisz qdiv100
                qnn_scale qnn_abs qnn_max qnn_gt0 stoptol tiny Ht maxinner inexact prestep
                (t_grad gtab) (t_dir stab) (t_phi stab) (t_alpha stab) (t_fb stab) X K maxiters Hw HA) as H1.
  pose proof (rows_inner_bound Qc q0 q1 Qcplus Qcmult qnn qnn0 qnn1 qnn_add qnn_mul qscale1 qabs qmin qmax (qlt q0) qlt qleb qisz qdiv100
                qnn_scale qnn_abs qnn_max qnn_gt0 stoptol tiny Ht maxinner inexact prestep
                (t_grad gtab) (t_dir stab) (t_phi stab) (t_alpha stab) (t_fb stab) X K maxiters Hw HA) as H2.
  destruct (cp_apr_rows q0 q1 Qcplus Qcmult qscale1 qabs qmin qmax (qlt q0) qlt qleb qisz qdiv100 stoptol tiny maxinner inexact prestep
              (t_grad gtab) (t_dir stab) (t_phi stab) (t_alpha stab) (t_fb stab) X K maxiters) as [[st kkts] inners].
  destruct H1 as (A & B & C & D & E & F & G). repeat split; auto.
Qed.

(* non-vacuity: a PDNR replay on a 2 x 2 count tensor with two recorded inner iterations in row (0,0,0) *)
Example rows_replay_ex :
  let X := mkDense [2; 2]%nat [q1; q0; q1 + q1; q1] in
  let K := mkK [q1] [[[q1]; [q1]]; [[q1]; [q1 + q1 + q1]]] in
  let gtab := [((0, 0, 0, 0)%nat, [Q2Qc (-1 # 2)]); ((0, 0, 0, 1)%nat, [Q2Qc (1 # 100000)])] in
  let stab := [((0, 0, 0, 0)%nat, mkSE false [Q2Qc (3 # 1)] (Q2Qc (1 # 2)) [q1])] in
  match rows_replay (Q2Qc (1 # 10000)) (Q2Qc (1 # 100000000)) 3%nat false false gtab stab X K 1%nat with
  | (st, kkts, inners) =>
      (map this (sw st), map (map (map this)) (sA st), map this kkts, inners) =
      ([19 # 2], [[[11 # 19]; [8 # 19]]; [[1 # 4]; [3 # 4]]], [1 # 2], [1%nat])%Q
  end.
Proof. vm_compute. reflexivity. Qed.
