(* Props/C19W5K.v — C19 over the whole GENERATED method ktensor.update(modes, data) (Gen/GenKtensor4.v, regenerated from
   pyttb/ktensor.py on every run; two passes since b9311d6 = C19-N25 repaired): for EVERY Kruskal record, mode list and data vector
   the generated method raises exactly when guard_ktensor_update rejects, i.e. exactly when the precondition fails (modes strictly
   ascending, each -1 or a mode of the tensor, data long enough for the blocks asked for); once the validation pass has accepted,
   the assigning pass cannot raise, so a rejected request is rejected before the first assignment (the receiver of a rejected call
   is unchanged).  Only statements, `exact`, Print Assumptions. *)
From Coq Require Import List ZArith Bool.
From PV Require Import Np.NpZ Np.NpZ3 Np.NpZ3e Np.NpZ4 Gen.GenKtensor4 Gen.GenKtensor4b Model.W4KtensorVec Model.C19Guards Proofs.C19W5K.
Import ListNotations.
Local Open Scope Z_scope.

Theorem C19_ktensor_update_gen : forall (k : ktz) (modes data : vec),
  okres (ktensor_update k modes data) = guard_ktensor_update (kt_shape k) (kt_ncomponents k) modes (zlen data) /\
  okres (ktensor_update k modes data) = decide (pre_ktensor_update (kt_shape k) (kt_ncomponents k) modes (zlen data)).
Proof. exact update_gen_guard. Qed.
Print Assumptions C19_ktensor_update_gen.

Theorem C19_ktensor_update_second_pass_total : forall (k : ktz) (modes data : vec) (n : Z),
  H_needed k modes 0 = Ok n -> n <= zlen data -> exists st, H_update_loop data modes (k, 0) = Ok st.
Proof. exact update_second_pass_total. Qed.
Print Assumptions C19_ktensor_update_second_pass_total.

Theorem C19_ktensor_update_rejected_early : forall (k : ktz) (modes data : vec),
  ktensor_update k modes data = Err ->
  asc modes = false \/ H_needed k modes 0 = Err \/ exists n, H_needed k modes 0 = Ok n /\ zlen data < n.
Proof. exact update_rejected_before_first_assignment. Qed.
Print Assumptions C19_ktensor_update_rejected_early.

(* non-vacuity: a 2 x 3 Kruskal tensor with two components; the witness of C19-N25 (modes [0; 5]) is refused and so are a wrapped
   mode, a repeated mode and data that is one entry short for the second block; the full update is answered *)
Definition c19_k23 : ktz := mkkt [1; 1] [[[1; 2]; [3; 4]]; [[5; 6]; [7; 8]; [9; 10]]].
Example C19_ktensor_update_gen_ex :
  okres (ktensor_update c19_k23 [-1; 0; 1] [1; 2; 3; 4; 5; 6; 7; 8; 9; 10; 11; 12]) = Ok tt /\
  ktensor_update c19_k23 [0; 5] [1; 2; 3; 4; 5; 6; 7; 8; 9; 10] = Err /\
  ktensor_update c19_k23 [-2] [1; 2; 3; 4] = Err /\ ktensor_update c19_k23 [0; 0] [1; 2; 3; 4; 5; 6; 7; 8] = Err /\
  ktensor_update c19_k23 [0; 1] [1; 2; 3; 4; 5; 6; 7; 8; 9] = Err /\
  ktensor_update c19_k23 [1] [1; 2; 3; 4; 5; 6] = Ok (mkkt [1; 1] [[[1; 2]; [3; 4]]; [[1; 4]; [2; 5]; [3; 6]]]).
Proof. repeat split; reflexivity. Qed.

(* the classmethod ktensor.from_vector as generated (Gen/GenKtensor4b.v): whatever the guard model rejects the generated method
   rejects, and a request it answers had the precondition (len(data) a multiple of sum(shape) [+ 1]) *)
Theorem C19_from_vector_gen_rejects : forall (data shape : vec) (cw : bool),
  guard_from_vector (zlen data) shape cw = Err -> ktensor_from_vector tt data shape cw = Err.
Proof. exact from_vector_gen_rejects. Qed.
Print Assumptions C19_from_vector_gen_rejects.
Theorem C19_from_vector_gen_answered_pre : forall (data shape : vec) (cw : bool) (k : ktz),
  ktensor_from_vector tt data shape cw = Ok k -> pre_from_vector (zlen data) shape cw = true.
Proof. exact from_vector_gen_answered_pre. Qed.
Print Assumptions C19_from_vector_gen_answered_pre.
Example C19_from_vector_gen_ex :
  ktensor_from_vector tt [1; 2; 3; 4; 5] [2; 3] false = Ok (mkkt [1] [[[1]; [2]]; [[3]; [4]; [5]]]) /\
  ktensor_from_vector tt [1; 2; 3; 4; 5; 6] [2; 3] false = Err /\ ktensor_from_vector tt [1; 2; 3; 4; 5] [2; 3] true = Err.
Proof. repeat split; reflexivity. Qed.
