(* Model/C15Inst.v — Qc / Z instances of the symmetrisation spec and comparers for the generated cases of C15. *)
From Coq Require Import List ZArith QArith Qabs Qcanon Bool Arith.
From PV Require Import Base.Index Base.Perm Base.Sum Np.Array Model.Sparse Model.Repr Model.Harness Model.C15Sym.
Import ListNotations.

Definition q_sym (T : dense Qc) (G : list (list nat)) : idx -> Qc := spec_sym q0 q1 Qcplus Qcmult Qcinv (qden T) G.
(* pyttb's symmetrised tensor O is (within the float tolerance) the spec average of T *)
Definition q_sym_matches (T : dense Qc) (G : list (list nat)) (O : dense Qc) : bool :=
  qden_matches tol9 (dshape T) (q_sym T G) O.
Definition q_same (A B : dense Qc) : bool := qden_matches tol9 (dshape A) (qden A) B.
(* the spec result is exactly symmetric (evaluated, exact rationals) *)
Definition q_sym_result_symmetric (T : dense Qc) (G : list (list nat)) : bool :=
  spec_issym Qc_eq_bool (dshape T) (q_sym T G) G.
Definition z_issym (T : dense Z) (G : list (list nat)) : bool := spec_issym Z.eqb (dshape T) (zden T) G.
Definition z_mats_identical (fs : list (list (list Z))) : bool :=
  match fs with [] => true | A :: rest => forallb (mat_eqb A) rest end.
Definition q_mats_identical (fs : list (list (list Qc))) : bool :=
  match fs with [] => true | A :: rest => forallb (list_eqb (list_eqb Qc_eq_bool) A) rest end.

(* ---- wave 2: the transliterated implementation models (Model/C15Impl.v), executed group after group through a
        materialised array as pyttb does, and compared EXACTLY with the spec on every generated input ---- *)
From PV Require Import Model.C15Impl.
Definition q_issym (T : dense Qc) (G : list (list nat)) : bool := spec_issym Qc_eq_bool (dshape T) (qden T) G.
Definition q_sym_new_d (T : dense Qc) (G : list (list nat)) : dense Qc :=
  fold_left (fun T g => tabulate (dshape T) (sym_new_group q0 q1 Qcplus Qcmult Qcinv Qc_eq_bool (dshape T) (qden T) g)) G T.
Definition q_sym_old_d (T : dense Qc) (G : list (list nat)) : dense Qc :=
  let s := dshape T in let N := length s in
  fold_left (fun Y p => tabulate s (maxfix_step qmax (qden Y) p)) (sym_perms N G)
            (tabulate s (sym_old_avg q0 q1 Qcplus Qcmult Qcinv N (qden T) G)).
Definition q_dense_eqb (A B : dense Qc) : bool := nvec_eqb (dshape A) (dshape B) && list_eqb Qc_eq_bool (ddata A) (ddata B).
Definition q_impls_agree (T : dense Qc) (G : list (list nat)) : bool :=
  let S := tabulate (dshape T) (q_sym T G) in q_dense_eqb (q_sym_new_d T G) S && q_dense_eqb (q_sym_old_d T G) S.
Definition z_issym_impls_agree (T : dense Z) (G : list (list nat)) : bool :=
  let b := z_issym T G in
  Bool.eqb (impl_issym_new Z.eqb (dshape T) (zden T) G) b && Bool.eqb (impl_issym_old Z.eqb (dshape T) (zden T) G) b.
Definition q_issym_impls_agree (T : dense Qc) (G : list (list nat)) : bool :=
  let b := q_issym T G in
  Bool.eqb (impl_issym_new Qc_eq_bool (dshape T) (qden T) G) b && Bool.eqb (impl_issym_old Qc_eq_bool (dshape T) (qden T) G) b.
(* a Kruskal tensor is symmetric in all modes (its denoted array passes the spec test on the single group of all modes) *)
Definition q_k_symmetric (s : shape) (K : ktensor Qc) : bool := spec_issym Qc_eq_bool s (qden_k K) [seq 0 (length s)].

(* ---- wave 3: the body of ktensor.symmetrize (Model/C15K.v) over Qc with the exact test "x < 0" ---- *)
From PV Require Import Model.C15K.
Definition q_neg15 (x : Qc) : bool := negb (qleb q0 x).
Definition q_k15_core (K1 : ktensor Qc) : ktensor Qc := k15_core q0 q1 Qcplus Qcmult Qcopp Qcinv q_neg15 K1.
(* pyttb's symmetrised Kruskal tensor O is (weights and factors, within the float tolerance) the model applied to
   the OBSERVED result K1 of pyttb's own normalize("all") on a copy of the input *)
Definition q_k15_matches (K1 O : ktensor Qc) : bool :=
  let M := q_k15_core K1 in
  qvec_close tol9 (kweights O) (kweights M) && list_eqb (list_eqb (qvec_close tol9)) (kfactors O) (kfactors M).
(* the hypothesis of theorem C15_ksym_keeps on the observed normalised tensor: every factor is, column by column, factor 0 up
   to a sign *)
Definition q_k15_signed_copies (K1 : ktensor Qc) : bool :=
  match kfactors K1 with
  | [] => false
  | A0 :: _ => forallb (signed_copyb q0 q1 Qcmult Qcopp (fun a b => qclose tol9 a b) A0 (nrows A0) (krank K1)) (kfactors K1)
  end.
