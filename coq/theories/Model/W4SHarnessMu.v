(* Model/W4SHarnessMu.v — REPLAY instantiation of the generated control-flow skeleton Gen/GenCpAprMu.v: the Section
   parameters (numeric kernels) are look-ups in the oracle answers RECORDED from a real pyttb run; models are tokens (counters).
   Used by the differential stream tools/props/w4s.py (vm_compute) + one concrete run (non-vacuity). *)
From Coq Require Import String List Arith Bool ZArith.
From PV Require Import Model.W4SPrelude Gen.GenCpAprMu Model.W4SHarnessBase.
Import ListNotations.
Local Open Scope nat_scope.

(* ------------------------------------------------------------------------------------------------ cp_apr multiplicative update *)
(* world = number of calculate_phi calls so far, Phi[n] token = that counter: the k-th recorded KKT value of a mode subproblem
   (k = 1, 2, ...) is computed on the Phi with token k; the clock stands still (no time-limit exit); no kappa adjustments *)
Definition zsk_mu (kkts : list Z) (N maxiters maxinner : nat) (stoptol : Z) :=
  GenCpAprMu.cp_apr_mu nat Z nat unit nat unit unit Z.leb 0%Z (-1)%Z Z.sub
    (fun m _ => m) (fun _ _ => 0) (fun w => (w, 0%Z)) (fun _ _ _ _ => tt) (fun _ => false) (fun m _ _ _ => m) (fun m _ => S m)
    (fun _ _ _ _ _ => tt) (fun w _ _ _ _ _ _ => (S w, S w)) (fun _ n Phi => nth (nth n Phi 0 - 1) kkts 0%Z) (fun m _ _ => S m) (fun m _ _ => m)
    (fun l => fold_right Z.max 0%Z l) (fun m _ _ => m) (fun _ _ => 0%Z)
    0 tt 1 0 stoptol 1%Z maxiters maxinner 0%Z 0 0 0%Z 0%Z N.

Definition zsk_mu_ok (kkts : list Z) (N maxiters maxinner : nat) (stoptol : Z) (kkt_obs : list Z) (ninner_obs : list nat) (ntotal_obs ntimes_obs : nat) : bool :=
  match zsk_mu kkts N maxiters maxinner stoptol with
  | None => false
  | Some (_, (kkt, ninner, nviol, ntotal, times, _, _), _) =>
      list_eqb Z.eqb kkt kkt_obs && list_eqb Nat.eqb ninner ninner_obs && (ntotal =? ntotal_obs) && (length times =? ntimes_obs) &&
      list_eqb Nat.eqb nviol (repeat 0 (length kkt_obs))
  end.

(* non-vacuity: a concrete run of the generated function (the hypothesis `... = Some r` of the theorems is satisfiable) *)
Example zsk_mu_example :             (* two outer iterations: (2 + 2) and (1 + 1) inner iterations, exit because all subproblems converged *)
  zsk_mu [7; 0; 9; 3; 0; 0; 0]%Z 2 5 2 1%Z = Some (7, ([3; 0]%Z, [4; 2], [0; 0], 6, [0; 0]%Z, 0%Z, 0%Z), 6).
Proof. vm_compute. reflexivity. Qed.
