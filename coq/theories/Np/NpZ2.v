(* Np/NpZ2.v — second batch of "numpy / Python in Gallina" primitives over Z, targets of the translator
   (tools/pyx2v.py) for statement-level loops, the Khatri-Rao reshape idiom, gather_wrap_dims and tt_union_rows.
   Definitions only (characterising lemmas live in Proofs/Gen*.v).  Np/NpZ.v stays frozen; this file extends it. *)
From Coq Require Import List ZArith Bool Lia.
From PV Require Import Np.NpZ.
Import ListNotations.
Local Open Scope Z_scope.

(* ---- guards: the conditions under which Python raises while evaluating an expression ---- *)

(* l[k] for a Python int k does not raise IndexError *)
Definition idx_ok {A} (l : list A) (k : Z) : bool := (- zlen l <=? k) && (k <? zlen l).

(* ---- loops ---- *)

(* enumerate(l, k) *)
Fixpoint np_enumerate {A} (k : Z) (l : list A) : list (Z * A) :=
  match l with
  | [] => []
  | x :: l' => (k, x) :: np_enumerate (k + 1) l'
  end.

(* for x in l: body      with loop-carried state s; the body returns (stop?, new state): `break` = stop with the
   current state, falling off the end of the body = continue; an exception in the body = Err.
   (Equivalent to a left fold carrying a `stopped` flag: lemma np_for_fold in Proofs/GenKernelsProofs.v.) *)
Fixpoint np_for {X S} (l : list X) (body : X -> S -> res (bool * S)) (s : S) : res S :=
  match l with
  | [] => Ok s
  | x :: l' => bind (body x s) (fun r => if fst r then Ok (snd r) else np_for l' body (snd r))
  end.

(* ---- matrices as row lists ---- *)

(* m.shape[1] of a 2-d array with at least one row (a 0 x R array is not representable as a row list) *)
Definition np_ncols (m : mat) : Z := match m with [] => 0 | r :: _ => zlen r end.

Fixpoint zmap2 (f : Z -> Z -> Z) (l1 l2 : vec) : vec :=
  match l1, l2 with
  | x :: l1', y :: l2' => f x y :: zmap2 f l1' l2'
  | _, _ => []
  end.

(* np.reshape(M, (-1, 1, R)) * np.reshape(P, (1, -1, R), order="F"): entry [a, b, r] = M[a, r] * P[b, r]; read as a
   row list in F order over the two leading axes the row a + rows(M) * b is M[a, :] .* P[b, :]
   (same definition as kr_step of Proofs/KhatriRao.v, over Z) *)
Definition np_kr_step (P M : mat) : mat :=
  flat_map (fun prow => map (fun mrow => zmap2 Z.mul mrow prow) M) P.

(* np.reshape(P, (..., R)) where the last axis of P already has length R: numpy raises when R = 0 (the -1 cannot be
   inferred); the model covers only the case "rows already have length R" — anything else is Err (outside the model) *)
Definition np_reshape_ok (m : mat) (r : Z) : bool := negb (r =? 0) && forallb (fun row => zlen row =? r) m.
(* np.reshape(P, (-1, R), order="F") under np_reshape_ok: the rows in F order of the leading axes, i.e. unchanged *)
Definition np_reshape_rows (m : mat) (r : Z) : mat := m.

(* ---- ranges ---- *)

(* list(range(a, b, -1)) = a, a-1, ..., b+1 *)
Definition np_arange_down (a b : Z) : vec := map (fun k => a - Z.of_nat k) (seq 0 (Z.to_nat (a - b))).

(* ---- string-valued option of gather_wrap_dims: cdims_cyclic in {"fc", "bc", "t"} or any other string ---- *)
Inductive cyclic := CycFC | CycBC | CycT | CycOther.
Definition cyc_is (o : option cyclic) (c : cyclic) : bool :=
  match o, c with
  | Some CycFC, CycFC | Some CycBC, CycBC | Some CycT, CycT => true
  | _, _ => false
  end.

(* ---- tt_union_rows ---- *)

(* np.where(mask) used as an index: the positions of the True entries, increasing *)
Fixpoint where_from (k : Z) (m : bvec) : vec :=
  match m with
  | [] => []
  | b :: m' => if b then k :: where_from (k + 1) m' else where_from (k + 1) m'
  end.
Definition np_where1 (m : bvec) : vec := where_from 0 m.

(* np.vstack((A, B)) of two 2-d arrays (row lists) with the same number of columns; numpy raises otherwise *)
Definition np_vstack_ok (a b : mat) : bool :=
  match a, b with
  | ra :: _, rb :: _ => zlen ra =? zlen rb
  | _, _ => true
  end.
Definition np_vstack (a b : mat) : mat := a ++ b.

(* np.empty(shape=m.shape): an uninitialised array of m's shape; modelled with zeros — callers never read it
   (tt_union_rows only takes zero rows of it); only its shape matters *)
Definition np_empty_like (m : mat) : mat := map (map (fun _ : Z => 0)) m.
